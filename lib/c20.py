"""C20 — a failed disk operation is reported and leaves the store consistent."""
from common import Report, Rng, coq_check_props, harness_build, log
import respgen as G
import storelib as S
import tracelib as T

PROFILE = {"weights": {"set": 10, "del": 3, "merge": 3},
           "cfg": lambda r: {"mfs": r.choice([0, 60, 100, 200, 30000]), "sync": r.chance(1, 2),
                             "frag": r.choice([(0, 1), (1, 2)]), "dead": r.choice([0, 30]), "small": r.choice([0, 10 ** 9])}}


def corpus():
    cfg = {"mfs": 60, "cache": 256, "conc": 1, "frag": (0, 1), "dead": 0, "small": 10 ** 9, "sync": False}
    return [
        # rollovers on every second set (D10a), a merge that rolls over and unlinks the active file (D10c)
        S.Case("corpus-rollovers", dict(cfg), [("set", b"k%d" % i, b"v" * 20) for i in range(6)]),
        S.Case("corpus-merge", dict(cfg), [("set", b"a", b"1" * 20), ("set", b"b", b"2" * 20), ("set", b"a", b"3" * 20), ("del", b"b"),
                                           ("set", b"c", b"4" * 20), ("merge",), ("set", b"d", b"5"), ("set", b"e", b"6" * 40),
                                           ("set", b"f", b"7")]),
        # an entry above the write buffer: header and payload are separate writes (D10b; seed C20-A shape after reopen)
        S.Case("corpus-big-first", {"mfs": 2 ** 31, "cache": 256, "conc": 1, "frag": (1, 1), "dead": 10 ** 9, "small": 0, "sync": False},
               [("set", b"a", b"1"), ("reopen",), ("set", b"big", b"B" * 20000), ("set", b"b", b"2"), ("set", b"c", b"3")]),
        # value in file i, tombstone in a later file j, both merged; an unlink fails (seed C20-B shape)
        # an unlink fails in a first merge; a second merge and a restart follow (the file that could not be removed must be taken again,
        # otherwise the tombstones shadowing it are merged away: fixed defect e043e9c)
        S.Case("corpus-unlink-then-merge", {"mfs": 0, "cache": 0, "conc": 1, "frag": (0, 1), "dead": 0, "small": 0, "sync": False},
               [("set", b"k", b"v"), ("del", b"other"), ("del", b"k"), ("merge",), ("merge",), ("set", b"z", b"w"), ("merge",)]),
        # sync=always: the fsync behind the first record of a fresh active file fails, a merge replaces that file, the key is deleted,
        # the tombstone is merged away (fixed defect 6ff1d59: the file had no statistics row and was never selected again)
        S.Case("corpus-fsync-rowless", {"mfs": 2 ** 31, "cache": 256, "conc": 1, "frag": (0, 1), "dead": 0, "small": 0, "sync": True},
               [("set", b"a", b"1"), ("merge",), ("set", b"k", b"v"), ("merge",), ("del", b"k"), ("merge",)]),
        S.Case("corpus-fsync-rowless-del", {"mfs": 2 ** 31, "cache": 256, "conc": 1, "frag": (0, 1), "dead": 0, "small": 0, "sync": True},
               [("set", b"k", b"v"), ("merge",), ("del", b"k"), ("merge",), ("set", b"k", b"w"), ("del", b"x"), ("merge",)]),
        # a key above the write buffer: its hint entry takes two writes; the second fails inside a merge, a later merge removes the
        # inputs (fixed defect 97ca669: the index entry was moved to the merge file before its hint entry was written)
        S.Case("corpus-merge-bigkey-hint", {"mfs": 2 ** 31, "cache": 256, "conc": 1, "frag": (0, 1), "dead": 0, "small": 0, "sync": False},
               [("set", b"K" * 9000, b"v"), ("set", b"a", b"1"), ("set", b"a", b"2"), ("merge",), ("merge",)]),
        S.Case("corpus-unlink", {"mfs": 0, "cache": 256, "conc": 1, "frag": (0, 1), "dead": 0, "small": 10 ** 9, "sync": False},
               [("set", b"k", b"v"), ("del", b"k"), ("set", b"x", b"y"), ("merge",), ("set", b"z", b"w")]),
    ]


def fault_cases(base, rng, max_pos):
    """for a fault-free recorded case: one case per fault position"""
    out = []
    keys = []
    for o in base.ops:
        if o[0] in ("set", "del") and o[1] not in keys:
            keys.append(o[1])
    total = sum(n for i, n in base.trace["raw"].items() if i >= 0)
    positions = list(range(1, total + 1))
    if len(positions) > max_pos:
        positions = sorted(rng.shuffle(positions)[:max_pos])
    # (dump and cat are for the model tie of the failed-append cases: index, counters and file bytes in the running process)
    # ... and a second life: one more acknowledged set after the restart must survive one more restart (seed C20-J: a stray hint
    # file left by a failed create, whose id the next session's active file takes, only shows then)
    tail = [("get", k) for k in keys] + [("dump",), ("cat",), ("reopen",)] + [("get", k) for k in keys] + \
           [("set", b"zz2", b"second-life"), ("reopen",), ("get", b"zz2")] + [("get", k) for k in keys]
    for p in positions:
        c = S.Case("%s-f%d" % (base.name, p), base.cfg, [("failat", p)] + list(base.ops) + tail)
        c.base, c.pos, c.keys = base, p, keys
        out.append(c)
    return out


def oracle(c):
    """Per-case verdict from the implementation's outputs and the recorder's log."""
    lines = c.impl or []
    if not lines or lines[0] != "open ok":
        return ["open failed without a fault: %s" % (lines[:1])]
    bad = []
    fails = c.trace.get("fails", [])
    failed_op = fails[0][0] if fails else None        # index into c.ops of the operation the fault hit
    m_no, m_yes = {}, {}
    reopened = False
    no_store = False          # a reopen failed (the fault hit it): there is no store until the next reopen
    for i, o in enumerate(c.ops):
        if i + 1 >= len(lines):
            bad.append("no result for operation %d (%s): process died or hung" % (i, S.show_op(o)))
            break
        got = lines[i + 1]
        if o[0] == "failat":
            continue
        if got == "panic":
            bad.append("operation %d (%s) panicked" % (i, S.show_op(o)))
            break
        if got == "abandoned":
            if no_store:
                continue
            bad.append("the store became unusable before operation %d (%s)" % (i, S.show_op(o)))
            break
        is_err = got.startswith("err")
        if i == failed_op:
            if not is_err:
                bad.append("a %s call on %s failed inside operation %d (%s) but the operation reported success (%s)" % (
                    fails[0][1], fails[0][2], i, S.show_op(o), got))
            if o[0] == "reopen" and is_err:
                no_store = True
            # may or may not have taken effect
            if o[0] == "set":
                m_yes[o[1]] = o[2]
            elif o[0] == "del":
                m_yes.pop(o[1], None)
            continue
        if is_err:
            bad.append("operation %d (%s) failed (%s) although no fault was injected into it%s" % (
                i, S.show_op(o), got[:100], "" if failed_op is None else "; the fault hit operation %d" % failed_op))
            continue
        if o[0] == "set":
            m_no[o[1]] = o[2]
            m_yes[o[1]] = o[2]
        elif o[0] == "del":
            # the reported presence must be consistent with one of the two worlds
            want = {"true" if o[1] in m_no else "false", "true" if o[1] in m_yes else "false"}
            if got not in want:
                bad.append("del %s answered %s" % (G.rawhex(o[1]), got))
            m_no.pop(o[1], None)
            m_yes.pop(o[1], None)
        elif o[0] == "get":
            allowed = {("some:" + G.hexs(m[o[1]])) if o[1] in m else "none" for m in (m_no, m_yes)}
            if got not in allowed:
                bad.append("get %s %s returned %s, allowed %s" % (G.rawhex(o[1]), "after restart" if reopened else "in the running process",
                                                                 got[:60], sorted(x[:40] for x in allowed)))
        elif o[0] == "reopen":
            reopened = True
            no_store = False
            if got != "ok":
                bad.append("the directory cannot be opened after the fault: " + got[:120])
    return bad


def failed_append_tie(rep, cases, what="append"):
    """what="fsync": cases in which the injected fault hit the fsync of the active data file inside a set or delete (sync=always):
    the model's failed_fsync (Store/Engine.v; theorems in Store/FaultFsync.v) must give every later result, the index, the counters,
    the bytes of every file and everything after the restart.
    what="append": cases in which the injected fault hit the data-file write of a set or delete: the model state after a failed append
    (Store/Engine.v after_failed_append, step_r; theorems in Store/FaultContinue.v) must give every later result, the index and
    the counters of the running process, and everything after the restart (including the record that was still buffered and
    is written out by the clean close)."""
    from common import chunks, coq_eval, NCPU
    sel = []
    for c in cases:
        f = c.trace.get("fails", [])
        if not f or c.impl is None or not c.impl or c.impl[0] != "open ok":
            continue
        opi, kind, name = f[0]
        if what == "hint":
            # the write of a hint entry failed inside a merge pass
            if kind != "write" or not name.endswith(".hint") or not (0 <= opi < len(c.ops)) or c.ops[opi][0] != "merge":
                continue
            mi = sum(1 for o in c.ops[:opi] if o[0] == "merge")
            if not c.orders or mi >= len(c.orders) or not c.orders[mi]:
                continue                   # (the keys the pass had copied when it stopped are read back from its output)
        elif kind != ("write" if what == "append" else "fsync") or not name.endswith(".data") or not (0 <= opi < len(c.ops)) \
                or c.ops[opi][0] not in ("set", "del"):
            continue
        if len(c.impl) < len(c.ops) + 1 or any(l in ("panic", "abandoned") for l in c.impl):
            continue                       # the oracle reports those
        sel.append((c, opi))
    if not sel:
        rep.obligation("correspondence failed %s: at least one case" % what, False)
        return {"cases": 0}
    nsel = len(sel)
    if len(sel) > 800:
        # evaluating the model costs seconds per case (20 kB values inside vm_compute): a deterministic sample of 800, every 20 kB case last
        sel.sort(key=lambda x: (any(len(o) > 2 and len(o[2]) > 10000 for o in x[0].ops if o[0] == "set"), x[0].name))
        step = len(sel) / 800.0
        sel = [sel[int(i * step)] for i in range(800)]

    def term(c, opi):
        m = S.Case(c.name, c.cfg, [o for o in c.ops])
        m.orders = c.orders
        body = S.coq_case(m)               # (cfg, [ops]) with the failed op still in it
        # rebuild the op list with FailAppend in place of the failed operation and without the failat marker
        ops, mi = [], 0
        for i, o in enumerate(c.ops):
            if o[0] == "failat":
                continue
            if i == opi and what == "hint":
                keys = [bytes.fromhex(x) if x != "-" else b"" for x in c.orders[mi].split(",")]
                ops.append("FailHint [%s] %s %s" % ("; ".join(S.coq_bytes(k) for k in keys[:-1]), S.coq_bytes(keys[-1]),
                                                    "true" if retried(keys[-1]) else "false"))
                mi += 1
                continue
            if i == opi:
                one = S.Case("x", c.cfg, [o])
                if what == "fsync":
                    ops.append("FailFsync (%s)" % S.coq_case(one).split(", [Op (", 1)[1][:-3])
                else:
                    ops.append("FailAppend (%s) %s" % (S.coq_case(one).split(", [Op (", 1)[1][:-3], "true" if kept(c, opi) else "false"))
                continue
            one = S.Case("x", c.cfg, [o])
            if o[0] == "merge":
                one.orders = [c.orders[mi]] if c.orders and mi < len(c.orders) else [""]
                mi += 1
            ops.append(S.coq_case(one).split(", [", 1)[1][:-2])
        return body.split(", [", 1)[0] + ", [" + "; ".join(ops) + "])"
    def retried(key):
        """a hint entry below the buffer size is one buffered write: the failed flush leaves its bytes in std's BufWriter, whose
        Drop writes them out when the pass returns; a larger one is torn (header flushed, key written directly)"""
        return 32 + len(key) < 8192
    def kept(c, opi):
        """is the whole record still in the write buffer?  yes iff the failing call was the last write of the operation and that
        write was a flush of the buffer (the value is shorter than the buffer) — then a clean close writes it out"""
        bi = opi - 1                                    # index in the fault-free base run (no failat marker there)
        raw = c.base.trace["raw"]
        idx = c.pos - sum(raw.get(j, 0) for j in range(0, bi))
        calls = c.base.trace["ops"].get(bi, [])
        nwrites = raw.get(bi, 0) - sum(1 for x in calls if x.kind != "write")
        o = c.ops[opi]
        return idx == nwrites and (o[0] == "del" or len(o[2]) < 8192)
    shards = chunks(sel, max(NCPU, len(sel) // 20))          # at most ~20 cases per coqc process
    terms = ["render_cases [%s]" % "; ".join(term(c, opi) for c, opi in sh) for sh in shards]
    res, logs = coq_eval("C20", "Store.Engine Store.Render", terms, timeout=2400)
    for l in logs[:1]:
        log(l)
    ndis, ncmp, ok_eval = 0, 0, True
    for sh, r in zip(shards, res):
        if r is None:
            ok_eval = False
            continue
        lines = r.split("\n")
        i = 0
        for c, opi in sh:
            n = len(c.ops) - 1 + 2          # without failat; "open ok" ... "end"
            model = lines[i:i + n]
            i += n
            impl = [l for l in c.impl if not l.startswith("#")]
            impl = [impl[0]] + impl[2:]     # drop the result line of the failat marker
            ncmp += 1
            # the bytes of the files are not compared: what a failed append left behind is not a record (junk tail)
            # (failed fsync: the record is whole, the bytes of every file are compared too)
            withcat = what == "fsync" or (what == "hint" and retried(bytes.fromhex(c.orders[sum(1 for o in c.ops[:opi] if o[0] == "merge")].split(",")[-1].replace("-", ""))))
            mm = [S.norm(x) for x in model[:-1] if withcat or not x.startswith("cat ")]
            ii = [S.norm(x) for x in impl[:len(model) - 1] if withcat or not x.startswith("cat ")]
            if mm != ii:
                ndis += 1
                j = next((k for k in range(min(len(mm), len(ii))) if mm[k] != ii[k]), min(len(mm), len(ii)))
                rep.disagree.append({"obligation": "correspondence failed %s: model = implementation" % what, "case": c.show(), "fault": c.trace["fails"][:1],
                                     "first_difference_at": j, "model": model[max(0, j - 1):j + 2], "impl": impl[max(0, j - 1):j + 2]})
    rep.obligation("the failed-%s model evaluates on every selected case" % what, ok_eval)
    rep.obligation("correspondence failed %s: results, index, counters and restart = the failed-%s model on every case" % (what, what), ndis == 0 and ok_eval)
    return {"cases": ncmp, "selected_from": nsel}


def main(tier, seed):
    rep = Report("C20", tier, seed)
    rng = Rng(seed)
    pr = coq_check_props("C20")
    for t in pr["theorems"]:
        rep.obligation("theorem " + t, pr["ok"])
    if not pr["theorems"]:
        rep.obligation("Props/C20.v compiles", pr["ok"])
    if not pr["ok"]:
        log(pr["log"])
    ok, out = harness_build(False)
    oks, outs = T.build_shim()
    rep.obligation("harness and fault injector build", ok and oks)
    if not (ok and oks):
        log((out + outs)[-3000:])
        rep.coverage.update({"checker_cmd": "make -C coq Props/C20.vo", "trusted_base": TRUSTED})
        return rep.finish()
    n = {"quick": 40, "thorough": 600}[tier]
    bases = corpus() + S.gen_cases(rng, n, PROFILE, maxlen=8)
    big = S.gen_cases(rng, max(4, n // 8), {"weights": {"set": 5, "del": 1}, "cfg": lambda r: {"mfs": 2 ** 31, "sync": r.chance(1, 2)}}, maxlen=4, prefix="g")
    for c in big:
        c.ops = [("set", b"big", bytes([66]) * r) for r in (8180, 20000)][:1] + c.ops
    bases += big
    # keys above the write buffer (a hint entry in two writes), with merges
    bigk = S.gen_cases(rng, max(3, n // 12), PROFILE, maxlen=6, prefix="h")
    for c in bigk:
        c.ops = [("set", bytes([75]) * 9000, b"v")] + c.ops + [("merge",), ("merge",)]
    bases += bigk
    # strip reads from the workloads (they are appended after the fault)
    for c in bases:
        c.ops = [o for o in c.ops if o[0] in ("set", "del", "merge", "reopen")]
    died = T.run_recorded(bases)
    for c in bases:
        if c.name in died or S.spec_check(c):
            rep.failing.append({"what": "fault-free run already wrong or dead", "case": c.show(), "impl": c.impl})
    cases = []
    for b in bases:
        if b.name not in died:
            cases += fault_cases(b, rng, 1000 if (tier == "thorough" or b.name.startswith("corpus")) else 18)
    died2 = T.run_recorded(cases)
    kinds, nfault = {}, 0
    for c in cases:
        f = c.trace.get("fails", [])
        if f:
            nfault += 1
            k = f[0][1] + ":" + (c.ops[f[0][0]][0] if 0 <= f[0][0] < len(c.ops) else "open")
            kinds[k] = kinds.get(k, 0) + 1
        bad = oracle(c)
        if c.name in died2 and not bad:
            bad = ["the store process died or hung"]
        if bad:
            rep.failing.append({"what": bad[0], "all": bad[:5], "fault_position": c.pos, "fault": f[:1],
                                "case": c.show(), "impl": (c.impl or [])[:40]})
    rep.failing.sort(key=lambda f: len(f["case"]["ops"]))
    cov_tie = failed_append_tie(rep, cases)
    cov_tie_fsync = failed_append_tie(rep, cases, "fsync")
    cov_tie_hint = failed_append_tie(rep, cases, "hint")
    rep.coverage.update({
        "checker_cmd": "make -C coq Props/C20.vo (coqc 8.16.1) ; bin/check C20",
        "trusted_base": TRUSTED,
        "evaluations": len(cases), "workloads": len(bases), "faults_injected": nfault,
        "distinct_nontrivial": len(set((c.base.name, c.pos) for c in cases if c.trace.get("fails"))),
        "rule": "one evaluation = one workload re-run with exactly one create/write/fsync/unlink call failing (ENOSPC / EIO, no "
                "effect), at " + ("every" if tier == "thorough" else "up to 18 sampled") + " call positions; afterwards every key "
                "is read in the running process, the store is reopened and every key read again; distinct = (workload, position) "
                "where the injector actually fired",
        "fault_kinds": kinds, "exhaustive": tier == "thorough", "failed_append_model_tie": cov_tie, "failed_fsync_model_tie": cov_tie_fsync, "failed_hint_write_model_tie": cov_tie_hint,
        "samples": [cases[0].show()] if cases else [],
        "proof": {"file": "coq/Props/C20.v", "theorems": pr["theorems"], "axioms": pr["axioms"]},
    })
    rep.assumptions = ["faults are all-or-nothing per call and transient (one per run), as in the property text",
                       "the injector sees libc calls on *.bitcask.* files"]
    return rep.finish("fault_enumeration")


TRUSTED = [
    "shim/iorec.c (fault injection via LD_PRELOAD), harness/src/store.rs, lib/c20.py, lib/tracelib.py",
    "Coq 8.16.1 for the theorems in Props/C20.v about the id discipline (partial: the fault-aware engine model is not built)",
]
