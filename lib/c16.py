"""C16 — graceful shutdown terminates, keeps acknowledged data, and tears no reply."""
from common import Report, Rng, coq_check_props, harness_build, load_known_findings, log
import netlib as N
import respgen as G


def bulk(b):
    return b"$%d\r\n" % len(b) + b + b"\r\n"


def arr(*items):
    return b"*%d\r\n" % len(items) + b"".join(items)


def parse_replies(data):
    """-> (list of complete replies, leftover bytes).  A leftover means a torn reply."""
    out, i = [], 0
    while i < len(data):
        j = data.find(b"\r\n", i)
        if j < 0:
            break
        t = data[i:i + 1]
        if t in (b"+", b"-", b":"):
            out.append(data[i:j + 2])
            i = j + 2
        elif t == b"$":
            n = int(data[i + 1:j])
            if n < 0:
                out.append(data[i:j + 2])
                i = j + 2
            else:
                end = j + 2 + n + 2
                if end > len(data):
                    break
                out.append(data[i:end])
                i = end
        else:
            break
    return out, data[i:]


def make(rng, tier):
    n = {"quick": 6, "thorough": 60}[tier]
    scs = []
    for i in range(n):
        r = rng.fork()
        kind = ["idle", "midframe", "burst", "bigset", "mixed"][i % 5]
        ops = []
        nclients = r.rng(1, 3)
        sets = {}
        for c in range(nclients):
            cid = "c%d" % c
            ops.append("conn %s" % cid)
            if kind in ("burst", "mixed"):
                reqs = b""
                for q in range(r.rng(20, 60)):
                    k, v = b"k%d_%d" % (c, q), b"v%d" % q * r.rng(1, 50)
                    reqs += arr(bulk(b"SET"), bulk(k), bulk(v))
                    sets.setdefault(cid, []).append((k, v))
                ops.append("send %s %s" % (cid, G.rawhex(reqs)))
            elif kind == "bigset":
                k, v = b"big%d" % c, bytes([65 + c]) * 3000000
                ops.append("send %s %s" % (cid, G.rawhex(arr(bulk(b"SET"), bulk(k))[:-0] if False else b"*3\r\n" + bulk(b"SET") + bulk(k) + b"$3000000\r\n")))
                ops.append("send %s %dx%02x" % (cid, 3000000, 65 + c))
                ops.append("send %s 0d0a" % cid)
                sets.setdefault(cid, []).append((k, v))
            elif kind == "midframe":
                ops.append("send %s %s" % (cid, G.rawhex(arr(bulk(b"SET"), bulk(b"half"))[:-4])))
        if kind == "mixed":
            ops.append("send c0 %s" % G.rawhex(b"*2\r\n$3\r\nGET\r\n$4\r\nab"))
        if kind in ("burst", "mixed", "bigset") and r.chance(1, 2):
            ops.append("sleep %d" % r.rng(0, 3))
        ops.append("shutdown")
        ops.append("waitrun 15000")
        for c in range(nclients):
            ops.append("recv c%d eof 3000" % c)
        sc = N.Scenario("s%d-%s" % (i, kind), "maxconn=8", ops)
        sc.kind, sc.sets, sc.nclients = kind, sets, nclients
        # read back every key a SET was sent for
        keys = [k for lst in sets.values() for k, _ in lst]
        sc.keys = keys[:400]
        for k in sc.keys:
            sc.ops.append("storeget %s" % G.rawhex(k))
        scs.append(sc)
    # clients that keep pipelining commands at and after the shutdown signal must not keep run() from returning
    sc = N.Scenario("flood", "maxconn=8", ["flood 4 6000", "sleep 300", "shutdown", "waitrun 15000"])
    sc.kind, sc.sets, sc.nclients, sc.keys = "flood", {}, 0, []
    scs.append(sc)
    # a pipelined burst of GETs whose replies exceed the 8 KiB write buffer many times, shutdown in the middle
    val = b"V" * 3000
    for j in range({"quick": 3, "thorough": 20}[tier]):
        gets = arr(bulk(b"GET"), bulk(b"gk")) * 40
        ops = ["conn c0", "send c0 %s" % G.rawhex(arr(bulk(b"SET"), bulk(b"gk"), bulk(val))), "recv c0 5 5000",
               "send c0 %s" % G.rawhex(gets), "sleep %d" % j, "shutdown", "waitrun 15000", "recv c0 eof 5000"]
        sc = N.Scenario("getburst%d" % j, "maxconn=8", ops)
        sc.kind, sc.sets, sc.nclients, sc.keys, sc.replen = "getburst", {}, 0, [], len(bulk(val))
        scs.append(sc)
    # shutdown while a handler is in the middle of writing a large reply to a slow (not dead) reader: the reply must arrive whole
    n = 32000000
    ops = ["conn w", "send w %s" % G.rawhex(b"*3\r\n" + bulk(b"SET") + bulk(b"huge") + b"$%d\r\n" % n), "send w %dx5a" % n, "send w 0d0a", "recv w 5 20000",
           "send w %s" % G.rawhex(arr(bulk(b"GET"), bulk(b"huge"))), "recv w 11 20000", "sleep 300", "shutdown", "sleep 300", "recv w eof 30000", "waitrun 15000"]
    sc = N.Scenario("slow-reader", "maxconn=8", ops)
    sc.kind, sc.sets, sc.nclients, sc.keys, sc.total = "slow-reader", {}, 0, [], len(b"$%d\r\n" % n) + n + 2
    scs.append(sc)
    # a connection ended earlier; at shutdown another one is in the middle of a command (its store operation parked for 1.5 s):
    # run() must not return while that command is executing (seed C16-H shape)
    ops = ["conn a", "send a %s" % G.rawhex(arr(bulk(b"SET"), bulk(b"early"), bulk(b"1"))), "recv a 5 3000", "close a", "sleep 150",
           "parkany put:before_publish 1500", "conn b", "send b %s" % G.rawhex(arr(bulk(b"SET"), bulk(b"late"), bulk(b"2"))), "sleep 250",
           "shutdown", "waitrun 400", "waitrun 10000", "recv b eof 5000", "storeget %s" % G.rawhex(b"early"), "storeget %s" % G.rawhex(b"late")]
    sc = N.Scenario("ended-earlier", "maxconn=8", ops)
    sc.kind, sc.sets, sc.nclients, sc.keys = "ended-earlier", {}, 0, []
    scs.append(sc)
    # the recorded finding: shutdown while a handler is blocked writing to a client that does not read
    big = bytes([90]) * 4000000
    ops = ["conn w", "send w %s" % G.rawhex(b"*3\r\n" + bulk(b"SET") + bulk(b"huge") + b"$4000000\r\n"), "send w 4000000x5a", "send w 0d0a", "recv w 5 5000",
           "send w %s" % G.rawhex(arr(bulk(b"GET"), bulk(b"huge")) * 8), "sleep 300", "shutdown", "waitrun 2500"]
    sc = N.Scenario("known-blocked-writer", "maxconn=8", ops)
    sc.kind, sc.sets, sc.nclients, sc.keys = "blocked-writer", {}, 0, []
    scs.append(sc)
    return scs


def main(tier, seed):
    rep = Report("C16", tier, seed)
    rng = Rng(seed)
    pr = coq_check_props("C16")
    for t in pr["theorems"]:
        rep.obligation("theorem " + t, pr["ok"])
    if not pr["theorems"]:
        rep.obligation("Props/C16.v compiles", pr["ok"])
    if not pr["ok"]:
        log(pr["log"])
    ok, out = harness_build(False)
    rep.obligation("harness builds against /repo", ok)
    if not ok:
        log(out[-3000:])
        rep.coverage.update({"checker_cmd": "make -C coq Props/C16.vo", "trusted_base": TRUSTED})
        return rep.finish()
    known = [k for k in load_known_findings() if k.get("property") == "C16"]
    scs = make(rng, tier)
    died = N.run_scenarios(scs, procs=4)
    kinds, nacked = {}, 0
    for sc in scs:
        kinds[sc.kind] = kinds.get(sc.kind, 0) + 1
        if sc.name in died or not sc.out or sc.out[0] != "start ok":
            rep.failing.append({"what": "server died or did not start", "kind": sc.kind, "out": (sc.out or [])[:8]})
            continue
        o = {op: sc.out[i + 1] for i, op in enumerate(sc.ops) if i + 1 < len(sc.out)}
        wr = next((sc.out[i + 1] for i, op in enumerate(sc.ops) if op.startswith("waitrun")), "missing")
        if sc.kind == "ended-earlier":
            first, second = o.get("waitrun 400", "missing"), o.get("waitrun 10000", "missing")
            late = o.get("storeget %s" % G.rawhex(b"late"), "missing")
            rb = o.get("recv b eof 5000", "missing")
            # run() back within 400 ms although the parked command (1.5 s) was executing: it went on to be applied and answered
            if first.startswith("returned") and late.startswith("some") and rb.startswith("eof:5:"):
                rep.failing.append({"what": "run() returned while a command was still executing on another connection (it was applied and answered "
                                            "afterwards); a connection that had ended before the shutdown signal was taken for the last one",
                                    "kind": sc.kind, "ops": [x[:70] for x in sc.ops], "out": sc.out[1:]})
            elif not (first.startswith("returned") or second.startswith("returned")):
                rep.failing.append({"what": "run() did not return within 10 s after the parked command had finished", "waitrun": second})
            elif late.startswith("some") and not rb.startswith("eof:5:2b4f4b0d0a"):
                rep.failing.append({"what": "the command in flight at shutdown was applied but its client did not receive the whole reply and then end of stream: " + rb[:60],
                                    "kind": sc.kind})
            elif not o.get("storeget %s" % G.rawhex(b"early"), "").startswith("some"):
                rep.failing.append({"what": "an acknowledged SET is not in the store after shutdown", "kind": sc.kind})
            continue
        if sc.kind == "flood":
            if not wr.startswith("returned"):
                rep.failing.append({"what": "run() did not return within 15 s after the shutdown signal while 4 clients kept pipelining commands", "waitrun": wr})
            continue
        if sc.kind == "getburst":
            if not wr.startswith("returned"):
                rep.failing.append({"what": "run() did not return within 15 s after the shutdown signal (client with a pipelined burst of GETs)", "waitrun": wr})
                continue
            line = o.get("recv c0 eof 5000", "missing")
            st, nb = (line.split(":", 2) + ["", ""])[:2]
            nbytes = int(nb) if nb.isdigit() else -1
            if st not in ("eof", "reset") or nbytes < 0 or nbytes % sc.replen != 0:
                rep.failing.append({"what": "a pipelining client received %d bytes after its burst of GETs: not a whole number of %d-byte replies "
                                            "(torn reply at shutdown)" % (nbytes, sc.replen), "kind": sc.kind, "ops": [x[:70] for x in sc.ops]})
            continue
        if sc.kind == "slow-reader":
            head = o.get("recv w 11 20000", "missing")
            rest = o.get("recv w eof 30000", "missing")
            st, nb = (rest.split(":", 2) + ["", ""])[:2]
            got = 11 + (int(nb) if nb.isdigit() else 0)
            if not head.startswith("ok:11:2433323030303030300d0a"[:6]) or st not in ("eof", "reset") or got != sc.total:
                rep.failing.append({"what": "a reply in flight at shutdown was torn: the client read %d of the %d bytes of the reply to GET, then %s"
                                            % (got, sc.total, st or rest[:30]), "kind": sc.kind, "ops": [x[:70] for x in sc.ops]})
            elif not wr.startswith("returned"):
                rep.failing.append({"what": "run() did not return within 15 s after the slow reader had read its whole reply", "waitrun": wr})
            continue
        if sc.kind == "blocked-writer":
            if wr.startswith("timeout"):
                if any(k.get("class") == "blocked-writer" for k in known):
                    rep.known.append("run() does not return while a handler is blocked writing replies (8 x 4 MB) to a client that does "
                                     "not read: " + wr)
                else:
                    rep.failing.append({"what": "run() did not return within 2.5 s after shutdown: a handler is blocked in write_frame", "ops": sc.ops[:9]})
            continue
        if not wr.startswith("returned"):
            rep.failing.append({"what": "run() did not return within 15 s after the shutdown signal (clients: %s)" % sc.kind,
                                "waitrun": wr, "ops": [x[:80] for x in sc.ops[:12]]})
            continue
        for c in range(sc.nclients):
            cid = "c%d" % c
            line = o.get("recv %s eof 3000" % cid, "missing")
            st, n, hx = (line.split(":", 2) + ["", ""])[:3]
            if st not in ("eof", "reset"):
                rep.failing.append({"what": "client stream does not end after shutdown (%s)" % line[:40], "kind": sc.kind})
                continue
            # we only have a digest when the stream is long: request the length and check it is a whole number of +OK replies
            sent = sc.sets.get(cid, [])
            nbytes = int(n) if n.isdigit() else 0
            if sc.kind in ("burst", "mixed", "bigset"):
                if nbytes % 5 != 0:
                    rep.failing.append({"what": "client %s received %d bytes: not a whole number of '+OK' replies (torn reply)" % (cid, nbytes), "kind": sc.kind})
                    continue
                acked = nbytes // 5
                nacked += acked
                # every acknowledged SET must be in the store
                for (k, v) in sent[:acked]:
                    if k in sc.keys:
                        got = o.get("storeget %s" % G.rawhex(k))
                        if got != "some:" + G.hexs(v):
                            rep.failing.append({"what": "SET %s was acknowledged to the client before shutdown but the store says %s" % (k, (got or "")[:40]),
                                                "kind": sc.kind, "acked": acked})
                            break
            elif nbytes != 0:
                rep.failing.append({"what": "an idle / half-request client received %d bytes at shutdown" % nbytes, "kind": sc.kind})
    rep.obligation("every scenario behaves as the transition system allows", not rep.failing)
    rep.coverage.update({
        "checker_cmd": "make -C coq Props/C16.vo (coqc 8.16.1) ; bin/check C16",
        "trusted_base": TRUSTED,
        "evaluations": len(scs), "distinct_nontrivial": len(kinds), "acknowledged_sets_checked": nacked,
        "rule": "shutdown fired while 1-3 clients are idle / have sent half a request / are in the middle of a burst of 20-60 pipelined "
                "SETs / are sending a 3 MB SET / mixed; run() must return within 15 s, every client stream must be a whole number of "
                "replies then end of stream, every SET whose reply was received must be in the store; a client that is slowly reading a 32 MB "
                "reply when shutdown fires must receive it whole; a pipelined burst of 40 GETs with 3 KB replies must end on a reply boundary; "
                "four clients that keep pipelining commands must not keep run() from returning; plus the recorded blocked-writer "
                "scenario; distinct = client-state families",
        "kinds": kinds,
        "samples": [{"kind": scs[0].kind, "ops": [x[:60] for x in scs[0].ops[:8]], "out": [x[:60] for x in (scs[0].out or [])[:8]]}],
        "proof": {"file": "coq/Props/C16.v", "theorems": pr["theorems"], "axioms": pr["axioms"]},
    })
    rep.assumptions = ["tokio select!/broadcast/mpsc semantics are modelled; select may keep choosing read_frame while requests keep "
                       "arriving (probability-1, not bounded, termination)", "timing: 'returns' = within 15 s"]
    return rep.finish()


TRUSTED = [
    "Coq 8.16.1 kernel; coq/Sys/Shutdown.v transcribes Server::run / Handler::run / Shutdown (40 lines)",
    "harness/src/server.rs, lib/c16.py; tokio runtime: modelled, not verified",
]
