"""C09 — with sync=always an acknowledged write survives power loss, merges included."""
import c03


def main(tier, seed):
    return c03.run("C09", tier, seed, power=True)
