"""C07 — the RESP parser is total and reads numbers exactly."""
import time

from common import (Report, Rng, chunks, coq_bytes, coq_check_props, coq_eval, harness_build, harness_run, log)
import respgen as G

THEOREMS_NOTE = "Props/C07.v"


def make_cases(rng, tier):
    n = {"quick": 1, "thorough": 12}[tier]
    cases = []

    def add(b, kind, expect=None, coq=None):
        cases.append({"bytes": b, "kind": kind, "expect": expect, "coq": coq})

    # corpus: the pinned defects' witnesses first
    add(b":-", "corpus:D4")
    add(b"$+", "corpus:D4")
    add(b"*-", "corpus:D4")
    add(b":-5\r\n", "corpus:D4", ("frame", ("I", -5)))
    add(b"*2\r\n$20\r\n" + b"p" * 20 + b"\r\n:" + b"9" * 20 + b"\r\n", "corpus:D5", ("reject",))
    add(b"*100000000000\r\n", "corpus:D7")
    add(b"$9223372036854775807\r\n", "corpus:len")
    add(b"*9223372036854775807\r\n", "corpus:len")
    add(b"*2147483647\r\n", "corpus:len")
    add(b"", "corpus:empty")
    for k in [1, 2, 31, 32, 33, 34, 100, 5000, 200000]:
        pat, tail = b"*1\r\n", b":1\r\n"
        f = ("I", 1)
        for _ in range(min(k, 40)):
            f = ("A", [f])
        add(pat * k + tail, "nest:%d" % k, ("frame", f) if k <= 32 else ("error",),
            "nest %d %s %s" % (k, coq_bytes(pat), coq_bytes(tail)))
    # numbers at every offset
    offs = list(range(0, 41)) if tier == "thorough" else [0, 1, 9, 12, 17, 18, 19, 20, 23, 31, 40]
    for b, exp, off in G.numbers_at_offsets(rng, offs):
        add(b, "number@%d" % off, exp)
    # valid frames (writable and nested), their truncations, mutations
    for i in range(600 * n):
        f = G.gen_tree(rng, 3) if rng.chance(1, 2) else G.gen_writable(rng)
        b = G.enc_any(f)
        add(b, "valid", ("frame", f))
        if rng.chance(1, 4):
            add(b + G.gen_garbage(rng), "valid+tail", ("frame-prefix", f, len(b)))
        if len(b) < 80 and rng.chance(1, 3):
            for cut in range(len(b)):
                add(b[:cut], "truncated")
        for _ in range(2):
            add(G.mutate(rng, b), "mutated")
    for s in G.BAD_UTF8 + G.UTF8_SAMPLES:
        add(b"+" + s + b"\r\n", "utf8")
        add(b"-" + s + b"\r\n", "utf8")
    for i in range(1500 * n):
        add(G.gen_garbage(rng), "garbage")
    if tier == "thorough":
        # every byte string of length <= 3 over the 12-symbol alphabet
        al = G.ALPHABET
        for a in al:
            add(a, "exh1")
            for b2 in al:
                add(a + b2, "exh2")
                for c in al:
                    add(a + b2 + c, "exh3")
    # de-duplicate, keep order
    seen, out = set(), []
    for c in cases:
        if c["bytes"] in seen and c["expect"] is None:
            continue
        seen.add(c["bytes"])
        out.append(c)
    return out


def run_impl(cases, release):
    text = "".join(G.rawhex(c["bytes"]) + "\n" for c in cases)
    rc, out = harness_run(["resp"], text, release=release, timeout=900)
    lines = [l for l in out.split("\n") if " | " in l]
    return rc, lines, out


def run_model(pid, cases, build="Debug"):
    shards = chunks(cases, max(16, len(cases) // 400))
    terms = []
    for sh in shards:
        terms.append("render_resp_all %s [%s]" % (
            build, "; ".join(c["coq"] or coq_bytes(c["bytes"]) for c in sh)))
    res, logs = coq_eval(pid, "Resp.Frame Resp.Render", terms)
    lines = []
    for sh, r in zip(shards, res):
        if r is None:
            lines.extend([None] * len(sh))
        else:
            ls = r.split("\n") if sh else []
            if len(ls) != len(sh):
                ls = [None] * len(sh)
            lines.extend(ls)
    return lines, logs


def oracle(c, line):
    """Property-level verdict on one implementation result, independent of the model.
    Returns a description of the failure or None."""
    chk, par, trunc = [x.strip() for x in line.split(" | ")]
    if "panic" in (chk, par, trunc):
        return "panic (check=%s parse=%s parse-of-checked-bytes=%s)" % (chk, par, trunc)
    if chk.startswith("ok:") and trunc.startswith("ok:"):
        n, m = int(chk.split(":")[1]), int(trunc.split(":")[1])
        if n != m:
            return "check accepted %d bytes but parsing those bytes succeeded with length %d" % (n, m)
    # whatever the generator intended: a top-level integer or bulk string that is ACCEPTED must have a number where a number
    # belongs, and exactly the value written
    b = c["bytes"]
    if par.startswith("ok:") and b[:1] in (b":", b"$") and b"\r" in b:
        import re
        t = b[1:b.index(b"\r")]          # the line reader ends a line at the first CR (and skips the byte after it)
        if not re.fullmatch(rb"[+-]?[0-9]+", t):
            return "a line that is not a decimal number (%r) was accepted in a number position: %s" % (t[:40], par[:80])
        if b[:1] == b":":
            got = par.split(":", 2)[2]
            if got != "I%d" % int(t):
                return "number mis-read: written %d, parsed %s" % (int(t), got[:60])
        elif int(t) >= 0:
            want_len = 1 + len(t) + 2 + int(t) + 2
            if int(par.split(":")[1]) != want_len:
                return "bulk string of announced length %d accepted with %d bytes in total (expected %d)" % (int(t), int(par.split(":")[1]), want_len)
    e = c["expect"]
    if e is None:
        return None
    if e[0] == "frame":
        want = "ok:%d:%s" % (len(c["bytes"]), G.show(e[1]))
        if par != want or chk != "ok:%d" % len(c["bytes"]):
            return "valid frame not read back: want %s, got check=%s parse=%s" % (want[:120], chk, par[:120])
    elif e[0] == "frame-prefix":
        want = "ok:%d:%s" % (e[2], G.show(e[1]))
        if par != want or chk != "ok:%d" % e[2]:
            return "valid frame followed by other bytes not read back: want %s, got check=%s parse=%s" % (
                want[:120], chk, par[:120])
    elif e[0] == "int":
        if not par.startswith("ok:"):
            return "in-range number %d rejected: %s" % (e[1], par)
        got = par.split(":", 2)[2]
        if not (got == "I%d" % e[1] or got.endswith(",I%d)" % e[1])):
            return "number mis-read: written %d, parsed %s" % (e[1], got[-60:])
    elif e[0] == "reject":
        if par.startswith("ok:") or chk.startswith("ok:"):
            return "out-of-range number accepted: check=%s parse=%s" % (chk, par[-80:])
    elif e[0] == "error":
        if par.startswith("ok:") or chk.startswith("ok:"):
            return "nesting beyond the limit accepted"
    return None


def main(tier, seed):
    rep = Report("C07", tier, seed)
    rng = Rng(seed)
    # 1. proof obligations
    pr = coq_check_props("C07")
    for t in pr["theorems"]:
        rep.obligation("theorem " + t, pr["ok"])
    if not pr["theorems"]:
        rep.obligation("Props/C07.v compiles", pr["ok"])
    if not pr["ok"]:
        log(pr["log"])
    # 2. implementation, built from /repo's working tree
    okd, outd = harness_build(False)
    okr, outr = harness_build(True)
    rep.obligation("harness builds against /repo (debug, release)", okd and okr)
    if not (okd and okr):
        log((outd + outr)[-3000:])
        rep.coverage.update({"checker_cmd": "make -C coq Props/C07.vo", "trusted_base": TRUSTED})
        return rep.finish()
    cases = make_cases(rng, tier)
    kinds = {}
    for c in cases:
        k = c["kind"].split(":")[0].split("@")[0]
        kinds[k] = kinds.get(k, 0) + 1
    impl = {}
    for rel in (False, True):
        rc, lines, raw = run_impl(cases, rel)
        name = "release" if rel else "debug"
        impl[name] = lines
        if len(lines) < len(cases):
            c = cases[len(lines)]
            rep.failing.append({"what": "process died (%s build, exit %s) while checking/parsing this input" % (name, rc),
                                "kind": c["kind"], "input_hex": G.rawhex(c["bytes"])[:4000], "input_len": len(c["bytes"]),
                                "replay": "printf '%%s\\n' <input_hex> | bcharness resp", "tail": raw[-300:]})
    model, mlogs = run_model("C07", cases)
    rep.obligation("model evaluates on every case", all(m is not None for m in model))
    for l in mlogs[:2]:
        log(l)
    ndis = 0
    nontrivial = set()
    for name, lines in impl.items():
        for c, line, m in zip(cases, lines, model):
            why = oracle(c, line)
            if why:
                rep.failing.append({"what": why, "build": name, "kind": c["kind"],
                                    "input_hex": G.rawhex(c["bytes"])[:4000], "impl": line[:300], "model": (m or "")[:300]})
            if m is not None and m != line:
                ndis += 1
                rep.disagree.append({"obligation": "correspondence resp: model = implementation (%s)" % name,
                                     "kind": c["kind"], "input_hex": G.rawhex(c["bytes"])[:4000], "impl": line[:300], "model": m[:300]})
            if not line.startswith("err:Incomplete | err:Incomplete"):
                nontrivial.add(c["bytes"])
    rep.obligation("correspondence resp: model = implementation on every case (debug and release)", ndis == 0)
    # keep only the shortest few failing inputs
    rep.failing.sort(key=lambda f: len(f.get("input_hex", "")))
    rep.coverage.update({
        "checker_cmd": "make -C coq Props/C07.vo (coqc 8.16.1, Print Assumptions closed) ; bin/check C07",
        "trusted_base": TRUSTED,
        "evaluations": len(cases) * 2,
        "distinct_nontrivial": len(nontrivial),
        "rule": "distinct input byte strings on which check or parse does something other than report Incomplete; "
                "generated from one splitmix64 state: grammar-based frames (nested to depth 3), all truncations of "
                "short ones, single-byte mutations, numbers around every i64/18-digit boundary at buffer offsets, "
                "nesting 1..200000, UTF-8 edge cases, garbage over the RESP alphabet" + (
                    "; every string of length <= 3 over a 12-symbol alphabet" if tier == "thorough" else ""),
        "case_kinds": kinds,
        "samples": [{"kind": c["kind"], "input_hex": G.rawhex(c["bytes"])[:200], "impl": l[:200]}
                    for c, l in list(zip(cases, impl["debug"]))[:3] + list(zip(cases, impl["debug"]))[60:63]],
        "proof": {"file": "coq/Props/C07.v", "theorems": pr["theorems"], "axioms": pr["axioms"]},
    })
    rep.assumptions = ASSUMPTIONS
    return rep.finish()


TRUSTED = [
    "Coq 8.16.1 kernel, coqc, vm_compute (no native_compute)",
    "hand-written Gallina model coq/Resp/Frame.v of src/net/frame.rs, tied to the code by differential execution only",
    "harness/src/resp.rs, lib/c07.py, lib/respgen.py (generators, oracle, diff)",
    "recursion depth <= 33 frames fits the 2 MiB stack of a tokio worker: measured by running the deepest accepted nesting, not proved",
]
ASSUMPTIONS = [
    "64-bit target (usize = u64)",
    "theorems are about the model; the Rust code is covered as far as the generated inputs exercise it",
]
