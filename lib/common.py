"""Shared machinery of /verif/bin/check: builds, model evaluation inside Coq, harness runs,
evidence, violation protocol.  Python 3 standard library only."""
import concurrent.futures as cf
import hashlib
import json
import os
import re
import shutil
import subprocess
import sys
import time

ROOT = os.path.dirname(os.path.dirname(os.path.abspath(__file__)))
COQ = os.path.join(ROOT, "coq")
CACHE = os.path.join(ROOT, ".cache")
HARNESS = os.path.join(ROOT, "harness")
TARGET = os.path.join(CACHE, "harness-target")
REPO = "/repo"
NCPU = os.cpu_count() or 4
FORBIDDEN = re.compile(
    r"\b(Admitted|admit|Axiom|Axioms|Parameter|Parameters|Conjecture|Conjectures|Hypothesis|Variable|"
    r"Unset\s+Guard|bypass_check|type-in-type|impredicative-set|Admit\s+Obligations|native_compute)\b"
)


def log(*a):
    print(*a, file=sys.stderr, flush=True)


def sh(cmd, timeout=600, env=None, cwd=None, stdin=None):
    e = dict(os.environ)
    e.update({"CARGO_NET_OFFLINE": "true", "CARGO_TARGET_DIR": TARGET})
    if env:
        e.update(env)
    try:
        p = subprocess.run(cmd, shell=isinstance(cmd, str), cwd=cwd, env=e, input=stdin,
                           stdout=subprocess.PIPE, stderr=subprocess.STDOUT, timeout=timeout, text=True,
                           errors="replace")
        return p.returncode, p.stdout
    except subprocess.TimeoutExpired as ex:
        out = ex.stdout if isinstance(ex.stdout, str) else (ex.stdout or b"").decode(errors="replace")
        return 124, out + "\n[timeout after %ss]" % timeout


# ---------------------------------------------------------------- deterministic randomness
class Rng:
    """splitmix64; every random choice of a run derives from one state (VERIF_SEED)."""

    def __init__(self, seed):
        self.s = (seed * 0x9E3779B97F4A7C15 + 0x1234567) & 0xFFFFFFFFFFFFFFFF

    def next(self):
        self.s = (self.s + 0x9E3779B97F4A7C15) & 0xFFFFFFFFFFFFFFFF
        z = self.s
        z = ((z ^ (z >> 30)) * 0xBF58476D1CE4E5B9) & 0xFFFFFFFFFFFFFFFF
        z = ((z ^ (z >> 27)) * 0x94D049BB133111EB) & 0xFFFFFFFFFFFFFFFF
        return z ^ (z >> 31)

    def below(self, n):
        return self.next() % n if n > 0 else 0

    def rng(self, lo, hi):
        return lo + self.below(hi - lo + 1)

    def choice(self, xs):
        return xs[self.below(len(xs))]

    def chance(self, num, den):
        return self.below(den) < num

    def bytes(self, n):
        return bytes(self.below(256) for _ in range(n))

    def fork(self):
        return Rng(self.next())

    def shuffle(self, xs):
        xs = list(xs)
        for i in range(len(xs) - 1, 0, -1):
            j = self.below(i + 1)
            xs[i], xs[j] = xs[j], xs[i]
        return xs


def seed_from_env():
    try:
        return int(os.environ.get("VERIF_SEED", "1"))
    except ValueError:
        return 1


# ---------------------------------------------------------------- Coq side
def coq_sources():
    out = []
    for d, _, fs in os.walk(COQ):
        for f in fs:
            if f.endswith(".v"):
                out.append(os.path.join(d, f))
    return sorted(out)


def strip_comments(text):
    out, depth, i = [], 0, 0
    while i < len(text):
        if text.startswith("(*", i):
            depth += 1
            i += 2
        elif text.startswith("*)", i) and depth > 0:
            depth -= 1
            i += 2
        else:
            if depth == 0:
                out.append(text[i])
            i += 1
    return "".join(out)


def forbidden_scan():
    """Admitted / Axiom / Parameter / ... anywhere in the development (comments stripped).
    `Variable`/`Hypothesis` are allowed inside a Section only."""
    hits = []
    for p in coq_sources():
        txt = strip_comments(open(p).read())
        depth = 0
        for ln, line in enumerate(txt.split("\n"), 1):
            if re.match(r"\s*Section\b", line):
                depth += 1
            if re.match(r"\s*End\b", line) and depth > 0:
                depth -= 1
            for m in FORBIDDEN.finditer(line):
                w = m.group(1)
                if w in ("Variable", "Hypothesis") and depth > 0:
                    continue
                if w in ("Variable", "Hypothesis") and not re.match(r"\s*(Variable|Hypothesis)\b", line):
                    continue
                hits.append("%s:%d: %s" % (os.path.relpath(p, ROOT), ln, line.strip()))
    return hits


def coq_makefile():
    rc, out = sh("coq_makefile -f _CoqProject -o Makefile", cwd=COQ, timeout=120)
    if rc != 0:
        raise RuntimeError("coq_makefile failed: " + out)


def coq_build_all(timeout=3000):
    coq_makefile()
    return sh("make -j%d" % NCPU, cwd=COQ, timeout=timeout)


TIER = "quick"
LAST_COQCHK = None

ALLOWED_AXIOMS = {
    # standard-library axioms, named in DESIGN.md section 9 where a theorem depends on them
    "Classical_Prop.classic",
    "FunctionalExtensionality.functional_extensionality_dep",
    "ClassicalDedekindReals.sig_forall_dec",
    "ClassicalDedekindReals.sig_not_dec",
    "Eqdep.Eq_rect_eq.eq_rect_eq",
}


def coq_check_props(pid, timeout=3000):
    """Build the cone of Props/<pid>.v (full .vo build), force re-check of the Props file itself,
    collect `Print Assumptions` output.  Returns dict(ok, theorems, axioms, log)."""
    coq_makefile()
    vo = os.path.join(COQ, "Props", pid + ".vo")
    if os.path.exists(vo):
        os.remove(vo)
    rc, out = sh("make -j%d Props/%s.vo" % (NCPU, pid), cwd=COQ, timeout=timeout)
    res = {"ok": rc == 0, "log": out[-4000:], "theorems": [], "axioms": [], "bad_axioms": []}
    src = open(os.path.join(COQ, "Props", pid + ".v")).read()
    res["theorems"] = re.findall(r"^\s*Theorem\s+(\w+)", strip_comments(src), re.M)
    n_pa = len(re.findall(r"^\s*Print Assumptions", strip_comments(src), re.M))
    if rc == 0:
        closed = out.count("Closed under the global context")
        axioms = set()
        in_block = False
        for line in out.split("\n"):
            if line.startswith("Axioms:"):
                in_block = True
                continue
            if in_block:
                mm = re.match(r"^([A-Za-z_][\w.']*)\s*(:|$)", line)
                if mm and "." in mm.group(1):
                    axioms.add(mm.group(1))
                elif line.startswith(" ") or line == "":
                    continue                       # continuation of a type
                else:
                    in_block = False
        res["axioms"] = sorted(axioms)
        res["bad_axioms"] = sorted(a for a in axioms if a not in ALLOWED_AXIOMS)
        res["closed"] = closed
        if res["bad_axioms"]:
            res["ok"] = False
        if n_pa < len(res["theorems"]):
            res["ok"] = False
            res["log"] += "\n[Print Assumptions missing for some theorem]"
    hits = forbidden_scan()
    if hits:
        res["ok"] = False
        res["log"] += "\n[forbidden tokens]\n" + "\n".join(hits[:20])
    if rc == 0 and TIER == "thorough":
        # independent re-check of the compiled cone of this property, and the axioms it relies on
        rc2, out2 = sh("coqchk -o -silent -Q . BC BC.Props.%s" % pid, cwd=COQ, timeout=3000)
        chk_axioms = re.findall(r"^\s+(Coq\.[\w.']+)\s*$", out2.split("* Axioms:")[1].split("* Constants")[0], re.M) if "* Axioms:" in out2 else []
        chk_axioms = [a[4:] if a.startswith("Coq.") else a for a in chk_axioms]
        short = {a.split(".", 1)[1] if a.count(".") > 1 else a for a in chk_axioms}          # Logic.X.y -> X.y
        bad = sorted(a for a in short if a not in ALLOWED_AXIOMS and not any(a.endswith(x) or x.endswith(a) for x in ALLOWED_AXIOMS))
        unsafe = [l.strip() for l in out2.split("\n") if "relying on" in l or "assumed" in l]
        not_none = [l for l in unsafe if not l.endswith("<none>")]
        res["coqchk"] = {"ok": rc2 == 0 and not bad and not not_none, "axioms": sorted(short), "unsafe": unsafe}
        global LAST_COQCHK
        LAST_COQCHK = res["coqchk"]
        if rc2 != 0 or bad or not_none:
            res["ok"] = False
            res["log"] += "\n[coqchk]\n" + out2[-2000:]
    return res


_EVAL_HEADER = """From BC Require Import %s.
From Coq Require Import String.
Set Printing Depth 100000000.
Set Printing Width 100000000.
Open Scope N_scope.
"""


def _coq_eval_one(args):
    path, timeout = args
    rc, out = sh("ulimit -s unlimited 2>/dev/null || ulimit -s 1000000; exec coqc -noglob -Q %s BC %s" % (COQ, path),
                 timeout=timeout)
    if rc != 0:
        return None, out
    vals = []
    for m in re.finditer(r'^\s*= "(.*?)"\n\s*: string', out, re.S | re.M):
        vals.append(m.group(1).replace('""', '"'))
    return vals, out


def coq_eval(pid, imports, terms, timeout=900):
    """Evaluate Coq terms of type string with vm_compute, one coqc process per term, in parallel.
    Returns the list of resulting strings (None where evaluation failed) and the failure logs."""
    coq_makefile()
    targets = " ".join(m.replace(".", "/") + ".vo" for m in imports.split())
    rc, out = sh("make -j%d %s" % (NCPU, targets), cwd=COQ, timeout=3000)
    if rc != 0:
        return [None] * len(terms), ["building %s failed: %s" % (targets, out[-3000:])]
    d = os.path.join(CACHE, "cases", pid)
    shutil.rmtree(d, ignore_errors=True)
    os.makedirs(d)
    jobs = []
    for i, t in enumerate(terms):
        p = os.path.join(d, "s%04d.v" % i)
        with open(p, "w") as f:
            f.write(_EVAL_HEADER % imports)
            f.write("Eval vm_compute in (%s).\n" % t)
        jobs.append((p, timeout))
    results, logs = [], []
    with cf.ThreadPoolExecutor(max_workers=NCPU) as ex:
        for (vals, out), (p, _) in zip(ex.map(_coq_eval_one, jobs), jobs):
            if vals is None or len(vals) != 1:
                results.append(None)
                logs.append("%s: %s" % (p, out[-2000:]))
            else:
                results.append(vals[0])
    return results, logs


def coq_bytes(b):
    """Coq term for a byte string; runs of one byte longer than 24 become [rep n b]."""
    parts, i, n = [], 0, len(b)
    lit = []

    def flush():
        if lit:
            parts.append("[" + ";".join(str(x) for x in lit) + "]")
            lit.clear()

    while i < n:
        j = i
        while j < n and b[j] == b[i]:
            j += 1
        if j - i > 24:
            flush()
            parts.append("rep %d %d" % (j - i, b[i]))
        else:
            lit.extend(b[i:j])
        i = j
    flush()
    if not parts:
        return "[]"
    if len(parts) == 1:
        return parts[0] if parts[0].startswith("[") else "(" + parts[0] + ")"
    return "(" + " ++ ".join(parts) + ")%list"


def chunks(xs, n):
    n = max(1, n)
    k = (len(xs) + n - 1) // n if xs else 1
    return [xs[i:i + k] for i in range(0, len(xs), k)] or [[]]


# ---------------------------------------------------------------- implementation side
def harness_build(release=False, timeout=1500):
    """Build the harness against /repo's CURRENT working tree (path dependency, feature verif)."""
    os.makedirs(CACHE, exist_ok=True)
    lock_src, lock_dst = os.path.join(REPO, "Cargo.lock"), os.path.join(HARNESS, "Cargo.lock")
    if os.path.exists(lock_src):
        want = open(lock_src).read()
        have = open(lock_dst).read() if os.path.exists(lock_dst) else ""
        # keep our own package entry if the rest is unchanged
        if _strip_self(have) != _strip_self(want):
            open(lock_dst, "w").write(want)
    cmd = "cargo build --offline" + (" --release" if release else "")
    rc, out = sh(cmd, cwd=HARNESS, timeout=timeout)
    return rc == 0, out


def _strip_self(lock):
    return re.sub(r'\[\[package\]\]\nname = "bcharness"\n(?:.+\n)*?\n', "", lock)


def harness_bin(release=False):
    # BC_HARNESS_BIN: an instrumented build of the same harness (bin/coverage); never set by a registered check
    if os.environ.get("BC_HARNESS_BIN"):
        return os.environ["BC_HARNESS_BIN"]
    return os.path.join(TARGET, "release" if release else "debug", "bcharness")


def harness_run(args, stdin_text="", release=False, timeout=600, env=None):
    rc, out = sh([harness_bin(release)] + list(args), stdin=stdin_text, timeout=timeout, env=env)
    return rc, out


# ---------------------------------------------------------------- evidence / violations
def write_evidence(pid, tier, seed, level, coverage, assumptions, wall, violations=0):
    os.makedirs(os.path.join(ROOT, "evidence"), exist_ok=True)
    ev = {"property_id": pid, "tier": tier, "seed": seed, "level": level, "coverage": coverage,
          "assumptions": assumptions, "wall_s": round(wall, 2), "violations": violations}
    with open(os.path.join(ROOT, "evidence", pid + ".json"), "w") as f:
        json.dump(ev, f, indent=1, sort_keys=True)
        f.write("\n")


def write_replay(pid, obj):
    d = os.path.join(ROOT, "replays")
    os.makedirs(d, exist_ok=True)
    blob = json.dumps(obj, sort_keys=True, indent=1)
    h = hashlib.sha1(blob.encode()).hexdigest()[:12]
    p = os.path.join(d, "%s-%s.json" % (pid, h))
    with open(p, "w") as f:
        f.write(blob + "\n")
    return p


def load_known_findings():
    p = os.path.join(ROOT, "known_findings.json")
    if not os.path.exists(p):
        return []
    return json.load(open(p)).get("findings", [])


class Report:
    """Collects what one check run found and turns it into exit status, VIOLATION lines, evidence."""

    def __init__(self, pid, tier, seed):
        self.pid, self.tier, self.seed = pid, tier, seed
        self.t0 = time.time()
        self.failing = []        # concrete failing inputs (dicts), property oracle failed on the implementation
        self.disagree = []       # model/implementation disagreements (dicts)
        self.broken = []         # proof obligations / machinery that no longer check (strings)
        self.known = []          # known-finding lines
        self.obligations = []    # (name, discharged: bool)
        self.coverage = {}
        self.assumptions = []

    def obligation(self, name, ok):
        self.obligations.append((name, bool(ok)))
        if not ok:
            self.broken.append(name)

    def finish(self, level="proof"):
        cov = dict(self.coverage)
        cov["obligations"] = len(self.obligations)
        cov["discharged"] = sum(1 for _, ok in self.obligations if ok)
        cov["obligation_list"] = [{"name": n, "discharged": ok} for n, ok in self.obligations]
        if LAST_COQCHK is not None:
            cov["coqchk"] = LAST_COQCHK
        nviol = len(self.failing) + (1 if (not self.failing and (self.disagree or self.broken)) else 0)
        write_evidence(self.pid, self.tier, self.seed, level, cov, self.assumptions,
                       time.time() - self.t0, nviol)
        for k in self.known:
            print("KNOWN-FINDING: property=%s %s" % (self.pid, k))
        if self.failing:
            for f in self.failing[:3]:
                p = write_replay(self.pid, {"property": self.pid, "kind": "failing-input", **f})
                print("VIOLATION property=%s replay=%s" % (self.pid, p))
            sys.stdout.flush()
            return 1
        if self.disagree or self.broken:
            obj = {"property": self.pid, "kind": "obligation-no-longer-checks",
                   "obligations": self.broken,
                   "disagreements": self.disagree[:5],
                   "note": "no concrete input on which the property itself fails was found by the search"}
            p = write_replay(self.pid, obj)
            print("VIOLATION property=%s replay=%s no-failing-input-found" % (self.pid, p))
            sys.stdout.flush()
            return 1
        print("OK property=%s tier=%s obligations=%d/%d wall=%.1fs" % (
            self.pid, self.tier, cov["discharged"], cov["obligations"], time.time() - self.t0))
        return 0
