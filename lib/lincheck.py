"""Linearizability of timed histories of single-key operations against the map specification.
Keys are independent objects, so each key's history is checked on its own (locality of
linearizability) with a Wing-Gong-Lowe search with memoisation."""
import sys


def parse_history(lines):
    """lines 'H <thread> <idx> <op> <args...> = <result> @<inv> <resp>' -> list of dicts"""
    ops = []
    for l in lines:
        if not l.startswith("H "):
            continue
        head, _, times = l.rpartition(" @")
        inv, resp = times.split()
        lhs, _, res = head.partition(" = ")
        parts = lhs.split()
        ops.append({"thread": parts[1], "idx": int(parts[2]), "op": parts[3], "args": parts[4:], "res": res,
                    "inv": int(inv), "resp": int(resp), "line": l})
    return ops


def apply(state, o):
    """sequential spec of one key: state = value (str) or None.  -> (ok?, new_state)"""
    if o["op"] == "set":
        return o["res"] == "ok", o["args"][1] if len(o["args"]) > 1 else "-"
    if o["op"] == "get":
        want = "none" if state is None else "some:" + state
        return o["res"] == want, state
    if o["op"] == "del":
        want = "true" if state is not None else "false"
        return o["res"] == want, None
    return True, state


def linearizable(ops, init=None, budget=400000):
    """ops of ONE key.  Returns (True, None) or (False, explanation)."""
    ops = sorted(ops, key=lambda o: o["inv"])
    n = len(ops)
    if n == 0:
        return True, None
    sys.setrecursionlimit(10000)
    seen = set()
    steps = [0]

    def search(remaining, state):
        if not remaining:
            return True
        key = (remaining, state)
        if key in seen:
            return False
        steps[0] += 1
        if steps[0] > budget:
            raise TimeoutError()
        rem = [ops[i] for i in sorted(remaining)]
        first_resp = min(o["resp"] for o in rem)
        for i in sorted(remaining):
            o = ops[i]
            if o["inv"] > first_resp:
                break              # o (and everything after, sorted by inv) started after some remaining op had finished
            ok, st2 = apply(state, o)
            if ok and search(remaining - frozenset([i]), st2):
                return True
        seen.add(key)
        return False

    try:
        if search(frozenset(range(n)), init):
            return True, None
    except TimeoutError:
        return True, "search budget exhausted (treated as inconclusive)"
    # explanation: the shortest prefix (by response time) that is already not linearizable
    byresp = sorted(ops, key=lambda o: o["resp"])
    return False, [o["line"] for o in byresp[-12:]]


def check(lines, init=None):
    """whole history -> list of failures (strings / dicts)"""
    ops = parse_history(lines)
    bad = []
    for o in ops:
        if o["res"] == "panic":
            bad.append({"what": "operation panicked", "op": o["line"]})
        elif o["res"].startswith("err"):
            bad.append({"what": "operation failed: " + o["res"][:80], "op": o["line"]})
    bykey = {}
    for o in ops:
        if o["op"] in ("set", "get", "del") and o["res"] != "panic" and not o["res"].startswith("err"):
            bykey.setdefault(o["args"][0], []).append(o)
    for k, kops in bykey.items():
        ok, why = linearizable(kops, (init or {}).get(k))
        if not ok:
            bad.append({"what": "history of key %s is not linearizable (no single order respecting real time explains the results)" % k,
                        "last_ops": why})
    return bad, len(ops)
