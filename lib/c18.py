"""C18 — background merge and sync follow the configured policy."""
import concurrent.futures as cf

from common import Report, Rng, chunks, coq_bytes, coq_check_props, coq_eval, harness_build, harness_run, log, NCPU
import storelib as S
import tracelib as T

TRIGS = [(6, 10), (1, 2), (3, 4), (1, 4), (0, 1), (1, 1), (3, 5), (7, 10), (1, 3)]


def trigger_cases(rng, n):
    """states with chosen counters: [live] distinct keys set once, [dead] of them overwritten -> file 0 has
    live entries = live, dead entries = dead (all in one file, max_file_size huge)"""
    out = []
    for i in range(n):
        r = rng.fork()
        live, dead = r.rng(1, 12), r.rng(0, 12)
        tf = r.choice(TRIGS)
        tdead = r.choice([0, 100, 10 ** 9])
        # window:open = hours 0..23; window:closed = one single hour, twelve hours away from now
        pol = r.choice(["always"] * 7 + ["never", "window:open", "window:open", "window:closed"])
        ops = [("set", b"k%d" % j, b"v") for j in range(live)]
        for j in range(dead):
            ops.append(("set", b"k%d" % (j % live), b"w%d" % j))
        if r.chance(1, 4):
            ops.append(("del", b"missing"))
        if r.chance(1, 5):
            ops.append(("del", b"k0"))
        ops.append(("canmerge",))
        cfg = {"mfs": 2 ** 31, "cache": 256, "conc": 1, "frag": (1, 1), "dead": 10 ** 9, "small": 0, "sync": False}
        c = S.Case("t%d" % i, cfg, ops)
        c.extra = "policy=%s interval=3600000 tfrag=%d/%d tdead=%d" % (pol, tf[0], tf[1], tdead)
        c.pol, c.tf, c.tdead = pol, tf, tdead
        out.append(c)
    return out


def script(c):
    return c.script().replace(c.header(), c.header() + " " + c.extra, 1)


def timing_cases():
    base = {"mfs": 2 ** 31, "cache": 256, "conc": 1, "frag": (0, 1), "dead": 0, "small": 10 ** 9, "sync": False}
    hot = [("set", b"a", b"1"), ("set", b"a", b"2"), ("set", b"a", b"3"), ("set", b"a", b"4")]      # 3 dead of 4: 0.75 > 0.6
    cold = [("set", b"a", b"1"), ("set", b"b", b"2"), ("set", b"c", b"3"), ("set", b"a", b"4")]     # 1 dead of 4
    absent = [("set", b"a", b"1"), ("set", b"b", b"2"), ("sleep", 450)] + [("del", b"missing%d" % i) for i in range(10)]
    out = []
    for name, extra, ops, want in [
        ("always-hot", "policy=always interval=120 jitter=3/10 tfrag=6/10 tdead=1000000000", hot + [("waitmerge", 2500)], "merged"),
        ("always-hot-nojitter", "policy=always interval=150 jitter=0/1 tfrag=6/10 tdead=1000000000", hot + [("waitmerge", 2500)], "merged"),
        ("always-deadbytes", "policy=always interval=120 jitter=3/10 tfrag=1/1 tdead=50", hot + [("waitmerge", 2500)], "merged"),
        ("always-cold", "policy=always interval=100 jitter=3/10 tfrag=6/10 tdead=1000000000", cold + [("waitmerge", 700)], "nomerge"),
        ("never-hot", "policy=never interval=100 jitter=3/10 tfrag=6/10 tdead=1000000000", hot + [("waitmerge", 700)], "nomerge"),
        # the trigger is crossed only by deletes of absent keys, after an idle check (seed C18-A shape)
        # both periodic tasks enabled at once, the other one faster (seed C18-B shape): neither may starve the other
        ("always-hot-fast-sync", "policy=always interval=200 jitter=1/10 tfrag=6/10 tdead=1000000000 syncms=20", hot + [("waitmerge", 2500)], "merged"),
        ("always-hot-slow-sync", "policy=always interval=100 jitter=1/10 tfrag=6/10 tdead=1000000000 syncms=350", hot + [("waitmerge", 2500)], "merged"),
        ("always-tombstones", "policy=always interval=100 jitter=0/1 tfrag=6/10 tdead=1000000000", absent + [("waitmerge", 2500)], "merged"),
        # the first pass fails (the name of its output file is taken): the trigger stays exceeded, the next check must merge (seed C18-F shape)
        ("always-retry-after-failed-pass", "policy=always interval=120 jitter=3/10 tfrag=6/10 tdead=1000000000",
         [("touch", "1.bitcask.data")] + hot + [("waitmerge", 4000)], "merged"),
    ]:
        c = S.Case(name, dict(base), ops)
        c.extra, c.want = extra, want
        out.append(c)
    return out


def run_scripts(cases, env=None):
    def one(c):
        return harness_run(["store"], script(c), timeout=120, env=env)
    with cf.ThreadPoolExecutor(max_workers=8) as ex:
        outs = list(ex.map(one, cases))
    for c, (rc, out) in zip(cases, outs):
        c.impl = [l for l in out.split("\n") if l and not l.startswith("#") and not l.startswith("case ")]


def main(tier, seed):
    rep = Report("C18", tier, seed)
    rng = Rng(seed)
    pr = coq_check_props("C18")
    for t in pr["theorems"]:
        rep.obligation("theorem " + t, pr["ok"])
    if not pr["theorems"]:
        rep.obligation("Props/C18.v compiles", pr["ok"])
    if not pr["ok"]:
        log(pr["log"])
    ok, out = harness_build(False)
    oks, outs = T.build_shim()
    rep.obligation("harness and recorder build", ok and oks)
    if not (ok and oks):
        log((out + outs)[-3000:])
        rep.coverage.update({"checker_cmd": "make -C coq Props/C18.vo", "trusted_base": TRUSTED})
        return rep.finish()
    # (a) the trigger predicate: implementation hook vs binary64 model
    tcases = trigger_cases(rng, {"quick": 150, "thorough": 3000}[tier])
    run_scripts(tcases)
    shards = chunks(tcases, max(NCPU, len(tcases) // 40))

    def coq_ops(c):
        items = []
        for o in c.ops:
            if o[0] == "set":
                items.append("OSet %s %s" % (coq_bytes(o[1]), coq_bytes(o[2])))
            elif o[0] == "del":
                items.append("ODel %s" % coq_bytes(o[1]))
        return "[" + "; ".join(items) + "]"
    terms = ["render_triggers [%s]" % "; ".join(
        "(mkCfg %d false 1 1 1000000000 0, %s, mkTrig %d %d %d, %s)" % (c.cfg["mfs"], {"always": "PAlways", "never": "PNever", "window:open": "(PWindow 0 23 12)", "window:closed": "(PWindow 0 0 12)"}[c.pol],
                                                                       c.tf[0], c.tf[1], c.tdead, coq_ops(c)) for c in sh) for sh in shards]
    res, logs = coq_eval("C18", "Store.Engine Sys.Trigger Sys.RenderSys", terms)
    for l in logs[:2]:
        log(l)
    model = []
    for sh, r in zip(shards, res):
        ls = r.split("\n") if (r is not None and sh) else []
        model.extend(ls if len(ls) == len(sh) else [None] * len(sh))
    rep.obligation("model evaluates on every trigger case", all(m is not None for m in model))
    ndis, ntrue = 0, 0
    for c, m in zip(tcases, model):
        got = c.impl[-2] if len(c.impl) >= 2 else "missing"
        if got == "true":
            ntrue += 1
        if c.pol in ("never", "window:closed") and got != "false":
            rep.failing.append({"what": "the merge trigger is reported with policy %s" % c.pol, "case": c.show(), "extra": c.extra})
        if m is not None and got != m:
            ndis += 1
            rep.disagree.append({"obligation": "correspondence trigger: can_merge (binary64 model) = implementation", "case": c.show(),
                                 "config": c.extra, "impl": got, "model": m})
    rep.obligation("correspondence trigger: model = implementation on every state", ndis == 0)
    # (b) timing: a merge appears / does not appear without any client action
    timing = timing_cases()
    run_scripts(timing)
    for c in timing:
        got = c.impl[-2] if len(c.impl) >= 2 else "missing"
        if got != c.want:
            what = {"merged": "no background merge ran within the check interval (+jitter, +2 s slack) although a trigger is exceeded",
                    "nomerge": "a background merge ran although " + ("the policy is never" if "never" in c.name else "no trigger is exceeded")}[c.want]
            rep.failing.append({"what": what, "scenario": c.name, "config": c.extra, "ops": [S.show_op(o) if o[0] in ("set", "del") else str(o) for o in c.ops], "got": got})
    # (c) interval sync: fsync of the active file at least once per interval
    sc = S.Case("sync-interval", {"mfs": 2 ** 31, "cache": 256, "conc": 1, "frag": (1, 1), "dead": 10 ** 9, "small": 0, "sync": False},
                [("set", b"a", b"1"), ("sleep", 200), ("set", b"b", b"2"), ("sleep", 300), ("set", b"c", b"3"), ("sleep", 100)])
    sc.extra = "policy=never syncms=50"
    import os
    logp = os.path.join(T.CACHE, "iolog-c18.txt")
    if os.path.exists(logp):
        os.remove(logp)
    harness_run(["store"], script(sc), timeout=60, env={"LD_PRELOAD": T.SHIM, "IOREC_LOG": logp})
    nsync = 0
    if os.path.exists(logp):
        nsync = sum(1 for l in open(logp) if l.startswith("fsync 0.bitcask.data"))
        os.remove(logp)
    if nsync < 6:
        rep.failing.append({"what": "interval sync: the active file was forced %d times in 600 ms with a 50 ms interval" % nsync, "scenario": sc.extra})
    # the same with a (faster) merge check running beside it and no trigger exceeded
    sc3 = S.Case("sync-beside-merge-check", dict(sc.cfg), list(sc.ops))
    sc3.extra = "policy=always interval=20 jitter=1/10 tfrag=1/1 tdead=1000000000 syncms=120"
    harness_run(["store"], script(sc3), timeout=60, env={"LD_PRELOAD": T.SHIM, "IOREC_LOG": logp})
    nsync3 = 0
    if os.path.exists(logp):
        nsync3 = sum(1 for l in open(logp) if l.startswith("fsync 0.bitcask.data"))
        os.remove(logp)
    if nsync3 < 3:
        rep.failing.append({"what": "interval sync beside a 20 ms merge check: the active file was forced %d times in 600 ms with a 120 ms interval" % nsync3,
                            "scenario": sc3.extra})
    # the active file is replaced between two ticks and the new one reaches exactly the size the old one had at the last sync
    # (seed C18-D shape): the new file must be forced within a few intervals all the same
    v34 = b"v" * 34                                # 17 + 2 + 8 + 34 = 61 bytes per entry
    sc4 = S.Case("sync-after-rotation", {"mfs": 200, "cache": 256, "conc": 1, "frag": (1, 1), "dead": 10 ** 9, "small": 0, "sync": False},
                 [("set", b"k1", v34), ("set", b"k2", v34), ("set", b"k3", v34), ("sleep", 400),
                  ("set", b"k4", v34), ("set", b"k5", v34), ("set", b"k6", v34), ("set", b"k7", v34), ("sleep", 1200)])
    sc4.extra = "policy=never syncms=100"
    harness_run(["store"], script(sc4), timeout=60, env={"LD_PRELOAD": T.SHIM, "IOREC_LOG": logp})
    nsync4 = 0
    if os.path.exists(logp):
        nsync4 = sum(1 for l in open(logp) if l.startswith("fsync 1.bitcask.data"))
        os.remove(logp)
    if nsync4 < 1:
        rep.failing.append({"what": "interval sync: after the active file was replaced, the new active file (same size as the old one at its last sync) "
                                    "was not forced once in 1.2 s with a 100 ms interval", "scenario": sc4.extra, "ops": [S.show_op(o) if o[0] == "set" else str(o) for o in sc4.ops]})
    sc2 = S.Case("sync-none", dict(sc.cfg), list(sc.ops))
    sc2.extra = "policy=never"
    harness_run(["store"], script(sc2), timeout=60, env={"LD_PRELOAD": T.SHIM, "IOREC_LOG": logp})
    nsync0 = sum(1 for l in open(logp) if l.startswith("fsync ")) if os.path.exists(logp) else 0
    rep.obligation("timing and sync scenarios behave as the transition system says", not rep.failing)
    rep.coverage.update({
        "checker_cmd": "make -C coq Props/C18.vo (coqc 8.16.1) ; bin/check C18",
        "trusted_base": TRUSTED,
        "evaluations": len(tcases) + len(timing) + 4, "fsyncs_after_rotation": nsync4, "fsyncs_beside_merge_check": nsync3, "trigger_true": ntrue,
        "distinct_nontrivial": len(set((c.pol, c.tf, c.tdead, c.impl[-2] if len(c.impl) >= 2 else "") for c in tcases)),
        "rule": "trigger: states with 1-12 live and 0-12 dead entries (+ tombstones of absent and present keys), 9 fragmentation "
                "triggers incl. 0.6 and 3/5, 3 dead-bytes triggers, policies always / never / window (open all day, closed now): verif_can_merge() vs the binary64 model; timing: nine "
                "scenarios with 100-150 ms check intervals (merge appears within 2.5 s / does not within 0.7 s), two of them with interval sync enabled beside the merge check; interval sync (alone, and beside a faster merge check): "
                "fsync calls on the active file counted by the recorder over 600 ms with a 50 ms interval (%d seen, %d with sync off)" % (nsync, nsync0),
        "samples": [{"config": tcases[0].extra, "ops": [S.show_op(o) for o in tcases[0].ops[:8] if o[0] in ("set", "del")]}],
        "proof": {"file": "coq/Props/C18.v", "theorems": pr["theorems"], "axioms": pr["axioms"]},
    })
    rep.assumptions = ["real time abstracted to ticks in the model; timing observed with generous slack",
                       "Flocq's classical axioms appear in Print Assumptions of C18_f64_agrees_small only if Flocq proofs are used (they are not: computation only)"]
    return rep.finish()


TRUSTED = ["Coq 8.16.1 kernel, vm_compute; Flocq 4 binary64 (executable definitions only)",
           "coq/Sys/{Trigger,Background}.v; harness/src/store.rs (canmerge, waitmerge), shim/iorec.c, lib/c18.py"]
