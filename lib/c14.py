"""C14 — data files are append-only and immutable, with ids that only grow."""
from common import Report, Rng, chunks, coq_check_props, coq_eval, harness_build, log, NCPU
import storelib as S
import tracelib as T
import crashlib as C

PROFILE = {"weights": {"set": 10, "del": 4, "merge": 3, "reopen": 3, "get": 1},
           "cfg": lambda r: {"mfs": r.choice([0, 30, 60, 100, 200, 30000]), "sync": r.chance(1, 3)}}


def discipline(c):
    """Independent re-statement of the property on the recorded real trace (no model involved)."""
    bad = list(c.trace["raw_bad"])
    exists, sizes, ever, cur = set(), {}, -1, None
    mfs = c.cfg["mfs"]
    for i in range(-1, len(c.ops)):
        for call in c.trace["ops"].get(i, []):
            fid = int(call.name.split(".")[0])
            if call.kind == "create":
                if call.name in exists:
                    bad.append("%s created twice" % call.name)
                if call.name.endswith(".data"):
                    if fid <= ever:
                        bad.append("data file %d created although id %d was already used" % (fid, ever))
                    ever = max(ever, fid)
                    cur = fid
                elif fid != cur:
                    bad.append("hint file %d created while the current data file is %s" % (fid, cur))
                exists.add(call.name)
                sizes[call.name] = 0
            elif call.kind == "write":
                if call.name not in exists:
                    bad.append("write to %s which this process did not create" % call.name)
                if fid != cur:
                    bad.append("write to %s after a newer data file (%s) was created" % (call.name, cur))
                if call.name.endswith(".data") and sizes.get(call.name, 0) > mfs:
                    bad.append("%s extended although it already exceeded max_file_size (%d > %d)" % (call.name, sizes[call.name], mfs))
                sizes[call.name] = sizes.get(call.name, 0) + len(call.data)
            elif call.kind == "unlink":
                exists.discard(call.name)
    return bad


def main(tier, seed):
    rep = Report("C14", tier, seed)
    rng = Rng(seed)
    pr = coq_check_props("C14")
    for t in pr["theorems"]:
        rep.obligation("theorem " + t, pr["ok"])
    if not pr["theorems"]:
        rep.obligation("Props/C14.v compiles", pr["ok"])
    if not pr["ok"]:
        log(pr["log"])
    ok, out = harness_build(False)
    oks, outs = T.build_shim()
    rep.obligation("harness and recorder build", ok and oks)
    if not (ok and oks):
        log((out + outs)[-3000:])
        rep.coverage.update({"checker_cmd": "make -C coq Props/C14.vo", "trusted_base": TRUSTED})
        return rep.finish()
    n = {"quick": 300, "thorough": 5000}[tier]
    cases = S.gen_cases(rng, n, PROFILE, maxlen=18)
    died = T.run_recorded(cases)
    # model traces and monitor verdicts
    shards = chunks(cases, max(NCPU, len(cases) // 40))
    terms = ["render_cases_traces [%s]" % "; ".join(S.coq_case(c) for c in sh) for sh in shards]
    terms += ["render_monitors [%s]" % "; ".join("(%d, %s)" % (c.cfg["mfs"], T.coq_trace(T.flat_trace(c))) for c in sh) for sh in shards]
    res, logs = coq_eval("C14", "Store.Engine Store.Trace Store.Render", terms)
    for l in logs[:2]:
        log(l)
    model_ok = all(r is not None for r in res)
    rep.obligation("model and monitor evaluate on every case", model_ok)
    ndis, nrej, ncalls, kinds = 0, 0, 0, {}
    if model_ok:
        for sh, rt, rm in zip(shards, res[:len(shards)], res[len(shards):]):
            tl = rt.split("\n") if sh else []
            ml = rm.split("\n") if sh else []
            i = 0
            for ci, c in enumerate(sh):
                nl = len(c.ops) + 1
                mtrace = tl[i:i + nl]
                i += nl
                real = T.trace_lines(c)
                for call in T.flat_trace(c):
                    kinds[call.kind] = kinds.get(call.kind, 0) + 1
                    ncalls += 1
                if c.name not in died and mtrace != real:
                    k = next((j for j in range(min(len(mtrace), len(real))) if mtrace[j] != real[j]), 0)
                    ndis += 1
                    rep.disagree.append({"obligation": "correspondence traces: model = recorded implementation",
                                         "case": c.show(), "at_op": k - 1, "impl": real[k][:400], "model": mtrace[k][:400]})
                verdict = ml[ci] if ci < len(ml) else "?"
                if verdict != "ok":
                    nrej += 1
                    rep.failing.append({"what": "the file-discipline monitor rejects the recorded trace (%s)" % verdict,
                                        "case": c.show(), "trace": [x.show() for x in T.flat_trace(c)][:80]})
    for c in cases:
        bad = discipline(c)
        if bad:
            rep.failing.append({"what": bad[0], "all": bad[:5], "case": c.show(),
                                "trace": [x.show() for x in T.flat_trace(c)][:80]})
        if c.name in died:
            rep.failing.append({"what": "the store process died or hung under the recorder", "case": c.show()})
    # recovery of directories left by a killed process must obey the discipline too: nothing truncated, renamed, reopened for writing
    sub = [c for c in cases if c.name not in died][:{"quick": 40, "thorough": 400}[tier]]
    items = C.build_items(sub, rng, cuts_per_write=1, max_points=6)
    forb = C.recover_forbidden_calls(items)
    if forb:
        rep.failing.append({"what": "while recovering a directory left by a killed process the store issued a call the file discipline forbids: " + forb[0],
                            "all": sorted(set(forb))[:8], "images": len(items)})
    rep.obligation("recovery of %d crash images issues no truncate / rename / positional write / open-for-write" % len(items), not forb)
    rep.obligation("correspondence traces: model = recorded implementation on every operation", ndis == 0)
    rep.obligation("monitor accepts every recorded trace", nrej == 0)
    rep.failing.sort(key=lambda f: len(f["case"]["ops"]) if "case" in f else 0)
    rep.coverage.update({
        "checker_cmd": "make -C coq Props/C14.vo (coqc 8.16.1) ; bin/check C14",
        "trusted_base": TRUSTED,
        "evaluations": len(cases),
        "traces_validated_against_impl": len(cases) - len(died),
        "distinct_nontrivial": len(set((tuple(o[0] for o in c.ops), c.cfg["mfs"]) for c in cases
                                       if any(o[0] in ("merge", "reopen") for o in c.ops))),
        "rule": "distinct (operation kinds, max_file_size) among scripts with a merge or reopen; each script runs on the real "
                "store under the LD_PRELOAD recorder; the recorded mutating calls are compared per operation with the model's "
                "trace, fed to the Coq monitor, and checked by an independent re-statement of the discipline; crash images cut from "
                "the recorded traces are recovered under the recorder as well (no truncate / rename / reopen for writing)",
        "calls_recorded": ncalls, "call_kinds": kinds,
        "samples": [{"case": cases[0].show(), "trace": [x.show() for x in T.flat_trace(cases[0])][:30]}],
        "proof": {"file": "coq/Props/C14.v", "theorems": pr["theorems"], "axioms": pr["axioms"]},
    })
    rep.assumptions = ["the recorder sees every mutating libc call on *.bitcask.* files (open/openat/write/pwrite/fsync/unlink/"
                       "rename/ftruncate/mmap); raw syscalls bypassing libc would not be seen",
                       "absence of truncate/rename/reopen-for-write in ALL executions is monitored, not proved"]
    return rep.finish()


TRUSTED = [
    "Coq 8.16.1 kernel, coqc, vm_compute",
    "coq/Store/Trace.v monitor (proved sound w.r.t. the stated consequences) evaluated on recorded traces",
    "shim/iorec.c (LD_PRELOAD recorder), harness/src/store.rs, lib/tracelib.py, lib/c14.py",
    "model traces: one write per appended record (the real BufWriter may split an append; adjacent writes are coalesced)",
]
