"""Crash and power-loss images cut from RECORDED real traces, opened by the real code."""
import concurrent.futures as cf
import os
import shutil

from common import NCPU, chunks, harness_run
import respgen as G
import storelib as S
import tracelib as T

SCRATCH = "/dev/shm/bcv-crash-%d" % os.getpid()


def spec_states(c):
    """map state after each op (index i = after ops[0..i]); index -1 = empty"""
    m, out = {}, []
    for o in c.ops:
        if o[0] == "set":
            m = dict(m)
            m[o[1]] = o[2]
        elif o[0] == "del":
            m = dict(m)
            m.pop(o[1], None)
        out.append(m)
    return out


def keys_of(c):
    ks = []
    for o in c.ops:
        if o[0] in ("set", "get", "del") and o[1] not in ks:
            ks.append(o[1])
    return ks


def crash_points(c, rng, cuts_per_write, power=False):
    """-> list of (op index in flight, description, files: {name: bytes})"""
    files, synced, pts = {}, {}, []
    calls = []
    for i in range(-1, len(c.ops)):
        for call in c.trace["ops"].get(i, []):
            calls.append((i, call))

    def snap(i, desc):
        if not power:
            pts.append((i, desc, dict(files)))
            return
        # power loss: every file independently cut somewhere between its synced and its current length
        mins = {n: b[:synced.get(n, 0)] for n, b in files.items()}
        pts.append((i, desc + " [only synced bytes]", mins))
        for _ in range(2):
            img = {}
            for n, b in files.items():
                lo = synced.get(n, 0)
                img[n] = b[:rng.rng(lo, len(b))] if len(b) > lo else b
            pts.append((i, desc + " [random unsynced suffix lost]", img))

    snap(-1, "before anything")
    for j, (i, call) in enumerate(calls):
        if call.kind == "create":
            files[call.name] = b""
        elif call.kind == "write":
            if cuts_per_write and len(call.data) > 1 and not power:
                cuts = sorted(set([1, len(call.data) - 1] + [rng.rng(1, len(call.data) - 1) for _ in range(cuts_per_write)]))
                for cut in cuts[:cuts_per_write + 1]:
                    part = dict(files)
                    part[call.name] = files.get(call.name, b"") + call.data[:cut]
                    pts.append((i, "inside %s after %d of %d bytes" % (call.show(), cut, len(call.data)), part))
            files[call.name] = files.get(call.name, b"") + call.data
        elif call.kind == "fsync":
            synced[call.name] = len(files.get(call.name, b""))
        elif call.kind == "unlink":
            files.pop(call.name, None)
            synced.pop(call.name, None)
        # after this call; the operation it belongs to is in flight unless it was its last call
        last_of_op = (j + 1 == len(calls)) or calls[j + 1][0] != i
        snap(i, "after call %d (%s) of op %d%s" % (j, call.show(), i, " [op complete]" if last_of_op else ""))
    return pts


def materialise(path, files):
    os.makedirs(path, exist_ok=True)
    for n, b in files.items():
        i, ext = n.split(".")
        with open(os.path.join(path, "%s.bitcask.%s" % (i, ext)), "wb") as f:
            f.write(b)


def _run_recover(lines):
    rc, out = harness_run(["recover"], "\n".join(lines) + "\n", timeout=900)
    return [l for l in out.split("\n") if l.startswith("open:")], rc, out


def check_images(items):
    """items: list of dict(case, op, desc, files, keys, before, after).  Opens every image with the real code.
    Returns (failures, n_opened)."""
    shutil.rmtree(SCRATCH, ignore_errors=True)
    os.makedirs(SCRATCH)
    lines = []
    for n, it in enumerate(items):
        p = os.path.join(SCRATCH, "i%d" % n)
        materialise(p, it["files"])
        lines.append("R %s mfs=%d %s" % (p, it["case"].cfg["mfs"], ",".join(G.rawhex(k) for k in it["keys"])))
    shards = chunks(list(zip(items, lines)), NCPU)
    failures, opened = [], 0
    with cf.ThreadPoolExecutor(max_workers=NCPU) as ex:
        results = list(ex.map(lambda sh: _run_recover([l for _, l in sh]), shards))
    for sh, (outl, rc, raw) in zip(shards, results):
        for k, (it, _) in enumerate(sh):
            if k >= len(outl):
                failures.append((it, "the process died or hung while opening this image (exit %s)" % rc))
                break
            res = outl[k]
            opened += 1
            if not res.startswith("open:ok"):
                failures.append((it, "the directory cannot be opened: " + res[:200]))
                continue
            body = res.split(" ")
            got = {}
            for kv in (body[1].split(",") if len(body) > 1 and "=" in body[1] and not body[1].startswith("write=") else []):
                kk, _, vv = kv.partition("=")
                got[kk] = vv
            w = [x for x in body if x.startswith("write=")]
            if w and w[0] != "write=ok":
                failures.append((it, "the recovered store rejects a write: " + w[0]))
            l3 = [x for x in body if x.startswith("life3=")]
            if l3 and l3[0] not in ("life3=ok", "life3=skipped"):
                failures.append((it, "after recovery the store acknowledged a set of a new key, an overwrite and a delete; after one more "
                                     "restart they are not all there: " + l3[0][:200]))
            for key in it["keys"]:
                g = got.get(G.hexs(key))
                vb = it["before"].get(key)
                va = it["after"].get(key)
                allowed = {("some:" + G.hexs(v)) if v is not None else "none" for v in (vb, va)}
                if g not in allowed:
                    failures.append((it, "key %s reads %s after recovery; acknowledged: %s, with the operation in flight: %s" % (
                        G.rawhex(key), g, "some" if vb is not None else "none", "some" if va is not None else "none")))
                    break
    shutil.rmtree(SCRATCH, ignore_errors=True)
    return failures, opened


def build_items(cases, rng, cuts_per_write, power=False, max_points=None):
    items = []
    for c in cases:
        if not c.trace.get("ended"):
            continue
        states = spec_states(c)
        keys = keys_of(c)
        pts = crash_points(c, rng, cuts_per_write, power)
        if max_points and len(pts) > max_points:
            pts = [pts[i] for i in sorted(rng.shuffle(range(len(pts)))[:max_points])]
        for (i, desc, files) in pts:
            before = states[i - 1] if i >= 1 else {}
            after = states[i] if i >= 0 else {}
            items.append({"case": c, "op": i, "desc": desc, "files": files, "keys": keys, "before": before, "after": after})
    return items


def recover_forbidden_calls(items):
    """Opens the images with the real code UNDER THE RECORDER and returns the calls of the recovering processes that the file
    discipline forbids (truncate, rename, positional write, writable mapping, opening an existing store file for writing)."""
    scratch = SCRATCH + "-rec"
    shutil.rmtree(scratch, ignore_errors=True)
    os.makedirs(scratch)
    lines = []
    for n, it in enumerate(items):
        p = os.path.join(scratch, "i%d" % n)
        materialise(p, it["files"])
        lines.append("R %s mfs=%d %s" % (p, it["case"].cfg["mfs"], ",".join(G.rawhex(k) for k in it["keys"])))
    shards = chunks(lines, NCPU)

    def one(arg):
        i, sh = arg
        logp = os.path.join(T.CACHE, "iolog-recover-%d-%d.txt" % (os.getpid(), i))
        if os.path.exists(logp):
            os.remove(logp)
        harness_run(["recover"], "\n".join(sh) + "\n", timeout=900, env={"LD_PRELOAD": T.SHIM, "IOREC_LOG": logp})
        bad = []
        if os.path.exists(logp):
            for l in open(logp, errors="replace"):
                if l.split(" ")[0] in ("openw", "pwrite", "rename", "truncate", "mmapw"):
                    bad.append(l.strip()[:120])
            os.remove(logp)
        return bad
    out = []
    with cf.ThreadPoolExecutor(max_workers=NCPU) as ex:
        for b in ex.map(one, list(enumerate(shards))):
            out += b
    shutil.rmtree(scratch, ignore_errors=True)
    return out
