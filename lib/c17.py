"""C17 — a closed store rejects all use and stops its background worker."""
from common import Report, Rng, coq_check_props, harness_build, log
import storelib as S


def make(rng, tier):
    n = {"quick": 12, "thorough": 150}[tier]
    cases = []
    for i in range(n):
        r = rng.fork()
        cfg = S.gen_cfg(r)
        cfg["mfs"] = r.choice([30, 100, 30000])
        ops = [("set", b"k", b"v1"), ("set", b"a", b"1")]
        for _ in range(r.rng(0, 4)):
            ops.append(("set", r.choice([b"k", b"a", b"b"]), r.bytes(r.rng(0, 20))))
        # more gets than the pool has readers: every one of them must fail, none may wait for a reader
        extra_gets = [("oldget", r.choice([b"k", b"a", b"absent"])) for _ in range(cfg.get("conc", 1) + 2)]
        ops += [("waitthreads", 1, 3000), ("ls",), ("drop",),
                ("oldget", b"k"), ("oldset", b"k", b"after-close"), ("olddel", b"k"), ("oldmerge",), ("oldsync",)] + extra_gets + [
                ("waitthreads", 0, 3000), ("ls",), ("reopen",), ("get", b"k"), ("get", b"a"), ("waitthreads", 1, 3000)]
        cycles = r.rng(3, 12)
        for cy in range(cycles):
            ops += [("reopen",)]
            if cy == 1:
                ops += [("waitthreads", 1, 3000), ("waitfds", 2, 3000)]
            ops += [("set", b"c", r.bytes(4)), ("get", b"k")]
        ops += [("reopen",)]
        ops += [("waitthreads", 1, 3000), ("waitfds", 2, 3000), ("get", b"k")]
        if i % 3 == 2:
            # the store is dropped while a merge pass is in flight on another thread (seed C17-D shape): closed must stay closed
            j = ops.index(("drop",))
            # (the pass that was already running may finish: the directory is listed again once it has)
            ops[j:j + 1] = [("parkpoint", "merge:after_copy", 300), ("bgmerge",), ("sleep", 100), ("drop",), ("sleep", 700), ("nopoints",), ("ls",)]
        c = S.Case("x%d" % i, cfg, ops)
        c.cycles = cycles
        c.inflight = ("bgmerge",) in ops
        c.policy = ["always", "never", "window:open", "window:closed"][i % 4]
        if c.policy == "never":
            # with policy never and no interval sync both periodic tasks return at once: the worker thread ends by itself
            c.ops = [("waitthreads", 0, o[2]) if o[0] == "waitthreads" else o for o in c.ops]
        cases.append(c)
    return cases


def script(c):
    out = [c.header() + " policy=%s interval=3600000 tdead=1000000000 tfrag=1/1" % c.policy]
    for o in c.ops:
        if o[0] in ("oldset",):
            out.append("oldset %s %s" % (o[1].hex(), o[2].hex()))
        elif o[0] in ("oldget", "olddel"):
            out.append("%s %s" % (o[0], o[1].hex()))
        elif o[0] == "sleep":
            out.append("sleep %d" % o[1])
        elif o[0] == "parkpoint":
            out.append("parkpoint %s %d" % (o[1], o[2]))
        elif o[0] in ("waitthreads", "waitfds"):
            out.append("%s %d %d" % (o[0], o[1], o[2]))
        elif o[0] == "set":
            out.append("set %s %s" % (o[1].hex() or "-", o[2].hex() or "-"))
        elif o[0] in ("get", "del"):
            out.append("%s %s" % (o[0], o[1].hex() or "-"))
        else:
            out.append(o[0])
    out.append("END")
    return "\n".join(out) + "\n"


def main(tier, seed):
    from common import harness_run
    rep = Report("C17", tier, seed)
    rng = Rng(seed)
    pr = coq_check_props("C17")
    for t in pr["theorems"]:
        rep.obligation("theorem " + t, pr["ok"])
    if not pr["theorems"]:
        rep.obligation("Props/C17.v compiles", pr["ok"])
    if not pr["ok"]:
        log(pr["log"])
    ok, out = harness_build(False)
    rep.obligation("harness builds against /repo", ok)
    if not ok:
        log(out[-3000:])
        rep.coverage.update({"checker_cmd": "make -C coq Props/C17.vo", "trusted_base": TRUSTED})
        return rep.finish()
    cases = make(rng, tier)
    # one process per case: thread and descriptor counts are per process
    import concurrent.futures as cf
    with cf.ThreadPoolExecutor(max_workers=8) as ex:
        outs = list(ex.map(lambda c: harness_run(["store"], script(c), timeout=300), cases))
    nobs = 0
    for c, (rc, out) in zip(cases, outs):
        lines = [l for l in out.split("\n") if l and not l.startswith("#") and not l.startswith("case ")]
        if not lines or lines[-1] != "end":
            rep.failing.append({"what": "store process died or hung", "case": c.show(), "out": lines[-5:]})
            continue
        res = dict()
        seq = list(zip(c.ops, lines[1:]))
        def at(k, nth=0):
            xs = [l for o, l in seq if o[0] == k]
            return xs[nth] if len(xs) > nth else None
        bad = []
        for k in ("oldget", "oldset", "olddel", "oldmerge", "oldsync"):
            nobs += 1
            if at(k) != "err:Storage has been closed":
                bad.append("%s through a handle that outlived the store returned %s instead of the closed error" % (k, at(k)))
        for j, l in enumerate([l for o, l in seq if o[0] == "oldget"]):
            nobs += 1
            if l != "err:Storage has been closed":
                bad.append("get number %d through a handle that outlived the store: %s instead of the closed error (pool of %d readers)"
                           % (j + 1, l, c.cfg.get("conc", 1)))
                break
        lss = [l for o, l in seq if o[0] == "ls"]
        if len(lss) >= 2 and lss[-2] != lss[-1]:
            bad.append("the directory changed after the store was closed: %s -> %s" % (lss[-2], lss[-1]))
        open_threads = "threads 0" if c.policy == "never" else "threads 1"
        if at("waitthreads", 0) != open_threads:
            bad.append("expected one background thread while open, saw %s" % at("waitthreads", 0))
        if at("waitthreads", 1) != "threads 0":
            bad.append("the background worker is still alive 3 s after the store was dropped (its next timer is an hour away): %s" % at("waitthreads", 1))
        if at("reopen", 0) != "ok":
            bad.append("the directory cannot be opened again at once: %s" % at("reopen", 0))
        gets = [l for o, l in seq if o[0] == "get"]
        if gets and gets[0] != "some:7631" and all(o != ("set", b"k") for o in []):
            pass
        # after many open/close cycles: exactly one worker thread, and a bounded number of descriptors
        if at("waitthreads", 4) != open_threads:
            bad.append("after %d open/close cycles %s background threads exist" % (c.cycles, at("waitthreads", 4)))
        f1, f2 = at("waitfds", 0), at("waitfds", 1)
        # the old handle of an in-flight merge also keeps the readers its writer opened for copying: at most one per data
        # file that existed when the store was dropped (what must not happen is growth from cycle to cycle)
        nfiles = len([x for x in (lss[0].split()[1] if lss and " " in lss[0] else "").split(",") if ".data=" in x]) if lss else 0
        fdmax = 2 + nfiles if c.inflight else 2
        if f1 is None or f2 is None or int(f2.split()[1]) > fdmax or int(f1.split()[1]) > fdmax or int(f2.split()[1]) > int(f1.split()[1]):
            bad.append("descriptors on store files do not go back to 2 (current writer + the surviving old handle) after a reopen: "
                       "%s after 2 cycles, %s after %d cycles" % (f1, f2, c.cycles))
        nobs += 6
        # the value written through the closed handle must not be there
        lastk = [l for o, l in seq if o == ("get", b"k")]
        if lastk and lastk[0] == "some:" + b"after-close".hex():
            bad.append("a set through a closed handle took effect")
        if bad:
            rep.failing.append({"what": bad[0], "all": bad, "case": c.show(), "out": lines[:40]})
    rep.obligation("every observation agrees with the model (closed error, unchanged directory, worker gone, reopen ok, no accumulation)", not rep.failing)
    rep.coverage.update({
        "checker_cmd": "make -C coq Props/C17.vo (coqc 8.16.1) ; bin/check C17",
        "trusted_base": TRUSTED,
        "evaluations": len(cases), "observations": nobs, "distinct_nontrivial": len(set(c.cycles for c in cases)) + 1,
        "policies": sorted(set(c.policy for c in cases)),
        "rule": "per process (merge policy always / never / window open all day / window closed now, in turn): write, drop the store while a handle "
                "survives, try get/set/del/merge/sync through it and then pool-size+2 more gets (each with a 3 s deadline), compare directory "
                "listings, count background threads (/proc/self/task/*/comm) 60 ms after the drop with a one-hour timer, reopen, then "
                "(in every third case the drop happens while a merge pass is parked in its copy loop on another thread), "
                "3-12 open/close cycles and count threads and store descriptors (/proc/self/fd); distinct = cycle counts",
        "samples": [{"ops": [S.show_op(o) if o[0] in ("set", "get", "del") else str(o) for o in cases[0].ops[:16]]}],
        "proof": {"file": "coq/Props/C17.v", "theorems": pr["theorems"], "axioms": pr["axioms"]},
    })
    rep.assumptions = ["thread exit and descriptor release are observed with a 60-80 ms grace period"]
    return rep.finish()


TRUSTED = ["Coq 8.16.1 kernel; coq/Sys/Close.v (closed flag, worker select)", "harness/src/store.rs lifecycle operations, lib/c17.py; OS threads and descriptors: runtime behaviour"]
