"""Storage-engine scripts: generation, running them on the implementation (harness `store` mode) and
on the Coq model (Store/Render.v), the map-spec oracle, and an independent scan of data files."""
import concurrent.futures as cf
import struct

from common import NCPU, chunks, coq_bytes, coq_eval, harness_run, log
import respgen as G

KEYS = [b"k", b"a", b"b", b"", b"key\x00\xff", b"x" * 40, "kéy".encode(), b"zz"]
MFS = [0, 30, 60, 200, 30000, 2 ** 31]
FRAGS = [(0, 1), (1, 4), (1, 2), (3, 4), (1, 1)]
DEADS = [0, 30, 100, 10 ** 9]
SMALLS = [0, 50, 200, 10 ** 9]


class Case:
    def __init__(self, name, cfg, ops):
        self.name, self.cfg, self.ops = name, cfg, ops
        self.impl = None      # list of output lines (one per op, plus "open ok" first and "end" last)
        self.orders = None    # merge copy orders read back from the implementation, one per merge op
        self.selected = None
        self.model = None

    def header(self):
        c = self.cfg
        return "CASE %s mfs=%d cache=%d conc=%d sync=%s frag=%d/%d dead=%d small=%d" % (
            self.name, c["mfs"], c["cache"], c["conc"], "always" if c.get("sync") else "none",
            c["frag"][0], c["frag"][1], c["dead"], c["small"])

    def script(self):
        out = [self.header()]
        for o in self.ops:
            if o[0] == "set":
                out.append("set %s %s" % (G.rawhex(o[1]), valspec(o[2])))
            elif o[0] in ("get", "del"):
                out.append("%s %s" % (o[0], G.rawhex(o[1])))
            elif o[0] == "clock":
                out.append("clock %d" % o[1])
            elif o[0] == "failat":
                out.append("failat %d" % o[1])
            else:
                out.append(" ".join([o[0]] + [str(x) for x in o[1:]]))
        out.append("END")
        return "\n".join(out) + "\n"

    def show(self):
        return {"cfg": self.cfg, "ops": [show_op(o) for o in self.ops]}


def show_op(o):
    if o[0] == "set":
        return "set %s %s" % (G.rawhex(o[1]), valspec(o[2]))
    if o[0] in ("get", "del"):
        return "%s %s" % (o[0], G.rawhex(o[1]))
    if o[0] in ("clock", "failat"):
        return "%s %d" % (o[0], o[1])
    return o[0]


def valspec(v):
    if len(v) > 64 and len(set(v)) == 1:
        return "%dx%02x" % (len(v), v[0])
    return G.rawhex(v)


def gen_value(r, mfs, small=False):
    if small:
        k = r.below(6)
        if k == 0:
            return b""
        if k == 1:
            return bytes([r.below(256)]) * 40
        if k == 2 and mfs < 1000:
            return bytes([r.below(256)]) * (mfs + 1)
        return r.bytes(r.rng(1, 12))
    k = r.below(12)
    if k == 0:
        return b""
    if k == 1:
        return bytes([r.below(256)])
    if k == 2:
        return bytes([r.below(256)]) * 40
    if k == 3:
        return bytes([r.below(256)]) * 8180          # header and payload reach the file separately
    if k == 4:
        return bytes([r.below(256)]) * 9000
    if k == 5:
        return bytes([r.below(256)]) * 20000
    if k == 6 and mfs < 10 ** 6:
        return bytes([r.below(256)]) * (mfs + 1)     # larger than the configured file size
    return r.bytes(r.rng(1, 12))


def gen_cfg(r):
    return {"mfs": r.choice(MFS), "cache": r.choice([0, 1, 256]), "conc": r.choice([0, 1, 4]),
            "frag": r.choice(FRAGS), "dead": r.choice(DEADS), "small": r.choice(SMALLS), "sync": False}


def gen_ops(r, cfg, n, profile):
    """profile: dict of weights for set/get/del/merge/reopen/clock and observation policy."""
    keys = r.shuffle(KEYS)[:r.rng(2, 4)]
    w = profile["weights"]
    table = []
    for name, wt in w.items():
        table += [name] * wt
    ops = []
    clock = None
    for _ in range(n):
        name = r.choice(table)
        k = r.choice(keys)
        if name == "set":
            ops.append(("set", k, gen_value(r, cfg["mfs"], profile.get("small_values", False))))
        elif name == "get":
            ops.append(("get", k))
        elif name == "del":
            ops.append(("del", k))
        elif name == "merge":
            if profile.get("gets_around_merge"):
                ops += [("get", kk) for kk in keys]
            if profile.get("ls_around_merge"):
                ops.append(("ls",))
            ops.append(("merge",))
            if profile.get("ls_around_merge"):
                ops.append(("ls",))
            if profile.get("gets_around_merge"):
                ops += [("get", kk) for kk in keys]
        elif name == "reopen":
            ops.append(("reopen",))
            if profile.get("gets_after_reopen"):
                ops += [("get", kk) for kk in keys]
        elif name == "clock":
            ops.append(("clock", r.rng(1, 1000)))
        elif name == "drophints":
            ops.append(("drophints",))
            ops += [("get", kk) for kk in keys]
        if profile.get("dump_every") and name in ("set", "del", "merge", "reopen"):
            ops.append(("dump",))
    for kk in keys:
        ops.append(("get", kk))
    if profile.get("final"):
        ops += [(x,) for x in profile["final"]]
    return ops


def gen_cases(rng, n, profile, maxlen=25, prefix="c"):
    cases = []
    for i in range(n):
        r = rng.fork()
        cfg = gen_cfg(r)
        if "cfg" in profile:
            cfg.update(profile["cfg"](r))
        cases.append(Case("%s%d" % (prefix, i), cfg, gen_ops(r, cfg, r.rng(3, maxlen), profile)))
    return cases


# ------------------------------------------------------------------ implementation
def _run_shard(args):
    text, release, env = args
    rc, out = harness_run(["store"], text, release=release, timeout=900, env=env)
    return rc, out


def run_impl(cases, release=False, env=None):
    """Runs the cases on the real store; fills c.impl / c.orders.  Returns the names of cases whose
    harness process died or hung (no 'end' line)."""
    shards = chunks(cases, NCPU)
    jobs = [("".join(c.script() for c in sh), release, env) for sh in shards]
    died = []
    with cf.ThreadPoolExecutor(max_workers=NCPU) as ex:
        for sh, (rc, out) in zip(shards, ex.map(_run_shard, jobs)):
            cur, by = None, {}
            for line in out.split("\n"):
                if line.startswith("case "):
                    cur = line[5:].strip()
                    by[cur] = []
                elif cur is not None and line != "":
                    by[cur].append(line)
            for c in sh:
                lines = by.get(c.name)
                if lines is None or not lines or lines[-1] != "end":
                    died.append(c.name)
                    c.impl = [l for l in (lines or []) if not l.startswith("#")]
                    c.orders = [l[7:] for l in (lines or []) if l.startswith("#order")]
                    continue
                c.impl = [l for l in lines if not l.startswith("#")]
                c.orders = [l[7:].strip() for l in lines if l.startswith("#order")]
                c.selected = [l[10:].strip() for l in lines if l.startswith("#selected")]
    return died


# ------------------------------------------------------------------ model
def coq_val(v):
    return coq_bytes(v)


def coq_case(c):
    cfg = c.cfg
    ops, mi = [], 0
    for o in c.ops:
        if o[0] == "set":
            ops.append("Op (OSet %s %s)" % (coq_bytes(o[1]), coq_val(o[2])))
        elif o[0] == "get":
            ops.append("Op (OGet %s)" % coq_bytes(o[1]))
        elif o[0] == "del":
            ops.append("Op (ODel %s)" % coq_bytes(o[1]))
        elif o[0] == "merge":
            order = c.orders[mi] if c.orders and mi < len(c.orders) else ""
            mi += 1
            keys = [bytes.fromhex(x) if x != "-" else b"" for x in order.split(",")] if order else []
            ops.append("Op (OMerge [%s])" % "; ".join(coq_bytes(k) for k in keys))
        elif o[0] == "reopen":
            ops.append("Op OReopen")
        elif o[0] == "clock":
            ops.append("Op (OClock %d%%Z)" % o[1])
        elif o[0] == "dump":
            ops.append("Dump")
        elif o[0] == "ls":
            ops.append("Ls")
        elif o[0] == "cat":
            ops.append("Cat")
        elif o[0] == "drophints":
            ops.append("DropHints")
    return "(mkCfg %d %s %d %d %d %d, [%s])" % (
        cfg["mfs"], "true" if cfg.get("sync") else "false", cfg["frag"][0], cfg["frag"][1], cfg["dead"], cfg["small"],
        "; ".join(ops))


def run_model(pid, cases, per_shard=40):
    shards = chunks(cases, max(NCPU, len(cases) // per_shard))
    terms = ["render_cases [%s]" % "; ".join(coq_case(c) for c in sh) for sh in shards]
    res, logs = coq_eval(pid, "Store.Engine Store.Render", terms)
    ok = True
    for sh, r in zip(shards, res):
        if not sh:
            continue
        if r is None:
            ok = False
            for c in sh:
                c.model = None
            continue
        lines = r.split("\n")
        i = 0
        for c in sh:
            n = len(c.ops) + 2
            c.model = lines[i:i + n]
            i += n
        if i != len(lines):
            ok = False
            for c in sh:
                c.model = None
    for l in logs[:2]:
        log(l)
    return ok


# ------------------------------------------------------------------ oracles
def norm(line):
    """canonical form of one output line for comparison (error texts differ, order of dump items does not matter)"""
    if line.startswith("err"):
        return "err"
    if line.startswith("dump "):
        head, _, rest = line.partition(" k=[")
        ks, _, ss = rest.partition("] s=[")
        ss = ss.rstrip("]")
        return "%s k=[%s] s=[%s]" % (head, ",".join(sorted(x for x in ks.split(",") if x)),
                                     ",".join(sorted((x for x in ss.split(",") if x), key=lambda s: int(s.split(":")[0]))))
    return line


def spec_check(c):
    """Map-spec oracle on the implementation's results.  Returns list of (op index, description)."""
    m, bad = {}, []
    lines = c.impl
    if not lines or lines[0] != "open ok":
        return [(-1, "open failed: %s" % (lines[0] if lines else "no output"))]
    for i, o in enumerate(c.ops):
        if i + 1 >= len(lines):
            bad.append((i, "no result (process died or hung)"))
            break
        got = lines[i + 1]
        if got == "abandoned":
            break
        if got == "panic":
            bad.append((i, "%s panicked" % show_op(o)))
            continue
        if o[0] == "set":
            if got != "ok":
                bad.append((i, "set failed: " + got))
            else:
                m[o[1]] = o[2]
        elif o[0] == "get":
            want = "some:" + G.hexs(m[o[1]]) if o[1] in m else "none"
            if got != want:
                bad.append((i, "get %s returned %s, the map says %s" % (G.rawhex(o[1]), got[:80], want[:80])))
        elif o[0] == "del":
            want = "true" if o[1] in m else "false"
            if got != want:
                bad.append((i, "del %s returned %s, the map says %s" % (G.rawhex(o[1]), got, want)))
            m.pop(o[1], None)
        elif o[0] in ("merge", "reopen", "drophints"):
            if got != "ok":
                bad.append((i, "%s failed: %s" % (o[0], got)))
    return bad


def decode_entries(buf):
    """independent decoder of a data file: [(ts, key, value-or-None, pos, len)]"""
    out, p = [], 0
    n = len(buf)
    while True:
        s = p
        if p + 16 > n:
            break
        ts, kl = struct.unpack_from("<qQ", buf, p)
        p += 16
        if p + kl + 1 > n:
            break
        k = buf[p:p + kl]
        p += kl
        tag = buf[p]
        p += 1
        v = None
        if tag == 1:
            if p + 8 > n:
                break
            (vl,) = struct.unpack_from("<Q", buf, p)
            p += 8
            if p + vl > n:
                break
            v = buf[p:p + vl]
            p += vl
        out.append((ts, k, v, s, p - s))
    return out


def parse_cat(line):
    files = {}
    body = line[4:] if line.startswith("cat ") else line
    for item in body.split(","):
        if not item:
            continue
        name, _, hx = item.partition("=")
        files[name] = bytes.fromhex(hx) if hx != "-" else b""
    return files


def parse_dump(line):
    head, _, rest = line.partition(" k=[")
    ks, _, ss = rest.partition("] s=[")
    ss = ss.rstrip("]")
    keydir, stats = {}, {}
    for x in ks.split(","):
        if x:
            k, f, p, l, t = x.split(":")
            keydir[k] = (int(f), int(p), int(l), int(t))
    for x in ss.split(","):
        if x:
            f, a, b, cc = x.split(":")
            stats[int(f)] = (int(a), int(b), int(cc))
    return keydir, stats


def shrink(case, still_fails, budget=60):
    """delta debugging on the op list; [still_fails(case)] re-runs the implementation"""
    ops = list(case.ops)
    n, tries = 2, 0
    while len(ops) >= 2 and tries < budget:
        size = max(1, len(ops) // n)
        reduced = False
        for i in range(0, len(ops), size):
            cand = ops[:i] + ops[i + size:]
            tries += 1
            c2 = Case(case.name + "s", case.cfg, cand)
            if cand and still_fails(c2):
                ops, n, reduced = cand, max(n - 1, 2), True
                break
            if tries >= budget:
                break
        if not reduced:
            if n >= len(ops):
                break
            n = min(len(ops), n * 2)
    return Case(case.name + "-min", case.cfg, ops)
