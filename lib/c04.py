"""C04 — concurrent gets, sets and deletes are linearizable and never panic or hang."""
import concurrent.futures as cf

from common import Report, Rng, coq_check_props, harness_build, harness_run, log
import lincheck as L

BASE = "mfs=2147483648 conc=%d cache=256 frag=0/1 dead=0 small=1000000000"


def scheduled():
    """targeted interleavings, forced on the real code by timed parking at the verif schedule points"""
    out = []
    # D3: a reader maps the active file while a large entry is half written, then reads that entry
    out.append(("half-written-entry", "\n".join([
        "CASE half-written-entry " + BASE % 1,
        "pre set 6a30 01", "pre get 6a30", "pre set 6a 02",
        "thread w 0 set 6d6964 8180x41",
        "thread r 100 get 6a ; sleep 500 ; get 6d6964 ; get 6a30",
        "park w append:before_flush 300", "timeout 8000", "END"])))
    # the same with the payload going to the file directly (entry above the buffer) and two readers
    out.append(("half-written-entry-pool2", "\n".join([
        "CASE half-written-entry-pool2 " + BASE % 2,
        "pre set 6a30 01", "pre set 6a 02",
        "thread w 0 set 6d6964 9000x42",
        "thread r1 100 get 6a ; sleep 400 ; get 6d6964",
        "thread r2 120 get 6a30 ; sleep 400 ; get 6d6964 ; get 6a",
        "park w append:before_flush 300", "timeout 8000", "END"])))
    # a get between index lookup and file read while a full merge runs (seeds C01-B / C04-A)
    out.append(("get-vs-merge", "\n".join([
        "CASE get-vs-merge mfs=60 conc=2 cache=0 frag=0/1 dead=0 small=1000000000",
        "pre set 6b 7631", "pre set 61 31", "pre set 61 32", "pre set 62 33", "pre del 62",
        "thread reader 0 get 6b ; get 61",
        "thread merger2 100 merge ; get 6b",
        "park reader get:after_lookup 400", "timeout 8000", "END"])))
    # a set between its append and its publication while a merge wants to run (seed C11-A)
    out.append(("set-vs-merge", "\n".join([
        "CASE set-vs-merge mfs=60 conc=2 cache=256 frag=0/1 dead=0 small=1000000000",
        "pre set 6b 7631", "pre set 61 31",
        "thread setter 0 set 6b 7632 ; get 6b",
        "thread merger2 100 merge ; get 6b",
        "thread late 700 get 6b ; get 61",
        "park setter put:before_publish 400", "timeout 8000", "END"])))
    # two deletes of one present key, the first parked between tombstone and index removal (seed C11-B)
    out.append(("del-vs-del", "\n".join([
        "CASE del-vs-del " + BASE % 2,
        "pre set 6b 7631",
        "thread d1 0 del 6b", "thread d2 100 del 6b", "thread g 150 get 6b",
        "park d1 delete:before_publish 400", "timeout 8000", "END"])))
    # a get while the merge loop is between its copy and its re-pointing
    out.append(("get-during-merge-copy", "\n".join([
        "CASE get-during-merge-copy mfs=60 conc=2 cache=1 frag=0/1 dead=0 small=1000000000",
        "pre set 6b 7631", "pre set 61 31", "pre set 61 32", "pre set 63 34",
        "thread m 0 merge", "thread g1 100 get 6b ; get 61 ; get 63", "thread g2 150 get 63 ; get 6b",
        "park m merge:after_copy 300", "park m merge:before_unlink 300", "timeout 10000", "END"])))
    # pool of one reader, get parked after checkout: other gets must wait, not fail
    out.append(("pool-of-one", "\n".join([
        "CASE pool-of-one " + BASE % 1,
        "pre set 6b 7631",
        "thread g1 0 get 6b", "thread g2 50 get 6b ; get 6b", "thread s 60 set 6b 7632",
        "park g1 get:checked_out 300", "timeout 8000", "END"])))
    # a put that fills the active file: appended to the old file, the next file created and made active, THEN published;
    # a reader whose mapping of the old file predates the put reads that record, then one in the new file
    out.append(("roll-vs-get", "\n".join([
        "CASE roll-vs-get mfs=60 conc=1 cache=0 frag=0/1 dead=0 small=1000000000",
        "pre set 6b 7631", "pre get 6b",
        "thread w 0 set 6c 40x41 ; set 6b 7632 ; sleep 400 ; del 6c ; del 6c",
        "thread r 100 get 6c ; sleep 500 ; get 6c ; get 6b ; sleep 400 ; get 6c",
        "park w put:before_publish 400", "timeout 8000", "END"])))
    return out


# ---- the interleaving model run on the same forced schedules (tie of Conc/StoreLTS.v to the code)
def m_put(t, k, v, ln, first=None):
    """events of a put; with `first`, returns (events up to the park: `first` bytes in the file, the rest)"""
    head = ["EInvoke %d (OpPut %d %d %d)" % (t, k, v, ln), "ELock %d" % t, "EBegin %d" % t]
    tail = ["EFinish %d" % t, "EPublish %d" % t, "EUnlock %d" % t, "EReturn %d" % t]
    if first is None:
        return head + ["EGrow %d %d" % (t, ln)] + tail
    return head + ["EGrow %d %d" % (t, first)], ["EGrow %d %d" % (t, ln - first)] + tail


def m_del(t, k, ln):
    return (["EInvoke %d (OpDel %d %d)" % (t, k, ln), "ELock %d" % t, "EBegin %d" % t, "EGrow %d %d" % (t, ln), "EFinish %d" % t],
            ["EPublish %d" % t, "EUnlock %d" % t, "EReturn %d" % t])


def m_get(t, k, upto=None):
    ev = ["EInvoke %d (OpGet %d)" % (t, k), "ECheckout %d" % t, "ELookup %d" % t, "ERemap %d" % t, "ESlice %d" % t,
          "ECheckin %d" % t, "EReturn %d" % t]
    return ev if upto is None else (ev[:upto], ev[upto:])


def model_schedules():
    """name -> (capacity, events, {model thread: harness thread}, values {model value: hex}).  Record length = 20 + key + value bytes."""
    out = {}
    # half-written-entry: keys j0=1 j=2 mid=3; values 01=1 02=2 8180xA=3
    w1, w2 = m_put(0, 3, 3, 20 + 3 + 8180, first=23)
    ev = m_put(0, 1, 1, 23) + m_get(0, 1) + m_put(0, 2, 2, 22) + w1 + m_get(1, 2) + w2 + m_get(1, 3) + m_get(1, 1)
    out["half-written-entry"] = (1, ev, {0: ["P", "w"], 1: ["r"]}, {1: "01", 2: "02", 3: "#8180"})
    # del-vs-del: key k=1, value v1=1
    d1a, d1b = m_del(0, 1, 21)
    d2a, d2b = m_del(1, 1, 21)
    ev = m_put(0, 1, 1, 24) + d1a + d2a[:1] + m_get(2, 1) + d1b + d2a[1:] + d2b
    out["del-vs-del"] = (2, ev, {0: ["P", "d1"], 1: ["d2"], 2: ["g"]}, {1: "7631"})
    # pool-of-one: key k=1, values v1=1 v2=2
    g1a, g1b = m_get(1, 1, upto=2)
    ev = m_put(0, 1, 1, 24) + g1a + m_get(2, 1)[:1] + m_put(3, 1, 2, 24) + g1b + m_get(2, 1)[1:] + m_get(2, 1)
    out["pool-of-one"] = (1, ev, {0: ["P"], 1: ["g1"], 2: ["g2"], 3: ["s"]}, {1: "7631", 2: "7632"})
    return out


def roll_schedules():
    """forced schedules of the rollover model Conc/RollLTS.v: name -> (events, thread map, values); the writer is thread 99"""
    out = {}
    # keys k=1 l=2; values v1=1 40xA=2 v2=3
    ev = ["WAppend 1 1", "WPublish", "WReturn", "GLookup 0 1", "GRead 0", "GReturn 0",
          "WAppend 2 2", "WRoll", "GLookup 0 2", "GRead 0", "GReturn 0", "WPublish", "WReturn",
          "WAppend 1 3", "WPublish", "WReturn", "GLookup 0 2", "GRead 0", "GReturn 0", "GLookup 0 1", "GRead 0", "GReturn 0",
          "WAppendDel 2", "WRoll", "WPublish", "WReturn", "WAppendDel 2", "WPublish", "WReturn", "GLookup 0 2", "GRead 0", "GReturn 0"]
    out["roll-vs-get"] = (ev, {99: ["P:0", "w"], 0: ["P:1", "r"]}, {1: "7631", 2: "41" * 40, 3: "7632"})
    return out


def real_results(lines, names):
    """result sequence of the harness threads `names` (P = the pre ops), in their own order"""
    res = []
    for nm in names:
        if nm.startswith("P:"):
            res.append([l.split(" = ")[1].strip() for l in lines if l.startswith("P ")][int(nm[2:])])
        elif nm == "P":
            res += [l.split(" = ")[1].strip() for l in lines if l.startswith("P ")]
        else:
            hs = sorted((int(l.split()[2]), l) for l in lines if l.startswith("H %s " % nm))
            res += [l.rpartition(" @")[0].split(" = ")[1].strip() for _, l in hs]
    return res


def canon_real(r):
    if r.startswith("some:"):
        v = r[5:]
        if v.startswith("#"):            # digest of a long value: #len#hash
            return "some:#" + v.split("#")[1]
        return "some:#%d" % (len(v) // 2) if len(v) > 200 else r
    return r


def compare_model(rep, cases, outs, pinned=False):
    """evaluate the model on the forced schedules and compare per-thread results with the real runs"""
    from common import coq_eval
    ms = model_schedules()
    names = [n for n in ms if any(c[0] == n for c in cases)]
    term = "render_schedules ([%s])" % "; ".join("(%s, %d, [%s]%%list)" % ("true" if pinned else "false", ms[n][0], "; ".join(ms[n][1])) for n in names)
    vals, logs = coq_eval("C04", "Conc.StoreLTS Conc.RenderLTS", [term + "%list"])
    if vals[0] is None:
        rep.obligation("model evaluation of the forced schedules", False)
        log("\n".join(logs)[-3000:])
        return 0
    blocks = vals[0].split("\n--\n")
    todo = [(name, blk) + tuple(ms[name][2:]) for name, blk in zip(names, blocks)]
    rs = roll_schedules()
    rnames = [n for n in rs if any(c[0] == n for c in cases)] if not pinned else []
    if rnames:
        vals, logs = coq_eval("C04", "Conc.RollLTS Conc.RenderLTS", ["render_rolls ([%s])%%list" % "; ".join("[%s]%%list" % "; ".join("RollLTS." + e for e in rs[n][0]) for n in rnames)])
        if vals[0] is None:
            rep.obligation("model evaluation of the forced rollover schedules", False)
            log("\n".join(logs)[-3000:])
            return 0
        todo += [(name, blk) + tuple(rs[name][1:]) for name, blk in zip(rnames, vals[0].split("\n--\n"))]
    n = 0
    for name, blk, tmap, vmap in todo:
        lines = next(o[1] for c, o in zip(cases, outs) if c[0] == name).split("\n")
        model = {}
        for l in blk.split("\n"):
            if l.startswith("R "):
                _, t, r = l.split()
                if r.startswith("some:"):
                    r = "some:" + vmap[int(r[5:])]
                model.setdefault(int(t), []).append(r)
        if not blk.strip().endswith("end") and "panic" not in blk:
            rep.failing.append({"what": "the interleaving model does not allow the forced schedule (%s)" % blk.split("\n")[-1], "scenario": name, "kind": "correspondence"})
            continue
        for t, nms in tmap.items():
            real = [canon_real(r) for r in real_results(lines, nms)]
            n += len(real)
            if real != model.get(t, []):
                rep.failing.append({"what": "forced schedule %s: threads %s returned %s, the interleaving model computes %s" % (name, nms, real, model.get(t, [])),
                                    "scenario": name, "kind": "correspondence", "history": [l for l in lines if l[:2] in ("H ", "P ")]})
    return n


def stress(rng, n):
    out = []
    for i in range(n):
        r = rng.fork()
        mfs = r.choice([100, 2000, 30000, 2 ** 31])
        conc = r.choice([1, 2, 8])
        cache = r.choice([0, 1, 256])
        threads = r.choice([3, 6, 8])
        # every third run also has the background task checking the merge triggers every 1-3 ms (and merging when they fire)
        bg = " policy=always interval=%d jitter=0/1 tfrag=1/10 tdead=0" % r.rng(1, 3) if i % 3 == 2 else ""
        out.append(("stress%d" % i, "\n".join([
            "CASE stress%d mfs=%d conc=%d cache=%d frag=0/1 dead=0 small=1000000000%s" % (i, mfs, conc, cache, bg),
            "stress %d %d %d %d %d" % (threads, r.choice([60, 120]), r.choice([1, 2, 3]), r.rng(1, 10 ** 6), r.choice([0, 3, 10])),
            # in every fourth run one more thread evaluates the merge triggers in a tight loop (what the background task does at each tick)
        ] + (["prober 200000"] if i % 4 == 1 else []) + [
            "timeout 60000", "END"])))
    return out


def wide(rng, n):
    """many keys, a merge pass over several hundred live entries while writers overwrite them (seed C11-D shape)"""
    out = []
    for i in range(n):
        r = rng.fork()
        out.append(("wide%d" % i, "\n".join(
            ["CASE wide%d mfs=%d conc=4 cache=256 frag=0/1 dead=0 small=1000000000" % (i, r.choice([4000, 2 ** 31]))] +
            ["stress 6 400 700 %d %d" % (r.rng(1, 10 ** 6), r.choice([2, 5])), "timeout 90000", "END"])))
    return out


def main(tier, seed):
    rep = Report("C04", tier, seed)
    rng = Rng(seed)
    pr = coq_check_props("C04")
    for t in pr["theorems"]:
        rep.obligation("theorem " + t, pr["ok"])
    if not pr["theorems"]:
        rep.obligation("Props/C04.v compiles", pr["ok"])
    if not pr["ok"]:
        log(pr["log"])
    ok, out = harness_build(False)
    rep.obligation("harness builds against /repo", ok)
    if not ok:
        log(out[-3000:])
        rep.coverage.update({"checker_cmd": "make -C coq Props/C04.vo", "trusted_base": TRUSTED})
        return rep.finish()
    cases = scheduled() + stress(rng, {"quick": 24, "thorough": 400}[tier]) + wide(rng, {"quick": 2, "thorough": 20}[tier])
    with cf.ThreadPoolExecutor(max_workers=4) as ex:
        outs = list(ex.map(lambda c: harness_run(["sched"], c[1] + "\n", timeout=120), cases))
    nops, kinds = 0, {}
    for (name, script), (rc, out) in zip(cases, outs):
        lines = out.split("\n")
        kind = "stress" if name.startswith("stress") else ("wide" if name.startswith("wide") else "scheduled")
        kinds[kind] = kinds.get(kind, 0) + 1
        status = next((l for l in reversed(lines) if l in ("done", "hang")), None)
        if status is None:
            rep.failing.append({"what": "the process died (exit %s): a panic escaped, or an abort" % rc, "scenario": name, "script": script, "tail": lines[-6:]})
            continue
        if status == "hang":
            rep.failing.append({"what": "an operation did not complete (threads still inside the store at the deadline)", "scenario": name,
                                "script": script, "history": [l for l in lines if l.startswith("H ")][-10:]})
            continue
        init = {}
        for l in lines:
            if l.startswith("P set "):
                p = l.split()
                init[p[2]] = p[3] if len(p) > 3 and p[3] != "=" else "-"
            elif l.startswith("P del "):
                init.pop(l.split()[2], None)
        bad, n = L.check(lines, init)
        nops += n
        probe = next((l for l in lines if l.startswith("probe ")), None)
        if probe:
            a, b = probe.split()[1].split("/")
            if a != b:
                bad.append({"what": "the ability to serve reads was reduced: only %s of %s later gets completed within 3 s" % (a, b)})
        if bad:
            rep.failing.append({"what": bad[0]["what"], "all": bad[:4], "scenario": name, "script": script})
    rep.obligation("every forced schedule and stress history is linearizable, panic-free and completes", not rep.failing)
    nf = len(rep.failing)
    ntied = compare_model(rep, cases, outs)
    rep.obligation("Conc/StoreLTS.v computes the results the real threads return on the forced schedules it covers", len(rep.failing) == nf)
    rep.coverage.update({
        "checker_cmd": "make -C coq Props/C04.vo (coqc 8.16.1) ; bin/check C04",
        "trusted_base": TRUSTED,
        "evaluations": len(cases), "operations": nops, "model_tied_results": ntied, "distinct_nontrivial": len(cases), "kinds": kinds,
        "rule": "7 targeted interleavings forced on the real code by parking a named thread at a verif schedule point (half-written "
                "large entry vs reader remap, get vs merge, set vs merge, del vs del, get inside the merge loop, pool of one) plus "
                "wide stress (6 threads over 700 keys with merges every 2-5 ms: merge passes over several hundred live entries), "
                "free-running stress (3-8 threads, 1-3 hot keys, unique values below and above the 8 KiB buffer, merges every 0-10 ms, "
                "in every third run the background task checks the merge triggers every 1-3 ms, in every fourth a thread evaluates them in a tight loop, "
                "rollovers, pool sizes 1/2/8, cache 0/1/256); each timed history is checked per key by a Wing-Gong-Lowe "
                "linearizability search against the map; afterwards pool-size+1 probe gets must complete",
        "samples": [cases[0][1], cases[-1][1]],
        "proof": {"file": "coq/Props/C04.v", "theorems": pr["theorems"], "axioms": pr["axioms"]},
    })
    rep.assumptions = ["OS thread fairness; DashMap shard guards, parking_lot mutex, ArrayQueue, shared mmap visibility: modelled",
                       "the window inside one BufWriter::write (header flush + direct payload write) has no schedule point: it is "
                       "exercised only by the free-running stress"]
    return rep.finish()


TRUSTED = ["Coq 8.16.1 kernel; coq/Conc/*.v (interleaving model)", "harness/src/sched.rs, lib/lincheck.py, lib/c04.py"]
