"""C06 — over the network SET/GET/DEL answer exactly as the map model, in order."""
from common import Report, Rng, chunks, coq_bytes, coq_check_props, coq_eval, harness_build, log, NCPU
import netlib as N
import respgen as G


def make(rng, tier):
    n = {"quick": 160, "thorough": 2500}[tier]
    out = []
    for i in range(n):
        r = rng.fork()
        reqs, keys = N.gen_reqs(r, r.rng(1, 10))
        data = b"".join(G.enc(N.req_frame(q)) for q in reqs)
        mode = r.choice(["whole", "whole", "random", "crlf", "bytes"]) if len(data) < 400 else r.choice(["whole", "random", "crlf"])
        segs = N.cut(r, data, mode)
        replies, final = N.spec_replies(reqs)
        pipeline = r.choice(["all", "all", "one", "overlap"])
        ops = ["conn c"]
        if pipeline == "overlap":
            # every segment completes one request and carries a strict prefix of the next; the reply to the completed request
            # must arrive before the rest of the next one is sent
            encs = [G.enc(N.req_frame(q)) for q in reqs]
            segs, pending, nrecv = [], 0, 0
            for j, (e, rp) in enumerate(zip(encs, replies)):
                nxt = encs[j + 1] if j + 1 < len(encs) else b""
                k = r.rng(1, len(nxt) - 1) if len(nxt) > 1 else 0
                seg = e[pending:] + nxt[:k]
                segs.append(seg)
                ops.append("send c %s" % G.rawhex(seg))
                ops.append("recv c %d 5000" % len(rp))
                nrecv += 1
                pending = k
            ops.append("half c")
            ops.append("recv c eof 5000")
            nrecv += 1
            mode = "overlap"
        elif pipeline == "all" or mode != "whole":
            for s in segs:
                ops.append("send c %s %d" % (G.rawhex(s), 1 if len(segs) > 1 else 0))
            ops.append("half c")
            ops.append("recv c eof 5000")
            nrecv = 1
        else:
            # one request at a time: send, read exactly the expected reply, next
            nrecv = 0
            for q, rep in zip(reqs, replies):
                ops.append("send c %s" % G.rawhex(G.enc(N.req_frame(q))))
                ops.append("recv c %d 5000" % len(rep))
                nrecv += 1
            ops.append("half c")
            ops.append("recv c eof 5000")
            nrecv += 1
            segs = [G.enc(N.req_frame(q)) for q in reqs]
        for k in keys:
            ops.append("storeget %s" % G.rawhex(k))
        sc = N.Scenario("n%d" % i, "maxconn=4", ops)
        sc.reqs, sc.keys, sc.segs, sc.replies, sc.final, sc.mode, sc.pipeline = reqs, keys, segs, replies, final, mode, pipeline
        out.append(sc)
    return out


def received(sc):
    """bytes received on the connection (digest form per recv line) and end status"""
    parts, status = [], None
    for op, line in zip(sc.ops, sc.out[1:]):
        if op.startswith("recv "):
            st, n, hx = line.split(":", 2)
            parts.append((st, int(n), hx))
            status = st
    return parts, status


def client_fake(rep, rng, tier):
    """src/net/client.rs against a scripted server: the model's client over the same reply stream"""
    n = {"quick": 150, "thorough": 2000}[tier]
    sessions = [N.gen_fake_session(rng.fork()) for _ in range(n)]
    kinds = {}
    text = []
    for i, (calls, ks) in enumerate(sessions):
        for k in ks:
            kinds[k] = kinds.get(k, 0) + 1
        text.append("CASE f%d" % i)
        for q, segs, close in calls:
            text.append("call %s | %d %s%s" % (N.api_words(q), len(G.enc(N.req_frame(q))), " ".join(G.rawhex(s) for s in segs), " close" if close else ""))
        text.append("END")
    shards = chunks(list(range(n)), NCPU)
    import concurrent.futures as cf
    from common import harness_run

    def run(sh):
        lines, cur = [], None
        for i in sh:
            j0 = text.index("CASE f%d" % i)
            j1 = text.index("END", j0)
            lines += text[j0:j1 + 1]
        rc, out = harness_run(["client"], "\n".join(lines) + "\n", timeout=600)
        by, cur = {}, None
        for l in out.split("\n"):
            if l.startswith("case "):
                cur = l[5:].strip()
                by[cur] = []
            elif cur is not None and l:
                by[cur].append(l)
        return by
    real = {}
    with cf.ThreadPoolExecutor(max_workers=NCPU) as ex:
        for by in ex.map(run, shards):
            real.update(by)
    terms = ["render_clients [%s]" % "; ".join(
        "([%s], [%s])" % ("; ".join(N.coq_req(q, coq_bytes) for q, _, _ in sessions[i][0]),
                          "; ".join(coq_bytes(s) for _, segs, _ in sessions[i][0] for s in segs)) for i in sh) for sh in shards]
    res, logs = coq_eval("C06", "Resp.Frame Resp.Conn Resp.Handler Resp.Client Resp.Render", terms)
    ndis, neval = 0, 0
    ok_eval = True
    for sh, r in zip(shards, res):
        if r is None:
            ok_eval = False
            continue
        blocks = r.split("\nend")
        for i, blk in zip(sh, blocks):
            want = [l for l in blk.split("\n") if l and l != "end"] + ["end"]
            got = real.get("f%d" % i, [])
            neval += 1
            if got != want:
                ndis += 1
                rep.disagree.append({"obligation": "correspondence client: model = src/net/client.rs", "calls": [(str(q)[:60], [G.hexs(s) for s in segs], close) for q, segs, close in sessions[i][0]],
                                     "kinds": sessions[i][1], "model": want[:14], "impl": got[:14]})
    for l in logs[:1]:
        log(l)
    rep.obligation("client model evaluates on every session", ok_eval)
    rep.obligation("correspondence client: model = the crate's client against a scripted server", ndis == 0 and ok_eval)
    return {"sessions": neval, "reply_kinds": kinds}


def client_real(rep, rng, tier):
    """the crate's client against the crate's server over a real store: results = the map's answers = the composed model"""
    n = {"quick": 40, "thorough": 400}[tier]
    scs = []
    for i in range(n):
        r = rng.fork()
        reqs, keys = N.gen_reqs(r, r.rng(1, 12))
        reqs = reqs[:40]
        ops = ["api c connect"] + ["api c " + N.api_words(q) for q in reqs] + ["storeget %s" % G.rawhex(k) for k in keys]
        sc = N.Scenario("a%d" % i, "maxconn=4", ops)
        sc.reqs, sc.keys = reqs, keys
        scs.append(sc)
    died = N.run_scenarios(scs)
    shards = chunks(scs, NCPU)
    terms = ["render_apis [%s]" % "; ".join("[%s]" % "; ".join(N.coq_req(q, coq_bytes) for q in sc.reqs) for sc in sh) for sh in shards]
    res, logs = coq_eval("C06", "Resp.Frame Resp.Conn Resp.Handler Resp.Client Resp.Render", terms)
    model = []
    for sh, r in zip(shards, res):
        ls = r.split("\n") if (r is not None and sh) else []
        model.extend(ls if len(ls) == len(sh) else [None] * len(sh))
    rep.obligation("composed client+handler model evaluates on every session", all(m is not None for m in model))
    ndis = 0
    for sc, m in zip(scs, model):
        if sc.name in died or not sc.out or sc.out[0] != "start ok":
            rep.failing.append({"what": "server process died or did not start (client sessions)", "scenario": sc.ops[:12], "out": sc.out[:12]})
            continue
        # the map's answers, independently of the model
        mp, want = {}, []
        for q in sc.reqs:
            if q[0] == "GET":
                want.append("some:" + G.hexs(mp[q[1]]) if q[1] in mp else "none")
            elif q[0] == "SET":
                mp[q[1]] = q[2]
                want.append("ok")
            else:
                c = 0
                for k in q[1]:
                    if k in mp:
                        del mp[k]
                        c += 1
                want.append("int:%d" % c)
        got = sc.out[2:2 + len(sc.reqs)]
        store = sc.out[2 + len(sc.reqs):2 + len(sc.reqs) + len(sc.keys)]
        want_store = [("some:" + G.hexs(mp[k]) if k in mp else "none") for k in sc.keys]
        if sc.out[1] != "ok" or got != want:
            rep.failing.append({"what": "the crate's client against the crate's server does not return the map's answers",
                                "requests": [str(q)[:80] for q in sc.reqs], "want": want[:20], "got": got[:20]})
        elif store != want_store:
            rep.failing.append({"what": "store contents after a client session differ from the map", "requests": [str(q)[:80] for q in sc.reqs],
                                "want": want_store, "got": store})
        if m is not None and m.split(";") != got:
            ndis += 1
            rep.disagree.append({"obligation": "correspondence client+server: composed model = crate", "requests": [str(q)[:80] for q in sc.reqs],
                                 "model": m[:300], "impl": ";".join(got)[:300]})
    rep.obligation("correspondence client+server: composed model = the crate's client against the crate's server", ndis == 0)
    return {"sessions": len(scs)}


def server_traces(rep, rng, tier):
    """the system calls the server issues for a connection = the trace of the engine script of its commands
    (Resp/OverEngine.v script_of; one delete per key of a DEL), call by call and byte by byte"""
    import os
    import storelib as S
    import tracelib as T
    from common import harness_run, CACHE
    oks, outs = T.build_shim()
    rep.obligation("recorder builds", oks)
    if not oks:
        return {"sessions": 0}
    n = {"quick": 24, "thorough": 240}[tier]
    scs = []
    for i in range(n):
        r = rng.fork()
        reqs, keys = N.gen_reqs(r, r.rng(1, 10))
        reqs = reqs[:30]
        replies, _ = N.spec_replies(reqs)
        mfs = r.choice([60, 200, 2 ** 31])
        sync = r.chance(1, 3)
        ops = ["conn c"]
        for q, rp in zip(reqs, replies):
            ops += ["send c %s" % G.rawhex(G.enc(N.req_frame(q))), "recv c %d 5000" % len(rp)]
        sc = N.Scenario("t%d" % i, "maxconn=4 mfs=%d sync=%s" % (mfs, "always" if sync else "none"), ops)
        sc.reqs, sc.mfs, sc.sync = reqs, mfs, sync
        scs.append(sc)

    def run(args):
        idx, sh = args
        logp = os.path.join(CACHE, "iolog-srv-%d-%d.txt" % (os.getpid(), idx))
        if os.path.exists(logp):
            os.remove(logp)
        rc, out = harness_run(["server"], "".join(s.script() for s in sh), timeout=900, env={"LD_PRELOAD": T.SHIM, "IOREC_LOG": logp})
        text = open(logp, errors="replace").read() if os.path.exists(logp) else ""
        if os.path.exists(logp):
            os.remove(logp)
        return T.parse_log(text)
    shards = chunks(scs, 8)
    parsed = {}
    import concurrent.futures as cf
    with cf.ThreadPoolExecutor(max_workers=8) as ex:
        for d in ex.map(run, list(enumerate(shards))):
            parsed.update(d)
    # the model: the script of the commands
    cases = []
    for sc in scs:
        ops = []
        for q in sc.reqs:
            if q[0] == "GET":
                ops.append(("get", q[1]))
            elif q[0] == "SET":
                ops.append(("set", q[1], q[2]))
            else:
                ops += [("del", k) for k in q[1]]
        cases.append(S.Case(sc.name, {"mfs": sc.mfs, "cache": 256, "conc": 1, "frag": (0, 1), "dead": 0, "small": 0, "sync": sc.sync}, ops))
    mshards = chunks(cases, NCPU)
    terms = ["render_cases_traces [%s]" % "; ".join(S.coq_case(c) for c in sh) for sh in mshards]
    res, logs = coq_eval("C06", "Store.Engine Store.Render", terms)
    ndis, ok_eval, ncalls = 0, True, 0
    for sh, r in zip(mshards, res):
        if r is None:
            ok_eval = False
            continue
        lines = r.split("\n")
        i = 0
        for c in sh:
            k = len(c.ops) + 1
            model = []
            for x in (x for l in lines[i:i + k] for x in l.split(";") if x):
                # without operation marks the recorder sees adjacent writes to one file as one append: merge them here too
                w = x.split(" ")
                if w[0] == "write" and model and model[-1].startswith("write %s " % w[1]):
                    n1, h1 = (int(v) for v in model[-1].split(" ")[2].split(":"))
                    n2, h2 = (int(v) for v in w[2].split(":"))
                    model[-1] = "write %s %d:%d" % (w[1], n1 + n2, (h1 * pow(31, n2, 4294967296) + h2) % 4294967296)
                else:
                    model.append(x)
            i += k
            tr = parsed.get(c.name)
            real = [call.show() for call in tr["ops"].get(-1, [])] if tr else None
            ncalls += len(model)
            if real != model:
                ndis += 1
                j = next((x for x in range(min(len(real or []), len(model))) if real[x] != model[x]), min(len(real or []), len(model)))
                rep.disagree.append({"obligation": "correspondence server trace: system calls of the server = trace of the engine script", "case": c.show(),
                                     "first_difference_at": j, "model": model[max(0, j - 1):j + 2], "impl": (real or ["no trace"])[max(0, j - 1):j + 2]})
    for l in logs[:1]:
        log(l)
    rep.obligation("the script traces evaluate on every session", ok_eval)
    rep.obligation("correspondence server trace: system calls of the server = trace of the engine script of its commands", ndis == 0 and ok_eval)
    return {"sessions": len(scs), "calls": ncalls}


def main(tier, seed):
    rep = Report("C06", tier, seed)
    rng = Rng(seed)
    pr = coq_check_props("C06")
    for t in pr["theorems"]:
        rep.obligation("theorem " + t, pr["ok"])
    if not pr["theorems"]:
        rep.obligation("Props/C06.v compiles", pr["ok"])
    if not pr["ok"]:
        log(pr["log"])
    ok, out = harness_build(False)
    rep.obligation("harness builds against /repo", ok)
    if not ok:
        log(out[-3000:])
        rep.coverage.update({"checker_cmd": "make -C coq Props/C06.vo", "trusted_base": TRUSTED})
        return rep.finish()
    scs = make(rng, tier)
    died = N.run_scenarios(scs)
    shards = chunks(scs, max(NCPU, len(scs) // 40))
    terms = ["render_handlers [%s]" % "; ".join(
        "([%s], [%s])" % ("; ".join(coq_bytes(s) for s in sc.segs), "; ".join(coq_bytes(k) for k in sc.keys)) for sc in sh) for sh in shards]
    res, logs = coq_eval("C06", "Resp.Frame Resp.Conn Resp.Handler Resp.Render", terms)
    for l in logs[:2]:
        log(l)
    model = []
    for sh, r in zip(shards, res):
        ls = r.split("\n") if (r is not None and sh) else []
        model.extend(ls if len(ls) == len(sh) else [None] * len(sh))
    rep.obligation("model evaluates on every case", all(m is not None for m in model))
    ndis, modes = 0, {}
    for sc, m in zip(scs, model):
        modes[sc.mode + "/" + sc.pipeline] = modes.get(sc.mode + "/" + sc.pipeline, 0) + 1
        if sc.name in died or not sc.out or sc.out[0] != "start ok":
            rep.failing.append({"what": "server process died or did not start", "scenario": sc.ops[:12], "out": sc.out[:12]})
            continue
        parts, status = received(sc)
        want = sc.replies
        if (sc.pipeline == "one" and sc.mode == "whole") or sc.pipeline == "overlap":
            got_ok = all(p[0] == "ok" and p[2] == G.hexs(w) for p, w in zip(parts, want)) and parts[-1][0] == "eof" and parts[-1][1] == 0
            got_all = "|".join(p[2] for p in parts[:-1])
            want_all = "|".join(G.hexs(w) for w in want)
        else:
            whole = b"".join(want)
            got_ok = len(parts) == 1 and parts[0][0] == "eof" and parts[0][1] == len(whole) and parts[0][2] == G.hexs(whole)
            got_all, want_all = parts[0][2] if parts else "", G.hexs(whole)
        store = {}
        for op, line in zip(sc.ops, sc.out[1:]):
            if op.startswith("storeget "):
                store[op.split()[1]] = line
        want_store = {G.rawhex(k): ("some:" + G.hexs(sc.final[k]) if k in sc.final else "none") for k in sc.keys}
        if not got_ok:
            rep.failing.append({"what": "replies differ from the map's answers (one reply per request, in order)",
                                "requests": [str(q)[:80] for q in sc.reqs], "segmentation": sc.mode, "pipelining": sc.pipeline,
                                "want": want_all[:300], "got": got_all[:300], "recv": [p[:2] for p in parts]})
        elif store != want_store:
            rep.failing.append({"what": "store contents after the connection differ from the map",
                                "requests": [str(q)[:80] for q in sc.reqs], "want": want_store, "got": store})
        if m is not None:
            mout, mterm, mstore = m.split("|")
            whole = b"".join(want)
            impl_store = ",".join("%s=%s" % (G.hexs(k), store.get(G.rawhex(k))) for k in sc.keys)
            impl_out = G.hexs(whole) if got_ok else "?"
            if (mout != G.hexs(whole) and got_ok) or mterm != "closed" or (got_ok and mstore != impl_store):
                ndis += 1
                rep.disagree.append({"obligation": "correspondence handler: model = server", "requests": [str(q)[:80] for q in sc.reqs],
                                     "model": m[:300], "impl": (impl_out + "|" + impl_store)[:300]})
    rep.obligation("correspondence handler: model = server on every scenario", ndis == 0)
    cov_fake = client_fake(rep, rng, tier)
    cov_real = client_real(rep, rng, tier)
    cov_trace = server_traces(rep, rng, tier)
    rep.coverage.update({
        "checker_cmd": "make -C coq Props/C06.vo (coqc 8.16.1) ; bin/check C06",
        "trusted_base": TRUSTED,
        "evaluations": len(scs), "distinct_nontrivial": len(set((tuple(q[0] for q in sc.reqs), sc.mode, sc.pipeline) for sc in scs)),
        "rule": "request sequences of 1-10 SET/GET/DEL (multi-key DEL with repeats, values with CR/LF/NUL/0xFF and up to 70000 bytes) "
                "sent over TCP whole / at random cuts / cut inside CRLFs / one byte per write, all at once, one at a time, or overlapping "
                "(each segment completes one request and carries a prefix of the next; its reply must arrive before the rest is sent); distinct "
                "= (command kinds, segmentation, pipelining)",
        "modes": modes,
        "client_sessions_scripted_server": cov_fake, "client_sessions_real_server": cov_real, "server_syscall_traces": cov_trace,
        "samples": [{"requests": [str(q)[:60] for q in scs[0].reqs], "ops": scs[0].ops[:8], "out": (scs[0].out or [])[:8]}],
        "proof": {"file": "coq/Props/C06.v", "theorems": pr["theorems"], "axioms": pr["axioms"]},
    })
    rep.assumptions = ["segment boundaries over loopback are encouraged (TCP_NODELAY, pauses), not guaranteed; the deterministic "
                       "segmentation tie is C08's scripted stream on the same Connection type",
                       "the store behind the server is the real engine; the handler model runs over the map (C01 is the link)"]
    return rep.finish()


TRUSTED = [
    "Coq 8.16.1 kernel, coqc, vm_compute",
    "coq/Resp/{Frame,Conn,Handler,Client}.v, tied to src/net/{server,command,connection,client}.rs by differential execution over TCP",
    "harness/src/{server,client}.rs, lib/netlib.py, lib/c06.py; tokio, TCP: modelled, not verified",
]
