"""C06 — over the network SET/GET/DEL answer exactly as the map model, in order."""
from common import Report, Rng, chunks, coq_bytes, coq_check_props, coq_eval, harness_build, log, NCPU
import netlib as N
import respgen as G


def make(rng, tier):
    n = {"quick": 160, "thorough": 2500}[tier]
    out = []
    for i in range(n):
        r = rng.fork()
        reqs, keys = N.gen_reqs(r, r.rng(1, 10))
        data = b"".join(G.enc(N.req_frame(q)) for q in reqs)
        mode = r.choice(["whole", "whole", "random", "crlf", "bytes"]) if len(data) < 400 else r.choice(["whole", "random", "crlf"])
        segs = N.cut(r, data, mode)
        replies, final = N.spec_replies(reqs)
        pipeline = r.choice(["all", "all", "one", "overlap"])
        ops = ["conn c"]
        if pipeline == "overlap":
            # every segment completes one request and carries a strict prefix of the next; the reply to the completed request
            # must arrive before the rest of the next one is sent
            encs = [G.enc(N.req_frame(q)) for q in reqs]
            segs, pending, nrecv = [], 0, 0
            for j, (e, rp) in enumerate(zip(encs, replies)):
                nxt = encs[j + 1] if j + 1 < len(encs) else b""
                k = r.rng(1, len(nxt) - 1) if len(nxt) > 1 else 0
                seg = e[pending:] + nxt[:k]
                segs.append(seg)
                ops.append("send c %s" % G.rawhex(seg))
                ops.append("recv c %d 5000" % len(rp))
                nrecv += 1
                pending = k
            ops.append("half c")
            ops.append("recv c eof 5000")
            nrecv += 1
            mode = "overlap"
        elif pipeline == "all" or mode != "whole":
            for s in segs:
                ops.append("send c %s %d" % (G.rawhex(s), 1 if len(segs) > 1 else 0))
            ops.append("half c")
            ops.append("recv c eof 5000")
            nrecv = 1
        else:
            # one request at a time: send, read exactly the expected reply, next
            nrecv = 0
            for q, rep in zip(reqs, replies):
                ops.append("send c %s" % G.rawhex(G.enc(N.req_frame(q))))
                ops.append("recv c %d 5000" % len(rep))
                nrecv += 1
            ops.append("half c")
            ops.append("recv c eof 5000")
            nrecv += 1
            segs = [G.enc(N.req_frame(q)) for q in reqs]
        for k in keys:
            ops.append("storeget %s" % G.rawhex(k))
        sc = N.Scenario("n%d" % i, "maxconn=4", ops)
        sc.reqs, sc.keys, sc.segs, sc.replies, sc.final, sc.mode, sc.pipeline = reqs, keys, segs, replies, final, mode, pipeline
        out.append(sc)
    return out


def received(sc):
    """bytes received on the connection (digest form per recv line) and end status"""
    parts, status = [], None
    for op, line in zip(sc.ops, sc.out[1:]):
        if op.startswith("recv "):
            st, n, hx = line.split(":", 2)
            parts.append((st, int(n), hx))
            status = st
    return parts, status


def main(tier, seed):
    rep = Report("C06", tier, seed)
    rng = Rng(seed)
    pr = coq_check_props("C06")
    for t in pr["theorems"]:
        rep.obligation("theorem " + t, pr["ok"])
    if not pr["theorems"]:
        rep.obligation("Props/C06.v compiles", pr["ok"])
    if not pr["ok"]:
        log(pr["log"])
    ok, out = harness_build(False)
    rep.obligation("harness builds against /repo", ok)
    if not ok:
        log(out[-3000:])
        rep.coverage.update({"checker_cmd": "make -C coq Props/C06.vo", "trusted_base": TRUSTED})
        return rep.finish()
    scs = make(rng, tier)
    died = N.run_scenarios(scs)
    shards = chunks(scs, max(NCPU, len(scs) // 40))
    terms = ["render_handlers [%s]" % "; ".join(
        "([%s], [%s])" % ("; ".join(coq_bytes(s) for s in sc.segs), "; ".join(coq_bytes(k) for k in sc.keys)) for sc in sh) for sh in shards]
    res, logs = coq_eval("C06", "Resp.Frame Resp.Conn Resp.Handler Resp.Render", terms)
    for l in logs[:2]:
        log(l)
    model = []
    for sh, r in zip(shards, res):
        ls = r.split("\n") if (r is not None and sh) else []
        model.extend(ls if len(ls) == len(sh) else [None] * len(sh))
    rep.obligation("model evaluates on every case", all(m is not None for m in model))
    ndis, modes = 0, {}
    for sc, m in zip(scs, model):
        modes[sc.mode + "/" + sc.pipeline] = modes.get(sc.mode + "/" + sc.pipeline, 0) + 1
        if sc.name in died or not sc.out or sc.out[0] != "start ok":
            rep.failing.append({"what": "server process died or did not start", "scenario": sc.ops[:12], "out": sc.out[:12]})
            continue
        parts, status = received(sc)
        want = sc.replies
        if (sc.pipeline == "one" and sc.mode == "whole") or sc.pipeline == "overlap":
            got_ok = all(p[0] == "ok" and p[2] == G.hexs(w) for p, w in zip(parts, want)) and parts[-1][0] == "eof" and parts[-1][1] == 0
            got_all = "|".join(p[2] for p in parts[:-1])
            want_all = "|".join(G.hexs(w) for w in want)
        else:
            whole = b"".join(want)
            got_ok = len(parts) == 1 and parts[0][0] == "eof" and parts[0][1] == len(whole) and parts[0][2] == G.hexs(whole)
            got_all, want_all = parts[0][2] if parts else "", G.hexs(whole)
        store = {}
        for op, line in zip(sc.ops, sc.out[1:]):
            if op.startswith("storeget "):
                store[op.split()[1]] = line
        want_store = {G.rawhex(k): ("some:" + G.hexs(sc.final[k]) if k in sc.final else "none") for k in sc.keys}
        if not got_ok:
            rep.failing.append({"what": "replies differ from the map's answers (one reply per request, in order)",
                                "requests": [str(q)[:80] for q in sc.reqs], "segmentation": sc.mode, "pipelining": sc.pipeline,
                                "want": want_all[:300], "got": got_all[:300], "recv": [p[:2] for p in parts]})
        elif store != want_store:
            rep.failing.append({"what": "store contents after the connection differ from the map",
                                "requests": [str(q)[:80] for q in sc.reqs], "want": want_store, "got": store})
        if m is not None:
            mout, mterm, mstore = m.split("|")
            whole = b"".join(want)
            impl_store = ",".join("%s=%s" % (G.hexs(k), store.get(G.rawhex(k))) for k in sc.keys)
            impl_out = G.hexs(whole) if got_ok else "?"
            if (mout != G.hexs(whole) and got_ok) or mterm != "closed" or (got_ok and mstore != impl_store):
                ndis += 1
                rep.disagree.append({"obligation": "correspondence handler: model = server", "requests": [str(q)[:80] for q in sc.reqs],
                                     "model": m[:300], "impl": (impl_out + "|" + impl_store)[:300]})
    rep.obligation("correspondence handler: model = server on every scenario", ndis == 0)
    rep.coverage.update({
        "checker_cmd": "make -C coq Props/C06.vo (coqc 8.16.1) ; bin/check C06",
        "trusted_base": TRUSTED,
        "evaluations": len(scs), "distinct_nontrivial": len(set((tuple(q[0] for q in sc.reqs), sc.mode, sc.pipeline) for sc in scs)),
        "rule": "request sequences of 1-10 SET/GET/DEL (multi-key DEL with repeats, values with CR/LF/NUL/0xFF and up to 70000 bytes) "
                "sent over TCP whole / at random cuts / cut inside CRLFs / one byte per write, all at once, one at a time, or overlapping "
                "(each segment completes one request and carries a prefix of the next; its reply must arrive before the rest is sent); distinct "
                "= (command kinds, segmentation, pipelining)",
        "modes": modes,
        "samples": [{"requests": [str(q)[:60] for q in scs[0].reqs], "ops": scs[0].ops[:8], "out": (scs[0].out or [])[:8]}],
        "proof": {"file": "coq/Props/C06.v", "theorems": pr["theorems"], "axioms": pr["axioms"]},
    })
    rep.assumptions = ["segment boundaries over loopback are encouraged (TCP_NODELAY, pauses), not guaranteed; the deterministic "
                       "segmentation tie is C08's scripted stream on the same Connection type",
                       "the store behind the server is the real engine; the handler model runs over the map (C01 is the link)"]
    return rep.finish()


TRUSTED = [
    "Coq 8.16.1 kernel, coqc, vm_compute",
    "coq/Resp/{Frame,Conn,Handler}.v, tied to src/net/{server,command,connection}.rs by differential execution over TCP",
    "harness/src/server.rs, lib/netlib.py, lib/c06.py; tokio, TCP: modelled, not verified",
]
