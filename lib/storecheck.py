"""Common driver for the storage properties that are decided by: theorems in Props/<id>.v over
Store/Engine.v + differential execution of operation scripts + a property oracle on the
implementation's own outputs."""
from common import Report, Rng, coq_check_props, harness_build, log
import storelib as S

TRUSTED = [
    "Coq 8.16.1 kernel, coqc, vm_compute (no native_compute)",
    "hand-written Gallina model coq/Store/{Codec,Engine}.v of src/storage/bitcask.rs + log.rs + bufio.rs + utils.rs, tied to "
    "the code by differential execution only (results, index/statistics dumps, file sizes and content digests)",
    "harness/src/store.rs (drives the real store through Handle and the `verif` hooks: deterministic clock, verif_merge, "
    "verif_dump), lib/storelib.py, lib/storecheck.py",
    "merge iteration order and timestamps are oracle inputs read back from the implementation",
    "DashMap, lru, memmap2, bincode, BufWriter, the file system: modelled, not verified",
]


def big_value_cases(rng, n):
    """Implementation-only cases (the model is not evaluated on them): values of 1-40 MiB next to small ones, with reopens
    and merges, against the map oracle.  Sizes around powers of two, where a size limit would sit."""
    out = []
    sizes = [2 ** 20, 2 ** 24 - 100, 2 ** 24 + 1, 20 * 2 ** 20, 2 ** 25 + 1, 40 * 2 ** 20]
    for i in range(n):
        r = rng.fork()
        cfg = {"mfs": r.choice([2 ** 31, 2 ** 20, 0]), "cache": 256, "conc": 1, "frag": (0, 1), "dead": 0, "small": 10 ** 9}
        big = bytes([r.rng(1, 255)]) * r.choice(sizes)
        ops = [("set", b"a", b"a1"), ("set", b"big", big), ("set", b"b", b"b1"), ("set", b"a", b"a2"), ("del", b"b"), ("set", b"c", b"c1"),
               ("get", b"big"), ("reopen",), ("get", b"big"), ("get", b"a"), ("get", b"b"), ("get", b"c")]
        if r.chance(1, 2):
            ops += [("merge",), ("get", b"big"), ("get", b"a"), ("get", b"b"), ("reopen",), ("get", b"big"), ("get", b"a"), ("get", b"b"), ("get", b"c")]
        out.append(S.Case("big%d" % i, cfg, ops))
    return out


def big_key_cases(rng, n):
    """Implementation-only cases with one key of 40-200 KB (so that its hint entry is that long too): merged, read back with
    hint files and again after the hint files were deleted."""
    out = []
    for i in range(n):
        r = rng.fork()
        cfg = {"mfs": r.choice([2 ** 31, 30000]), "cache": 256, "conc": 1, "frag": (0, 1), "dead": 0, "small": 10 ** 9}
        bk = bytes([97 + r.below(26)]) * r.choice([40000, 65500, 65600, 100 * 1024, 200000])
        small = [b"s%d" % j for j in range(r.rng(2, 30))]
        ops = [("set", b"first", b"1"), ("set", bk, b"big-key-value")] + [("set", k, b"v" + k) for k in small] + [("set", b"first", b"2"), ("merge",)]
        reads = [("get", bk), ("get", b"first")] + [("get", k) for k in small]
        ops += reads + [("reopen",)] + reads + [("drophints",)] + reads
        out.append(S.Case("bigkey%d" % i, cfg, ops))
    return out


def run(pid, tier, seed, profile, ncases, relevant=None, extra_oracle=None, corpus=None, maxlen=25,
        rule="", assumptions=None, line_norm=None, big_values=0, big_keys=0):
    rep = Report(pid, tier, seed)
    rng = Rng(seed)
    pr = coq_check_props(pid)
    for t in pr["theorems"]:
        rep.obligation("theorem " + t, pr["ok"])
    if not pr["theorems"]:
        rep.obligation("Props/%s.v compiles" % pid, pr["ok"])
    if not pr["ok"]:
        log(pr["log"])
    ok, out = harness_build(False)
    rep.obligation("harness builds against /repo", ok)
    if not ok:
        log(out[-3000:])
        rep.coverage.update({"checker_cmd": "make -C coq Props/%s.vo" % pid, "trusted_base": TRUSTED})
        return rep.finish()
    cases = list(corpus or []) + S.gen_cases(rng, ncases, profile, maxlen=maxlen)
    died = S.run_impl(cases)
    model_ok = S.run_model(pid, cases)
    rep.obligation("model evaluates on every case", model_ok)
    norm = line_norm or S.norm
    ndis, nops, shapes, distinct = 0, 0, {}, set()
    for c in cases:
        for o in c.ops:
            shapes[o[0]] = shapes.get(o[0], 0) + 1
        nops += len(c.ops)
        bad = S.spec_check(c)
        if extra_oracle:
            bad += extra_oracle(c)
        if c.name in died and not bad:
            bad.append((len(c.impl or []), "the store process died or hung"))
        if bad:
            rep.failing.append({"what": bad[0][1], "at_op": bad[0][0], "all": [b[1] for b in bad[:5]],
                                "case": c.show(), "impl": (c.impl or [])[:60]})
        sig = (tuple(o[0] for o in c.ops), c.cfg["mfs"], c.cfg["frag"], c.cfg["dead"], c.cfg["small"])
        if any(o[0] in ("merge", "reopen", "del") for o in c.ops):
            distinct.add(sig)
        if c.model is None or c.impl is None:
            continue
        for i, (a, b) in enumerate(zip(c.impl, c.model)):
            o = c.ops[i - 1] if 1 <= i <= len(c.ops) else None
            if relevant and o is not None and not relevant(o):
                continue
            if norm(a) != norm(b):
                ndis += 1
                rep.disagree.append({"obligation": "correspondence store: model = implementation",
                                     "case": c.show(), "at_line": i, "op": S.show_op(o) if o else "open/end",
                                     "impl": a[:300], "model": b[:300]})
                break
    rep.obligation("correspondence store: model = implementation on every compared observable", ndis == 0)
    # large values: implementation against the map oracle only
    bigs = (big_value_cases(rng, big_values) if big_values else []) + (big_key_cases(rng, big_keys) if big_keys else [])
    if bigs:
        died_b = S.run_impl(bigs)
        for c in bigs:
            bad = S.spec_check(c)
            if c.name in died_b and not bad:
                bad.append((len(c.impl or []), "the store process died or hung"))
            if bad:
                rep.failing.append({"what": bad[0][1][:300] + " (value of %d bytes in the history)" % max(len(o[2]) for o in c.ops if o[0] == "set"),
                                    "at_op": bad[0][0], "all": [b[1][:300] for b in bad[:5]], "case": {"name": c.name, "cfg": c.cfg, "ops": [S.show_op(o)[:120] for o in c.ops]},
                                    "impl": [l[:120] for l in (c.impl or [])[:30]]})
        rep.obligation("large values (1-40 MiB) / large keys (40-200 KB): implementation = map, across reopen, merge and hint removal", not any("bytes in the history" in f["what"] for f in rep.failing))
    # shrink the first failing case for the replay
    if rep.failing:
        first = rep.failing[0]
        try:
            c0 = next(c for c in cases if c.show() == first["case"])

            def still(c2):
                S.run_impl([c2])
                b = S.spec_check(c2) + (extra_oracle(c2) if extra_oracle else [])
                return bool(b)
            cmin = S.shrink(c0, still, budget=40)
            S.run_impl([cmin])
            first["shrunk"] = cmin.show()
            first["shrunk_impl"] = cmin.impl
        except Exception as ex:  # shrinking is best effort
            first["shrink_error"] = str(ex)
        rep.failing.sort(key=lambda f: len(f["case"]["ops"]))
    rep.coverage.update({
        "checker_cmd": "make -C coq Props/%s.vo (coqc 8.16.1) ; bin/check %s" % (pid, pid),
        "trusted_base": TRUSTED,
        "evaluations": len(cases), "large_value_cases": len(bigs),
        "operations": nops,
        "distinct_nontrivial": len(distinct),
        "rule": "distinct (operation-kind sequence, max_file_size, thresholds) among scripts containing a merge, reopen or "
                "delete; scripts of 3-%d generated operations over 2-4 keys plus observation operations, one splitmix64 "
                "state. %s" % (maxlen, rule),
        "op_histogram": shapes,
        "samples": [c.show() for c in cases[:2]] + [{"impl": cases[0].impl[:12]}],
        "proof": {"file": "coq/Props/%s.v" % pid, "theorems": pr["theorems"], "axioms": pr["axioms"]},
    })
    rep.assumptions = assumptions or ["theorems are about the model; single-threaded use (concurrency is C04's subject)"]
    return rep.finish()
