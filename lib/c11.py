"""C11 — concurrent clients see one linearizable store."""
from common import Report, Rng, coq_check_props, harness_build, log
import lincheck as L
import netlib as N


def bulk(b):
    return b"$%d\r\n" % len(b) + b + b"\r\n"


def arr(*items):
    return b"*%d\r\n" % len(items) + b"".join(items)


SET = lambda k, v: arr(bulk(b"SET"), bulk(k), bulk(v)).hex()
GET = lambda k: arr(bulk(b"GET"), bulk(k)).hex()
DEL = lambda k: arr(bulk(b"DEL"), bulk(k)).hex()


def make(rng, tier):
    scs = []
    n = {"quick": 10, "thorough": 150}[tier]
    for i in range(n):
        r = rng.fork()
        mfs = r.choice([200, 3000, 2 ** 31])
        sc = N.Scenario("st%d" % i, "maxconn=16 mfs=%d conc=%d frag=0/1 dead=0 small=1000000000" % (mfs, r.choice([1, 2, 8])),
                        ["clients %d %d %d %d %d" % (r.choice([3, 6, 8]), r.choice([40, 80]), r.choice([1, 2, 3]), r.rng(1, 10 ** 6), r.choice([0, 3, 10])),
                         "alive"])
        sc.kind = "stress"
        scs.append(sc)
    # many keys: merge passes over several hundred live entries while clients overwrite them (seed C11-D shape)
    for i in range({"quick": 2, "thorough": 12}[tier]):
        r = rng.fork()
        sc = N.Scenario("wide%d" % i, "maxconn=16 mfs=%d conc=4 frag=0/1 dead=0 small=1000000000" % r.choice([4000, 2 ** 31]),
                        ["clients 6 400 700 %d %d" % (r.rng(1, 10 ** 6), r.choice([2, 5])), "alive"])
        sc.kind = "stress"
        scs.append(sc)
    # a SET parked between its append and its publication while a merge wants to run, then a GET from another client (seed C11-A)
    sc = N.Scenario("set-vs-merge", "maxconn=8 mfs=60 frag=0/1 dead=0 small=1000000000",
                    ["conn a", "conn b", "send a %s" % SET(b"k", b"v1"), "recv a 5 3000", "parkany put:before_publish 400 1",
                     "send a %s" % SET(b"k", b"v2"), "sleep 100", "merge", "recv a 5 5000", "send b %s" % GET(b"k"), "recv b 8 3000",
                     "send a %s" % GET(b"k"), "recv a 8 3000"])
    sc.kind, sc.expect = "scheduled", {8: "ok:5:2b4f4b0d0a", 10: "ok:8:24320d0a76320d0a", 12: "ok:8:24320d0a76320d0a"}
    scs.append(sc)
    # two DELs of one present key from two clients, the first parked between tombstone and index removal (seed C11-B)
    sc = N.Scenario("del-vs-del", "maxconn=8",
                    ["conn a", "conn b", "send a %s" % SET(b"k", b"v"), "recv a 5 3000", "parkany delete:before_publish 400 1",
                     "send a %s" % DEL(b"k"), "sleep 100", "send b %s" % DEL(b"k"), "recv a 4 5000", "recv b 4 5000",
                     "send a %s" % GET(b"k"), "recv a 5 3000"])
    sc.kind, sc.expect = "scheduled", {8: "ok:4:3a310d0a", 9: "ok:4:3a300d0a", 11: "ok:5:242d310d0a"}
    scs.append(sc)
    return scs


def main(tier, seed):
    rep = Report("C11", tier, seed)
    rng = Rng(seed)
    pr = coq_check_props("C11")
    for t in pr["theorems"]:
        rep.obligation("theorem " + t, pr["ok"])
    if not pr["theorems"]:
        rep.obligation("Props/C11.v compiles", pr["ok"])
    if not pr["ok"]:
        log(pr["log"])
    ok, out = harness_build(False)
    rep.obligation("harness builds against /repo", ok)
    if not ok:
        log(out[-3000:])
        rep.coverage.update({"checker_cmd": "make -C coq Props/C11.vo", "trusted_base": TRUSTED})
        return rep.finish()
    scs = make(rng, tier)
    died = N.run_scenarios(scs, procs=4)
    nops = 0
    for sc in scs:
        if sc.name in died or not sc.out or sc.out[0] != "start ok":
            rep.failing.append({"what": "server died or did not start", "scenario": sc.name, "out": (sc.out or [])[-5:]})
            continue
        if sc.kind == "stress":
            bad, n = L.check(sc.out)
            nops += n
            if "running" not in sc.out:
                bad.append({"what": "Server::run ended during the run"})
            if bad:
                rep.failing.append({"what": bad[0]["what"], "all": bad[:3], "scenario": sc.ops[0], "header": sc.header})
        else:
            for idx, want in sc.expect.items():
                got = sc.out[idx + 1] if idx + 1 < len(sc.out) else "missing"
                if got != want:
                    rep.failing.append({"what": "replies to concurrent clients are not consistent with any single order of the commands "
                                                "(%s)" % sc.name, "at": sc.ops[idx], "want": want, "got": got,
                                        "ops": sc.ops, "out": sc.out[1:]})
                    break
    rep.obligation("every client-level history is linearizable and every scheduled scenario answers as the single order demands", not rep.failing)
    rep.coverage.update({
        "checker_cmd": "make -C coq Props/C11.vo (coqc 8.16.1) ; bin/check C11",
        "trusted_base": TRUSTED,
        "evaluations": len(scs), "operations": nops, "distinct_nontrivial": len(scs),
        "rule": "stress: 3-8 concurrent connections, 40-80 commands each on 1-3 hot keys (unique values up to 9000 bytes), merges every "
                "0/3/10 ms, max_file_size 200/3000/2^31; wide runs with 6 connections over 700 keys and merges every 2-5 ms; send and receive instants recorded at the client; per-key Wing-Gong-Lowe "
                "search against the map; plus two scheduled scenarios (SET vs merge, DEL vs DEL) using timed parking inside the store",
        "samples": [scs[0].ops[0], (scs[0].out or [])[1:4]],
        "proof": {"file": "coq/Props/C11.v", "theorems": pr["theorems"], "axioms": pr["axioms"]},
    })
    rep.assumptions = ["client-side timestamps bracket the server-side execution (the store operation's interval lies inside the request's)"]
    return rep.finish()


TRUSTED = ["Coq 8.16.1 kernel; coq/Conc/*.v", "harness/src/server.rs (clients, parkany), lib/lincheck.py, lib/c11.py"]
