"""Source of MANIFEST.json (bin/gen-manifest)."""
ALL = ["C%02d" % i for i in range(1, 21)]

HOOK_COMMITS = ["55abd2b"]

CHECKS = {
    "C07": {
        "text": "Machine-checked proof (Coq 8.16) over a hand-written executable model of Frame::check / Frame::parse / "
                "get_integer / get_line: totality (no panic, no out-of-fuel, nesting bounded by 33 calls), exactness of "
                "every accepted integer at any offset with rejection of everything outside i64; the model is tied to "
                "/repo's working tree on every run by differential execution (debug and release builds, ~6000 inputs "
                "quick) plus a model-independent oracle on the implementation's results.",
        "design_ref": "DESIGN.md section 8, C07",
        "note": "Theorems are about the model (coq/Resp/Frame.v); the Rust code is covered as far as generated inputs "
                "exercise it. Stack sufficiency for 33 nested calls is measured, not proved. 64-bit target assumed.",
        "technique": "Coq proof over executable model + differential correspondence (vm_compute vs Rust harness)",
    },
    "C08": {
        "text": "Machine-checked proof (Coq 8.16) that every writable frame (simple strings/errors without CR/LF, every i64, "
                "arbitrary bulk strings, null, arrays of those) is encoded by the model of write_frame and decoded back to the "
                "same frame by the models of Frame::check, Frame::parse and Connection::parse_frame, whatever bytes follow; "
                "the chunking clauses (every strict prefix incomplete, any segmentation, truncated stream = reset) are stated "
                "but not yet proved and are decided by deterministic differential execution of the real Connection over a "
                "scripted in-memory stream (whole / bytewise / random cuts / inside each CRLF / cut short), compared with the "
                "model and with an independent oracle.",
        "design_ref": "DESIGN.md section 8, C08",
        "note": "Proof covers the round-trip clause; chunking clauses are differential only (core/stretch split, DESIGN.md section 10). "
                "Theorems are about the model coq/Resp/{Frame,Conn}.v.",
        "technique": "Coq proof (round trip) over executable model + differential correspondence on scripted streams",
    },
}

STORE_NOTE = 'Theorems are about the hand-written model coq/Store/Engine.v (record-level files; bytes via Store/Codec.v), tied to the code by differential execution only. DashMap, lru, memmap2, bincode, BufWriter and the file system are modelled, not verified; merge iteration order and timestamps are oracle inputs read back from the implementation; single-threaded (concurrency is C04). Merge orders are assumed to visit each index entry of a selected file exactly once.'

CHECKS.update({
    "C01": {
        "text": "Machine-checked refinement proof (Coq 8.16): for every configuration and every script of set/get/delete/merge/"
                "reopen/clock operations, the engine model's results equal those of a key-value map, no operation fails or "
                "panics, and the invariant (index = latest value record of the log, counters = ground truth, hint files list "
                "their data files) is preserved, by induction over the script with the directory's log as abstract state; the "
                "model is tied to /repo by differential execution of ~600 generated scripts per run (results), with the map "
                "itself as an independent oracle on the implementation.",
        "design_ref": "DESIGN.md section 8, C01", "note": STORE_NOTE,
        "technique": "Coq refinement proof (log-consistency invariant) + differential correspondence",
    },
    "C02": {
        "text": "Machine-checked proof that any number of close/reopen cycles after any reachable history changes no key's value, "
                "that recovery rebuilds the index entry-for-entry and the counters exactly, and that reopening issues only the "
                "creation of a fresh active file; the pinned recovery (tombstones ignored) is kept as a refuted variant. "
                "Differential runs with reopen cycles and backwards-stepping timestamps tie the model to /repo.",
        "design_ref": "DESIGN.md section 8, C02", "note": STORE_NOTE,
        "technique": "Coq proof (recovery = fold of the same step as writes) + differential correspondence",
    },
    "C05": {
        "text": "Machine-checked proof that a merge pass, for every configuration (hence every threshold setting and every subset "
                "the selection can produce) and every valid iteration order, succeeds, preserves the invariant and leaves every "
                "key reading as before, immediately and after any number of reopen cycles; the selection is proved closed "
                "downwards over files holding records; the pinned selection is refuted by the D2 witness. Differential runs "
                "bracket every merge and reopen with reads of every key.",
        "design_ref": "DESIGN.md section 8, C05", "note": STORE_NOTE,
        "technique": "Coq proof (merge loop invariant over the log + prefix-drop lemma) + differential correspondence",
    },
    "C12": {
        "text": "Machine-checked proof that opening the directory of any reachable state with all hint files removed recovers the "
                "same index entry and value for every key as opening with them (hint files list exactly their data files' "
                "records, an invariant of every operation including merges that roll over); differential runs delete the hint "
                "files of real stores and compare reads and index dumps.",
        "design_ref": "DESIGN.md section 8, C12", "note": STORE_NOTE,
        "technique": "Coq proof (hint scan = data scan on listed files) + differential correspondence",
    },
    "C13": {
        "text": "Machine-checked proof of the exact size of the data files after a merge (what the unselected files hold plus one "
                "copy of every record that was live in a selected file), hence: a merge never grows the store for any thresholds; "
                "when every file holding records is selected the result is exactly the live records with no dead record or byte "
                "left; repeating such a merge leaves the size unchanged. Differential runs list real file sizes before and after "
                "every merge and compare them with the model and with the sum of 25+|k|+|v| over the live pairs.",
        "design_ref": "DESIGN.md section 8, C13", "note": STORE_NOTE,
        "technique": "Coq proof (live-bytes invariant of the merge loop) + differential correspondence on file sizes",
    },
    "C14": {
        "text": "Run-time verification with a monitor proved sound in Coq: the mutating file-system calls of the real store are "
                "recorded (LD_PRELOAD), compared call by call with the model's trace, and fed to the Coq monitor whose acceptance "
                "is proved to imply: exclusive creation with ids above every id ever present, writes only appending to the file "
                "this process created last (or its hint) and only while it is within the size bound, nothing written to inherited "
                "files; truncate/rename/pwrite/open-for-write/writable mmap are reported by the recorder and rejected. That every "
                "model trace is accepted is evaluated per run, not yet proved (partial).",
        "design_ref": "DESIGN.md section 8, C14",
        "note": STORE_NOTE + " The recorder sees libc calls only. Absence of truncate/rename in all executions is monitored, not proved.",
        "technique": "Coq-proved trace monitor evaluated on recorded real traces + trace correspondence with the model",
    },
    "C19": {
        "text": "Machine-checked proof that in every reachable crash-free state each file's live/dead/dead-bytes counters equal "
                "ground truth computed from the files and the index, that a counter row exists exactly for files holding "
                "records, and that the checked decrement never underflows; proved once for the single step 'append a record' "
                "that put, delete, both recovery scans and the merge loop share. Differential runs compare index and counters "
                "after every operation and scan the real files independently at the end.",
        "design_ref": "DESIGN.md section 8, C19", "note": STORE_NOTE,
        "technique": "Coq proof (counting lemmas over the log) + differential correspondence + independent file scan",
    },
})

NOT_YET = "not claimed yet: model/theorems for this property are not built in this revision (planned, DESIGN.md section 8)"


def manifest():
    checks = []
    for pid in ALL:
        if pid not in CHECKS:
            continue
        c = CHECKS[pid]
        checks.append({
            "property_id": pid,
            "quick_cmd": "bin/check %s --tier quick" % pid,
            "thorough_cmd": "bin/check %s --tier thorough" % pid,
            "evidence_file": "evidence/%s.json" % pid,
            "replay_cmd_template": "bin/check %s --replay {path}" % pid,
            "engine": "coq-model+harness",
            "level_claimed": {"category": "proof", "text": c["text"], "design_ref": c["design_ref"]},
            "level_note": c["note"],
            "technique": c["technique"],
        })
    return {
        "version": 1,
        "setup_cmd": "bin/setup",
        "hooks": {
            "guard": "cargo feature `verif`",
            "enable": "harness/Cargo.toml: bitcask = { path = \"/repo\", features = [\"verif\"] }",
            "baseline_off_cmd": "cd /repo && cargo test --workspace --no-fail-fast --offline",
            "source_commits": HOOK_COMMITS,
            "add_only": True,
        },
        "engines": [{
            "name": "coq-model+harness", "path": "coq/ lib/ harness/ bin/check",
            "serves_properties": sorted(CHECKS),
            "kind_free_text": "Coq 8.16 development (model + theorems), Rust harness on /repo's working tree, python driver diffing "
                              "model (vm_compute inside coqc) against implementation and running property oracles",
        }],
        "checks": checks,
        "not_applicable": [{"property_id": p, "reason": NOT_YET} for p in ALL if p not in CHECKS],
        "notes": "See DESIGN.md. known_findings.json lists recorded findings and fixed defects.",
    }
