"""Source of MANIFEST.json (bin/gen-manifest)."""
ALL = ["C%02d" % i for i in range(1, 21)]

HOOK_COMMITS = ["55abd2b"]

CHECKS = {
    "C06": {
        "text": "Machine-checked proof (Coq 8.16) that for every stream of well-formed SET/GET/DEL requests and EVERY way of cutting "
                "it into socket reads (and any pipelining depth) the handler model writes exactly the concatenation of the map's "
                "replies, one per request in order, ends with the map's store and closes cleanly; built on the stream theorem of C08. "
                "The crate's own client (src/net/client.rs) is modelled too: end to end, the calls of a client session answered by the "
                "handler return call by call what the map says for every segmentation of the reply stream; a stream cut inside a reply "
                "gives a reset, never a value. The loop is also composed with the engine model (one get / set per command, one delete per "
                "DEL key): over the engine started on an empty directory it writes the same bytes and ends in an invariant engine state "
                "denoting the same map (C06_over_engine). Tied to /repo by driving the real server over TCP with generated request sequences under "
                "several segmentations and pipelining modes (reply bytes and final store compared with the model and with an independent "
                "map oracle), by running the real client against a scripted server (expected, error, other, doubled, truncated, missing and "
                "malformed replies) and against the real server, each compared with the model; and by recording the system calls the "
                "real server issues for a connection and comparing them, call by call and byte by byte, with the trace of the engine "
                "script of its commands (the tie of the composition with the engine model).",
        "design_ref": "DESIGN.md section 8, C06",
        "note": "The handler model runs over a map; C01 links the real engine to it. Segment boundaries over loopback are encouraged, "
                "not guaranteed; the deterministic segmentation tie is C08's scripted stream. tokio/TCP are modelled, not verified.",
        "technique": "Coq proof (handler over stream theorem) + differential correspondence over TCP",
    },
    "C10": {
        "text": "Machine-checked proof over the handler model: on arbitrary bytes in arbitrary pieces the connection layer yields only "
                "frames followed by one clean end/reset/error (no panic, abort or exhausted fuel), the handler never panics, and the "
                "store changes exactly by the commands the command parser accepted before the first rejected frame (also with the engine "
                "model in place of the map: invariant kept, files reached only through accepted commands); partial: that a "
                "failing tokio task leaves the process and other tasks intact is observed, not proved. The check sends 26 families of "
                "hostile streams to the real server while two other connections verify their own answers and the process stays up.",
        "design_ref": "DESIGN.md section 8, C10",
        "note": "Process-level isolation (tokio tasks) is runtime behaviour outside the model; observed by the harness.",
        "technique": "Coq proof (totality, store effect) + hostile-stream differential runs against the live server",
    },
    "C15": {
        "text": "Machine-checked proof over a transition system transcribing the permit handling of Listener::listen and Handler's "
                "Drop: in every reachable state permits + connections served + the listener's held permit = max, hence never more "
                "than max served, every slot back once connections ended (whatever the way each ended, panic included), full "
                "capacity available again; partial: the semaphore and Drop-on-unwind are runtime behaviour. The check fills the real "
                "server (max 1-3), verifies an extra connection is not served, ends served connections in six ways, verifies the "
                "waiting one is then served, repeats, and verifies full capacity at the end. Model-driven sessions: random client "
                "behaviour (open, end a served connection in one of eight ways, give up while waiting) is run through the transition "
                "system under an eager scheduler (proved to take only steps of the system) and on the real server; after every "
                "action the connections served and the ones waiting must be the ones the model names.",
        "design_ref": "DESIGN.md section 8, C15",
        "note": "30-line LTS; timing-based observation (served = reply within 1.5-3 s, not served = none within 350 ms).",
        "technique": "Coq invariant proof over an LTS + model-driven and scripted scenario runs against the live server",
    },
    "C16": {
        "text": "Machine-checked proof over a transition system of Server::run / Handler::run / Shutdown: replies become visible whole "
                "and only after their store operation, a handler only leaves between commands having replied to everything it "
                "applied, and once the signal is out run can return after at most 3 events per connection + 1 with no client action "
                "provided no handler is blocked writing to a non-reading client; that exception is a recorded finding with its own "
                "theorem (C16_known_refuted). The check fires shutdown on the real server with clients idle / mid-frame / mid-burst / "
                "mid-3MB-SET and verifies return within 4 s, whole replies then EOF, acknowledged SETs present.",
        "design_ref": "DESIGN.md section 8, C16",
        "note": "tokio select!/broadcast/mpsc are modelled; bounded-time termination assumes select eventually takes the shutdown branch. "
                "One known finding (known_findings.json: blocked-writer).",
        "technique": "Coq invariant/termination proof over an LTS + scenario runs against the live server",
    },
    "C17": {
        "text": "Machine-checked proof over the closed-flag wrapper of the engine model and the worker's select: after the drop every "
                "operation through any handle returns `closed` with unchanged state and no system call, forever; the worker reaches "
                "its exit in at most two of its own steps without a timer tick; the directory of any reachable state reopens to the "
                "same contents. Partial: thread/descriptor lifetime is observed (per-process /proc counts after a drop with a "
                "one-hour timer and after 3-12 open/close cycles), not proved.",
        "design_ref": "DESIGN.md section 8, C17",
        "note": "Operations already past their closed check when the drop happens are concurrent with it and outside the statement.",
        "technique": "Coq proof over a small model + lifecycle scenario runs with /proc observation",
    },
    "C18": {
        "text": "Machine-checked proof over a transition system of the two periodic tasks on top of the engine model: with policy "
                "never no merge ever runs; with policy always, at every wake-up a merge runs exactly when some file exceeds a trigger, "
                "the fragmentation trigger evaluated in IEEE-754 binary64 (Flocq) as the code does; with interval sync every wake-up "
                "forces the active file. Partial: real time is abstracted to ticks. The check compares verif_can_merge() with the "
                "binary64 model on generated counter states (incl. 0.6 vs 3/5), and observes real timers: merges appear / do not "
                "appear without client action, fsync calls per interval counted by the recorder.",
        "design_ref": "DESIGN.md section 8, C18",
        "note": "Ticks abstract time; the window policy is outside the property. Flocq executable definitions are used by computation "
                "(vm_compute); Print Assumptions of the theorems is closed.",
        "technique": "Coq proof over an LTS with Flocq binary64 trigger + timed scenario runs + trigger correspondence",
    },
    "C07": {
        "text": "Machine-checked proof (Coq 8.16) over a hand-written executable model of Frame::check / Frame::parse / "
                "get_integer / get_line: totality (no panic, no out-of-fuel, nesting bounded by 33 calls), exactness of "
                "every accepted integer at any offset with rejection of everything outside i64; the model is tied to "
                "/repo's working tree on every run by differential execution (debug and release builds, ~6000 inputs "
                "quick) plus a model-independent oracle on the implementation's results.",
        "design_ref": "DESIGN.md section 8, C07",
        "note": "Theorems are about the model (coq/Resp/Frame.v); the Rust code is covered as far as generated inputs "
                "exercise it. Stack sufficiency for 33 nested calls is measured, not proved. 64-bit target assumed.",
        "technique": "Coq proof over executable model + differential correspondence (vm_compute vs Rust harness)",
    },
    "C08": {
        "text": "Machine-checked proof (Coq 8.16) that every writable frame (simple strings/errors without CR/LF, every i64, "
                "arbitrary bulk strings, null, arrays of those) is encoded by the model of write_frame and decoded back to the "
                "same frame by the models of Frame::check, Frame::parse and Connection::parse_frame, whatever bytes follow; "
                "the chunking clauses (every strict prefix incomplete, any segmentation, truncated stream = reset) are stated "
                "but not yet proved and are decided by deterministic differential execution of the real Connection over a "
                "scripted in-memory stream (whole / bytewise / random cuts / inside each CRLF / cut short), compared with the "
                "model and with an independent oracle.",
        "design_ref": "DESIGN.md section 8, C08",
        "note": "Proof covers the round-trip clause; chunking clauses are differential only (core/stretch split, DESIGN.md section 10). "
                "Theorems are about the model coq/Resp/{Frame,Conn}.v.",
        "technique": "Coq proof (round trip) over executable model + differential correspondence on scripted streams",
    },
}

STORE_NOTE = 'Theorems are about the hand-written model coq/Store/Engine.v (record-level files; bytes via Store/Codec.v), tied to the code by differential execution only. DashMap, lru, memmap2, bincode, BufWriter and the file system are modelled, not verified; merge iteration order and timestamps are oracle inputs read back from the implementation; single-threaded (concurrency is C04). Merge orders are assumed to visit each index entry of a selected file exactly once.'

CHECKS.update({
    "C01": {
        "text": "Machine-checked refinement proof (Coq 8.16): for every configuration and every script of set/get/delete/merge/"
                "reopen/clock operations, the engine model's results equal those of a key-value map, no operation fails or "
                "panics, and the invariant (index = latest value record of the log, counters = ground truth, hint files list "
                "their data files) is preserved, by induction over the script with the directory's log as abstract state; the "
                "model is tied to /repo by differential execution of ~600 generated scripts per run (results), with the map "
                "itself as an independent oracle on the implementation.",
        "design_ref": "DESIGN.md section 8, C01", "note": STORE_NOTE,
        "technique": "Coq refinement proof (log-consistency invariant) + differential correspondence",
    },
    "C02": {
        "text": "Machine-checked proof that any number of close/reopen cycles after any reachable history changes no key's value, "
                "that recovery rebuilds the index entry-for-entry and the counters exactly, and that reopening issues only the "
                "creation of a fresh active file; the pinned recovery (tombstones ignored) is kept as a refuted variant. "
                "Differential runs with reopen cycles and backwards-stepping timestamps tie the model to /repo.",
        "design_ref": "DESIGN.md section 8, C02", "note": STORE_NOTE,
        "technique": "Coq proof (recovery = fold of the same step as writes) + differential correspondence",
    },
    "C05": {
        "text": "Machine-checked proof that a merge pass, for every configuration (hence every threshold setting and every subset "
                "the selection can produce) and every valid iteration order, succeeds, preserves the invariant and leaves every "
                "key reading as before, immediately and after any number of reopen cycles; the selection is proved closed "
                "downwards over files holding records; the pinned selection is refuted by the D2 witness. Differential runs "
                "bracket every merge and reopen with reads of every key. Seen from a connection (handler composed with the engine model): "
                "merge passes between any two commands, in any order the index hands out, leave every reply byte unchanged.",
        "design_ref": "DESIGN.md section 8, C05", "note": STORE_NOTE,
        "technique": "Coq proof (merge loop invariant over the log + prefix-drop lemma) + differential correspondence",
    },
    "C12": {
        "text": "Machine-checked proof that opening the directory of any reachable state with all hint files removed recovers the "
                "same index entry and value for every key as opening with them (hint files list exactly their data files' "
                "records, an invariant of every operation including merges that roll over); differential runs delete the hint "
                "files of real stores and compare reads and index dumps.",
        "design_ref": "DESIGN.md section 8, C12", "note": STORE_NOTE,
        "technique": "Coq proof (hint scan = data scan on listed files) + differential correspondence",
    },
    "C13": {
        "text": "Machine-checked proof of the exact size of the data files after a merge (what the unselected files hold plus one "
                "copy of every record that was live in a selected file), hence: a merge never grows the store for any thresholds; "
                "when every file holding records is selected the result is exactly the live records with no dead record or byte "
                "left; repeating such a merge leaves the size unchanged. Differential runs list real file sizes before and after "
                "every merge and compare them with the model and with the sum of 25+|k|+|v| over the live pairs.",
        "design_ref": "DESIGN.md section 8, C13", "note": STORE_NOTE,
        "technique": "Coq proof (live-bytes invariant of the merge loop) + differential correspondence on file sizes",
    },
    "C14": {
        "text": "Run-time verification with a monitor proved sound in Coq: the mutating file-system calls of the real store are "
                "recorded (LD_PRELOAD), compared call by call with the model's trace, and fed to the Coq monitor whose acceptance "
                "is proved to imply: exclusive creation with ids above every id ever present, writes only appending to the file "
                "this process created last (or its hint) and only while it is within the size bound, nothing written to inherited "
                "files; truncate/rename/pwrite/open-for-write/writable mmap are reported by the recorder and rejected. Proved in Coq "
                "(Store/Discipline.v): the monitor accepts the whole trace of EVERY ready script of the model - sets, deletes, "
                "reopens, merge passes with their rollovers and unlinks - so the discipline holds for the model in all executions; "
                "the recorded real traces tie the model to the code.",
        "design_ref": "DESIGN.md section 8, C14",
        "note": STORE_NOTE + " The recorder sees libc calls only. Absence of truncate/rename in all executions is monitored, not proved.",
        "technique": "Coq proof (monitor soundness + acceptance of every model trace) + monitor evaluated on recorded real traces + trace correspondence",
    },
    "C03": {
        "text": "Machine-checked proof over a byte-level file-system model plus crash-point enumeration on the real store. Proved in "
                "Coq (Store/CodecProofs, Crash, CrashScript, CrashMerge): decoding inverts encoding and every strict prefix of a record "
                "or hint decodes as end-of-input; for EVERY ready script - sets, deletes, reopens and merge passes - every crash "
                "image of its system-call trace (any call boundary, the last write cut at any byte) reads as a directory that opens "
                "to the map after the first n operations: acknowledged operations are all there, the one in flight entirely or not "
                "at all (and the same for the server: the per-connection loop turns any byte stream into such a script); a merge pass is safe because its outputs only hold copies, are read through hint files written after the "
                "data, and the selected files are removed in ascending order so the removed set stays closed downwards. The tie to "
                "the code: every workload runs on the real store under an LD_PRELOAD recorder, the recorded trace is compared per "
                "operation with the model's, and every prefix of the recorded calls (every boundary, byte cuts inside writes) is "
                "materialised as a directory and opened by the real code, which must read the acknowledged state with the operation "
                "in flight applied or not.",
        "design_ref": "DESIGN.md section 0.3 and 8, C03", "note": STORE_NOTE + " Crash model: a killed process leaves a prefix of its calls, "
                "cut at any byte of the last write; traces must be well-formed (lengths below 2^64, timestamps in i64). Several "
                "crashes in a row are not composed in Coq.",
        "technique": "Coq proof (byte-level crash images of every script incl. merge passes) + exhaustive crash-image enumeration on recorded real traces",
    },
    "C09": {
        "text": "Machine-checked proof in the failure model of the property plus power-loss image enumeration on the real store. Proved "
                "in Coq (Store/Power.v): a file system that tracks each file's durable length; a power image keeps of every file a "
                "prefix at least that long, creations and removals persistent, at every boundary between calls; under sync=always "
                "EVERY power image of the trace of EVERY ready script - sets, deletes, reopens, merge passes - reads as a directory "
                "that opens to the map after the first n operations (sharp form: a failure during operation o keeps every operation "
                "that returned before it; for a merge pass the map does not change: no only durable copy is ever removed). The merge "
                "argument: outputs are unsynced copies read through hint files, hints beyond the durable data are cut off by the "
                "loader, both outputs are fsynced before the first unlink. The tie to the code: for every prefix of the recorded REAL "
                "calls, images in which every file is cut independently between its last fsync and its current length are opened by "
                "the real code and read against the acknowledged state; recorded traces are compared with the model's.",
        "design_ref": "DESIGN.md section 0.3 and 8, C09", "note": STORE_NOTE + " fsync = everything written so far to that file is durable "
                "(assumption about the OS); no directory fsync is modelled because the property grants persistent creations/removals. "
                "Traces must be well-formed (lengths below 2^64, timestamps in i64).",
        "technique": "Coq proof (power images of every script under sync=always, merge passes included) + power-cut image enumeration on recorded real traces",
    },
    "C20": {
        "text": "One-fault sweep on the real store (level fault_enumeration) plus partial Coq proof: each workload is re-run once per "
                "sampled (quick) or every (thorough) create/write/fsync/unlink position with that call failing (ENOSPC/EIO, no "
                "effect); the operation the fault hit must report an error, every other operation must succeed, and every key is "
                "read in the running process and again after a restart against the map with the failed operation applied or not. "
                "Proved in Coq: ids are consumed before creation and never reused, the writer's file is always the newest hint-less "
                "file, a stale writer rolls over before appending (fault-free model); and the restart half of the property for "
                "set/delete/reopen - what a failed operation leaves on disk is a crash image of its trace, and every crash image "
                "recovers all earlier operations and the failed one entirely or not (from C03); a failed unlink in the merge's cleanup "
                "leaves a statistics row for every file on disk (repaired order; pinned order refuted), and wherever rows cover files every later selection is closed downwards over the files that hold records, no engine invariant assumed (C20_rows_make_selection_closed). For the RUNNING process: after a "
                "put or delete whose append failed (or whose replacement of the active file failed) every later answer of every "
                "script is the map's answer with the failed operation not applied; the record that may still sit whole in the write "
                "buffer is dropped by the next put, delete or merge and written out by a clean close, after which the operation has "
                "taken effect (theorems C20_continue_after_failed_write / _append, model step_r); and the two halves together: the process goes on "
                "beside the torn record, and what is then on disk (all later system calls executed on the byte-level file system with "
                "the junk in place) opens to exactly the map the process holds (C20_continue_then_restart). That model is compared with the real "
                "store on every sweep case in which the fault hit the data write of a set or delete (results, index, counters in the "
                "running process, everything after the restart). A put or delete whose FSYNC failed behind the completed append "
                "(sync=always; model failed_fsync, Store/FaultFsync.v): the running process does not see the record, a restart at "
                "that point reads it with no other key concerned, the repaired bookkeeping (fix 6ff1d59) keeps a statistics row for "
                "every file that holds a record and keeps every per-file counter exact with respect to the index, while the pinned one loses the row and the count, and the history of that finding computed in the "
                "model resurrects a deleted key under the pinned bookkeeping only (C20_failed_fsync_*); failed_fsync is compared "
                "with the real store on every sweep case whose fault hit such an fsync (results, index, counters, file bytes, "
                "restart). A merge pass stopped by a failing HINT write (model merge_fail_hint, Store/FaultMerge.v): with the repaired order "
                "of the copy loop (fixes 97ca669, a53a922: statistics row, hint entry, index entry) every index entry stays in an "
                "existing file and listed by the hint file a restart reads, and every file whose hint file lists something keeps its "
                "statistics row, for a failure at any entry of any pass from any reachable state; the pinned order and the "
                "hint-before-row order are refuted, and the histories of both findings are computed in the model under each order "
                "(C20_failed_hint_write_*, C20_hint_before_row_refuted); merge_fail_hint is compared with the real store on every sweep case whose fault hit a hint write inside a merge (the copied prefix is read back from the pass's output). Not proved: what a restart yields after the process went on behind a failed fsync or a failed rollover "
                "behind a completed append, or after a merge pass that failed half-way (sweep only).",
        "design_ref": "DESIGN.md section 8, C20", "note": "Faults are all-or-nothing per call, one per run. The injector sees libc "
                "calls on *.bitcask.* files. Theorems cover the id discipline, the restart half, and the in-process half for failed appends / creates; the other in-process faults are enumeration only.",
        "technique": "exhaustive single-fault injection (LD_PRELOAD) + Coq proof of the id discipline, of restart-after-fault (via crash images) and of the running process after a failed append (refinement with a pending operation), the latter tied to the code by correspondence",
        "category": "fault_enumeration",
    },
    "C04": {
        "text": "Machine-checked proof over an interleaving model of put / get / delete on the active data file at the granularity "
                "at which the code's steps are visible to other threads (writer mutex, a record's bytes appearing in the file in "
                "arbitrary increments, KeyDir publish and lookup, per-reader mapped lengths, the bounded reader pool, the remap rule "
                "of LogReader::at): for EVERY schedule no thread panics, the history is linearizable (commit-point simulation into a "
                "generic linearizability theorem), readers are conserved and no state deadlocks; the pinned remap rule is refuted by an "
                "explicit schedule. A second interleaving model (gets against a running merge pass: DashMap guard kept across the read, "
                "copy-and-re-point under the entry lock, unlinks afterwards) proves for every schedule that no get reads an unlinked "
                "file, every get returns the value at its lookup and the merge never changes the map; the variant without the guard "
                "is refuted. A third model (puts and deletes that replace the active file: append, create the next file, publish; per-reader, per-file "
                "mappings opened at first use and renewed when they do not cover the record) proves for every schedule that no reader finds "
                "a file missing or a record outside its mapping, that every get returns the value at its lookup, that the history is "
                "linearizable (same commit-point theorem) and that no step of a put waits for a reader; the variant that never renews is refuted. Partial: the three models are not composed. The check forces 8 "
                "targeted interleavings on the real threads by parking at verif schedule points (four of them are also run through the models "
                "and the per-thread results compared), runs free stress with merges and rollovers, and decides every timed history "
                "with a Wing-Gong-Lowe linearizability search; probes afterwards that reads are still served.",
        "design_ref": "DESIGN.md section 8, C04",
        "note": "Mutex, DashMap shard atomicity, ArrayQueue and mmap coherence are modelled, not verified. The window inside one BufWriter::write has no schedule point.",
        "technique": "Coq proof over an interleaving LTS (safety, linearizability by simulation, deadlock freedom) + forced schedules "
                     "and stress on real threads decided by a linearizability checker",
    },
    "C11": {
        "text": "Machine-checked proof: generic commit-point linearizability theorem, instantiated for the store's interleaving model "
                "with threads read as connections (one command in flight per connection); widening an operation's interval (the request is "
                "sent before the store is invoked, the reply arrives after it returned) keeps a history accepted by the monitor, so the "
                "client-visible history is linearizable whenever the store-level one is; no GET can panic its blocking thread. "
                "Partial: tokio scheduling is not modelled. The check runs the real server with 3-8 concurrent client connections "
                "(SET/GET/DEL on 1-3 hot keys, merges and rollovers running), records client-side send/receive instants and replies, "
                "and decides each history with the linearizability checker; two forced schedules (SET parked before publication while "
                "a merge runs; two DELs of one key) have exact expected replies.",
        "design_ref": "DESIGN.md section 8, C11",
        "note": "Client-side timestamps are taken just before send and just after the full reply is read, so they contain the server-side "
                "interval. Theorems are about the store-level model; the handler's reply is tied to the store result by C10.",
        "technique": "Coq proof (commit-point linearizability, store LTS simulation) + multi-connection histories of the real server "
                     "decided by a linearizability checker",
    },
    "C19": {
        "text": "Machine-checked proof that in every reachable crash-free state each file's live/dead/dead-bytes counters equal "
                "ground truth computed from the files and the index, that a counter row exists exactly for files holding "
                "records, and that the checked decrement never underflows; proved once for the single step 'append a record' "
                "that put, delete, both recovery scans and the merge loop share. Differential runs compare index and counters "
                "after every operation and scan the real files independently at the end.",
        "design_ref": "DESIGN.md section 8, C19", "note": STORE_NOTE,
        "technique": "Coq proof (counting lemmas over the log) + differential correspondence + independent file scan",
    },
})

NOT_YET = "not claimed yet: model/theorems for this property are not built in this revision (planned, DESIGN.md section 8)"


def manifest():
    checks = []
    for pid in ALL:
        if pid not in CHECKS:
            continue
        c = CHECKS[pid]
        checks.append({
            "property_id": pid,
            "quick_cmd": "bin/check %s --tier quick" % pid,
            "thorough_cmd": "bin/check %s --tier thorough" % pid,
            "evidence_file": "evidence/%s.json" % pid,
            "replay_cmd_template": "bin/check %s --replay {path}" % pid,
            "engine": "coq-model+harness",
            "level_claimed": {"category": c.get("category", "proof"), "text": c["text"], "design_ref": c["design_ref"]},
            "level_note": c["note"],
            "technique": c["technique"],
        })
    return {
        "version": 1,
        "setup_cmd": "bin/setup",
        "hooks": {
            "guard": "cargo feature `verif`",
            "enable": "harness/Cargo.toml: bitcask = { path = \"/repo\", features = [\"verif\"] }",
            "baseline_off_cmd": "cd /repo && cargo test --workspace --no-fail-fast --offline",
            "source_commits": HOOK_COMMITS,
            "add_only": True,
        },
        "engines": [{
            "name": "coq-model+harness", "path": "coq/ lib/ harness/ bin/check",
            "serves_properties": sorted(CHECKS),
            "kind_free_text": "Coq 8.16 development (model + theorems), Rust harness on /repo's working tree, python driver diffing "
                              "model (vm_compute inside coqc) against implementation and running property oracles",
        }],
        "checks": checks,
        "not_applicable": [{"property_id": p, "reason": NOT_YET} for p in ALL if p not in CHECKS],
        "notes": "See DESIGN.md. known_findings.json lists recorded findings and fixed defects.",
    }
