"""Source of MANIFEST.json (bin/gen-manifest)."""
ALL = ["C%02d" % i for i in range(1, 21)]

HOOK_COMMITS = ["55abd2b"]

CHECKS = {
    "C07": {
        "text": "Machine-checked proof (Coq 8.16) over a hand-written executable model of Frame::check / Frame::parse / "
                "get_integer / get_line: totality (no panic, no out-of-fuel, nesting bounded by 33 calls), exactness of "
                "every accepted integer at any offset with rejection of everything outside i64; the model is tied to "
                "/repo's working tree on every run by differential execution (debug and release builds, ~6000 inputs "
                "quick) plus a model-independent oracle on the implementation's results.",
        "design_ref": "DESIGN.md section 8, C07",
        "note": "Theorems are about the model (coq/Resp/Frame.v); the Rust code is covered as far as generated inputs "
                "exercise it. Stack sufficiency for 33 nested calls is measured, not proved. 64-bit target assumed.",
        "technique": "Coq proof over executable model + differential correspondence (vm_compute vs Rust harness)",
    },
    "C08": {
        "text": "Machine-checked proof (Coq 8.16) that every writable frame (simple strings/errors without CR/LF, every i64, "
                "arbitrary bulk strings, null, arrays of those) is encoded by the model of write_frame and decoded back to the "
                "same frame by the models of Frame::check, Frame::parse and Connection::parse_frame, whatever bytes follow; "
                "the chunking clauses (every strict prefix incomplete, any segmentation, truncated stream = reset) are stated "
                "but not yet proved and are decided by deterministic differential execution of the real Connection over a "
                "scripted in-memory stream (whole / bytewise / random cuts / inside each CRLF / cut short), compared with the "
                "model and with an independent oracle.",
        "design_ref": "DESIGN.md section 8, C08",
        "note": "Proof covers the round-trip clause; chunking clauses are differential only (core/stretch split, DESIGN.md section 10). "
                "Theorems are about the model coq/Resp/{Frame,Conn}.v.",
        "technique": "Coq proof (round trip) over executable model + differential correspondence on scripted streams",
    },
}

NOT_YET = "not claimed yet: model/theorems for this property are not built in this revision (planned, DESIGN.md section 8)"


def manifest():
    checks = []
    for pid in ALL:
        if pid not in CHECKS:
            continue
        c = CHECKS[pid]
        checks.append({
            "property_id": pid,
            "quick_cmd": "bin/check %s --tier quick" % pid,
            "thorough_cmd": "bin/check %s --tier thorough" % pid,
            "evidence_file": "evidence/%s.json" % pid,
            "replay_cmd_template": "bin/check %s --replay {path}" % pid,
            "engine": "coq-model+harness",
            "level_claimed": {"category": "proof", "text": c["text"], "design_ref": c["design_ref"]},
            "level_note": c["note"],
            "technique": c["technique"],
        })
    return {
        "version": 1,
        "setup_cmd": "bin/setup",
        "hooks": {
            "guard": "cargo feature `verif`",
            "enable": "harness/Cargo.toml: bitcask = { path = \"/repo\", features = [\"verif\"] }",
            "baseline_off_cmd": "cd /repo && cargo test --workspace --no-fail-fast --offline",
            "source_commits": HOOK_COMMITS,
            "add_only": True,
        },
        "engines": [{
            "name": "coq-model+harness", "path": "coq/ lib/ harness/ bin/check",
            "serves_properties": sorted(CHECKS),
            "kind_free_text": "Coq 8.16 development (model + theorems), Rust harness on /repo's working tree, python driver diffing "
                              "model (vm_compute inside coqc) against implementation and running property oracles",
        }],
        "checks": checks,
        "not_applicable": [{"property_id": p, "reason": NOT_YET} for p in ALL if p not in CHECKS],
        "notes": "See DESIGN.md. known_findings.json lists recorded findings and fixed defects.",
    }
