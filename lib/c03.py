"""C03 — a process crash at any instant loses no acknowledged write and corrupts nothing."""
from common import Report, Rng, chunks, coq_check_props, coq_eval, harness_build, log, NCPU
import storelib as S
import tracelib as T
import crashlib as C

PROFILE = {"weights": {"set": 10, "del": 4, "merge": 3, "reopen": 2},
           "cfg": lambda r: {"mfs": r.choice([0, 30, 60, 100, 200, 30000])}}
BIG = {"weights": {"set": 6, "del": 2, "merge": 1},
       "cfg": lambda r: {"mfs": r.choice([60, 30000, 2 ** 31])}}


def corpus():
    # value in an older file, tombstone in a newer file with more dead bytes, both merged (seed C03-A shape)
    cfg = {"mfs": 60, "cache": 256, "conc": 1, "frag": (0, 1), "dead": 0, "small": 10 ** 9}
    return [
        S.Case("corpus-tomb-newer", dict(cfg), [("set", b"victim", b"v" * 30), ("set", b"a", b"1"), ("set", b"a", b"2"), ("set", b"a", b"3"),
                                                ("del", b"victim"), ("del", b"x1"), ("del", b"x2"), ("del", b"x3"), ("merge",),
                                                ("get", b"victim")]),
        # an entry above the 8 KiB write buffer reaches the file in two writes (seed C03-B shape)
        S.Case("corpus-torn-append", {"mfs": 2 ** 31, "cache": 256, "conc": 1, "frag": (1, 1), "dead": 10 ** 9, "small": 0},
               [("set", b"small", b"s"), ("set", b"big", b"B" * 8170), ("set", b"after", b"a"), ("get", b"big")]),
    ]


def run(pid, tier, seed, power):
    rep = Report(pid, tier, seed)
    rng = Rng(seed)
    pr = coq_check_props(pid)
    for t in pr["theorems"]:
        rep.obligation("theorem " + t, pr["ok"])
    if not pr["theorems"]:
        rep.obligation("Props/%s.v compiles" % pid, pr["ok"])
    if not pr["ok"]:
        log(pr["log"])
    ok, out = harness_build(False)
    oks, outs = T.build_shim()
    rep.obligation("harness and recorder build", ok and oks)
    if not (ok and oks):
        log((out + outs)[-3000:])
        rep.coverage.update({"checker_cmd": "make -C coq Props/%s.vo" % pid, "trusted_base": TRUSTED})
        return rep.finish()
    n = {"quick": 120, "thorough": 3000}[tier]
    prof = dict(PROFILE)
    if power:
        prof["cfg"] = lambda r: {"mfs": r.choice([0, 30, 60, 100, 200, 30000]), "sync": True}
    cases = corpus() + S.gen_cases(rng, n, prof, maxlen=14)
    bigp = dict(BIG)
    if power:
        bigp["cfg"] = lambda r: {"mfs": r.choice([60, 30000, 2 ** 31]), "sync": True}
    cases += S.gen_cases(rng, n // 6, bigp, maxlen=6, prefix="b")
    if power:
        for c in cases:
            c.cfg["sync"] = True
    died = T.run_recorded(cases)
    for c in cases:
        if c.name in died:
            rep.failing.append({"what": "the store process died or hung under the recorder", "case": c.show()})
        bad = S.spec_check(c)
        if bad:
            rep.failing.append({"what": "crash-free run already wrong: " + bad[0][1], "case": c.show()})
    # tie to the model: recorded trace = model trace, operation by operation
    shards = chunks(cases, max(NCPU, len(cases) // 40))
    terms = ["render_cases_traces [%s]" % "; ".join(S.coq_case(c) for c in sh) for sh in shards]
    res, logs = coq_eval(pid, "Store.Engine Store.Trace Store.Render", terms)
    for l in logs[:2]:
        log(l)
    model_ok = all(r is not None for r in res)
    rep.obligation("model evaluates on every case", model_ok)
    ndis = 0
    if model_ok:
        for sh, rt in zip(shards, res):
            tl = rt.split("\n") if sh else []
            i = 0
            for c in sh:
                nl = len(c.ops) + 1
                mtrace, real = tl[i:i + nl], T.trace_lines(c)
                i += nl
                if not power:
                    # a process crash does not care about fsync: it is not an observable of C03
                    strip = lambda ls: [";".join(x for x in l.split(";") if not x.startswith("fsync ")) for l in ls]
                    mtrace, real = strip(mtrace), strip(real)
                if c.name not in died and mtrace != real:
                    k = next((j for j in range(min(len(mtrace), len(real))) if mtrace[j] != real[j]), 0)
                    ndis += 1
                    rep.disagree.append({"obligation": "correspondence traces: model = recorded implementation",
                                         "case": c.show(), "at_op": k - 1, "impl": real[k][:400], "model": mtrace[k][:400]})
    rep.obligation("correspondence traces: model = recorded implementation on every operation", ndis == 0)
    # every crash point of every recorded trace, opened by the real code
    items = C.build_items(cases, rng, cuts_per_write=0 if power else 2, power=power,
                          max_points=None if tier == "thorough" else 60)
    failures, opened = C.check_images(items)
    seen = set()
    for it, why in failures:
        key = (it["case"].name, why[:60])
        if key in seen:
            continue
        seen.add(key)
        rep.failing.append({"what": why, "crash_point": it["desc"], "op_in_flight": it["op"], "case": it["case"].show(),
                            "files": {n: (len(b), b[:48].hex()) for n, b in it["files"].items()}})
    rep.failing.sort(key=lambda f: len(f["case"]["ops"]))
    kinds = {}
    for it in items:
        k = "inside-write" if it["desc"].startswith("inside") else ("op-complete" if "[op complete]" in it["desc"] else "between-calls")
        kinds[k] = kinds.get(k, 0) + 1
    rep.coverage.update({
        "checker_cmd": "make -C coq Props/%s.vo (coqc 8.16.1) ; bin/check %s" % (pid, pid),
        "trusted_base": TRUSTED,
        "evaluations": len(items), "images_opened": opened, "workloads": len(cases),
        "distinct_nontrivial": len(set((it["case"].name, it["desc"]) for it in items if it["op"] >= 0)),
        "rule": "one evaluation = one directory image cut from a RECORDED real trace (" + (
            "per file any length between its last fsync and its current length; creations and removals persistent"
            if power else "every boundary between two mutating calls, plus cuts inside writes") +
            "), opened by the real code and read back key by key against the map of acknowledged operations with the "
            "operation in flight applied or not; distinct = (workload, crash point) with an operation in flight",
        "crash_point_kinds": kinds, "exhaustive": tier == "thorough",
        "samples": [{"case": items[0]["case"].show(), "crash_point": items[min(7, len(items) - 1)]["desc"]}] if items else [],
        "proof": {"file": "coq/Props/%s.v" % pid, "theorems": pr["theorems"], "axioms": pr["axioms"]},
    })
    rep.assumptions = ASSUME_POWER if power else ASSUME_CRASH
    return rep.finish()


def main(tier, seed):
    return run("C03", tier, seed, power=False)


TRUSTED = [
    "Coq 8.16.1 kernel, coqc, vm_compute",
    "coq/Store/{Engine,Codec}.v model; recorded real traces compared with model traces per operation",
    "shim/iorec.c recorder, harness/src/store.rs (store and recover modes), lib/crashlib.py, lib/tracelib.py",
]
ASSUME_CRASH = ["a killed process leaves exactly the effects of a prefix of its write/create/unlink calls, cut at any byte of the "
                "last write (page cache survives a process kill); O_APPEND appends; unlink is atomic"]
ASSUME_POWER = ["fsync makes everything written so far to that file durable; file creations and removals are persistent (the "
                "failure model of the property text); per file any suffix after the last fsync may be lost"]
