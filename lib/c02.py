"""C02 — closing and reopening a store preserves exactly its contents, deletions included."""
import storecheck
import storelib as S

PROFILE = {"weights": {"set": 9, "del": 5, "reopen": 3, "clock": 2}, "gets_after_reopen": True}


def corpus():
    cfg = {"mfs": 2 ** 31, "cache": 256, "conc": 1, "frag": (1, 1), "dead": 10 ** 9, "small": 0}
    small = dict(cfg, mfs=0)
    many = [("set", b"k%d" % (i % 7), b"v%d" % i) for i in range(120)]
    return [
        S.Case("corpus-D1", dict(cfg), [("set", b"k", b"v"), ("del", b"k"), ("reopen",), ("get", b"k"), ("reopen",), ("get", b"k")]),
        # ids 9 -> 10 -> 100 must sort numerically (max_file_size 0: every write rolls over)
        S.Case("corpus-ids", small, many + [("reopen",)] + [("get", b"k%d" % i) for i in range(7)] + [("ls",)]),
        # the clock steps backwards between two writes of one key (seed C02-A shape)
        S.Case("corpus-clock", dict(cfg), [("clock", 1000), ("set", b"k", b"old"), ("set", b"j", b"old"), ("clock", 10),
                                            ("set", b"k", b"new"), ("del", b"j"), ("reopen",), ("get", b"k"), ("get", b"j")]),
    ]


def main(tier, seed):
    n = {"quick": 500, "thorough": 10000}[tier]
    return storecheck.run("C02", tier, seed, PROFILE, n, corpus=corpus(),
                          relevant=lambda o: o[0] in ("set", "get", "del", "reopen", "clock"), big_values={"quick": 3, "thorough": 12}[tier],
                          rule="Histories of set/delete with 0-3 close/reopen cycles each followed by a get of every key; "
                               "timestamps also step backwards. Plus implementation-only histories with one value of 1-40 MiB (sizes around 2^24 and 2^25).")
