"""C01 — the store behaves as a key-value map for every operation sequence."""
import storecheck
import storelib as S

PROFILE = {"weights": {"set": 9, "get": 5, "del": 3, "merge": 2, "clock": 1}}


def corpus():
    big = {"mfs": 60, "cache": 1, "conc": 1, "frag": (0, 1), "dead": 0, "small": 10 ** 9}
    return [
        S.Case("corpus-rollover", dict(big), [("set", b"k", b"v" * 100), ("get", b"k"), ("set", b"k", b""), ("get", b"k"),
                                               ("del", b"k"), ("get", b"k"), ("del", b"k"), ("set", b"a", b"1"), ("merge",),
                                               ("get", b"a"), ("get", b"k")]),
        S.Case("corpus-merge-rollover", {"mfs": 100, "cache": 256, "conc": 1, "frag": (0, 1), "dead": 0, "small": 10 ** 9},
               [("set", bytes([65 + i]), bytes([97 + i]) * 30) for i in range(8)] +
               [("set", b"A", b"x"), ("del", b"B"), ("merge",)] + [("get", bytes([65 + i])) for i in range(8)] +
               [("merge",)] + [("get", bytes([65 + i])) for i in range(8)]),
    ]


def main(tier, seed):
    n = {"quick": 600, "thorough": 12000}[tier]
    return storecheck.run("C01", tier, seed, PROFILE, n, corpus=corpus(),
                          relevant=lambda o: o[0] in ("set", "get", "del", "merge", "clock"), big_values={"quick": 2, "thorough": 12}[tier],
                          rule="Observables compared: the result of every set/get/del/merge. Plus implementation-only histories with one "
                               "value of 1-40 MiB.")
