"""C15 — the connection limit holds and slots are never leaked."""
from common import Report, Rng, coq_check_props, harness_build, log
import netlib as N
import respgen as G

ENDINGS = ["close", "garbage", "halfframe", "badarity", "nonutf8", "half", "abort", "unknown-long", "garbage-hold", "unknown-hold"]


def unknown_cmd(name):
    return b"*1\r\n$%d\r\n%s\r\n" % (len(name), name)


def end_ops(cid, how):
    if how == "close":
        return ["close %s" % cid]
    if how == "garbage":
        return ["send %s %s" % (cid, b"\x00\x01garbage\r\n".hex()), "recv %s eof 2000" % cid, "close %s" % cid]
    if how == "halfframe":
        return ["send %s %s" % (cid, b"*2\r\n$3\r\nGET\r\n$5\r\nab".hex()), "close %s" % cid]
    if how == "badarity":
        return ["send %s %s" % (cid, b"*3\r\n$3\r\nGET\r\n$1\r\na\r\n$1\r\nb\r\n".hex()), "recv %s eof 2000" % cid, "close %s" % cid]
    if how == "nonutf8":
        return ["send %s %s" % (cid, b"*2\r\n$3\r\nGET\r\n$2\r\n\xff\xfe\r\n".hex()), "recv %s eof 2000" % cid, "close %s" % cid]
    if how == "garbage-hold":
        # the server ends the connection (protocol error); the client sees the end of the stream but keeps its socket open:
        # the slot must come back when the SERVER is done with the connection (seed C15-G shape)
        return ["send %s %s" % (cid, b"\x00\x01garbage\r\n".hex()), "recv %s eof 2000" % cid]
    if how == "unknown-hold":
        return ["send %s %s" % (cid, unknown_cmd(b"FLUSHALL").hex()), "recv %s eof 2000" % cid]
    if how == "abort":
        return ["abort %s" % cid]
    if how.startswith("unknown-long"):
        # an unknown command with a long name, multi-byte characters at every alignment near 64 / 128 / 256
        n = int(how.split(":")[1]) if ":" in how else 63
        return ["send %s %s" % (cid, unknown_cmd(b"A" * n + "é€😀".encode() * 3).hex()), "recv %s eof 2000" % cid, "close %s" % cid]
    return ["half %s" % cid, "recv %s eof 2000" % cid, "close %s" % cid]


def make(rng, tier):
    n = {"quick": 10, "thorough": 120}[tier]
    scs = []
    for i in range(n):
        r = rng.fork()
        mx = r.choice([1, 2, 3])
        ops, expect = [], []
        live = []
        nid = 0
        for _ in range(mx):
            cid = "c%d" % nid
            nid += 1
            ops.append("tryconn %s 1500" % cid)
            expect.append((len(ops) - 1, "served", "connection %d of %d is not served" % (len(live) + 1, mx)))
            live.append(cid)
        for rnd in range(r.rng(2, 5)):
            extra = "c%d" % nid
            nid += 1
            ops.append("tryconn %s 350" % extra)
            expect.append((len(ops) - 1, "notserved", "connection number %d is served although %d are already being served" % (mx + 1, mx)))
            if r.chance(1, 3):
                # a client that connects while the server is full and resets before it is accepted: the dead socket must not cost a slot
                ops += ["conn dead%d" % nid, "sleep 30", "abort dead%d" % nid, "sleep 30"]
            victim = r.choice(live)
            how = r.choice(ENDINGS)
            if how == "unknown-long":
                how = "unknown-long:%d" % r.choice([r.rng(0, 300), 61, 62, 63, 64, 125, 126, 127, 253, 254, 255])
            ops += end_ops(victim, how)
            live.remove(victim)
            ops.append("recv %s 5 3000" % extra)
            expect.append((len(ops) - 1, "ok:5:242d310d0a", "the waiting connection is not served after a served one ended by " + how + ": a slot leaked"))
            live.append(extra)
        # wind everything down, then the full number must be servable again
        for cid in list(live):
            ops += end_ops(cid, r.choice(ENDINGS))
        ops.append("sleep 100")
        for k in range(mx):
            cid = "z%d" % k
            ops.append("tryconn %s 1500" % cid)
            expect.append((len(ops) - 1, "served", "after all connections ended only %d of %d can be served again" % (k, mx)))
        ops.append("tryconn zz 350")
        expect.append((len(ops) - 1, "notserved", "more than %d connections are served" % mx))
        sc = N.Scenario("l%d" % i, "maxconn=%d" % mx, ops)
        sc.expect, sc.mx = expect, mx
        scs.append(sc)
    return scs


def special(tier):
    """two endings no ordinary client produces: a panic inside the storage operation of a command, and accept() failing for want of
    file descriptors while a client waits in the queue"""
    scs = []
    GETK = b"*2\r\n$3\r\nGET\r\n$1\r\nk\r\n".hex()
    SETK = b"*3\r\n$3\r\nSET\r\n$1\r\nk\r\n$1\r\nv\r\n".hex()
    for j in range({"quick": 2, "thorough": 10}[tier]):
        mx = 2 + j % 2
        ops = ["conn a", "send a %s" % SETK, "recv a 5 3000", "close a", "sleep 50", "panicany get:after_lookup 0"]
        expect = []
        for i in range(mx + 1):
            ops += ["conn p%d" % i, "send p%d %s" % (i, GETK), "recv p%d eof 3000" % i, "close p%d" % i]
        ops += ["nopoints", "sleep 100"]
        for k in range(mx):
            ops.append("tryconn z%d 1500" % k)
            expect.append((len(ops) - 1, "served", "after %d connections ended by a panic inside the storage operation only %d of %d can be served" % (mx + 1, k, mx)))
        ops.append("tryconn zz 350")
        expect.append((len(ops) - 1, "notserved", "more than %d connections are served" % mx))
        sc = N.Scenario("panic%d" % j, "maxconn=%d conc=16" % mx, ops)
        sc.expect, sc.mx = expect, mx
        scs.append(sc)
    # accept() fails (EMFILE) while a client waits; afterwards that client and the full number must be served
    for j in range({"quick": 1, "thorough": 4}[tier]):
        mx = 2
        ops = ["presock q", "presock z0", "presock z1", "presock zz", "fdexhaust 400", "sleep 150", "connsock q", "sleep 500",
               "send q %s" % GETK, "recv q 5 3000"]
        expect = [(len(ops) - 1, "ok:5:242d310d0a", "the client that connected while accept() was failing for want of descriptors is never served")]
        ops += ["close q", "sleep 100", "connsock z0", "send z0 %s" % GETK, "recv z0 5 3000"]
        expect.append((len(ops) - 1, "ok:5:242d310d0a", "after failed accepts only 0 of 2 connections can be served: slots leaked"))
        ops += ["connsock z1", "send z1 %s" % GETK, "recv z1 5 3000"]
        expect.append((len(ops) - 1, "ok:5:242d310d0a", "after failed accepts only 1 of 2 connections can be served: a slot leaked"))
        sc = N.Scenario("emfile%d" % j, "maxconn=%d backoffmax=4000" % mx, ops)
        sc.expect, sc.mx = expect, mx
        scs.append(sc)
    return scs


# ---- model-driven sessions: random client behaviour, the LTS under an eager scheduler says who is served and who waits
WHY = {"close": "ByClientClose", "half": "ByClientClose", "abort": "ByClientClose", "garbage": "ByProtocolError", "badarity": "ByProtocolError",
       "nonutf8": "ByProtocolError", "halfframe": "ByClientClose", "unknown-long": "ByProtocolError", "garbage-hold": "ByProtocolError",
       "unknown-hold": "ByProtocolError"}
PROBE_REPLY = b"$-1\r\n".hex()


def model_sessions(rep, rng, tier):
    from common import coq_eval, chunks, NCPU
    n = {"quick": 24, "thorough": 300}[tier]
    sessions = []
    for i in range(n):
        r = rng.fork()
        mx = r.rng(1, 4)
        acts = []
        for _ in range(r.rng(6, 16)):
            k = r.below(10)
            if k < 5:
                acts.append(("open",))
            elif k < 8:
                acts.append(("end", r.below(8), r.choice(ENDINGS)))
            else:
                acts.append(("drop", r.below(8)))
        sessions.append((mx, acts))

    def coq_act(a):
        if a[0] == "open":
            return "AOpen"
        if a[0] == "end":
            return "AEndServed %d%%nat %s" % (a[1], WHY[a[2]])
        return "ADropPending %d%%nat" % a[1]
    shards = chunks(sessions, NCPU)
    terms = ["render_limits [%s]" % "; ".join("(%d%%nat, [%s])" % (mx, "; ".join(coq_act(a) for a in acts)) for mx, acts in sh) for sh in shards]
    res, logs = coq_eval("C15", "Base.Bytes Sys.Limit Sys.LimitRun Sys.RenderLimit", terms)
    model = []
    for sh, r in zip(shards, res):
        ls = r.split("\n") if (r is not None and sh) else []
        model.extend(ls if len(ls) == len(sh) else [None] * len(sh))
    rep.obligation("the limit model evaluates on every generated session", all(m is not None for m in model))
    for l in logs[:1]:
        log(l)
    scs = []
    for i, ((mx, acts), m) in enumerate(zip(sessions, model)):
        if m is None:
            continue
        states = []
        for part in m.split(";"):
            sv, wt = part.split(" ")
            states.append(([int(x) for x in sv[1:].split(",") if x], [int(x) for x in wt[1:].split(",") if x]))
        ops, expect = [], []
        served, waiting, nxt = [], [], 0
        for a, (sv2, wt2) in zip(acts, states):
            if a[0] == "open":
                cid = "c%d" % nxt
                if nxt in sv2:
                    ops.append("tryconn %s 3000" % cid)
                    expect.append((len(ops) - 1, "served", "a connection is not served although the model has a free slot (%d of %d in use)" % (len(served), mx)))
                else:
                    ops.append("tryconn %s 300" % cid)
                    expect.append((len(ops) - 1, "notserved", "a connection is served although all %d slots are in use" % mx))
                nxt += 1
            elif a[0] == "end":
                gone = [x for x in served if x not in sv2]
                if gone:
                    ops += end_ops("c%d" % gone[0], a[2])
            else:
                gone = [x for x in waiting if x not in wt2 and x not in sv2]
                if gone:
                    ops += ["close c%d" % gone[0], "sleep 20"]
            # connections that the model moves from waiting to served: their probe reply must arrive now
            for j in [x for x in sv2 if x in waiting]:
                ops.append("recv c%d 5 3000" % j)
                expect.append((len(ops) - 1, "ok:5:" + PROBE_REPLY, "a waiting connection is not served after a slot became free (model: served)"))
            # and the oldest one still waiting must still be waiting
            if a[0] != "open" and wt2:
                ops.append("recv c%d 5 250" % wt2[0])
                expect.append((len(ops) - 1, "timeout:0", "a waiting connection is served although the model has no free slot"))
            served, waiting = sv2, wt2
        sc = N.Scenario("m%d" % i, "maxconn=%d" % mx, ops)
        sc.expect, sc.mx, sc.acts = expect, mx, acts
        scs.append(sc)
    died = N.run_scenarios(scs, procs=16)
    nobs, ndis = 0, 0
    for sc in scs:
        if sc.name in died or not sc.out or sc.out[0] != "start ok":
            rep.failing.append({"what": "server died or did not start (model-driven session)", "ops": sc.ops[:10], "out": (sc.out or [])[:10]})
            continue
        for idx, want, why in sc.expect:
            got = sc.out[idx + 1] if idx + 1 < len(sc.out) else "missing"
            nobs += 1
            if not got.startswith(want):
                ndis += 1
                rep.failing.append({"what": why, "max_connections": sc.mx, "actions": [str(a) for a in sc.acts], "at_op": sc.ops[idx], "got": got,
                                    "ops": sc.ops[:idx + 1], "out": sc.out[1:idx + 2], "kind": "model-driven"})
                break
    rep.obligation("correspondence limit: served / waiting on the real server = Sys/LimitRun.v on every generated session", ndis == 0)
    return {"sessions": len(scs), "observations": nobs, "actions": sum(len(a) for _, a in sessions)}


def main(tier, seed):
    rep = Report("C15", tier, seed)
    rng = Rng(seed)
    pr = coq_check_props("C15")
    for t in pr["theorems"]:
        rep.obligation("theorem " + t, pr["ok"])
    if not pr["theorems"]:
        rep.obligation("Props/C15.v compiles", pr["ok"])
    if not pr["ok"]:
        log(pr["log"])
    ok, out = harness_build(False)
    rep.obligation("harness builds against /repo", ok)
    if not ok:
        log(out[-3000:])
        rep.coverage.update({"checker_cmd": "make -C coq Props/C15.vo", "trusted_base": TRUSTED})
        return rep.finish()
    scs = make(rng, tier) + special(tier)
    died = N.run_scenarios(scs, procs=8)
    nobs, endings = 0, {}
    for sc in scs:
        if sc.name in died or not sc.out or sc.out[0] != "start ok":
            rep.failing.append({"what": "server died or did not start", "ops": sc.ops[:10], "out": (sc.out or [])[:10]})
            continue
        for op in sc.ops:
            for e in ENDINGS:
                pass
        for idx, want, why in sc.expect:
            got = sc.out[idx + 1] if idx + 1 < len(sc.out) else "missing"
            nobs += 1
            if not got.startswith(want):
                rep.failing.append({"what": why, "max_connections": sc.mx, "at_op": sc.ops[idx], "got": got,
                                    "ops": sc.ops[:idx + 1], "out": sc.out[1:idx + 2]})
                break
    rep.obligation("every observation is one the transition system allows (served iff a permit was available)", not rep.failing)
    cov_model = model_sessions(rep, rng, tier)
    rep.coverage.update({
        "checker_cmd": "make -C coq Props/C15.vo (coqc 8.16.1) ; bin/check C15",
        "trusted_base": TRUSTED,
        "evaluations": len(scs), "observations": nobs, "model_driven_sessions": cov_model,
        "distinct_nontrivial": len(set((sc.mx, tuple(o.split()[0] for o in sc.ops)) for sc in scs)),
        "rule": "scenario: fill the server (max_connections 1-3), verify one more connection is NOT served, end a served "
                "connection in one of six ways (client close, garbage, half-sent frame, wrong arity, non-UTF-8 key, half-close), "
                "verify the waiting connection IS then served, repeat 2-5 times, end everything, verify the full number is served "
                "again and one more is not; served = the reply to a probe GET arrives within the timeout; plus connections ended by an injected "
                "panic inside the storage operation, and accept() failing with EMFILE while a client waits in the queue",
        "samples": [{"max": scs[0].mx, "ops": scs[0].ops[:12], "out": (scs[0].out or [])[:12]}],
        "proof": {"file": "coq/Props/C15.v", "theorems": pr["theorems"], "axioms": pr["axioms"]},
    })
    rep.assumptions = ["Drop of the handler runs on every way its task ends, including unwinding (Rust/tokio semantics)",
                       "timing-based observation: 'not served' = no reply within 350 ms, 'served' = reply within 1.5-3 s"]
    return rep.finish()


TRUSTED = [
    "Coq 8.16.1 kernel; coq/Sys/Limit.v transcribes the permit handling of src/net/server.rs (30 lines)",
    "harness/src/server.rs, lib/c15.py; tokio Semaphore, Drop on unwind: runtime behaviour, modelled",
]
