"""C05 — compaction never changes what any key reads, now or after a restart."""
import storecheck
import storelib as S

PROFILE = {"weights": {"set": 9, "del": 5, "merge": 4, "reopen": 2, "clock": 1}, "gets_around_merge": True,
           "gets_after_reopen": True, "small_values": True,
           "cfg": lambda r: {"mfs": r.choice([0, 30, 60, 100, 200])}}


def corpus():
    d2 = {"mfs": 60, "cache": 256, "conc": 1, "frag": (1, 1), "dead": 50, "small": 0}
    return [
        # D2: file 0 = values, file 1 = tombstones; thresholds select {1} only
        S.Case("corpus-D2", d2, [("set", b"k", b""), ("set", b"a", b""), ("set", b"b", b""), ("del", b"k"), ("del", b"x"),
                                 ("del", b"y"), ("del", b"z"), ("merge",), ("get", b"k"), ("reopen",), ("get", b"k"),
                                 ("get", b"a"), ("get", b"b")]),
        # a merge that leaves the active file out, then overwrite/delete of merged keys, then restart (seed C05-A / C02-B shape)
        S.Case("corpus-active-kept", {"mfs": 150, "cache": 256, "conc": 1, "frag": (1, 4), "dead": 10 ** 9, "small": 0},
               [("set", b"k%d" % i, b"a" * 20) for i in range(10)] + [("set", b"k%d" % i, b"b" * 20) for i in range(3)] +
               [("merge",), ("set", b"k3", b"new"), ("del", b"k4"), ("reopen",), ("get", b"k3"), ("get", b"k4"), ("get", b"k0")]),
        # two merges: the second selects only the tombstone's file while an earlier merge output holds the value (seed C05-B shape)
        S.Case("corpus-hint-older", {"mfs": 100, "cache": 256, "conc": 1, "frag": (1, 4), "dead": 10 ** 9, "small": 0},
               [("set", b"k", b"v" * 10), ("set", b"a", b"1" * 10), ("set", b"a", b"2" * 10), ("set", b"b", b"3" * 10),
                ("set", b"c", b"4" * 10), ("merge",), ("del", b"k"), ("set", b"p", b"5" * 60), ("merge",), ("get", b"k"),
                ("reopen",), ("get", b"k"), ("get", b"a")]),
    ]


def main(tier, seed):
    n = {"quick": 600, "thorough": 10000}[tier]
    return storecheck.run("C05", tier, seed, PROFILE, n, corpus=corpus(), maxlen=22,
                          relevant=lambda o: o[0] in ("set", "get", "del", "merge", "reopen", "clock"),
                          rule="Every merge is bracketed by a get of every key before and after, and every reopen is followed "
                               "by a get of every key; thresholds drawn from {0,1/4,1/2,3/4,1} x {0,30,100,inf} x {0,50,200,inf} "
                               "so that merges select differing subsets of files.")
