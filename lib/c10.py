"""C10 — hostile or malformed input harms only the connection that sent it."""
from common import Report, Rng, chunks, coq_bytes, coq_check_props, coq_eval, harness_build, log, NCPU
import netlib as N
import respgen as G


def bulk(b):
    return b"$%d\r\n" % len(b) + b + b"\r\n"


def arr(*items):
    return b"*%d\r\n" % len(items) + b"".join(items)


def hostile_streams(r):
    hk, hv = b"hk", b"hv"
    good_set = arr(bulk(b"SET"), bulk(hk), bulk(hv))
    out = [
        ("garbage", r.bytes(r.rng(1, 40))),
        ("garbage-after-set", good_set + b"\x00\x01garbage\r\n"),
        ("unknown-command", arr(bulk(b"FLUSHALL"))),
        ("unknown-long-ascii", arr(bulk(b"Z" * r.choice([64, 65, 200, 5000])))),
        ("unknown-long-multibyte-63", arr(bulk(b"A" * 63 + "é€😀".encode() * 3), bulk(hk))),
        ("unknown-long-multibyte-boundary", arr(bulk(b"A" * r.choice([60, 61, 125, 126, 253, 254, 1021, 4093]) + "é€😀".encode() * 3))),
        ("unknown-long-multibyte-random", arr(bulk(b"A" * r.rng(0, 400) + "😀€é".encode() * r.rng(1, 40)))),
        ("unknown-long-invalid-utf8", arr(bulk(b"\xff" * r.rng(20, 90)))),
        ("lowercase", arr(bulk(b"set"), bulk(hk), bulk(hv))),
        ("get-extra-arg", arr(bulk(b"GET"), bulk(hk), bulk(hk))),
        ("set-extra-arg", arr(bulk(b"SET"), bulk(hk), bulk(hv), bulk(b"x"))),
        ("set-no-value", arr(bulk(b"SET"), bulk(hk))),
        ("del-no-key", arr(bulk(b"DEL"))),
        ("empty-array", b"*0\r\n"),
        ("non-utf8-key", arr(bulk(b"SET"), bulk(b"\xff\xfe"), bulk(hv))),
        ("del-non-utf8-second", good_set + arr(bulk(b"DEL"), bulk(hk), bulk(b"\xc0\x80"))),
        ("integer-frame", b":5\r\n"),
        ("simple-string", b"+PING\r\n"),
        ("array-of-integers", b"*2\r\n:1\r\n:2\r\n"),
        ("null-command", b"$-1\r\n"),
        ("truncated-then-close", good_set + arr(bulk(b"SET"), bulk(hk))[:-3]),
        ("nested-32", b"*1\r\n" * 32 + b":1\r\n"),
        ("nested-33", b"*1\r\n" * 33 + b":1\r\n"),
        ("nested-100000", b"*1\r\n" * 100000),
        ("huge-bulk-length", b"$9223372036854775807\r\n"),
        ("huge-array-length", b"*2147483647\r\n"),
        ("huge-bulk-length-allocatable-type", b"$1000000000000000000\r\n"),
        ("huge-bulk-length-2^62", b"$4611686018427387904\r\nab"),
        ("set-with-huge-value-length", arr(bulk(b"SET"), bulk(hk))[:-0] if False else b"*3\r\n" + bulk(b"SET") + bulk(hk) + b"$1000000000000000000\r\nxyz"),
        ("huge-array-then-bulk", b"*1000000000000\r\n$5\r\nhello\r\n"),
        ("overflow-length", b"$99999999999999999999\r\n"),
        ("negative-array", b"*-1\r\n"),
        ("sign-only", b":-"),
        ("set-then-bad-then-set", good_set + b"!\r\n" + arr(bulk(b"SET"), bulk(b"hk2"), bulk(b"never"))),
        ("mutated", G.mutate(r, good_set + arr(bulk(b"GET"), bulk(hk)))),
    ]
    return out


def oracle_store(stream, keys):
    """Model-independent reading of the property: the store changes only through well-formed SET and DEL commands; everything
    from the first frame that is not a well-formed command on is without effect.  Strict minimal parser: arrays of bulk strings."""
    m = {}
    i, n = 0, len(stream)

    def line(i):
        j = stream.find(b"\r\n", i)
        return (None, i) if j < 0 else (stream[i:j], j + 2)

    def num(b):
        return int(b) if b.isdigit() and len(b) < 10 else None

    while i < n:
        if stream[i:i + 1] != b"*":
            break
        l, i = line(i + 1)
        cnt = num(l) if l is not None else None
        if cnt is None:
            break
        items = []
        for _ in range(cnt):
            if stream[i:i + 1] != b"$":
                items = None
                break
            l, i = line(i + 1)
            ln = num(l) if l is not None else None
            if ln is None or i + ln + 2 > n or stream[i + ln:i + ln + 2] != b"\r\n":
                items = None
                break
            items.append(stream[i:i + ln])
            i += ln + 2
        if not items:
            break

        def utf8(b):
            try:
                b.decode("utf-8")
                return True
            except UnicodeDecodeError:
                return False
        if items[0] == b"SET" and len(items) == 3 and utf8(items[1]):
            m[items[1]] = items[2]
        elif items[0] == b"GET" and len(items) == 2 and utf8(items[1]):
            pass
        elif items[0] == b"DEL" and len(items) >= 2 and all(utf8(k) for k in items[1:]):
            for k in items[1:]:
                m.pop(k, None)
        else:
            break
    return ",".join("%s=%s" % (k.hex(), ("some:" + m[k].hex()) if k in m else "none") for k in keys)


def make(rng, tier):
    reps = {"quick": 3, "thorough": 40}[tier]
    scs = []
    for rep_i in range(reps):
        r = rng.fork()
        for name, stream in hostile_streams(r):
            mode = r.choice(["whole", "random"]) if len(stream) < 2000 else "whole"
            segs = N.cut(r, stream, mode)
            ops = ["conn g1", "conn bad", "conn g2",
                   "send g1 %s" % G.rawhex(arr(bulk(b"SET"), bulk(b"gk"), bulk(b"gv1"))), "recv g1 5 3000"]
            for s in segs:
                ops.append("send bad %s %d" % (G.rawhex(s), 1 if len(segs) > 1 else 0))
            ops += ["send g2 %s" % G.rawhex(arr(bulk(b"GET"), bulk(b"gk"))), "recv g2 9 3000",
                    "half bad", "recv bad eof 3000",
                    "send g1 %s" % G.rawhex(arr(bulk(b"SET"), bulk(b"gk"), bulk(b"gv2"))), "recv g1 5 3000",
                    "send g2 %s" % G.rawhex(arr(bulk(b"GET"), bulk(b"gk"))), "recv g2 9 3000",
                    "alive", "conn g3", "send g3 %s" % G.rawhex(arr(bulk(b"GET"), bulk(b"gk"))), "recv g3 9 3000",
                    "storeget 686b", "storeget 686b32", "storeget 676b", "storeget fffe"]
            sc = N.Scenario("h%d-%s" % (rep_i, name), "maxconn=3", ops)
            sc.kind, sc.segs, sc.stream = name, segs, stream
            scs.append(sc)
        # a client that connects while the server is full, sends something and RESETS before it is accepted: when a slot frees, the
        # accept loop picks up a dead socket; it must go on accepting and the others must keep being served (seed C10-E: `peer_addr()?`
        # in the accept loop ended Server::run — missed while every hostile client was accepted before it misbehaved)
        for v in range(2):
            stream = r.choice([b"\xff\x00garbage\r\n", b"*1\r\n$4\r\nPING\r\n", b""])
            ops = ["conn g1", "send g1 %s" % G.rawhex(arr(bulk(b"SET"), bulk(b"gk"), bulk(b"gv1"))), "recv g1 5 3000",
                   "conn g2", "send g2 %s" % G.rawhex(arr(bulk(b"GET"), bulk(b"gk"))), "recv g2 9 3000",
                   "conn bad"] + (["send bad %s 0" % G.rawhex(stream)] if stream else []) + ["sleep 30", "abort bad", "sleep 30",
                   "close g2", "sleep 150",
                   "send g1 %s" % G.rawhex(arr(bulk(b"SET"), bulk(b"gk"), bulk(b"gv2"))), "recv g1 5 3000",
                   "alive", "conn g3", "send g3 %s" % G.rawhex(arr(bulk(b"GET"), bulk(b"gk"))), "recv g3 9 3000",
                   "storeget 686b", "storeget 686b32", "storeget 676b", "storeget fffe"]
            sc = N.Scenario("h%d-reset-in-backlog%d" % (rep_i, v), "maxconn=2", ops)
            sc.kind, sc.segs, sc.stream = "reset-in-backlog", [stream], stream
            scs.append(sc)
    return scs


WANT_GOOD = {4: "ok:5:2b4f4b0d0a"}


def main(tier, seed):
    rep = Report("C10", tier, seed)
    rng = Rng(seed)
    pr = coq_check_props("C10")
    for t in pr["theorems"]:
        rep.obligation("theorem " + t, pr["ok"])
    if not pr["theorems"]:
        rep.obligation("Props/C10.v compiles", pr["ok"])
    if not pr["ok"]:
        log(pr["log"])
    ok, out = harness_build(False)
    rep.obligation("harness builds against /repo", ok)
    if not ok:
        log(out[-3000:])
        rep.coverage.update({"checker_cmd": "make -C coq Props/C10.vo", "trusted_base": TRUSTED})
        return rep.finish()
    scs = make(rng, tier)
    died = N.run_scenarios(scs, procs=8)
    keys = [b"hk", b"hk2", b"gk", b"\xff\xfe"]
    shards = chunks(scs, max(NCPU, len(scs) // 20))
    terms = ["render_handlers [%s]" % "; ".join(
        "([%s], [%s])" % ("; ".join(("nest 100000 [42;49;13;10] []" if sc.kind == "nested-100000" else coq_bytes(s)) for s in sc.segs),
                          "; ".join(coq_bytes(k) for k in keys[:2])) for sc in sh) for sh in shards]
    res, logs = coq_eval("C10", "Resp.Frame Resp.Conn Resp.Handler Resp.Render", terms)
    for l in logs[:2]:
        log(l)
    model = []
    for sh, r in zip(shards, res):
        ls = r.split("\n") if (r is not None and sh) else []
        model.extend(ls if len(ls) == len(sh) else [None] * len(sh))
    rep.obligation("model evaluates on every hostile stream", all(m is not None for m in model))
    ndis, kinds = 0, {}
    for sc, m in zip(scs, model):
        kinds[sc.kind] = kinds.get(sc.kind, 0) + 1
        o = dict(zip(range(len(sc.ops)), sc.out[1:])) if sc.out else {}
        byop = {op: o.get(i) for i, op in enumerate(sc.ops)}
        if sc.name in died or not sc.out or sc.out[0] != "start ok":
            rep.failing.append({"what": "the server PROCESS died (or did not start) while one client sent: " + sc.kind,
                                "stream_hex": G.rawhex(sc.stream)[:400], "out": (sc.out or [])[-6:]})
            continue
        recvs = [(i, op, o.get(i)) for i, op in enumerate(sc.ops) if op.startswith("recv g")]
        want = ["ok:5:2b4f4b0d0a", "ok:9:24330d0a6776310d0a", "ok:5:2b4f4b0d0a", "ok:9:24330d0a6776320d0a", "ok:9:24330d0a6776320d0a"]
        for (i, op, got), w in zip(recvs, want):
            if got != w:
                rep.failing.append({"what": "a well-behaved connection got a wrong or no answer while another client sent: " + sc.kind,
                                    "op": op, "want": w, "got": got, "stream_hex": G.rawhex(sc.stream)[:400]})
                break
        if byop.get("alive") != "running":
            rep.failing.append({"what": "Server::run ended while a client sent: " + sc.kind, "stream_hex": G.rawhex(sc.stream)[:400]})
        if byop.get("storeget 676b") != "some:677632" or byop.get("storeget fffe") != "none":
            rep.failing.append({"what": "stored data changed although no well-formed SET/DEL asked for it: " + sc.kind,
                                "gk": byop.get("storeget 676b"), "non-utf8 key": byop.get("storeget fffe")})
        # the hostile connection itself: replies and store effect, against the model
        bad = next((got for i, op, got in [(i, op, o.get(i)) for i, op in enumerate(sc.ops)] if op.startswith("recv bad")), None)
        if m is not None and bad is not None:
            mout, mterm, mstore = m.split("|")
            st, n, hx = bad.split(":", 2)
            impl_store = "686b=%s,686b32=%s" % (byop.get("storeget 686b"), byop.get("storeget 686b32"))
            if impl_store != mstore and impl_store != oracle_store(sc.stream, keys[:2]):
                # a concrete violation, decided without the model: data changed through something that is not a well-formed command
                rep.failing.append({"what": "stored data changed through a malformed command (%s): the store holds %s, the well-formed "
                                            "commands of the stream give %s" % (sc.kind, impl_store, oracle_store(sc.stream, keys[:2])),
                                    "stream_hex": G.rawhex(sc.stream)[:600], "reply_to_offender": bad[:80]})
            if st not in ("eof", "reset") or (st == "eof" and hx != mout) or impl_store != mstore:
                ndis += 1
                rep.disagree.append({"obligation": "correspondence handler: model = server on hostile input", "kind": sc.kind,
                                     "stream_hex": G.rawhex(sc.stream)[:400], "model": m[:200], "impl": "%s|%s" % (bad[:100], impl_store)})
    rep.obligation("correspondence handler: model = server on every hostile stream", ndis == 0)
    rep.coverage.update({
        "checker_cmd": "make -C coq Props/C10.vo (coqc 8.16.1) ; bin/check C10",
        "trusted_base": TRUSTED,
        "evaluations": len(scs), "distinct_nontrivial": len(kinds),
        "rule": "one scenario = one hostile byte stream (36 families: a client that resets while it waits in the backlog of a full server, garbage, unknown/lower-case commands, unknown commands with long "
                "ASCII / multi-byte / invalid UTF-8 names, wrong arity, non-UTF-8 "
                "keys, truncated frames, nesting at/beyond the limit and 100000 deep, absurd lengths, malformed items after well-formed "
                "commands, mutations) sent on one connection while two other connections issue SET/GET with known answers before, "
                "during and after (max_connections = 3, so the three fill the server); afterwards a NEW connection must be served, which "
                "needs the slot of the hostile one; distinct = hostile families",
        "kinds": kinds,
        "samples": [{"kind": scs[0].kind, "ops": scs[0].ops[:10], "out": (scs[0].out or [])[:10]}],
        "proof": {"file": "coq/Props/C10.v", "theorems": pr["theorems"], "axioms": pr["axioms"]},
    })
    rep.assumptions = ["that a panic or error in one tokio task leaves the other tasks and the process intact is runtime behaviour: "
                       "observed by the harness (process alive, other connections answered), not proved"]
    return rep.finish()


TRUSTED = [
    "Coq 8.16.1 kernel, coqc, vm_compute",
    "coq/Resp/{Frame,Conn,Handler}.v; harness/src/server.rs, lib/netlib.py, lib/c10.py",
    "tokio task isolation, TCP: observed, not verified",
]
