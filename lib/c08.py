"""C08 — RESP encoding and decoding round-trip, independent of stream chunking."""
from common import (Report, Rng, chunks, coq_bytes, coq_check_props, coq_eval, harness_build, harness_run, log)
import respgen as G


def segmentations(rng, data, tier):
    """Different ways of cutting [data] into non-empty segments."""
    out = [("whole", [data])]
    if len(data) <= 400:
        out.append(("bytewise", [data[i:i + 1] for i in range(len(data))]))
    ncuts = 2 if tier == "quick" else 6
    for _ in range(ncuts):
        k = rng.rng(1, 6)
        cuts = sorted(set(rng.below(len(data) + 1) for _ in range(k)))
        segs, prev = [], 0
        for c in cuts + [len(data)]:
            if c > prev:
                segs.append(data[prev:c])
            prev = c
        out.append(("random", segs))
    # cut inside every CRLF of the first few
    idx = [i for i in range(len(data) - 1) if data[i:i + 2] == b"\r\n"][:4]
    for i in idx:
        out.append(("crlf", [s for s in (data[:i + 1], data[i + 1:]) if s]))
    if len(data) > 20000:
        out.append(("8k", [data[i:i + 8192] for i in range(0, len(data), 8192)]))
    return [(k, [s for s in segs if s]) for k, segs in out if data]


def make_cases(rng, tier):
    n = {"quick": 1, "thorough": 8}[tier]
    reads, writes = [], []
    # corpus
    reads.append({"kind": "corpus:D4-bytewise", "segs": [bytes([b]) for b in b":-5\r\n"], "expect": "frame:I-5;clean"})
    reads.append({"kind": "corpus:empty", "segs": [], "expect": "clean"})
    # every array of up to 3 minimal-length elements, alone in the stream (whole and bytewise)
    tiny = [("S", b""), ("E", b""), ("I", 0), ("N",), ("B", b"")]
    import itertools
    for k in (0, 1, 2, 3):
        for combo in itertools.product(tiny, repeat=k):
            f = ("A", list(combo))
            data = G.enc(f)
            want = "frame:" + G.show(f) + ";clean"
            reads.append({"kind": "tiny:whole", "segs": [data], "expect": want})
            if k <= 2:
                reads.append({"kind": "tiny:bytewise", "segs": [data[i:i + 1] for i in range(len(data))], "expect": want})
    # a frame above 64 KiB with pipelined frames behind it, the first of which is only partly there when the large one completes
    for size in (65537, 70000, 100000):
        for rep_i in range(n):
            head = [G.gen_writable(rng) for _ in range(rng.rng(0, 2))]
            big = ("B", bytes([rng.below(256)]) * size)
            tail = [G.gen_writable(rng) for _ in range(rng.rng(1, 3))]
            frames = head + [big] + tail
            data = b"".join(G.enc(f) for f in frames)
            end_big = len(b"".join(G.enc(f) for f in head + [big]))
            first = len(G.enc(tail[0]))
            want = ";".join("frame:" + G.show(f) for f in frames)
            w_head = ";".join("frame:" + G.show(f) for f in head + [big])
            for k in sorted(set([1, max(1, first // 2), max(1, first - 1)])):
                if k >= first and first > 1:
                    continue
                cut = end_big + min(k, first)
                reads.append({"kind": "big-then-partial", "segs": [s for s in (data[:cut], data[cut:]) if s], "expect": want + ";clean"})
                if k < first:
                    reads.append({"kind": "big-then-truncated", "segs": [data[:cut]], "expect": w_head + ";reset"})
            for kind, segs in segmentations(rng, data, tier):
                reads.append({"kind": "bigmid:" + kind, "segs": segs, "expect": want + ";clean"})
    for i in range(220 * n):
        frames = [G.gen_writable(rng) for _ in range(rng.rng(1, 4))]
        if i % 40 == 0:
            frames.append(("B", bytes([rng.below(256)]) * 100000))
        data = b"".join(G.enc(f) for f in frames)
        want = ";".join("frame:" + G.show(f) for f in frames)
        for kind, segs in segmentations(rng, data, tier):
            reads.append({"kind": "stream:" + kind, "segs": segs, "expect": want + ";clean"})
        # the stream ends inside the last frame
        if len(data) < 400:
            last = len(G.enc(frames[-1]))
            cut = len(data) - last + rng.rng(1, last - 1) if last > 1 else None
            if cut:
                w = ";".join("frame:" + G.show(f) for f in frames[:-1])
                for kind, segs in segmentations(rng, data[:cut], "quick")[:3]:
                    reads.append({"kind": "truncated:" + kind, "segs": segs, "expect": (w + ";" if w else "") + "reset"})
        for f in frames:
            writes.append({"kind": "write", "frame": f, "expect": "ok:" + G.hexs(G.enc(f))})
    for i in range(60 * n):
        f = G.gen_tree(rng, 2)
        if f[0] == "A" and any(x[0] == "A" for x in f[1]):
            writes.append({"kind": "write-nested", "frame": f, "expect": None})
    for i in range(150 * n):
        data = G.mutate(rng, G.enc(G.gen_writable(rng))) if rng.chance(1, 2) else G.gen_garbage(rng)
        if data:
            k, segs = rng.choice(segmentations(rng, data, "quick"))
            reads.append({"kind": "malformed:" + k, "segs": segs, "expect": None})
    return reads, writes


def main(tier, seed):
    rep = Report("C08", tier, seed)
    rng = Rng(seed)
    pr = coq_check_props("C08")
    for t in pr["theorems"]:
        rep.obligation("theorem " + t, pr["ok"])
    if not pr["theorems"]:
        rep.obligation("Props/C08.v compiles", pr["ok"])
    if not pr["ok"]:
        log(pr["log"])
    ok, out = harness_build(False)
    rep.obligation("harness builds against /repo", ok)
    if not ok:
        log(out[-3000:])
        rep.coverage.update({"checker_cmd": "make -C coq Props/C08.vo", "trusted_base": TRUSTED})
        return rep.finish()
    reads, writes = make_cases(rng, tier)
    lines_in = ["R " + " ".join(G.rawhex(s) for s in c["segs"]) for c in reads] + \
               ["W " + G.show(c["frame"], full=True) for c in writes]
    rc, out = harness_run(["conn"], "\n".join(lines_in) + "\n", timeout=900)
    impl = out.split("\n")
    if impl and impl[-1] == "":
        impl.pop()
    allc = reads + writes
    if len(impl) < len(allc):
        c = allc[len(impl)]
        rep.failing.append({"what": "harness process died (exit %s) on this case" % rc, "case": lines_in[len(impl)][:2000]})
        impl += ["<died>"] * (len(allc) - len(impl))
    # model
    rshards = chunks(reads, max(16, len(reads) // 150))
    terms = ["render_read_all [%s]" % "; ".join(
        "[" + "; ".join(coq_bytes(s) for s in c["segs"]) + "]" for c in sh) for sh in rshards]
    wshards = chunks(writes, 8)
    terms += ["render_write_all [%s]" % "; ".join(G.coq_frame(c["frame"], coq_bytes) for c in sh) for sh in wshards]
    res, logs = coq_eval("C08", "Resp.Frame Resp.Conn Resp.Render", terms)
    model = []
    for sh, r in zip(rshards + wshards, res):
        ls = r.split("\n") if (r is not None and sh) else []
        if len(ls) != len(sh):
            ls = [None] * len(sh)
        model.extend(ls)
    rep.obligation("model evaluates on every case", all(m is not None for m in model))
    for l in logs[:2]:
        log(l)
    ndis, kinds, distinct = 0, {}, set()
    for c, line, m in zip(allc, impl, model):
        k = c["kind"].split(":")[0]
        kinds[k] = kinds.get(k, 0) + 1
        want = c["expect"]
        key = (k, line)
        if "frame:" in line or line.startswith("ok:"):
            distinct.add(key)
        if line == "panic" and c["kind"] != "write-nested":
            rep.failing.append({"what": "panic in the connection layer", "kind": c["kind"],
                                "case": lines_in[allc.index(c)][:2000]})
        elif want is not None and line != want:
            rep.failing.append({"what": "stream not decoded as written / frame not encoded as specified",
                                "kind": c["kind"], "case": lines_in[allc.index(c)][:2000],
                                "want": want[:400], "got": line[:400]})
        if m is not None and m != line:
            ndis += 1
            rep.disagree.append({"obligation": "correspondence conn: model = implementation", "kind": c["kind"],
                                 "case": lines_in[allc.index(c)][:2000], "impl": line[:300], "model": m[:300]})
    rep.obligation("correspondence conn: model = implementation on every case", ndis == 0)
    rep.failing.sort(key=lambda f: len(f.get("case", "")))
    rep.coverage.update({
        "checker_cmd": "make -C coq Props/C08.vo (coqc 8.16.1) ; bin/check C08",
        "trusted_base": TRUSTED,
        "evaluations": len(allc),
        "distinct_nontrivial": len(distinct),
        "rule": "distinct (kind, result) pairs among cases that decoded at least one frame or encoded one; streams of 1-4 "
                "writable frames cut whole / bytewise / at random points / inside each CRLF / in 8 KiB blocks, the same "
                "streams ending inside their last frame, single-byte mutations and garbage, every writable frame written",
        "case_kinds": kinds,
        "samples": [{"kind": c["kind"], "case": l[:160], "impl": r[:160]} for c, l, r in
                    list(zip(allc, lines_in, impl))[2:5] + list(zip(allc, lines_in, impl))[-2:]],
        "proof": {"file": "coq/Props/C08.v", "theorems": pr["theorems"], "axioms": pr["axioms"]},
    })
    rep.assumptions = ["the tokio BufWriter in front of the stream is flushed by write_frame (observed: the scripted stream "
                       "receives the whole encoding)", "theorems are about the model"]
    return rep.finish()


TRUSTED = [
    "Coq 8.16.1 kernel, coqc, vm_compute",
    "hand-written Gallina model coq/Resp/Frame.v + coq/Resp/Conn.v, tied to src/net/connection.rs by differential execution over a scripted in-memory stream",
    "harness/src/conn.rs, lib/c08.py, lib/respgen.py",
]
