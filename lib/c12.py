"""C12 — hint files are only an accelerator: recovery with or without them agrees."""
import storecheck
import storelib as S

PROFILE = {"weights": {"set": 9, "del": 4, "merge": 4, "reopen": 1, "drophints": 2}, "gets_after_reopen": True,
           "small_values": True, "final": ["dump", "drophints", "dump"],
           "cfg": lambda r: {"mfs": r.choice([0, 30, 60, 100, 200, 30000])}}


def corpus():
    cfg = {"mfs": 100, "cache": 256, "conc": 1, "frag": (0, 1), "dead": 0, "small": 10 ** 9}
    return [S.Case("corpus-rollover-hints", cfg,
                   [("set", bytes([65 + i]), bytes([97 + i]) * 30) for i in range(9)] +
                   [("set", b"A", b"y" * 30), ("del", b"B"), ("merge",), ("dump",), ("reopen",), ("dump",), ("drophints",), ("dump",)] +
                   [("get", bytes([65 + i])) for i in range(9)])]


def hints_oracle(c):
    """The index recovered with hint files equals the index recovered from a full scan: compare the two final dumps
    (key -> file, position, length, timestamp) of the implementation."""
    bad = []
    lines = c.impl or []
    d = [l for l in lines if l.startswith("dump ")]
    if len(d) >= 2 and c.ops[-3:] == [("dump",), ("drophints",), ("dump",)]:
        k1, _ = S.parse_dump(d[-2])
        k2, _ = S.parse_dump(d[-1])
        v1 = {k: v for k, v in k1.items()}
        v2 = {k: v for k, v in k2.items()}
        if set(v1) != set(v2):
            bad.append((len(c.ops), "keys recovered differ with/without hint files: %s vs %s" % (sorted(v1), sorted(v2))))
        else:
            for k in v1:
                if v1[k] != v2[k]:
                    bad.append((len(c.ops), "key %s recovered at %s with hints but at %s without" % (k, v1[k], v2[k])))
                    break
    return bad


def main(tier, seed):
    n = {"quick": 500, "thorough": 8000}[tier]
    return storecheck.run("C12", tier, seed, PROFILE, n, corpus=corpus(), maxlen=20, extra_oracle=hints_oracle,
                          relevant=lambda o: o[0] in ("get", "merge", "reopen", "drophints", "dump"), big_keys={"quick": 4, "thorough": 30}[tier],
                          rule="Histories with merges (also rolling over into several outputs); `drophints` closes the store, "
                               "deletes every hint file and reopens; every key is read afterwards and the recovered index is "
                               "compared with the one recovered with hints. Plus implementation-only histories with one key of 40-200 KB.")
