"""Recorded system-call traces: running the store harness under shim/iorec.c, parsing and
normalising the log, turning traces into Coq terms."""
import concurrent.futures as cf
import os
import re
import tempfile

from common import CACHE, NCPU, ROOT, chunks, harness_run, sh
import storelib as S

SHIM = os.path.join(CACHE, "iorec.so")
CREATE_FLAGS_REQUIRED = 0x1 | 0x40 | 0x80 | 0x400      # O_WRONLY | O_CREAT | O_EXCL | O_APPEND


def build_shim():
    os.makedirs(CACHE, exist_ok=True)
    rc, out = sh("gcc -shared -fPIC -O1 -o %s %s -ldl" % (SHIM, os.path.join(ROOT, "shim", "iorec.c")), timeout=120)
    return rc == 0, out


def short(name):
    return name.replace(".bitcask.", ".")


def rolling_hash(b):
    h = 0
    for x in b:
        h = (h * 31 + x) % 4294967296
    return h


class Call:
    __slots__ = ("kind", "name", "data", "extra")

    def __init__(self, kind, name, data=b"", extra=""):
        self.kind, self.name, self.data, self.extra = kind, name, data, extra

    def show(self):
        if self.kind == "write":
            return "write %s %d:%d" % (self.name, len(self.data), rolling_hash(self.data))
        return "%s %s" % (self.kind, self.name)


def parse_log(text):
    """-> {case: {"ops": [[Call...] per op index, index -1 = open], "raw_bad": [lines], "tail": [Call] after 'end'}}"""
    cases, cur, opi = {}, None, -1
    for line in text.split("\n"):
        if not line:
            continue
        parts = line.split(" ")
        k = parts[0]
        if k == "mark":
            if parts[1] == "case":
                cur = {"ops": {-1: []}, "raw_bad": [], "ended": False, "fails": [], "raw": {}}
                cases[parts[2]] = cur
                opi = -1
            elif parts[1] == "op" and cur is not None:
                opi = int(parts[2])
                cur["ops"].setdefault(opi, [])
            elif parts[1] == "end" and cur is not None:
                cur["ended"] = True
            continue
        if cur is None or cur["ended"]:
            continue
        lst = cur["ops"].setdefault(opi, [])
        if k in ("create", "write", "fsync", "unlink"):
            cur["raw"][opi] = cur["raw"].get(opi, 0) + 1
        if k == "create":
            flags = int(parts[2], 16)
            if flags & CREATE_FLAGS_REQUIRED != CREATE_FLAGS_REQUIRED:
                cur["raw_bad"].append("file %s created with flags %x (exclusive append-only creation expected)" % (parts[1], flags))
            lst.append(Call("create", short(parts[1])))
        elif k == "write":
            data = bytes.fromhex(parts[3]) if parts[3] != "-" else b""
            if lst and lst[-1].kind == "write" and lst[-1].name == short(parts[1]):
                lst[-1].data += data           # adjacent writes to one file are one append
            else:
                lst.append(Call("write", short(parts[1]), data))
        elif k == "fsync":
            lst.append(Call("fsync", short(parts[1])))
        elif k == "unlink":
            lst.append(Call("unlink", short(parts[1])))
        elif k == "unlink!":
            pass                               # removing an absent hint file
        elif k == "fail":
            cur["fails"].append((opi, parts[1], short(parts[2])))
        elif k in ("openw", "pwrite", "rename", "truncate", "mmapw"):
            cur["raw_bad"].append("forbidden call: " + line[:120])
    return cases


def _run_shard(args):
    text, idx = args
    logp = os.path.join(CACHE, "iolog-%d-%d.txt" % (os.getpid(), idx))
    if os.path.exists(logp):
        os.remove(logp)
    rc, out = harness_run(["store"], text, timeout=900, env={"LD_PRELOAD": SHIM, "IOREC_LOG": logp})
    log = open(logp, errors="replace").read() if os.path.exists(logp) else ""
    if os.path.exists(logp):
        os.remove(logp)
    return rc, out, log


def run_recorded(cases):
    """Runs the cases under the recorder; fills c.impl/c.orders as storelib.run_impl and c.trace (parsed log)."""
    shards = chunks(cases, NCPU)
    jobs = [("".join(c.script() for c in shr), i) for i, shr in enumerate(shards)]
    died = []
    with cf.ThreadPoolExecutor(max_workers=NCPU) as ex:
        for shr, (rc, out, log) in zip(shards, ex.map(_run_shard, jobs)):
            cur, by = None, {}
            for line in out.split("\n"):
                if line.startswith("case "):
                    cur = line[5:].strip()
                    by[cur] = []
                elif cur is not None and line != "":
                    by[cur].append(line)
            parsed = parse_log(log)
            for c in shr:
                lines = by.get(c.name) or []
                if not lines or lines[-1] != "end":
                    died.append(c.name)
                c.impl = [l for l in lines if not l.startswith("#")]
                c.orders = [l[7:].strip() for l in lines if l.startswith("#order")]
                c.selected = [l[10:].strip() for l in lines if l.startswith("#selected")]
                c.trace = parsed.get(c.name, {"ops": {}, "raw_bad": ["no trace recorded"], "ended": False, "fails": []})
    return died


def trace_lines(c):
    """one line per op (index -1 first): the normalised real trace, as Store/Render.v prints the model's"""
    out = []
    for i in range(-1, len(c.ops)):
        out.append(";".join(call.show() for call in c.trace["ops"].get(i, [])))
    return out


def coq_fname(name):
    i, ext = name.split(".")
    return "(%s %s)" % ("FData" if ext == "data" else "FHint", i)


def coq_trace(calls, with_bytes=False):
    from common import coq_bytes
    items = []
    for call in calls:
        if call.kind == "create":
            items.append("SCreate %s" % coq_fname(call.name))
        elif call.kind == "write":
            items.append("SWrite %s %s" % (coq_fname(call.name), coq_bytes(call.data) if with_bytes else "(rep %d 0)" % len(call.data)))
        elif call.kind == "fsync":
            items.append("SFsync %s" % coq_fname(call.name))
        elif call.kind == "unlink":
            items.append("SUnlink %s" % coq_fname(call.name))
    return "[" + "; ".join(items) + "]"


def flat_trace(c):
    out = []
    for i in range(-1, len(c.ops)):
        out.extend(c.trace["ops"].get(i, []))
    return out
