"""RESP frames in Python (reference encoder, canonical rendering) and input generators."""

I64_MIN, I64_MAX = -(2 ** 63), 2 ** 63 - 1


def hexs(b):
    """canonical rendering shared with the model and the harness"""
    if not b:
        return "-"
    if len(b) > 64:
        if len(b) > 100000 and b.count(b[:1]) == len(b):
            # one repeated byte: x * (31^(n-1) + ... + 31 + 1), by doubling
            def geo(n):            # (sum_{i<n} 31^i, 31^n) mod 2^32
                if n == 0:
                    return 0, 1
                s, p = geo(n // 2)
                s, p = (s * (1 + p)) % 4294967296, (p * p) % 4294967296
                if n % 2:
                    s, p = (s * 31 + 1) % 4294967296, (p * 31) % 4294967296
                return s, p
            return "#%d#%d" % (len(b), (b[0] * geo(len(b))[0]) % 4294967296)
        h = 0
        for x in b:
            h = (h * 31 + x) % 4294967296
        return "#%d#%d" % (len(b), h)
    return b.hex()


def rawhex(b):
    """input encoding for the harness (full bytes)"""
    return b.hex() if b else "-"


def enc_single(f):
    t = f[0]
    if t == "S":
        return b"+" + f[1] + b"\r\n"
    if t == "E":
        return b"-" + f[1] + b"\r\n"
    if t == "I":
        return b":" + str(f[1]).encode() + b"\r\n"
    if t == "N":
        return b"$-1\r\n"
    if t == "B":
        return b"$" + str(len(f[1])).encode() + b"\r\n" + f[1] + b"\r\n"
    raise ValueError("nested array is not writable")


def enc(f):
    """What Connection::write_frame emits (arrays of non-array items only)."""
    if f[0] == "A":
        return b"*" + str(len(f[1])).encode() + b"\r\n" + b"".join(enc_single(x) for x in f[1])
    return enc_single(f)


def enc_any(f):
    """Encoding of any frame tree, nested arrays included (what a client may send)."""
    if f[0] == "A":
        return b"*" + str(len(f[1])).encode() + b"\r\n" + b"".join(enc_any(x) for x in f[1])
    return enc_single(f)


def show(f, full=False):
    t = f[0]
    if t in "SEB":
        return t + (rawhex(f[1]) if full else hexs(f[1]))
    if t == "I":
        return "I%d" % f[1]
    if t == "N":
        return "N"
    return "A(" + ",".join(show(x, full) for x in f[1]) + ")"


def coq_frame(f, coq_bytes):
    t = f[0]
    if t == "S":
        return "Simple %s" % coq_bytes(f[1])
    if t == "E":
        return "Error %s" % coq_bytes(f[1])
    if t == "B":
        return "Bulk %s" % coq_bytes(f[1])
    if t == "I":
        return "Integer (%d)%%Z" % f[1]
    if t == "N":
        return "Null"
    return "Array [" + "; ".join(coq_frame(x, coq_bytes) for x in f[1]) + "]"


UTF8_SAMPLES = [b"", b"OK", b"hello world", "héllo".encode(), "€".encode(), "\U0001F600".encode(),
                b"a\tb", b"\x00", "kéy中".encode(), b"ERR unknown", b"x" * 40]
BAD_UTF8 = [b"\xff", b"\xc0\x80", b"\xed\xa0\x80", b"\xf4\x90\x80\x80", b"\xe2\x82", b"a\x80b", b"\xf8\x88\x80\x80\x80"]
INTS = [0, 1, -1, 9, 10, -10, 42, 12345, I64_MAX, I64_MIN, I64_MAX - 1, I64_MIN + 1, 10 ** 17, 10 ** 18 - 1,
        10 ** 18, -(10 ** 18), 999999999999999999, 1000000000000000000, 4611686018427387904]


def gen_bulk(r):
    k = r.below(10)
    if k == 0:
        return b""
    if k == 1:
        return bytes([r.choice([13, 10, 0, 255, 36, 42])])
    if k == 2:
        return b"\r\n"
    if k == 3:
        return r.bytes(r.rng(1, 5)) + b"\r"
    if k == 4:
        return b"\n" + r.bytes(r.rng(0, 5))
    if k == 5:
        return bytes([r.below(256)]) * r.choice([30, 100, 300])
    return r.bytes(r.rng(1, 24))


def gen_leaf(r):
    k = r.below(8)
    if k == 0:
        return ("S", r.choice(UTF8_SAMPLES))
    if k == 1:
        return ("E", r.choice(UTF8_SAMPLES))
    if k == 2:
        return ("I", r.choice(INTS) if r.chance(1, 2) else r.rng(I64_MIN, I64_MAX))
    if k == 3:
        return ("N",)
    return ("B", gen_bulk(r))


def gen_writable(r):
    if r.chance(1, 3):
        return ("A", [gen_leaf(r) for _ in range(r.below(5))])
    return gen_leaf(r)


def gen_tree(r, depth):
    if depth > 0 and r.chance(1, 3):
        return ("A", [gen_tree(r, depth - 1) for _ in range(r.below(4))])
    return gen_leaf(r)


def number_texts():
    """Decimal texts around every boundary the integer reader has."""
    out = []
    for v in INTS + [I64_MAX + 1, I64_MIN - 1, 10 ** 19, -(10 ** 19), 10 ** 20 - 1, 10 ** 21, -(10 ** 21) + 1,
                     18446744073709551616, 9223372036854775810]:
        out.append((str(v), v))
        if v >= 0:
            out.append(("+" + str(v), v))
    out += [("007", 7), ("-0", 0), ("+0", 0), ("000000000000000000001", 1), ("0" * 30 + "9", 9),
            ("-" + "0" * 25 + "12", -12), ("9" * 18, int("9" * 18)), ("9" * 19, int("9" * 19)), ("9" * 20, int("9" * 20)),
            ("-" + "9" * 19, -int("9" * 19)), ("-" + "9" * 20, -int("9" * 20)), ("1" + "0" * 18, 10 ** 18),
            ("9223372036854775807", I64_MAX), ("9223372036854775808", I64_MAX + 1),
            ("-9223372036854775808", I64_MIN), ("-9223372036854775809", I64_MIN - 1)]
    return out


def numbers_at_offsets(r, offsets):
    """(input bytes, expected) where expected = ('int', v) if the number must be read as v,
    ('reject',) if it is out of range and must not be accepted."""
    cases = []
    for off in offsets:
        for text, v in number_texts():
            # a leading bulk string of the right size puts the ':' of the integer at offset [off]
            if off == 0:
                buf = b":" + text.encode() + b"\r\n"
            else:
                # "*2\r\n$n\r\n" + n bytes + "\r\n" has length 4 + 1 + len(str(n)) + 2 + n + 2
                n = None
                for cand in range(0, off + 1):
                    if 4 + 1 + len(str(cand)) + 2 + cand + 2 == off:
                        n = cand
                        break
                if n is None:
                    continue
                buf = b"*2\r\n$" + str(n).encode() + b"\r\n" + b"p" * n + b"\r\n:" + text.encode() + b"\r\n"
            exp = ("int", v) if I64_MIN <= v <= I64_MAX else ("reject",)
            cases.append((buf, exp, off))
    return cases


ALPHABET = [b"+", b"-", b":", b"$", b"*", b"\r", b"\n", b"0", b"1", b"9", b"a", b"\xff"]


def gen_garbage(r):
    k = r.below(4)
    if k == 0:
        return r.bytes(r.rng(0, 12))
    return b"".join(r.choice(ALPHABET) for _ in range(r.rng(0, 10)))


def mutate(r, b):
    if not b:
        return b
    b = bytearray(b)
    k = r.below(4)
    i = r.below(len(b))
    if k == 0:
        b[i] = r.below(256)
    elif k == 1:
        del b[i]
    elif k == 2:
        b.insert(i, r.choice([13, 10, 45, 43, 48, 57, 42, 36]))
    else:
        b[i] = r.choice([13, 10, 45, 43, 48, 57, 42, 36, 58])
    return bytes(b)
