"""Server-mode scripts: running scenario files on the real server (harness `server` mode)."""
import concurrent.futures as cf

from common import NCPU, chunks, harness_run
import respgen as G


class Scenario:
    def __init__(self, name, header, ops):
        self.name, self.header, self.ops = name, header, ops     # ops: list of strings
        self.out = None

    def script(self):
        return "CASE %s %s\n%s\nEND\n" % (self.name, self.header, "\n".join(self.ops))


def _run(text):
    return harness_run(["server"], text, timeout=900)


def run_scenarios(scs, procs=NCPU):
    shards = chunks(scs, procs)
    died = []
    with cf.ThreadPoolExecutor(max_workers=procs) as ex:
        for sh, (rc, out) in zip(shards, ex.map(_run, ["".join(s.script() for s in sh) for sh in shards])):
            cur, by = None, {}
            for line in out.split("\n"):
                if line.startswith("case "):
                    cur = line[5:].strip()
                    by[cur] = []
                elif cur is not None and line != "":
                    by[cur].append(line)
            for s in sh:
                s.out = by.get(s.name) or []
                if not s.out or s.out[-1] != "end":
                    died.append(s.name)
    return died


def req_frame(r):
    if r[0] == "GET":
        return ("A", [("B", b"GET"), ("B", r[1])])
    if r[0] == "SET":
        return ("A", [("B", b"SET"), ("B", r[1]), ("B", r[2])])
    return ("A", [("B", b"DEL")] + [("B", k) for k in r[1]])


def spec_replies(reqs, m=None):
    """the map's answers, encoded: (list of reply byte strings, final map)"""
    m = dict(m or {})
    out = []
    for r in reqs:
        if r[0] == "GET":
            out.append(G.enc(("B", m[r[1]])) if r[1] in m else G.enc(("N",)))
        elif r[0] == "SET":
            m[r[1]] = r[2]
            out.append(b"+OK\r\n")
        else:
            n = 0
            for k in r[1]:
                if k in m:
                    del m[k]
                    n += 1
            out.append(G.enc(("I", n)))
    return out, m


KEYS = [b"k", b"a", "kéy".encode(), b"", b"key with space", b"x" * 40]


def gen_value(r):
    k = r.below(10)
    if k == 0:
        return b""
    if k == 1:
        return b"\r\n"
    if k == 2:
        return bytes([r.choice([0, 13, 10, 255])]) * r.rng(1, 4)
    if k == 3:
        return b"line1\r\nline2\x00\xff"
    if k == 4:
        return bytes([r.below(256)]) * r.choice([100, 5000, 70000])
    return r.bytes(r.rng(1, 16))


def gen_reqs(r, n):
    keys = r.shuffle(KEYS)[:r.rng(2, 4)]
    if r.chance(1, 2):
        # a long key with multi-byte characters at every alignment around 16 / 32 / 64 / 128
        n = r.choice([r.rng(0, 140), 14, 15, 30, 31, 32, 62, 63, 64, 126, 127, 128])
        keys.append(b"a" * n + "é€😀".encode() * 2 + b":p")
    out = []
    for _ in range(n):
        k = r.below(10)
        if k < 4:
            out.append(("SET", r.choice(keys), gen_value(r)))
        elif k < 8:
            out.append(("GET", r.choice(keys)))
        else:
            out.append(("DEL", [r.choice(keys) for _ in range(r.rng(1, 4))]))
    return out, keys


def cut(r, data, mode):
    if mode == "whole" or len(data) < 2:
        return [data]
    if mode == "bytes":
        return [data[i:i + 1] for i in range(len(data))]
    if mode == "crlf":
        idx = [i + 1 for i in range(len(data) - 1) if data[i:i + 2] == b"\r\n"]
        pts = sorted(set(idx[:8]))
    else:
        pts = sorted(set(r.below(len(data) - 1) + 1 for _ in range(r.rng(1, 6))))
    segs, prev = [], 0
    for p in pts + [len(data)]:
        if p > prev:
            segs.append(data[prev:p])
        prev = p
    return segs
