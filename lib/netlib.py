"""Server-mode scripts: running scenario files on the real server (harness `server` mode)."""
import concurrent.futures as cf

from common import NCPU, chunks, harness_run
import respgen as G


class Scenario:
    def __init__(self, name, header, ops):
        self.name, self.header, self.ops = name, header, ops     # ops: list of strings
        self.out = None

    def script(self):
        return "CASE %s %s\n%s\nEND\n" % (self.name, self.header, "\n".join(self.ops))


def _run(text):
    return harness_run(["server"], text, timeout=900)


def run_scenarios(scs, procs=NCPU):
    shards = chunks(scs, procs)
    died = []
    with cf.ThreadPoolExecutor(max_workers=procs) as ex:
        for sh, (rc, out) in zip(shards, ex.map(_run, ["".join(s.script() for s in sh) for sh in shards])):
            cur, by = None, {}
            for line in out.split("\n"):
                if line.startswith("case "):
                    cur = line[5:].strip()
                    by[cur] = []
                elif cur is not None and line != "":
                    by[cur].append(line)
            for s in sh:
                s.out = by.get(s.name) or []
                if not s.out or s.out[-1] != "end":
                    died.append(s.name)
    return died


def req_frame(r):
    if r[0] == "GET":
        return ("A", [("B", b"GET"), ("B", r[1])])
    if r[0] == "SET":
        return ("A", [("B", b"SET"), ("B", r[1]), ("B", r[2])])
    return ("A", [("B", b"DEL")] + [("B", k) for k in r[1]])


def spec_replies(reqs, m=None):
    """the map's answers, encoded: (list of reply byte strings, final map)"""
    m = dict(m or {})
    out = []
    for r in reqs:
        if r[0] == "GET":
            out.append(G.enc(("B", m[r[1]])) if r[1] in m else G.enc(("N",)))
        elif r[0] == "SET":
            m[r[1]] = r[2]
            out.append(b"+OK\r\n")
        else:
            n = 0
            for k in r[1]:
                if k in m:
                    del m[k]
                    n += 1
            out.append(G.enc(("I", n)))
    return out, m


KEYS = [b"k", b"a", "kéy".encode(), b"", b"key with space", b"x" * 40]


def gen_value(r):
    k = r.below(10)
    if k == 0:
        return b""
    if k == 1:
        return b"\r\n"
    if k == 2:
        return bytes([r.choice([0, 13, 10, 255])]) * r.rng(1, 4)
    if k == 3:
        return b"line1\r\nline2\x00\xff"
    if k == 4:
        return bytes([r.below(256)]) * r.choice([100, 5000, 70000])
    return r.bytes(r.rng(1, 16))


def gen_reqs(r, n):
    keys = r.shuffle(KEYS)[:r.rng(2, 4)]
    if r.chance(1, 2):
        # a long key with multi-byte characters at every alignment around 16 / 32 / 64 / 128
        ln = r.choice([r.rng(0, 140), 14, 15, 30, 31, 32, 62, 63, 64, 126, 127, 128])
        keys.append(b"a" * ln + "é€😀".encode() * 2 + b":p")
        n = r.choice([n, n, r.rng(20, 140)])         # and sometimes a long session
    out = []
    for _ in range(n):
        k = r.below(10)
        if k < 4:
            out.append(("SET", r.choice(keys), gen_value(r)))
        elif k < 8:
            out.append(("GET", r.choice(keys)))
        else:
            out.append(("DEL", [r.choice(keys) for _ in range(r.rng(1, 4))]))
    return out, keys


def cut(r, data, mode):
    if mode == "whole" or len(data) < 2:
        return [data]
    if mode == "bytes":
        return [data[i:i + 1] for i in range(len(data))]
    if mode == "crlf":
        idx = [i + 1 for i in range(len(data) - 1) if data[i:i + 2] == b"\r\n"]
        pts = sorted(set(idx[:8]))
    else:
        pts = sorted(set(r.below(len(data) - 1) + 1 for _ in range(r.rng(1, 6))))
    segs, prev = [], 0
    for p in pts + [len(data)]:
        if p > prev:
            segs.append(data[prev:p])
        prev = p
    return segs


# ---------------------------------------------------------------- the crate's own client (src/net/client.rs)
def coq_req(q, coq_bytes):
    if q[0] == "GET":
        return "RqGet %s" % coq_bytes(q[1])
    if q[0] == "SET":
        return "RqSet %s %s" % (coq_bytes(q[1]), coq_bytes(q[2]))
    return "RqDel [%s]" % "; ".join(coq_bytes(k) for k in q[1])


def api_words(q):
    if q[0] == "GET":
        return "get %s" % G.rawhex(q[1])
    if q[0] == "SET":
        return "set %s %s" % (G.rawhex(q[1]), G.rawhex(q[2]))
    return "del %s" % " ".join(G.rawhex(k) for k in q[1])


def gen_fake_session(r):
    """calls of one client session against a scripted server: [(request, reply segments, close)], the kinds used"""
    reqs, _ = gen_reqs(r, r.rng(1, 6))
    reqs = reqs[:8]
    calls, kinds, carry = [], [], False
    for i, q in enumerate(reqs):
        if carry:                      # the previous reply carried this call's frame already
            calls.append((q, [], False))
            kinds.append("carried")
            carry = False
            continue
        k = r.below(12)
        close = False
        if k < 4:                      # the kind of frame the call expects (content arbitrary)
            f = {"SET": ("S", b"OK"), "GET": r.choice([("B", G.gen_bulk(r)), ("N",), ("B", gen_value(r))]),
                 "DEL": ("I", r.choice(G.INTS))}[q[0]]
            data, kind = G.enc(f), "expected"
        elif k == 4:
            data, kind = G.enc(("E", r.choice([b"ERR something", b"", "f\u00e9".encode(), b"x" * 70]))), "error"
        elif k < 7:                    # a well-formed frame of another kind
            f = r.choice([("S", b"ok"), ("S", b"OK "), ("S", b""), ("I", 7), ("N",), ("B", b"OK"), ("A", []), ("A", [("B", b"v")]),
                          G.gen_tree(r, 2)])
            data, kind = G.enc_any(f), "other-frame"
        elif k == 7:                   # two frames at once: the second answers the next call
            f1 = {"SET": ("S", b"OK"), "GET": ("B", b"one"), "DEL": ("I", 1)}[q[0]]
            data, kind = G.enc(f1) + G.enc_any(G.gen_tree(r, 1)), "double"
            carry = i + 1 < len(reqs)
        elif k == 8:                   # the connection ends inside a frame
            full = G.enc(("B", b"truncated value"))
            data, kind, close = full[:r.rng(1, len(full) - 1)], "truncated", True
        elif k == 9:                   # the connection ends between frames
            data, kind, close = b"", "eof", True
        else:                          # not RESP
            data, kind, close = r.choice([G.gen_garbage(r), G.mutate(r, G.enc(G.gen_leaf(r))), b"!x\r\n", b":12a\r\n", b"$-2\r\n"]), "malformed", True
        segs = cut(r, data, r.choice(["whole", "random", "crlf", "bytes"])) if len(data) < 200 else cut(r, data, r.choice(["whole", "random"]))
        calls.append((q, [s for s in segs if s], close))
        kinds.append(kind)
        if close:
            break
    return calls, kinds
