"""C19 — per-file live/dead accounting always matches the files' real contents."""
import storecheck
import storelib as S

PROFILE = {"weights": {"set": 9, "del": 4, "merge": 2, "reopen": 2, "get": 1}, "dump_every": True, "small_values": True,
           "final": ["dump", "cat"]}


def truth_check(c):
    """Independent ground truth: scan the real files (cat) and compare with the real counters (dump)."""
    bad = []
    lines = c.impl or []
    # pair each dump line with the most recent state: we only have file contents at the end (cat),
    # so the full scan is done for the final dump; intermediate dumps are compared with the model.
    cat = next((l for l in reversed(lines) if l.startswith("cat ")), None)
    dumps = [l for l in lines if l.startswith("dump ")]
    if not cat or not dumps:
        return bad
    files = S.parse_cat(cat)
    keydir, stats = S.parse_dump(dumps[-1])
    where = {(f, p): k for k, (f, p, l, t) in keydir.items()}
    for name, buf in files.items():
        if not name.endswith(".data"):
            continue
        fid = int(name.split(".")[0])
        ents = S.decode_entries(buf)
        live = sum(1 for (ts, k, v, pos, ln) in ents if (fid, pos) in where)
        dead = len(ents) - live
        dead_bytes = sum(ln for (ts, k, v, pos, ln) in ents if (fid, pos) not in where)
        got = stats.get(fid, (0, 0, 0))
        if got != (live, dead, dead_bytes):
            bad.append((len(c.ops), "file %d: counters (live,dead,dead_bytes)=%s but the file holds %s" % (
                fid, got, (live, dead, dead_bytes))))
        if live > 2 ** 62 or got[0] > 2 ** 62:
            bad.append((len(c.ops), "file %d: live counter underflowed" % fid))
    for fid, row in stats.items():
        if "%d.data" % fid not in files and row != (0, 0, 0):
            bad.append((len(c.ops), "counters for file %d which does not exist: %s" % (fid, row)))
    # every index entry must denote a whole value entry of that key
    for k, (f, p, l, t) in keydir.items():
        ents = {pos: (kk, v, ln) for (ts, kk, v, pos, ln) in S.decode_entries(files.get("%d.data" % f, b""))}
        e = ents.get(p)
        if e is None or e[2] != l or e[1] is None or (e[0].hex() if e[0] else "-") != k:
            bad.append((len(c.ops), "index entry of key %s does not denote its value entry" % k))
    return bad


def corpus():
    cfg = {"mfs": 100, "cache": 256, "conc": 1, "frag": (0, 1), "dead": 0, "small": 10 ** 9}
    return [
        # a tombstone that is the entry crossing max_file_size (seed C19-B shape)
        S.Case("corpus-tomb-rollover", dict(cfg), [("set", b"k", b"v" * 61), ("dump",), ("del", b"k"), ("dump",),
                                                    ("del", b"zz"), ("dump",), ("reopen",), ("dump",), ("cat",)]),
        # a merge whose live output rolls over several files (seed C19-A shape)
        S.Case("corpus-merge-rollover", dict(cfg),
               [("set", bytes([65 + i]), bytes([97 + i]) * 30) for i in range(9)] + [("set", b"A", b"y" * 30), ("dump",),
                ("merge",), ("dump",), ("set", b"C", b"z"), ("dump",), ("reopen",), ("dump",), ("merge",), ("dump",), ("cat",)]),
    ]


def main(tier, seed):
    n = {"quick": 500, "thorough": 8000}[tier]
    return storecheck.run("C19", tier, seed, PROFILE, n, corpus=corpus(), extra_oracle=truth_check, maxlen=18,
                          relevant=lambda o: o[0] in ("dump", "merge", "reopen", "set", "del"),
                          rule="Observables compared: the index and per-file counters after every mutating operation "
                               "(model vs implementation), and at the end of each script the implementation's counters "
                               "against an independent scan of its real files.")
