"""C13 — compaction actually reclaims space and never grows the store."""
import storecheck
import storelib as S

PROFILE = {"weights": {"set": 10, "del": 4, "merge": 4, "reopen": 1}, "ls_around_merge": True, "small_values": True,
           "final": ["ls"], "cfg": lambda r: {"mfs": r.choice([0, 30, 60, 100, 200, 30000])}}
FULL = {"weights": {"set": 10, "del": 4, "merge": 2}, "small_values": True, "final": ["ls", "merge", "ls", "merge", "ls", "dump"],
        "cfg": lambda r: {"mfs": r.choice([0, 30, 60, 100, 200, 30000]), "frag": (0, 1), "dead": 0, "small": 10 ** 9}}


def sizes(line):
    out = {}
    for item in line[3:].split(","):
        if item:
            name, _, rest = item.partition("=")
            out[name] = int(rest.split(":")[0])
    return out


def total_data(line):
    return sum(v for k, v in sizes(line).items() if k.endswith(".data"))


def size_oracle(c):
    bad = []
    lines = c.impl or []
    prev_ls = None
    live_model = {}
    for i, o in enumerate(c.ops):
        if i + 1 >= len(lines):
            break
        got = lines[i + 1]
        if o[0] == "set" and got == "ok":
            live_model[o[1]] = o[2]
        elif o[0] == "del" and got in ("true", "false"):
            live_model.pop(o[1], None)
        if o[0] == "ls" and got.startswith("ls "):
            if i >= 2 and c.ops[i - 1] == ("merge",) and prev_ls is not None and c.ops[i - 2] == ("ls",):
                before, after = total_data(prev_ls), total_data(got)
                if after > before:
                    bad.append((i, "merge grew the data files from %d to %d bytes" % (before, after)))
                if c.cfg["small"] >= 10 ** 9:
                    # every non-empty file is eligible: exactly the live pairs remain, each once
                    want = sum(25 + len(k) + len(v) for k, v in live_model.items())
                    if after != want:
                        bad.append((i, "after a merge of every file the data files hold %d bytes, the live pairs need %d" % (after, want)))
            prev_ls = got
    return bad


def ls_norm(line):
    if line.startswith("ls "):
        return "ls " + ",".join("%s=%d" % kv for kv in sorted(sizes(line).items()))
    return S.norm(line)


def main(tier, seed):
    n = {"quick": 300, "thorough": 5000}[tier]
    from common import Rng
    rng = Rng(seed + 77)
    extra = S.gen_cases(rng, n, FULL, maxlen=18, prefix="f")
    # wide directories: 70-140 data files (max_file_size 0: one record per file), every file eligible; one pass must leave exactly
    # the live pairs (seed C13-E: a pass that takes at most 64 input files was missed while no history had more than ~20 files)
    for w in range({"quick": 3, "thorough": 12}[tier]):
        r = rng.fork()
        cfg = S.gen_cfg(r)
        cfg.update({"mfs": 0, "frag": (0, 1), "dead": 0, "small": 10 ** 9})
        nfiles = r.rng(70, 140)
        ops = []
        for i in range(nfiles):
            k = b"w%d" % r.rng(0, nfiles // 2)
            ops.append(("del", k) if r.chance(1, 6) else ("set", k, b"x" * r.rng(0, 12)))
        ops += [("ls",), ("merge",), ("ls",), ("merge",), ("ls",), ("dump",)]
        extra.append(S.Case("wide%d" % w, cfg, ops))
    return storecheck.run("C13", tier, seed, PROFILE, n, corpus=extra, maxlen=20, extra_oracle=size_oracle, line_norm=ls_norm,
                          relevant=lambda o: o[0] in ("ls", "merge"),
                          rule="Total size of *.data files listed before and after every merge; half of the scripts use thresholds "
                               "that make every non-empty file eligible and end with two further merges (size must equal the sum of "
                               "25+|k|+|v| over the live pairs, and stay there).")
