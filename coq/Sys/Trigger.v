(* Sys/Trigger.v — the merge trigger of Context::can_merge (src/storage/bitcask.rs) with the
   fragmentation computed as the code computes it: in IEEE-754 binary64 (u64 as f64, +, /, >),
   using Flocq's executable binary64.  Thresholds are binary64 values given as the quotient of two
   integers, which is how the harness builds them (num as f64 / den as f64). *)
From Flocq Require Import IEEE754.BinarySingleNaN IEEE754.Binary IEEE754.Bits.
From BC Require Import Store.Engine.
Open Scope N_scope.

Definition f64_of_N (n : N) : binary64 :=
  binary_normalize 53 1024 (refl_equal _) (refl_equal _) mode_NE (Z.of_N n) 0 false.
Definition f64_div := b64_div mode_NE.
Definition f64_add := b64_plus mode_NE.
Definition f64_gt (a b : binary64) : bool := match b64_compare a b with Some Gt => true | _ => false end.
Definition f64_ratio (num den : N) : binary64 := f64_div (f64_of_N num) (f64_of_N den).

(* LogStatistics::fragmentation *)
Definition fragmentation (c : cnt) : binary64 :=
  if dead c =? 0 then f64_of_N 0
  else f64_div (f64_of_N (dead c)) (f64_add (f64_of_N (dead c)) (f64_of_N (live c))).

(* [PWindow a z h]: the window policy with hours a..z (inclusive, as the code compares), evaluated at local hour h:
   the hour is an input (chrono::Local::now()), like the clock of the engine *)
Inductive policy := PAlways | PNever | PWindow (a z h : N).
Record triggers := mkTrig { t_frag_num : N; t_frag_den : N; t_dead : N }.

Definition file_triggers (t : triggers) (c : cnt) : bool :=
  (t_dead t <? dead_bytes c) || f64_gt (fragmentation c) (f64_ratio (t_frag_num t) (t_frag_den t)).

Definition can_merge (p : policy) (t : triggers) (s : st) : bool :=
  match p with
  | PNever => false
  | PAlways => existsb (fun f => file_triggers t (sget0 (s_stats s) f)) (stat_ids (s_stats s))
  | PWindow a z h =>
    if (h <? a) || (z <? h) then false
    else existsb (fun f => file_triggers t (sget0 (s_stats s) f)) (stat_ids (s_stats s))
  end.

(* inside its hours the window policy is `always`, outside it is `never` *)
Lemma window_inside a z h t s : a <= h <= z -> can_merge (PWindow a z h) t s = can_merge PAlways t s.
Proof.
  intros [H1 H2]. unfold can_merge. destruct (N.ltb_spec h a); [lia|]. destruct (N.ltb_spec z h); [lia|]. reflexivity.
Qed.
Lemma window_outside a z h t s : h < a \/ z < h -> can_merge (PWindow a z h) t s = false.
Proof.
  intros H. unfold can_merge. destruct (N.ltb_spec h a); [reflexivity|]. destruct (N.ltb_spec z h); [reflexivity|lia].
Qed.

(* the rational reading of the same comparison, for counters and thresholds small enough *)
Definition frag_gt_Q (c : cnt) (num den : N) : bool :=
  if dead c =? 0 then false else num * (dead c + live c) <? dead c * den.

(* binary64 and the rationals agree on every pair of counters up to 40 and every threshold k/8
   (checked exhaustively by computation: 41*41*9 cases) ... *)
Definition small_agree : bool :=
  forallb (fun d => forallb (fun l => forallb (fun k =>
    Bool.eqb (f64_gt (fragmentation (mkCnt l d 0)) (f64_ratio k 8)) (frag_gt_Q (mkCnt l d 0) k 8))
    (map N.of_nat (seq 0 9))) (map N.of_nat (seq 0 41))) (map N.of_nat (seq 0 41)).
Lemma small_agree_true : small_agree = true.
Proof. vm_compute. reflexivity. Qed.

(* ... but not in general: 0.6 as a binary64 lies below 3/5, and 3 dead of 5 rounds to that same
   binary64, so "3/5 > 0.6" is false in the code although 3/5 exceeds the real number the constant
   0.6 denotes in binary64.  (The threshold 6/10 is the same binary64 as the literal 0.6.) *)
Example f64_threshold_is_not_rational :
  f64_gt (fragmentation (mkCnt 2 3 0)) (f64_ratio 6 10) = false /\
  bits_of_b64 (f64_ratio 6 10) = 4603579539098121011%Z /\       (* 0x3FE3333333333333 *)
  f64_gt (fragmentation (mkCnt 39 61 0)) (f64_ratio 6 10) = true.
Proof. vm_compute. repeat split. Qed.
