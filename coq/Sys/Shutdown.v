(* Sys/Shutdown.v — graceful shutdown of src/net/server.rs + src/shutdown.rs as a transition system.
     Server::run:   select { listen() | shutdown }  then drop(notify_shutdown); drop(shutdown_complete_tx);
                    shutdown_complete_rx.recv().await          (returns when every handler dropped its sender)
     Handler::run:  while !shutdown.is_shutdown() {
                      let f = select { read_frame() | shutdown.recv() => return };     (HWait)
                      cmd.apply(...)  = store operation on a blocking thread, awaited   (HExec)
                                        then write_frame(reply) + flush                 (HReply)
                    }
   A handler can only leave at the select (or by an error), never inside apply: commands are not
   interruptible.  [reading i = false] models a client that does not read: its handler cannot finish
   writing a reply (the known finding D11). *)
From Coq Require Import List Arith Lia Bool.
Import ListNotations.

Inductive hstate :=
| HWait (pending : nat)     (* at the select; [pending] complete requests are available *)
| HExec (pending : nat)     (* store operation running *)
| HReply (pending : nat)    (* operation applied, reply being written *)
| HEnded.

Record conn := mkConn { hs : hstate; applied : nat; replied : nat; reading : bool }.
Inductive phase := Running | Draining | Returned.
Record sys := mkSys { ph : phase; conns : list conn }.

Inductive event :=
| ClientSends (i : nat)        (* one more complete request arrives on connection i *)
| StartCmd (i : nat)           (* select takes read_frame *)
| OpDone (i : nat)             (* the store operation returns *)
| ReplyDone (i : nat)          (* the reply is written and flushed: needs a reading client *)
| Fire                         (* the shutdown future completes *)
| Observe (i : nat)            (* select takes shutdown.recv(): the handler returns *)
| ClientCloses (i : nat)       (* EOF with nothing buffered: the handler returns *)
| ClientReads (i : nat)        (* the client starts reading *)
| Return.                      (* Server::run returns *)

Fixpoint upd (l : list conn) (i : nat) (c : conn) : list conn :=
  match l, i with
  | [], _ => []
  | _ :: l', O => c :: l'
  | x :: l', S j => x :: upd l' j c
  end.

Definition all_ended (l : list conn) : bool := forallb (fun c => match hs c with HEnded => true | _ => false end) l.

Definition step (s : sys) (e : event) : option sys :=
  let withc i f := match nth_error (conns s) i with
                   | Some c => match f c with Some c' => Some (mkSys (ph s) (upd (conns s) i c')) | None => None end
                   | None => None
                   end in
  match e with
  | ClientSends i => withc i (fun c => match hs c with
                                        | HWait p => Some (mkConn (HWait (S p)) (applied c) (replied c) (reading c))
                                        | HExec p => Some (mkConn (HExec (S p)) (applied c) (replied c) (reading c))
                                        | HReply p => Some (mkConn (HReply (S p)) (applied c) (replied c) (reading c))
                                        | HEnded => None end)
  | StartCmd i => withc i (fun c => match hs c with HWait (S p) => Some (mkConn (HExec p) (applied c) (replied c) (reading c)) | _ => None end)
  | OpDone i => withc i (fun c => match hs c with HExec p => Some (mkConn (HReply p) (S (applied c)) (replied c) (reading c)) | _ => None end)
  | ReplyDone i => withc i (fun c => match hs c with
                                      | HReply p => if reading c then Some (mkConn (HWait p) (applied c) (S (replied c)) true) else None
                                      | _ => None end)
  | Fire => match ph s with Running => Some (mkSys Draining (conns s)) | _ => None end
  | Observe i => match ph s with
                 | Running => None
                 | _ => withc i (fun c => match hs c with HWait _ => Some (mkConn HEnded (applied c) (replied c) (reading c)) | _ => None end)
                 end
  | ClientCloses i => withc i (fun c => match hs c with HWait O => Some (mkConn HEnded (applied c) (replied c) (reading c)) | _ => None end)
  | ClientReads i => withc i (fun c => Some (mkConn (hs c) (applied c) (replied c) true))
  | Return => match ph s with Draining => if all_ended (conns s) then Some (mkSys Returned (conns s)) else None | _ => None end
  end.

Fixpoint run (s : sys) (es : list event) : option sys :=
  match es with [] => Some s | e :: es' => match step s e with Some s' => run s' es' | None => None end end.

(* ---------- replies are whole and never ahead of the store ---------- *)
(* [replied] counts COMPLETE replies: the only event that makes bytes visible to the client is
   ReplyDone, which appends one whole reply.  A handler at the select, or ended, has replied to
   every operation it applied; in between, at most one reply is outstanding. *)
Definition conn_ok (c : conn) : Prop :=
  match hs c with
  | HWait _ | HEnded | HExec _ => replied c = applied c
  | HReply _ => applied c = S (replied c)
  end.
Definition sys_ok (s : sys) : Prop := Forall conn_ok (conns s).

Lemma upd_ok l i c : Forall conn_ok l -> conn_ok c -> Forall conn_ok (upd l i c).
Proof.
  revert i. induction l as [|x l IH]; intros i Hl Hc; cbn [upd]; [constructor|].
  inversion Hl; subst. destruct i; constructor; auto.
Qed.

Lemma nth_ok l i c : Forall conn_ok l -> nth_error l i = Some c -> conn_ok c.
Proof. intros H E. rewrite Forall_forall in H. apply H. eapply nth_error_In; exact E. Qed.

Lemma step_ok s e s' : sys_ok s -> step s e = Some s' -> sys_ok s'.
Proof.
  unfold sys_ok, step. intros H E.
  destruct e as [i|i|i|i| |i|i|i|];
    try (destruct (ph s); try discriminate);
    try (destruct (nth_error (conns s) i) as [c|] eqn:En; [|discriminate]; pose proof (nth_ok _ _ _ H En) as Hc);
    try (destruct (all_ended (conns s)); try discriminate);
    try (inversion E; subst; cbn [conns]; exact H).
  all: unfold conn_ok in Hc; destruct (hs c) as [p|p|p|] eqn:Eh; try discriminate;
       try (destruct p; try discriminate); try (destruct (reading c); try discriminate);
       inversion E; subst; cbn [conns]; apply upd_ok; try exact H; unfold conn_ok; cbn [hs applied replied]; try lia; try rewrite Eh; try lia.
Qed.

Theorem run_ok : forall es s s', sys_ok s -> run s es = Some s' -> sys_ok s'.
Proof.
  induction es as [|e es IH]; intros s s' H E; cbn [run] in E; [inversion E; subst; exact H|].
  destruct (step s e) as [s1|] eqn:E1; [|discriminate]. eapply IH; [eapply step_ok; eassumption|exact E].
Qed.

(* every reply a client has received belongs to an operation the store has already applied *)
Theorem replies_follow_store es s s' c : sys_ok s -> run s es = Some s' -> In c (conns s') -> replied c <= applied c.
Proof.
  intros H E Hin. pose proof (run_ok es s s' H E) as Hok. unfold sys_ok in Hok. rewrite Forall_forall in Hok.
  specialize (Hok c Hin). unfold conn_ok in Hok. destruct (hs c); lia.
Qed.

(* a handler that has ended has written a whole reply for everything it applied: no torn reply *)
Theorem ended_means_all_replied es s s' c : sys_ok s -> run s es = Some s' -> In c (conns s') -> hs c = HEnded ->
  replied c = applied c.
Proof.
  intros H E Hin Hend. pose proof (run_ok es s s' H E) as Hok. unfold sys_ok in Hok. rewrite Forall_forall in Hok.
  specialize (Hok c Hin). unfold conn_ok in Hok. rewrite Hend in Hok. exact Hok.
Qed.

(* ---------- termination ---------- *)
(* the events one handler needs to wind down once the signal is out: finish the command it is in
   (at most two events), then observe the signal *)
Definition wind_down (i : nat) (c : conn) : list event :=
  match hs c with
  | HWait _ => [Observe i]
  | HExec _ => [OpDone i; ReplyDone i; Observe i]
  | HReply _ => [ReplyDone i; Observe i]
  | HEnded => []
  end.

Definition unblocked (c : conn) : Prop := match hs c with HExec _ | HReply _ => reading c = true | _ => True end.

Lemma nth_upd_same l i c x : nth_error l i = Some x -> nth_error (upd l i c) i = Some c.
Proof. revert i. induction l as [|y l IH]; intros [|i]; cbn; try discriminate; auto. Qed.
Lemma nth_upd_other l i j c : i <> j -> nth_error (upd l i c) j = nth_error l j.
Proof. revert i j. induction l as [|y l IH]; intros [|i] [|j] H; cbn; auto; try congruence; try (apply IH; congruence). Qed.
Lemma upd_upd l i c1 c2 : upd (upd l i c1) i c2 = upd l i c2.
Proof. revert i. induction l as [|y l IH]; intros [|i]; cbn; auto. rewrite IH. reflexivity. Qed.

Lemma step_opdone p l i c q : nth_error l i = Some c -> hs c = HExec q ->
  step (mkSys p l) (OpDone i) = Some (mkSys p (upd l i (mkConn (HReply q) (S (applied c)) (replied c) (reading c)))).
Proof. intros En Eh. unfold step. cbn [ph conns]. rewrite En, Eh. reflexivity. Qed.
Lemma step_replydone p l i c q : nth_error l i = Some c -> hs c = HReply q -> reading c = true ->
  step (mkSys p l) (ReplyDone i) = Some (mkSys p (upd l i (mkConn (HWait q) (applied c) (S (replied c)) true))).
Proof. intros En Eh Hr. unfold step. cbn [ph conns]. rewrite En, Eh, Hr. reflexivity. Qed.
Lemma step_observe l i c q : nth_error l i = Some c -> hs c = HWait q ->
  step (mkSys Draining l) (Observe i) = Some (mkSys Draining (upd l i (mkConn HEnded (applied c) (replied c) (reading c)))).
Proof. intros En Eh. unfold step. cbn [ph conns]. rewrite En, Eh. reflexivity. Qed.

Lemma upd_same l i c : nth_error l i = Some c -> upd l i c = l.
Proof. revert i. induction l as [|y l IH]; intros [|i] E; cbn in *; try discriminate; [inversion E; reflexivity|]. rewrite IH by exact E. reflexivity. Qed.

Lemma wind_down_one s i c : ph s = Draining -> nth_error (conns s) i = Some c -> unblocked c ->
  exists c', run s (wind_down i c) = Some (mkSys Draining (upd (conns s) i c')) /\ hs c' = HEnded /\
             (hs c = HEnded -> c' = c).
Proof.
  intros Hp En Hu. unfold wind_down, unblocked in *. destruct s as [p l]. cbn [ph conns] in *. subst p.
  destruct (hs c) as [q|q|q|] eqn:Eh.
  - eexists. cbn [run]. rewrite (step_observe l i c q En Eh). split; [reflexivity|]. split; [reflexivity|discriminate].
  - eexists. cbn [run]. rewrite (step_opdone Draining l i c q En Eh).
    erewrite step_replydone; [|eapply nth_upd_same; exact En|reflexivity|exact Hu]. rewrite upd_upd.
    erewrite step_observe; [|eapply nth_upd_same; exact En|reflexivity]. rewrite upd_upd.
    split; [reflexivity|]. split; [reflexivity|discriminate].
  - eexists. cbn [run]. rewrite (step_replydone Draining l i c q En Eh Hu).
    erewrite step_observe; [|eapply nth_upd_same; exact En|reflexivity]. rewrite upd_upd.
    split; [reflexivity|]. split; [reflexivity|discriminate].
  - exists c. cbn [run]. rewrite (upd_same l i c En). split; [reflexivity|]. split; [exact Eh|reflexivity].
Qed.

Lemma run_app s es1 es2 : run s (es1 ++ es2) = match run s es1 with Some s' => run s' es2 | None => None end.
Proof. revert s. induction es1 as [|e es1 IH]; intros s; cbn [app run]; [reflexivity|]. destruct (step s e); [apply IH|reflexivity]. Qed.

(* once the signal is out and no client keeps a handler blocked in a write, the server CAN return
   after at most three events per connection plus one: no client action is needed, whatever the
   clients are doing (idle, mid-frame = nothing pending, mid-command) *)
Theorem can_always_return : forall l done, Forall unblocked l ->
  Forall (fun c => hs c = HEnded) done ->
  exists es, length es <= 3 * length l + 1 /\
    exists l', run (mkSys Draining (done ++ l)) es = Some (mkSys Returned (done ++ l')) /\ Forall (fun c => hs c = HEnded) l'.
Proof.
  induction l as [|c l IH]; intros done Hu Hd.
  - exists [Return]. split; [cbn; lia|]. exists []. cbn [run step ph conns]. rewrite app_nil_r.
    replace (all_ended done) with true; [split; [reflexivity|constructor]|].
    symmetry. unfold all_ended. apply forallb_forall. intros x Hx. rewrite Forall_forall in Hd. rewrite (Hd x Hx). reflexivity.
  - inversion Hu as [|? ? Huc Hul]; subst.
    assert (En : nth_error (done ++ c :: l) (length done) = Some c).
    { rewrite nth_error_app2 by lia. rewrite Nat.sub_diag. reflexivity. }
    destruct (wind_down_one (mkSys Draining (done ++ c :: l)) (length done) c eq_refl En Huc) as (c' & Hrun & Hend & _).
    cbn [conns] in Hrun.
    assert (Eupd : upd (done ++ c :: l) (length done) c' = (done ++ [c']) ++ l).
    { clear. induction done as [|d done IHd]; cbn; [reflexivity|]. rewrite IHd. reflexivity. }
    rewrite Eupd in Hrun.
    destruct (IH (done ++ [c']) Hul) as (es & Hlen & l' & Hrun' & Hl').
    { apply Forall_app. split; [exact Hd|constructor; [exact Hend|constructor]]. }
    exists (wind_down (length done) c ++ es). split.
    + rewrite app_length. cbn [length]. assert (length (wind_down (length done) c) <= 3) by (unfold wind_down; destruct (hs c); cbn; lia). lia.
    + exists (c' :: l'). rewrite run_app, Hrun, Hrun'. rewrite <- app_assoc. cbn [app]. split; [reflexivity|constructor; assumption].
Qed.

(* the known finding: a handler blocked writing to a client that never reads keeps run from
   returning, for every continuation in which that client does not start reading *)
Definition blocked (c : conn) : Prop := exists p, hs c = HReply p /\ reading c = false.

Definition no_read_of (i : nat) (e : event) : Prop := e <> ClientReads i.

Lemma upd_nth_same_other l i j c x : nth_error l j = Some x -> i <> j -> nth_error (upd l i c) j = Some x.
Proof. intros H Hne. rewrite nth_upd_other by exact Hne. exact H. Qed.

Lemma all_ended_nth l i c : all_ended l = true -> nth_error l i = Some c -> hs c = HEnded.
Proof.
  unfold all_ended. intros H E. rewrite forallb_forall in H. specialize (H c (nth_error_In _ _ E)). destruct (hs c); congruence.
Qed.

Lemma step_keeps_blocked s e s' i c : nth_error (conns s) i = Some c -> blocked c -> no_read_of i e -> ph s <> Returned ->
  step s e = Some s' -> ph s' <> Returned /\ exists c', nth_error (conns s') i = Some c' /\ blocked c'.
Proof.
  intros En (p & Hh & Hr) Hne Hph E. unfold step in E.
  assert (Hother : forall j f, j <> i ->
            match nth_error (conns s) j with
            | Some x => match f x with Some x' => Some (mkSys (ph s) (upd (conns s) j x')) | None => None end
            | None => None
            end = Some s' -> ph s' <> Returned /\ exists c', nth_error (conns s') i = Some c' /\ blocked c').
  { intros j f Hj Ej. destruct (nth_error (conns s) j) as [x|]; [|discriminate]. destruct (f x) as [x'|]; [|discriminate].
    inversion Ej; subst. cbn [ph conns]. split; [exact Hph|]. exists c. split; [rewrite nth_upd_other by exact Hj; exact En|exists p; auto]. }
  destruct e as [j|j|j|j| |j|j|j|]; cbv zeta beta in E.
  - destruct (Nat.eq_dec j i) as [->|Hj]; [|exact (Hother j _ Hj E)].
    rewrite En, Hh in E. inversion E; subst. cbn [ph conns]. split; [exact Hph|]. eexists. split; [eapply nth_upd_same; exact En|exists (S p); auto].
  - destruct (Nat.eq_dec j i) as [->|Hj]; [|exact (Hother j _ Hj E)]. rewrite En, Hh in E. discriminate.
  - destruct (Nat.eq_dec j i) as [->|Hj]; [|exact (Hother j _ Hj E)]. rewrite En, Hh in E. discriminate.
  - destruct (Nat.eq_dec j i) as [->|Hj]; [|exact (Hother j _ Hj E)]. rewrite En, Hh, Hr in E. discriminate.
  - destruct (ph s); try discriminate. inversion E; subst. cbn [ph conns]. split; [discriminate|]. exists c. split; [exact En|exists p; auto].
  - destruct (ph s) eqn:Ep; try discriminate; try congruence.
    destruct (Nat.eq_dec j i) as [->|Hj]; [rewrite En, Hh in E; discriminate|].
    destruct (nth_error (conns s) j) as [x|]; [|discriminate].
    destruct (hs x); try discriminate. inversion E; subst. cbn [ph conns]. split; [discriminate|].
    exists c. split; [rewrite nth_upd_other by exact Hj; exact En|exists p; auto].
  - destruct (Nat.eq_dec j i) as [->|Hj]; [|exact (Hother j _ Hj E)]. rewrite En, Hh in E. discriminate.
  - destruct (Nat.eq_dec j i) as [->|Hj]; [unfold no_read_of in Hne; congruence|].
    destruct (nth_error (conns s) j) as [x|]; [|discriminate]. inversion E; subst. cbn [ph conns]. split; [exact Hph|].
    exists c. split; [rewrite nth_upd_other by exact Hj; exact En|exists p; auto].
  - destruct (ph s); try discriminate. destruct (all_ended (conns s)) eqn:Ea; [|discriminate].
    rewrite (all_ended_nth _ _ _ Ea En) in Hh. discriminate.
Qed.

Theorem blocked_never_returns : forall es s s' i c, ph s <> Returned -> nth_error (conns s) i = Some c -> blocked c ->
  Forall (no_read_of i) es -> run s es = Some s' -> ph s' <> Returned /\ exists c', nth_error (conns s') i = Some c' /\ blocked c'.
Proof.
  induction es as [|e es IH]; intros s s' i c Hph En Hb Hes E; cbn [run] in E.
  - inversion E; subst. split; [exact Hph|eauto].
  - inversion Hes as [|? ? He Hes']; subst. destruct (step s e) as [s1|] eqn:E1; [|discriminate].
    destruct (step_keeps_blocked s e s1 i c En Hb He Hph E1) as (Hph1 & c1 & En1 & Hb1).
    exact (IH s1 s' i c1 Hph1 En1 Hb1 Hes' E).
Qed.
