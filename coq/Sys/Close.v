(* Sys/Close.v — closing a store (src/storage/bitcask.rs: Bitcask::drop -> Handle::close sets the
   `closed` flag and drops the broadcast sender; every Handle operation checks the flag first;
   the background worker selects between its timer and the shutdown channel). *)
From BC Require Import Store.Engine.
From Coq Require Import Lia.
Open Scope N_scope.

(* ---------- operations through a handle ---------- *)
Record hstore := mkH { h_closed : bool; h_st : st }.
Inductive hout := HOk (o : out) | HClosed.

Inductive hop := HOp (o : op) | HSync.

Definition hstep (c : cfg) (h : hstore) (o : hop) : hstore * hout * list syscall :=
  if h_closed h then (h, HClosed, [])
  else match o with
       | HOp o' => let '(s', r, t) := step c (h_st h) o' in (mkH false s', HOk r, t)
       | HSync => (h, HOk VUnit, [SFsync (FData (s_active (h_st h)))])
       end.

Definition drop_store (h : hstore) : hstore := mkH true (h_st h).

(* after the drop every operation fails with `closed`, changes nothing and issues no system call *)
Theorem closed_rejects c h o : h_closed h = true -> hstep c h o = (h, HClosed, []).
Proof. intros H. unfold hstep. rewrite H. reflexivity. Qed.

Fixpoint hrun (c : cfg) (h : hstore) (os : list hop) : hstore * list hout * list syscall :=
  match os with
  | [] => (h, [], [])
  | o :: os' => let '(h1, r, t) := hstep c h o in let '(h2, rs, ts) := hrun c h1 os' in (h2, r :: rs, t ++ ts)
  end.

Theorem closed_forever c os : forall h, h_closed h = true ->
  hrun c h os = (h, map (fun _ => HClosed) os, []).
Proof.
  induction os as [|o os IH]; intros h H; cbn [hrun map]; [reflexivity|].
  rewrite (closed_rejects c h o H), (IH h H). reflexivity.
Qed.

(* ---------- the background worker (one task; merge_on_interval and sync_on_interval alike) ---------- *)
Inductive wstate :=
| WSelect (timer : nat)     (* in select { sleep(timer) | shutdown.recv() } *)
| WWorking                  (* timer fired: running merge / sync on a blocking thread *)
| WExited.
Record wsys := mkW { w : wstate; sender_alive : bool }.

Inductive wevent := Tick | WorkDone (next_timer : nat) | DropSender | ObserveClosed.

Definition wstep (s : wsys) (e : wevent) : option wsys :=
  match e, w s with
  | Tick, WSelect (S n) => Some (mkW (WSelect n) (sender_alive s))
  | Tick, WSelect O => Some (mkW WWorking (sender_alive s))                 (* sleep elapsed *)
  | WorkDone t, WWorking => Some (mkW (WSelect t) (sender_alive s))          (* back to the loop head, then the select *)
  | DropSender, _ => Some (mkW (w s) false)
  | ObserveClosed, WSelect _ => if sender_alive s then None else Some (mkW WExited false)   (* recv() completes: return *)
  | _, _ => None
  end.

Fixpoint wrun (s : wsys) (es : list wevent) : option wsys :=
  match es with [] => Some s | e :: es' => match wstep s e with Some s' => wrun s' es' | None => None end end.

(* once the store object is dropped the worker can exit without any timer tick, however far away
   its next timer is: at once if it is sleeping, after the work in progress otherwise *)
Theorem worker_exits_promptly s : sender_alive s = false -> w s <> WExited ->
  exists es, (length es <= 2)%nat /\ Forall (fun e => e <> Tick) es /\ exists s', wrun s es = Some s' /\ w s' = WExited.
Proof.
  intros Ha Hw. destruct s as [ws a]. cbn in *. subst a. destruct ws as [t| |]; [| |congruence].
  - exists [ObserveClosed]. split; [cbn; lia|]. split; [constructor; [discriminate|constructor]|]. eexists. split; reflexivity.
  - exists [WorkDone 1000; ObserveClosed]. split; [cbn; lia|]. split; [repeat constructor; discriminate|]. eexists. split; reflexivity.
Qed.

(* and it cannot exit while the store object is alive *)
Theorem worker_stays_while_open : forall es s s', sender_alive s = true -> Forall (fun e => e <> DropSender) es ->
  w s <> WExited -> wrun s es = Some s' -> w s' <> WExited.
Proof.
  induction es as [|e es IH]; intros s s' Ha Hes Hw E; cbn [wrun] in E; [inversion E; subst; exact Hw|].
  inversion Hes as [|? ? He Hes']; subst. destruct (wstep s e) as [s1|] eqn:E1; [|discriminate].
  assert (H1 : sender_alive s1 = true /\ w s1 <> WExited).
  { destruct s as [ws a]. cbn in Ha. subst a. destruct e; cbn in E1.
    - destruct ws as [[|n]| |]; inversion E1; subst; cbn; split; auto; discriminate.
    - destruct ws; inversion E1; subst; cbn; split; auto; discriminate.
    - congruence.
    - destruct ws; discriminate. }
  destruct H1 as [Ha1 Hw1]. exact (IH s1 s' Ha1 Hes' Hw1 E).
Qed.
