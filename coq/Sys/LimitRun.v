(* Sys/LimitRun.v — the connection limit under an eager scheduler, with identities: clients open connections
   (which wait in the accept backlog until the listener takes them), served connections end in one of the ways a
   handler can end, waiting clients give up.  After every action the listener and the handlers run as far as
   they can ([settle]); every move is a [step] of Sys/Limit.v, so every world reached here is a state of that
   transition system ([world_reachable]) and its theorems apply.  Evaluated on generated action lists and
   compared with the real server (which connections are served, which wait) by the C15 check. *)
From Coq Require Import List Arith Lia Bool.
Import ListNotations.
From BC Require Import Sys.Limit.

Inductive action :=
| AOpen                              (* a client connects (and sends a probe request) *)
| AEndServed (n : nat) (why : ending)  (* the (n mod #served)-th served connection ends *)
| ADropPending (n : nat).            (* the (n mod #waiting)-th waiting client closes its socket *)

Record world := mkW {
  sy : sys;
  served : list nat;                 (* ids being served, oldest first *)
  pend : list (nat * bool);          (* accept backlog: id, and whether its client is still there *)
  next : nat;                        (* next id *)
  trace : list event                 (* ghost: the events of Sys/Limit.v taken so far, newest first *)
}.

Fixpoint settle (fuel : nat) (w : world) : world :=
  match fuel with
  | O => w
  | S f =>
    match listener (sy w) with
    | LWaiting =>
      match step (sy w) Acquire with
      | Some s' => settle f (mkW s' (served w) (pend w) (next w) (Acquire :: trace w))
      | None => w                                                   (* no permit: wait for a handler to end *)
      end
    | LHolding =>
      match pend w with
      | [] => w                                                     (* waiting in accept() *)
      | (i, alive) :: rest =>
        match step (sy w) Accept with
        | Some s' =>
          if alive then settle f (mkW s' (served w ++ [i]) rest (next w) (Accept :: trace w))
          else match step s' (HandlerEnd ByClientClose) with         (* the handler reads end-of-stream at once *)
               | Some s'' => settle f (mkW s'' (served w) rest (next w) (HandlerEnd ByClientClose :: Accept :: trace w))
               | None => w
               end
        | None => w
        end
      end
    | LStopped => w
    end
  end.

Definition fuel_for (w : world) : nat := 2 * length (pend w) + 4.

Fixpoint remove_nth {A} (n : nat) (l : list A) : list A :=
  match l, n with [], _ => [] | _ :: l', O => l' | x :: l', S k => x :: remove_nth k l' end.
Fixpoint kill_nth_alive (n : nat) (l : list (nat * bool)) : list (nat * bool) :=
  match l with
  | [] => []
  | (i, false) :: l' => (i, false) :: kill_nth_alive n l'
  | (i, true) :: l' => match n with O => (i, false) :: l' | S k => (i, true) :: kill_nth_alive k l' end
  end.
Definition alive_ids (l : list (nat * bool)) : list nat := map fst (filter snd l).

Definition act (w : world) (a : action) : world :=
  match a with
  | AOpen =>
    let w1 := mkW (sy w) (served w) (pend w ++ [(next w, true)]) (S (next w)) (trace w) in settle (fuel_for w1) w1
  | AEndServed n why =>
    match served w with
    | [] => w
    | _ => let k := n mod length (served w) in
           match step (sy w) (HandlerEnd why) with
           | Some s' => let w1 := mkW s' (remove_nth k (served w)) (pend w) (next w) (HandlerEnd why :: trace w) in settle (fuel_for w1) w1
           | None => w
           end
    end
  | ADropPending n =>
    match alive_ids (pend w) with
    | [] => w
    | ids => let w1 := mkW (sy w) (served w) (kill_nth_alive (n mod length ids) (pend w)) (next w) (trace w) in settle (fuel_for w1) w1
    end
  end.

Definition start (max : nat) : world := let w := mkW (init max) [] [] 0 [] in settle 4 w.
Definition play (max : nat) (acts : list action) : world := fold_left act acts (start max).

(* ---- every world is a state of the transition system of Sys/Limit.v ---- *)
Definition wok (max : nat) (w : world) : Prop :=
  run (init max) (rev (trace w)) = Some (sy w) /\ length (served w) = serving (sy w).

Lemma run_snoc s es e s1 s2 : run s es = Some s1 -> step s1 e = Some s2 -> run s (es ++ [e]) = Some s2.
Proof.
  revert s. induction es as [|x es IH]; intros s H1 H2; cbn [run app] in *.
  - injection H1 as <-. now rewrite H2.
  - destruct (step s x) as [s'|]; [|discriminate]. now apply IH.
Qed.

Lemma settle_ok max : forall fuel w, wok max w -> wok max (settle fuel w).
Proof.
  induction fuel as [|f IH]; intros w [Hr Hl]; cbn [settle]; [now split|].
  destruct (listener (sy w)) eqn:El.
  - destruct (step (sy w) Acquire) as [s'|] eqn:Es; [|now split]. apply IH. split; cbn [trace sy served rev].
    + eapply run_snoc; eassumption.
    + unfold step in Es. rewrite El in Es. destruct (permits (sy w)); [discriminate|]. injection Es as <-. exact Hl.
  - destruct (pend w) as [|[i alive] rest]; [now split|].
    destruct (step (sy w) Accept) as [s'|] eqn:Es; [|now split].
    assert (Hs' : serving s' = S (serving (sy w))).
    { unfold step in Es. rewrite El in Es. injection Es as <-. reflexivity. }
    destruct alive.
    + apply IH. split; cbn [trace sy served rev].
      * eapply run_snoc; eassumption.
      * rewrite app_length. cbn [length]. lia.
    + destruct (step s' (HandlerEnd ByClientClose)) as [s''|] eqn:Es2; [|now split]. apply IH. split; cbn [trace sy served rev].
      * eapply run_snoc; [eapply run_snoc; eassumption|exact Es2].
      * unfold step in Es2. rewrite Hs' in Es2. injection Es2 as <-. cbn [serving]. exact Hl.
  - now split.
Qed.

Lemma remove_nth_length {A} : forall (l : list A) n, n < length l -> length (remove_nth n l) = length l - 1.
Proof.
  induction l as [|x l IH]; intros n H; cbn [length] in *; [lia|]. destruct n; cbn [remove_nth length]; [lia|].
  rewrite IH by lia. lia.
Qed.

Lemma act_ok max w a : wok max w -> wok max (act w a).
Proof.
  intros Hw. pose proof Hw as [Hr Hl]. destruct a as [|n why|n]; cbn [act].
  - apply settle_ok. now split.
  - destruct (served w) as [|i0 sv] eqn:Esv; [exact Hw|].
    destruct (step (sy w) (HandlerEnd why)) as [s'|] eqn:Es; [|exact Hw].
    apply settle_ok. split; cbn [trace sy served rev].
    + eapply run_snoc; eassumption.
    + unfold step in Es. destruct (serving (sy w)) as [|k] eqn:Ek; [discriminate|]. injection Es as <-. cbn [serving].
      rewrite remove_nth_length; [rewrite Hl; lia|]. apply Nat.mod_upper_bound. cbn [length]. lia.
  - destruct (alive_ids (pend w)); [exact Hw|]. apply settle_ok. now split.
Qed.

Lemma start_ok max : wok max (start max).
Proof. unfold start. apply settle_ok. split; reflexivity. Qed.

Theorem world_reachable max acts : wok max (play max acts).
Proof.
  unfold play. generalize (start_ok max). generalize (start max). induction acts as [|a acts IH]; intros w H; cbn [fold_left]; [exact H|].
  apply IH. now apply act_ok.
Qed.

(* hence: whatever clients do, never more than [max] connections are served *)
Corollary play_limit max acts : length (served (play max acts)) <= max.
Proof.
  destruct (world_reachable max acts) as [Hr Hl]. rewrite Hl. eapply limit_holds. exact Hr.
Qed.
