(* Sys/RenderLimit.v — rendering for the model-driven sessions of C15 (trusted glue): the connection limit under the
   eager scheduler (Sys/LimitRun.v); after every action, who is served and who waits. *)
From BC Require Import Base.Bytes Sys.Limit Sys.LimitRun.
From Coq Require Import String List.
Import ListNotations.
Open Scope string_scope.
Definition show_ids (l : list nat) : string := join "," (List.map (fun i => show_N (N.of_nat i)) l).
Fixpoint limit_lines (w : world) (acts : list action) : list string :=
  match acts with
  | [] => []
  | a :: acts' => let w' := act w a in
                  let line := "S" ++ show_ids (served w') ++ " W" ++ show_ids (alive_ids (pend w')) in
                  cons line (limit_lines w' acts')
  end.
Definition render_limit (max : nat) (acts : list action) : string := join ";" (limit_lines (start max) acts).
Definition render_limits (cases : list (nat * list action)) : string :=
  join nl (List.map (fun '(m, acts) => render_limit m acts) cases).
