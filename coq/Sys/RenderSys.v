(* Sys/RenderSys.v — rendering for the correspondence runs of C18 (trusted glue). *)
From BC Require Import Store.Engine Sys.Trigger.
From Coq Require Import String.
Open Scope string_scope.
Definition render_trigger (c : cfg) (p : policy) (t : triggers) (ops : list op) : string :=
  if can_merge p t (fst (fst (run c init ops))) then "true" else "false".
Definition render_triggers (cases : list (cfg * policy * triggers * list op)) : string :=
  join nl (List.map (fun '(c, p, t, ops) => render_trigger c p t ops) cases).

