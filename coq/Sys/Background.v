(* Sys/Background.v — the two periodic tasks of src/storage/bitcask.rs (merge_on_interval,
   sync_on_interval) as a transition system over the engine model.  Real time is abstracted to
   ticks: a merge tick is the expiry of one sleep drawn from [interval*(1-j), interval*(1+j)], a
   sync tick the expiry of one sleep of the sync interval. *)
From BC Require Import Store.Engine Sys.Trigger.
Open Scope N_scope.

Record bcfg := mkB { b_cfg : cfg; b_policy : policy; b_trig : triggers; b_sync_interval : bool }.

Inductive bevent :=
| Client (o : op)                 (* an operation through a handle *)
| MergeTick (ord : list bytes)    (* the merge task wakes up; [ord] = iteration order if it merges *)
| SyncTick.                       (* the sync task wakes up *)

Inductive bobs := ONone | OMerged | OSkipped | OSynced (f : N) | OClient (r : out).

Definition bstep (b : bcfg) (s : st) (e : bevent) : st * bobs * list syscall :=
  match e with
  | Client o => let '(s', r, t) := step (b_cfg b) s o in (s', OClient r, t)
  | MergeTick ord =>
    match b_policy b with
    | PNever => (s, ONone, [])                    (* the task returned before its first sleep *)
    | p =>
      if can_merge p (b_trig b) s
      then match merge (b_cfg b) s ord with
           | ROk (s', _, t) => (s', OMerged, t)
           | _ => (s, OMerged, [])                (* a failed merge is logged, the task goes on *)
           end
      else (s, OSkipped, [])
    end
  | SyncTick => if b_sync_interval b then (s, OSynced (s_active s), [SFsync (FData (s_active s))]) else (s, ONone, [])
  end.

Fixpoint brun (b : bcfg) (s : st) (es : list bevent) : st * list bobs * list syscall :=
  match es with
  | [] => (s, [], [])
  | e :: es' => let '(s1, o, t) := bstep b s e in let '(s2, os, ts) := brun b s1 es' in (s2, o :: os, t ++ ts)
  end.

(* with policy `never` no merge ever runs *)
Theorem never_merges b : b_policy b = PNever -> forall es s, ~ In OMerged (snd (fst (brun b s es))).
Proof.
  intros Hp. induction es as [|e es IH]; intros s; cbn [brun]; [intros []|].
  destruct (bstep b s e) as [[s1 o] t] eqn:E. specialize (IH s1). destruct (brun b s1 es) as [[s2 os] ts]. cbn [fst snd] in *.
  intros [H|H]; [|exact (IH H)]. subst o. unfold bstep in E. destruct e as [o'|ord|].
  - destruct (step (b_cfg b) s o') as [[s' r] t']. inversion E.
  - rewrite Hp in E. inversion E.
  - destruct (b_sync_interval b); inversion E.
Qed.

(* with policy `always`, at every wake-up of the merge task a merge runs exactly when some file
   exceeds a trigger (evaluated on the state at that instant, in binary64 as the code does) *)
Theorem always_merges_iff_triggered b s ord : b_policy b = PAlways ->
  snd (fst (bstep b s (MergeTick ord))) = if can_merge PAlways (b_trig b) s then OMerged else OSkipped.
Proof.
  intros Hp. unfold bstep. rewrite Hp. destruct (can_merge PAlways (b_trig b) s); [|reflexivity].
  destruct (merge (b_cfg b) s ord) as [[[s' u] t]| |]; reflexivity.
Qed.

(* with policy `window`, a wake-up inside the hours behaves as `always`, a wake-up outside them merges nothing *)
Theorem window_tick b s ord a z h : b_policy b = PWindow a z h ->
  snd (fst (bstep b s (MergeTick ord))) =
  if (a <=? h) && (h <=? z) then (if can_merge PAlways (b_trig b) s then OMerged else OSkipped) else OSkipped.
Proof.
  intros Hp. unfold bstep. rewrite Hp.
  destruct (N.leb_spec a h) as [H1|H1]; [destruct (N.leb_spec h z) as [H2|H2]|]; cbn [andb].
  - rewrite window_inside by lia. destruct (can_merge PAlways (b_trig b) s); [|reflexivity].
    destruct (merge (b_cfg b) s ord) as [[[s' u] t]| |]; reflexivity.
  - rewrite window_outside by lia. reflexivity.
  - rewrite window_outside by lia. reflexivity.
Qed.

(* with interval sync, every wake-up of the sync task forces the file that is active at that instant *)
Theorem sync_tick_forces_active b s : b_sync_interval b = true ->
  bstep b s SyncTick = (s, OSynced (s_active s), [SFsync (FData (s_active s))]).
Proof. intros H. unfold bstep. rewrite H. reflexivity. Qed.

(* client operations do not depend on the background tasks' configuration *)
Theorem client_unaffected b s o : fst (fst (bstep b s (Client o))) = fst (fst (step (b_cfg b) s o)).
Proof. unfold bstep. destruct (step (b_cfg b) s o) as [[s' r] t]. reflexivity. Qed.
