(* Sys/Limit.v — the connection limit of src/net/server.rs as a transition system.
     Listener::listen:  loop { limit_connections.acquire().await.unwrap().forget();   (Acquire)
                               let socket = self.accept().await?;                     (Accept / AcceptFail)
                               tokio::spawn(handler.run()) }
     Handler: Drop::drop  =>  limit_connections.add_permits(1)                        (HandlerEnd)
   A handler ends by client close, protocol error, store error, shutdown, or panic; in every case the
   task's future is dropped, so Drop runs (unwinding drops the future as well). *)
From Coq Require Import List Arith Lia Bool.
Import ListNotations.

Inductive lstate := LWaiting | LHolding | LStopped.
Record sys := mkSys { permits : nat; listener : lstate; serving : nat }.

Inductive ending := ByClientClose | ByProtocolError | ByStoreError | ByShutdown | ByPanic.
Inductive event := Acquire | Accept | AcceptFail | HandlerEnd (why : ending).

Definition step (s : sys) (e : event) : option sys :=
  match e with
  | Acquire => match listener s, permits s with
               | LWaiting, S p => Some (mkSys p LHolding (serving s))
               | _, _ => None
               end
  | Accept => match listener s with
              | LHolding => Some (mkSys (permits s) LWaiting (S (serving s)))
              | _ => None
              end
  | AcceptFail => match listener s with
                  | LHolding => Some (mkSys (permits s) LStopped (serving s))
                  | _ => None
                  end
  | HandlerEnd _ => match serving s with
                    | S n => Some (mkSys (S (permits s)) (listener s) n)
                    | O => None
                    end
  end.

Fixpoint run (s : sys) (es : list event) : option sys :=
  match es with
  | [] => Some s
  | e :: es' => match step s e with Some s' => run s' es' | None => None end
  end.

Definition init (max : nat) : sys := mkSys max LWaiting 0.
Definition held (s : sys) : nat := match listener s with LHolding | LStopped => 1 | LWaiting => 0 end.

(* a failed accept loop keeps its forgotten permit: the server is stopping anyway; before that: *)
Definition balanced (max : nat) (s : sys) : Prop :=
  match listener s with
  | LStopped => permits s + serving s + 1 = max
  | _ => permits s + serving s + held s = max
  end.

Lemma step_balanced max s e s' : balanced max s -> step s e = Some s' -> balanced max s'.
Proof.
  unfold balanced, step, held. destruct e as [| | |why]; destruct s as [p l n]; cbn [permits listener serving].
  - destruct l; try discriminate. destruct p; [discriminate|]. intros H E. inversion E; subst. cbn. lia.
  - destruct l; try discriminate. intros H E. inversion E; subst. cbn. lia.
  - destruct l; try discriminate. intros H E. inversion E; subst. cbn. lia.
  - destruct n; [discriminate|]. intros H E. inversion E; subst. cbn. destruct l; lia.
Qed.

Theorem run_balanced max : forall es s s', balanced max s -> run s es = Some s' -> balanced max s'.
Proof.
  induction es as [|e es IH]; intros s s' H E; cbn [run] in E; [inversion E; subst; exact H|].
  destruct (step s e) as [s1|] eqn:E1; [|discriminate]. eapply IH; [eapply step_balanced; eassumption|exact E].
Qed.

Lemma init_balanced max : balanced max (init max).
Proof. unfold balanced, init, held. cbn. lia. Qed.

(* C15, first clause: never more than [max] connections are being served *)
Theorem limit_holds max es s : run (init max) es = Some s -> serving s <= max.
Proof.
  intros E. pose proof (run_balanced max es _ _ (init_balanced max) E) as H.
  unfold balanced, held in H. destruct (listener s); lia.
Qed.

(* C15, second clause: when every connection has ended — in whatever way each one ended — all
   slots are back: the free permits plus the one the listener may already hold are [max] *)
Theorem no_leak max es s : run (init max) es = Some s -> serving s = 0 -> listener s <> LStopped ->
  permits s + held s = max.
Proof.
  intros E H0 Hl. pose proof (run_balanced max es _ _ (init_balanced max) E) as H.
  unfold balanced in H. destruct (listener s) eqn:El; try congruence; lia.
Qed.

(* ... so the server can again serve the full configured number concurrently: from any reachable
   state with no connection being served, [max] Acquire/Accept pairs are all enabled *)
Fixpoint accepts (n : nat) : list event := match n with O => [] | S k => Acquire :: Accept :: accepts k end.

Lemma accepts_run : forall n p k, n <= p -> run (mkSys p LWaiting k) (accepts n) = Some (mkSys (p - n) LWaiting (k + n)).
Proof.
  induction n as [|n IH]; intros p k H; cbn [accepts run].
  - rewrite Nat.sub_0_r, Nat.add_0_r. reflexivity.
  - destruct p as [|p]; [lia|]. cbn [step listener permits serving]. rewrite IH by lia. f_equal. f_equal; lia.
Qed.

Theorem full_capacity_again max es s : run (init max) es = Some s -> serving s = 0 -> listener s = LWaiting ->
  exists s', run s (accepts max) = Some s' /\ serving s' = max.
Proof.
  intros E H0 Hl. pose proof (no_leak max es s E H0 ltac:(congruence)) as Hp. unfold held in Hp. rewrite Hl in Hp.
  destruct s as [p l n]. cbn in *. subst. rewrite Nat.add_0_r. rewrite accepts_run by lia. eexists. split; [reflexivity|]. cbn. lia.
Qed.

(* the way a handler ends is irrelevant to the accounting *)
Theorem ending_irrelevant s w1 w2 : step s (HandlerEnd w1) = step s (HandlerEnd w2).
Proof. reflexivity. Qed.
