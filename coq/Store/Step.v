(* Store/Step.v — one record appended at the end of the log: how the index and the counters must
   move to stay consistent.  Used by put, delete, the recovery scan and the merge loop alike. *)
From BC Require Import Store.Engine Store.Log.
Open Scope N_scope.

Definition idx_step (i : index) (en : lentry) : index :=
  let '(f, p, e) := en in
  match e_val e with
  | Some _ => aset i (e_key e) (loc_of en)
  | None => adel i (e_key e)
  end.

Definition key_of (en : lentry) : bytes := let '(_, _, e) := en in e_key e.
Definition is_value (en : lentry) : bool := let '(_, _, e) := en in match e_val e with Some _ => true | None => false end.

(* records of [L] in file [g] at offset [p] with key [k]: how many, and their total size *)
Fixpoint occ (L : list lentry) (g p : N) (k : bytes) : N :=
  match L with
  | [] => 0
  | en :: L' => (if at_pos g p en && beq k (key_of en) then 1 else 0) + occ L' g p k
  end.
Fixpoint occb (L : list lentry) (g p : N) (k : bytes) : N :=
  match L with
  | [] => 0
  | en :: L' => (if at_pos g p en && beq k (key_of en) then esize en else 0) + occb L' g p k
  end.

Definition misses (o : option loc) (L : list lentry) : Prop :=
  match o with Some l => existsb (at_pos (l_fid l) (l_pos l)) L = false | None => True end.

Lemma occ_pos_exists L g p k : 0 < occ L g p k -> existsb (at_pos g p) L = true.
Proof.
  induction L as [|en L IH]; cbn [occ existsb]; [lia|].
  destruct (at_pos g p en); cbn [andb orb]; [reflexivity|]. intros H. apply IH. lia.
Qed.

Lemma occ_has_file L g p k : 0 < occ L g p k -> has_file L g = true.
Proof.
  unfold has_file. induction L as [|[[f' p'] e] L IH]; cbn [occ existsb]; [lia|].
  cbn [at_pos in_file]. destruct (f' =? g); cbn [andb orb]; [reflexivity|]. intros H. apply IH. lia.
Qed.

Lemma wfL_app_one L f p e : wfL (L ++ [(f, p, e)]) -> wfL L /\ existsb (at_pos f p) L = false.
Proof.
  induction L as [|[[f' p'] e'] L IH]; cbn [app wfL]; [auto|].
  intros [Hx Hw]. destruct (IH Hw) as [Hw' Hf]. rewrite existsb_app in Hx. apply orb_false_iff in Hx as [Hx1 Hx2].
  cbn [existsb at_pos] in Hx2. rewrite orb_false_r in Hx2.
  repeat split; auto. cbn [existsb at_pos]. rewrite Hf, orb_false_r.
  apply andb_false_iff in Hx2. apply andb_false_iff.
  destruct Hx2 as [H|H]; [left|right]; rewrite N.eqb_sym; exact H.
Qed.

(* ---- Lemma A: forgetting key [k] in the index kills exactly the records its entry denoted ---- *)
Definition kdelta (i : index) (k : bytes) (g : N) (cntf : N -> N -> bytes -> N) : N :=
  match iget i k with
  | Some prev => if l_fid prev =? g then cntf g (l_pos prev) k else 0
  | None => 0
  end.

Lemma kill_counts L i i' k :
  (forall k', beq k' k = false -> iget i' k' = iget i k') -> misses (iget i' k) L ->
  forall g,
    nlive L i g = nlive L i' g + kdelta i k g (occ L) /\
    ndead L i' g = ndead L i g + kdelta i k g (occ L) /\
    bdead L i' g = bdead L i g + kdelta i k g (occb L).
Proof.
  intros Hag Hm g. unfold kdelta.
  induction L as [|[[f' p'] e] L IH].
  - cbn. destruct (iget i k) as [prev|]; [destruct (l_fid prev =? g)|]; lia.
  - assert (Hm' : misses (iget i' k) L).
    { unfold misses in *. destruct (iget i' k) as [l'|]; [|exact I]. cbn [existsb] in Hm.
      apply orb_false_iff in Hm. tauto. }
    specialize (IH Hm'). cbn [nlive ndead bdead occ occb in_file is_live esize key_of at_pos].
    destruct (beq (e_key e) k) eqn:Ek.
    + apply beq_eq in Ek. subst k. rewrite beq_refl.
      assert (Hdead' : match iget i' (e_key e) with Some l => (l_fid l =? f') && (l_pos l =? p') | None => false end = false).
      { unfold misses in Hm. destruct (iget i' (e_key e)) as [l'|]; [|reflexivity].
        cbn [existsb at_pos] in Hm. apply orb_false_iff in Hm as [Hm _].
        rewrite (N.eqb_sym (l_fid l')), (N.eqb_sym (l_pos l')). exact Hm. }
      rewrite Hdead'. cbn [negb]. rewrite !andb_true_r, !andb_false_r.
      destruct (iget i (e_key e)) as [prev|].
      * repeat match goal with
               | |- context [N.eqb ?a ?b] => destruct (N.eqb_spec a b)
               end; cbn [andb negb]; try lia; try congruence.
      * destruct (f' =? g); cbn [andb negb]; lia.
    + rewrite (Hag (e_key e) Ek). rewrite beq_sym in Ek.
      destruct (iget i k) as [prev|]; [|lia].
      rewrite Ek, !andb_false_r. destruct (l_fid prev =? g); lia.
Qed.

(* ---- Lemma B: the record the index entry of [k] denotes occurs exactly once ---- *)
Lemma lastloc_occ k : forall L acc prev, wfL L -> misses acc L -> lastloc L k acc = Some prev ->
  (acc = Some prev /\ occ L (l_fid prev) (l_pos prev) k = 0) \/
  (occ L (l_fid prev) (l_pos prev) k = 1 /\ occb L (l_fid prev) (l_pos prev) k = l_len prev).
Proof.
  induction L as [|[[f p] e] L IH]; intros acc prev Hw Hm Hl.
  - cbn in Hl. left. auto.
  - cbn [wfL] in Hw. destruct Hw as [Hfresh Hw]. cbn [lastloc] in Hl.
    set (acc' := if beq k (e_key e) then match e_val e with Some _ => Some (loc_of (f, p, e)) | None => None end else acc) in *.
    assert (Hm' : misses acc' L).
    { subst acc'. destruct (beq k (e_key e)).
      - destruct (e_val e); [cbn; exact Hfresh|exact I].
      - unfold misses in *. destruct acc as [a|]; [|exact I]. cbn [existsb] in Hm. apply orb_false_iff in Hm. tauto. }
    cbn [occ occb at_pos key_of esize].
    destruct (IH acc' prev Hw Hm' Hl) as [[Ea Ho]|[Ho Hb]].
    + subst acc'. destruct (beq k (e_key e)) eqn:Ek.
      * destruct (e_val e); [|discriminate]. inversion Ea; subst prev. cbn [loc_of l_fid l_pos l_len].
        rewrite !N.eqb_refl. cbn [andb]. right.
        assert (Hb0 : occb L f p k = 0).
        { clear - Hfresh. induction L as [|[[f' p'] e'] L IH]; [reflexivity|].
          cbn [existsb at_pos] in Hfresh. apply orb_false_iff in Hfresh as [H1 H2].
          cbn [occb at_pos key_of esize]. rewrite H1. cbn [andb]. rewrite IH by exact H2. reflexivity. }
        cbn [loc_of l_fid l_pos] in Ho. rewrite Ho, Hb0. lia.
      * left. rewrite andb_false_r. split; [exact Ea|lia].
    + right.
      assert (Hex : existsb (at_pos (l_fid prev) (l_pos prev)) L = true) by (apply (occ_pos_exists L _ _ k); lia).
      assert (Hne : (f =? l_fid prev) && (p =? l_pos prev) = false).
      { destruct (N.eqb_spec f (l_fid prev)) as [->|]; [|reflexivity].
        destruct (N.eqb_spec p (l_pos prev)) as [->|]; [|reflexivity]. congruence. }
      rewrite Hne. cbn [andb]. lia.
Qed.

(* ---- how the counts move when [en] is appended and the index follows ---- *)
Lemma is_live_new i en : is_live (idx_step i en) en = is_value en.
Proof.
  destruct en as [[f p] e]. cbn [idx_step is_live is_value].
  destruct (e_val e).
  - rewrite iget_aset, beq_refl. cbn [loc_of l_fid l_pos]. rewrite !N.eqb_refl. reflexivity.
  - rewrite iget_adel, beq_refl. reflexivity.
Qed.

Lemma idx_step_other i en k' : beq k' (key_of en) = false -> iget (idx_step i en) k' = iget i k'.
Proof.
  destruct en as [[f p] e]. cbn [idx_step key_of]. intros H.
  destruct (e_val e); [rewrite iget_aset|rewrite iget_adel]; rewrite H; reflexivity.
Qed.

Lemma idx_step_misses i L f p e : existsb (at_pos f p) L = false -> misses (iget (idx_step i (f, p, e)) (e_key e)) L.
Proof.
  intros H. cbn [idx_step]. destruct (e_val e).
  - rewrite iget_aset, beq_refl. cbn. exact H.
  - rewrite iget_adel, beq_refl. exact I.
Qed.

Lemma idx_step_lastloc i L en :
  (forall k, iget i k = lastloc L k None) -> forall k, iget (idx_step i en) k = lastloc (L ++ [en]) k None.
Proof.
  intros H k. rewrite lastloc_app. destruct en as [[f p] e]. cbn [lastloc idx_step].
  destruct (e_val e); [rewrite iget_aset|rewrite iget_adel]; destruct (beq k (e_key e)); auto.
Qed.

Definition b2n (b : bool) : N := if b then 1 else 0.

Lemma counts_step L i f p e :
  wfL (L ++ [(f, p, e)]) -> (forall k, iget i k = lastloc L k None) ->
  let en := (f, p, e) in let i' := idx_step i en in
  let D g := match iget i (e_key e) with Some prev => b2n (l_fid prev =? g) | None => 0 end in
  let DB g := match iget i (e_key e) with Some prev => if l_fid prev =? g then l_len prev else 0 | None => 0 end in
  forall g,
    nlive (L ++ [en]) i' g + D g = nlive L i g + b2n ((f =? g) && is_value en) /\
    ndead (L ++ [en]) i' g = ndead L i g + D g + b2n ((f =? g) && negb (is_value en)) /\
    bdead (L ++ [en]) i' g = bdead L i g + DB g + (if (f =? g) && negb (is_value en) then entry_size e else 0) /\
    (D g = 1 -> 1 <= nlive L i g /\ has_file L g = true).
Proof.
  intros Hw Hi en i' D DB g. subst D DB i' en. cbv beta. apply wfL_app_one in Hw as [Hw Hfresh].
  destruct (kill_counts L i (idx_step i (f, p, e)) (e_key e)) with (g := g) as (KL & KD & KB).
  { intros k' Hk'. apply idx_step_other. exact Hk'. }
  { apply idx_step_misses. exact Hfresh. }
  rewrite nlive_app, ndead_app, bdead_app. cbn [nlive ndead bdead in_file esize].
  rewrite (is_live_new i (f, p, e)). rewrite !N.add_0_r.
  unfold kdelta in *. set (en := (f, p, e)) in *.
  destruct (iget i (e_key e)) as [prev|] eqn:Ep.
  - rewrite Hi in Ep. destruct (lastloc_occ (e_key e) L None prev Hw I Ep) as [[Habs _]|[Ho Hb]]; [discriminate|].
    destruct (N.eqb_spec (l_fid prev) g) as [Hpg|Hpg].
    + subst g. rewrite Ho in *. rewrite Hb in *. cbn [b2n].
      destruct ((f =? l_fid prev) && is_value en) eqn:E1; destruct ((f =? l_fid prev) && negb (is_value en)) eqn:E2; cbn [b2n];
        repeat split; try lia.
      all: try (apply (occ_has_file L _ (l_pos prev) (e_key e)); lia).
    + cbn [b2n]. destruct ((f =? g) && is_value en); destruct ((f =? g) && negb (is_value en)); cbn [b2n]; repeat split; lia.
  - destruct ((f =? g) && is_value en); destruct ((f =? g) && negb (is_value en)); cbn [b2n]; repeat split; lia.
Qed.
