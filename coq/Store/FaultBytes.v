(* Store/FaultBytes.v — the bytes on disk while the process goes on after a failed append (C20).
   A failed append may leave a partly written record [p] at the end of data file [a].  That file is never written
   again (the next write replaces the active file first), so the rest of the run happens beside it: executing the
   system calls of ANY ready script from the repaired state on the file system WITH the junk gives, file by file, the
   model's records — and [p] still at the end of file [a], if that file has not been merged away.  Hence the
   directory then reads as the model's directory ([reads_as]: a torn tail is end-of-input), and a restart at that
   point opens to the map the running process holds: the in-process half (Store/FaultContinue.v) and the restart
   half meet. *)
From BC Require Import Base.Bytes Store.Codec Store.CodecProofs Store.Engine Store.Log Store.Step Store.Cons Store.Inv Store.Refine
  Store.MergeLemmas Store.Merge Store.Sizes Store.Theorems Store.Trace Store.Crash Store.CrashScript Store.CrashMerge Store.Discipline
  Store.FaultContinue.
From Coq Require Import Lia List NArith ZArith Bool.
Import ListNotations.
Open Scope N_scope.

(* the file system [fj] is [fc] with [p] behind data file [a] (if it exists) *)
Definition junked (a : N) (p : bytes) (fj fc : fs) : Prop :=
  forall g, fj g = match g with
                   | FData i => if i =? a then option_map (fun b => b ++ p) (fc g) else fc g
                   | FHint _ => fc g
                   end.

(* a call that neither creates nor extends data file [a] *)
Definition beside (a : N) (c : syscall) : Prop :=
  match c with SCreate (FData i) | SWrite (FData i) _ => i <> a | _ => True end.

Lemma fn_eqb_false g f : g <> f -> fn_eqb g f = false.
Proof. intros H. destruct (fn_eqb g f) eqn:E; [apply fn_eqb_eq in E; contradiction|reflexivity]. Qed.

Lemma junked_step a p fj fc c fc' : junked a p fj fc -> beside a c -> fs_step fc c = Some fc' ->
  exists fj', fs_step fj c = Some fj' /\ junked a p fj' fc'.
Proof.
  intros HJ Hb Hs. destruct c as [f|f b|f|f]; cbn [fs_step] in *.
  - destruct (fc f) eqn:E; [discriminate|]. injection Hs as <-.
    assert (Ej : fj f = None).
    { rewrite (HJ f). destruct f as [i|i]; [|exact E]. destruct (i =? a); [rewrite E; reflexivity|exact E]. }
    rewrite Ej. eexists. split; [reflexivity|]. intros g. unfold fupd. destruct (fn_eqb g f) eqn:Eg.
    + apply fn_eqb_eq in Eg. subst g. destruct f as [i|i]; [|reflexivity]. cbn [beside] in Hb.
      destruct (N.eqb_spec i a); [contradiction|reflexivity].
    + rewrite (HJ g). destruct g as [i|i]; [|reflexivity]. destruct (i =? a); reflexivity.
  - destruct (fc f) as [x|] eqn:E; [|discriminate]. injection Hs as <-.
    assert (Ej : fj f = Some x).
    { rewrite (HJ f). destruct f as [i|i]; [|exact E]. cbn [beside] in Hb. destruct (N.eqb_spec i a); [contradiction|exact E]. }
    rewrite Ej. eexists. split; [reflexivity|]. intros g. unfold fupd. destruct (fn_eqb g f) eqn:Eg.
    + apply fn_eqb_eq in Eg. subst g. destruct f as [i|i]; [|reflexivity]. cbn [beside] in Hb.
      destruct (N.eqb_spec i a); [contradiction|reflexivity].
    + rewrite (HJ g). destruct g as [i|i]; [|reflexivity]. destruct (i =? a); reflexivity.
  - destruct (fc f) as [x|] eqn:E; [|discriminate]. injection Hs as <-.
    assert (Ej : fj f <> None).
    { rewrite (HJ f). destruct f as [i|i]; [|rewrite E; discriminate]. destruct (i =? a); rewrite E; discriminate. }
    destruct (fj f); [|contradiction]. exists fj. split; [reflexivity|exact HJ].
  - destruct (fc f) as [x|] eqn:E; [|discriminate]. injection Hs as <-.
    assert (Ej : fj f <> None).
    { rewrite (HJ f). destruct f as [i|i]; [|rewrite E; discriminate]. destruct (i =? a); rewrite E; discriminate. }
    destruct (fj f); [|contradiction]. eexists. split; [reflexivity|]. intros g. unfold fupd. destruct (fn_eqb g f) eqn:Eg.
    + apply fn_eqb_eq in Eg. subst g. destruct f as [i|i]; [|reflexivity]. destruct (i =? a); reflexivity.
    + rewrite (HJ g). destruct g as [i|i]; [|reflexivity]. destruct (i =? a); reflexivity.
Qed.

Lemma junked_run a p : forall t fj fc fc', junked a p fj fc -> Forall (beside a) t -> fs_run fc t = Some fc' ->
  exists fj', fs_run fj t = Some fj' /\ junked a p fj' fc'.
Proof.
  induction t as [|c t IH]; intros fj fc fc' HJ Hb Hr; cbn [fs_run] in *.
  - injection Hr as <-. exists fj. split; [reflexivity|exact HJ].
  - inversion Hb as [|? ? Hc Ht]; subst. destruct (fs_step fc c) as [fc1|] eqn:Es; [|discriminate].
    destruct (junked_step a p fj fc c fc1 HJ Hc Es) as (fj1 & Es' & HJ1). rewrite Es'. eapply IH; eassumption.
Qed.

(* the monitor only lets the newest data file grow: a trace it accepts from a state whose current file is newer than
   [a] never touches data file [a] *)
Lemma accepted_beside maxsize a : forall t f mx cur st', a < cur -> cur <= mx ->
  frun maxsize (f, Some mx, Some cur) t = Some st' -> Forall (beside a) t.
Proof.
  induction t as [|c t IH]; intros f mx cur st' Hac Hcm Hr; [constructor|]. cbn [frun] in Hr.
  destruct (fstep maxsize (f, Some mx, Some cur) c) as [[[f1 mx1] cur1]|] eqn:Es; [|discriminate].
  assert (H : beside a c /\ exists mx' cur', mx1 = Some mx' /\ cur1 = Some cur' /\ a < cur' /\ cur' <= mx').
  { destruct c as [[i|i]|g b|g|g]; cbn [fstep] in Es.
    - destruct (f (FData i)); [discriminate|]. cbn [gt_max] in Es. destruct (N.ltb_spec mx i); [|discriminate]. injection Es as <- <- <-.
      split; [cbn; lia|]. exists i, i. repeat split; lia.
    - destruct (f (FHint i)); [discriminate|]. destruct (is_cur (Some cur) i); [|discriminate]. injection Es as <- <- <-.
      split; [exact I|]. exists mx, cur. auto.
    - destruct (f g) as [x|]; [|discriminate]. destruct (is_cur (Some cur) (fid g) && _) eqn:Ec; [|discriminate]. injection Es as <- <- <-.
      apply andb_true_iff in Ec as [Ec _]. cbn [is_cur] in Ec. apply N.eqb_eq in Ec.
      split; [destruct g as [i|i]; cbn [beside fid] in *; [lia|exact I]|]. exists mx, cur. auto.
    - destruct (f g); [|discriminate]. injection Es as <- <- <-. split; [exact I|]. exists mx, cur. auto.
    - destruct (f g); [|discriminate]. injection Es as <- <- <-. split; [exact I|]. exists mx, cur. auto. }
  destruct H as (Hb & mx' & cur' & -> & -> & H1 & H2). constructor; [exact Hb|]. eapply IH; eassumption.
Qed.

(* The run after the repair.  [h]: an invariant state whose active file is newer than [a] and still within its size
   limit (the state right after the next write replaced the active file).  [fc]: the clean file system representing
   h's directory; [fj]: the same with [p] behind file [a]. *)
Theorem run_beside_junk c ops h fc fj a p :
  Inv h -> a < s_active h -> run_ready c h ops -> rep fc (s_dir h) -> trace_wf (snd (run c h ops)) ->
  (exists fa, dir_get (s_dir h) (s_active h) = Some fa /\ data_size (d_data fa) = s_written h /\ s_written h <= c_max c) ->
  junked a p fj fc ->
  exists fj' fc', fs_run fj (snd (run c h ops)) = Some fj' /\ fs_run fc (snd (run c h ops)) = Some fc' /\
    rep fc' (s_dir (fst (fst (run c h ops)))) /\ junked a p fj' fc'.
Proof.
  intros HI Ha Hready Hrep Hwf Hfa HJ.
  destruct (script_crash_safe c ops h fc HI Hready Hrep Hwf) as [(fc' & Hrun & Hrep') _].
  { intros s' o HI' Hop _. apply step_safe; assumption. }
  pose proof HI as (_ & _ & _ & _ & Hal & _).
  assert (HFS : FS c h (fc, Some (s_last h), Some (s_active h))).
  { cbn [FS]. split; [exact Hrep|]. split; [reflexivity|]. split; [reflexivity|exact Hfa]. }
  destruct (run_forward c ops h fc HI Hready HFS) as (st' & Hacc).
  assert (Hle : s_active h <= s_last h) by lia.
  pose proof (accepted_beside (c_max c) a _ _ _ _ _ Ha Hle Hacc) as Hb.
  destruct (junked_run a p _ fj fc fc' HJ Hb Hrun) as (fj' & Hrun' & HJ').
  exists fj', fc'. auto.
Qed.

(* what is then on disk reads as the model's directory: every file holds its records, file [a] (if still there)
   followed by the torn record *)
Lemma junked_reads a p fj fc d : rep fc d -> junked a p fj fc -> torn_entry p -> reads_as fj d.
Proof.
  intros Hrep HJ Ht id. pose proof (HJ (FData id)) as Hd. pose proof (HJ (FHint id)) as Hh. cbn in Hd, Hh.
  destruct (dir_get d id) as [f|] eqn:Eg.
  - destruct (rep_get fc d id f Hrep Eg) as [H1 H2]. rewrite H1 in Hd. rewrite H2 in Hh.
    destruct (d_hint f) as [hs|]; cbn [option_map] in *.
    + split; [|exists []; rewrite app_nil_r; split; [exact Hh|left; reflexivity]].
      destruct (id =? a); cbn [option_map] in Hd; [exists p; exact Hd|exists []; rewrite app_nil_r; exact Hd].
    + split; [|exact Hh]. destruct (id =? a); cbn [option_map] in Hd.
      * exists p. split; [exact Hd|exact Ht].
      * exists []. rewrite app_nil_r. split; [exact Hd|left; reflexivity].
  - pose proof (Hrep id) as Hr. rewrite Eg in Hr. destruct Hr as [H1 H2]. rewrite H1 in Hd. rewrite H2 in Hh.
    destruct (id =? a); cbn [option_map] in Hd; auto.
Qed.

(* The two halves meet.  A put or delete issued in invariant state s fails in its append and leaves the torn record [p]
   behind the active file; the process goes on: the next put replaces the active file, and any ready script follows.
   Then (1) every answer is the map's answer with the failed operation not applied (Store/FaultContinue.v), and (2) what
   is on disk at the end reads as the model's directory and opens to exactly the map the process holds: a restart at that
   point loses nothing and resurrects nothing. *)
Theorem fault_continue_restart c s clk k0 v0 ops fc fj p :
  Inv s -> rep fc (s_dir s) -> junked (s_active s) p fj fc -> torn_entry p ->
  let x := after_failed_append s clk in
  run_ready c (fst (fst (step c x (OSet k0 v0)))) ops ->
  trace_wf (snd (run c x (OSet k0 v0 :: ops))) ->
  let '(x', rs, t) := run c x (OSet k0 v0 :: ops) in
  Inv x' /\ rs = spec_run (abs s) (OSet k0 v0 :: ops) /\
  exists fj', fs_run fj t = Some fj' /\ img_ok fj' (abs x').
Proof.
  intros HI Hrep HJ Ht x Hready Hwf.
  pose proof (failed_append_faulted s clk HI) as HF. fold x in HF.
  destruct (step_set_faulted c x k0 v0 HF) as (h & t1 & Hn & HIh & Habh & Hstep).
  (* the repair: one create *)
  pose proof HI as (Hs & Hids & _ & _ & Hal & _).
  assert (Hnone : dir_get (s_dir s) (s_last s + 1) = None) by (apply (ids_le_get_none _ (s_last s)); [exact Hids|lia]).
  assert (Hh : h = mkSt (dir_set (s_dir s) (s_last s + 1) empty_file) (s_idx s) (s_stats s) (s_last s + 1) 0 (s_last s + 1) false clk /\ t1 = [SCreate (FData (s_last s + 1))]).
  { unfold new_active in Hn. cbn [x after_failed_append s_last s_dir s_idx s_stats s_clock] in Hn. rewrite Hnone in Hn. inversion Hn. auto. }
  destruct Hh as [Hh ->].
  destruct (rep_after_create fc (s_dir s) (s_last s + 1) Hrep Hnone) as [Hcr Hrep1].
  destruct (junked_step (s_active s) p fj fc (SCreate (FData (s_last s + 1))) _ HJ ltac:(cbn; lia) Hcr) as (fj1 & Hcr' & HJ1).
  assert (Hdirh : s_dir h = s_dir s ++ [(s_last s + 1, empty_file)]) by (rewrite Hh; cbn [s_dir]; apply dir_set_new; exact Hnone).
  rewrite <- Hdirh in Hrep1.
  (* the rest of the run, from the repaired state *)
  assert (Hready' : run_ready c h (OSet k0 v0 :: ops)).
  { cbn [run_ready op_ready]. split; [exact I|]. rewrite Hstep in Hready. destruct (step c h (OSet k0 v0)) as [[s2 r2] t2]. exact Hready. }
  assert (Hrun : run c x (OSet k0 v0 :: ops) = let '(x', rs, t) := run c h (OSet k0 v0 :: ops) in (x', rs, [SCreate (FData (s_last s + 1))] ++ t)).
  { cbn [run]. rewrite Hstep. destruct (step c h (OSet k0 v0)) as [[s2 r2] t2]. destruct (run c s2 ops) as [[s3 rs3] t3]. now rewrite <- app_assoc. }
  rewrite Hrun in Hwf |- *.
  pose proof (run_refines c (OSet k0 v0 :: ops) h HIh Hready') as Href.
  assert (Hact : s_active s < s_active h) by (rewrite Hh; cbn [s_active]; lia).
  assert (Hfa : exists fa, dir_get (s_dir h) (s_active h) = Some fa /\ data_size (d_data fa) = s_written h /\ s_written h <= c_max c).
  { exists empty_file. rewrite Hh. cbn [s_dir s_active s_written]. rewrite dir_get_set, N.eqb_refl. cbn. repeat split; lia. }
  destruct (run c h (OSet k0 v0 :: ops)) as [[x' rs] t] eqn:Er. cbn [snd] in Hwf.
  assert (Hwf' : trace_wf t) by (unfold trace_wf in *; inversion Hwf; assumption).
  pose proof (run_beside_junk c (OSet k0 v0 :: ops) h _ fj1 (s_active s) p HIh Hact Hready' Hrep1) as Hb. rewrite Er in Hb. cbn [fst snd] in Hb.
  destruct (Hb Hwf' Hfa HJ1) as (fj' & fc' & Hrj & Hrc & Hrep' & HJ').
  destruct Href as (HI' & Hrs & Hfin). split; [exact HI'|]. split.
  - rewrite Hrs. destruct (spec_run_ext (OSet k0 v0 :: ops) _ _ Habh) as [E1 _]. exact E1.
  - exists fj'. split; [cbn [app fs_run]; rewrite Hcr'; exact Hrj|].
    exists (s_dir x'). split; [eapply junked_reads; eassumption|].
    pose proof HI' as (Hs' & _ & Hh' & _ & _ & (fa' & Hfa' & _) & _).
    apply recovers_log; [exact Hs'| |exact Hh']. intros E. rewrite E in Hfa'. discriminate.
Qed.

(* ... the same when the first operation after the failure is a delete *)
Theorem fault_continue_restart_del c s clk k0 ops fc fj p :
  Inv s -> rep fc (s_dir s) -> junked (s_active s) p fj fc -> torn_entry p ->
  let x := after_failed_append s clk in
  run_ready c (fst (fst (step c x (ODel k0)))) ops ->
  trace_wf (snd (run c x (ODel k0 :: ops))) ->
  let '(x', rs, t) := run c x (ODel k0 :: ops) in
  Inv x' /\ rs = spec_run (abs s) (ODel k0 :: ops) /\
  exists fj', fs_run fj t = Some fj' /\ img_ok fj' (abs x').
Proof.
  intros HI Hrep HJ Ht x Hready Hwf.
  pose proof (failed_append_faulted s clk HI) as HF. fold x in HF.
  destruct (step_del_faulted c x k0 HF) as (h & t1 & Hn & HIh & Habh & Hstep).
  (* the repair: one create *)
  pose proof HI as (Hs & Hids & _ & _ & Hal & _).
  assert (Hnone : dir_get (s_dir s) (s_last s + 1) = None) by (apply (ids_le_get_none _ (s_last s)); [exact Hids|lia]).
  assert (Hh : h = mkSt (dir_set (s_dir s) (s_last s + 1) empty_file) (s_idx s) (s_stats s) (s_last s + 1) 0 (s_last s + 1) false clk /\ t1 = [SCreate (FData (s_last s + 1))]).
  { unfold new_active in Hn. cbn [x after_failed_append s_last s_dir s_idx s_stats s_clock] in Hn. rewrite Hnone in Hn. inversion Hn. auto. }
  destruct Hh as [Hh ->].
  destruct (rep_after_create fc (s_dir s) (s_last s + 1) Hrep Hnone) as [Hcr Hrep1].
  destruct (junked_step (s_active s) p fj fc (SCreate (FData (s_last s + 1))) _ HJ ltac:(cbn; lia) Hcr) as (fj1 & Hcr' & HJ1).
  assert (Hdirh : s_dir h = s_dir s ++ [(s_last s + 1, empty_file)]) by (rewrite Hh; cbn [s_dir]; apply dir_set_new; exact Hnone).
  rewrite <- Hdirh in Hrep1.
  (* the rest of the run, from the repaired state *)
  assert (Hready' : run_ready c h (ODel k0 :: ops)).
  { cbn [run_ready op_ready]. split; [exact I|]. rewrite Hstep in Hready. destruct (step c h (ODel k0)) as [[s2 r2] t2]. exact Hready. }
  assert (Hrun : run c x (ODel k0 :: ops) = let '(x', rs, t) := run c h (ODel k0 :: ops) in (x', rs, [SCreate (FData (s_last s + 1))] ++ t)).
  { cbn [run]. rewrite Hstep. destruct (step c h (ODel k0)) as [[s2 r2] t2]. destruct (run c s2 ops) as [[s3 rs3] t3]. now rewrite <- app_assoc. }
  rewrite Hrun in Hwf |- *.
  pose proof (run_refines c (ODel k0 :: ops) h HIh Hready') as Href.
  assert (Hact : s_active s < s_active h) by (rewrite Hh; cbn [s_active]; lia).
  assert (Hfa : exists fa, dir_get (s_dir h) (s_active h) = Some fa /\ data_size (d_data fa) = s_written h /\ s_written h <= c_max c).
  { exists empty_file. rewrite Hh. cbn [s_dir s_active s_written]. rewrite dir_get_set, N.eqb_refl. cbn. repeat split; lia. }
  destruct (run c h (ODel k0 :: ops)) as [[x' rs] t] eqn:Er. cbn [snd] in Hwf.
  assert (Hwf' : trace_wf t) by (unfold trace_wf in *; inversion Hwf; assumption).
  pose proof (run_beside_junk c (ODel k0 :: ops) h _ fj1 (s_active s) p HIh Hact Hready' Hrep1) as Hb. rewrite Er in Hb. cbn [fst snd] in Hb.
  destruct (Hb Hwf' Hfa HJ1) as (fj' & fc' & Hrj & Hrc & Hrep' & HJ').
  destruct Href as (HI' & Hrs & Hfin). split; [exact HI'|]. split.
  - rewrite Hrs. destruct (spec_run_ext (ODel k0 :: ops) _ _ Habh) as [E1 _]. exact E1.
  - exists fj'. split; [cbn [app fs_run]; rewrite Hcr'; exact Hrj|].
    exists (s_dir x'). split; [eapply junked_reads; eassumption|].
    pose proof HI' as (Hs' & _ & Hh' & _ & _ & (fa' & Hfa' & _) & _).
    apply recovers_log; [exact Hs'| |exact Hh']. intros E. rewrite E in Hfa'. discriminate.
Qed.
