(* Store/Inv.v — the engine invariant, its preservation by put / delete / get / rollover / reopen,
   and the abstraction to a key-value map ([abs]: what the log says is the latest value). *)
From BC Require Import Store.Engine Store.Log Store.Step Store.Cons.
Open Scope N_scope.

(* ---------- directories ---------- *)
Definition ids_gt (m : N) (d : dir) : Prop := Forall (fun '(j, _) => m < j) d.
Fixpoint sorted (d : dir) : Prop :=
  match d with
  | [] => True
  | (i, _) :: d' => ids_gt i d' /\ sorted d'
  end.
Definition ids_le (d : dir) (m : N) : Prop := Forall (fun '(j, _) => j <= m) d.

Lemma dir_get_In d id f : dir_get d id = Some f -> In (id, f) d.
Proof.
  induction d as [|[i g] d IH]; cbn [dir_get]; [discriminate|].
  destruct (N.eqb_spec i id) as [->|]; intros H; [inversion H; left; reflexivity|right; auto].
Qed.

Lemma In_dir_get d id f : sorted d -> In (id, f) d -> dir_get d id = Some f.
Proof.
  induction d as [|[i g] d IH]; cbn [sorted dir_get In]; [tauto|].
  intros [Hgt Hs] [H|H].
  - inversion H; subst. rewrite N.eqb_refl. reflexivity.
  - destruct (N.eqb_spec i id) as [->|]; [|auto].
    unfold ids_gt in Hgt. rewrite Forall_forall in Hgt. specialize (Hgt _ H). cbn in Hgt. lia.
Qed.

Lemma dir_get_none_gt d m id : ids_gt m d -> id <= m -> dir_get d id = None.
Proof.
  induction d as [|[i g] d IH]; cbn [dir_get]; [reflexivity|].
  intros Hg Hle. inversion Hg as [|? ? Hi Hg']; subst. destruct (N.eqb_spec i id); [lia|auto].
Qed.

(* the file with the largest id is the last one *)
Lemma dir_split_last d a fa : sorted d -> ids_le d a -> dir_get d a = Some fa -> exists d0, d = d0 ++ [(a, fa)].
Proof.
  induction d as [|[i g] d IH]; cbn [sorted dir_get]; [discriminate|].
  intros [Hgt Hs] Hle Hget. inversion Hle as [|? ? Hi Hle']; subst.
  destruct (N.eqb_spec i a) as [->|Hne].
  - inversion Hget; subst. destruct d as [|[j h] d']; [exists []; reflexivity|].
    inversion Hgt as [|? ? Hj _]; subst. inversion Hle' as [|? ? Hj' _]; subst. lia.
  - destruct (IH Hs Hle' Hget) as (d0 & ->). exists ((i, g) :: d0). reflexivity.
Qed.

Lemma log_of_dir_app d1 d2 : log_of_dir (d1 ++ d2) = log_of_dir d1 ++ log_of_dir d2.
Proof. induction d1 as [|[i f] d1 IH]; cbn [app log_of_dir]; [reflexivity|]. rewrite IH, app_assoc. reflexivity. Qed.

Lemma dir_set_last d0 a fa f' : ~ In a (map fst d0) -> dir_set (d0 ++ [(a, fa)]) a f' = d0 ++ [(a, f')].
Proof.
  induction d0 as [|[i g] d0 IH]; cbn [app dir_set map fst In]; intros H.
  - rewrite N.eqb_refl. reflexivity.
  - destruct (N.eqb_spec i a) as [->|]; [tauto|]. rewrite IH by tauto. reflexivity.
Qed.

Lemma dir_set_new d id f : dir_get d id = None -> dir_set d id f = d ++ [(id, f)].
Proof.
  induction d as [|[i g] d IH]; cbn [dir_get dir_set app]; [reflexivity|].
  destruct (i =? id); [discriminate|]. intros H. rewrite IH by exact H. reflexivity.
Qed.

Lemma sorted_app_one d id f : sorted d -> ids_le d (id - 1) -> 0 < id -> sorted (d ++ [(id, f)]).
Proof.
  induction d as [|[i g] d IH]; cbn [app sorted]; intros Hs Hle Hpos.
  - split; [constructor|exact I].
  - destruct Hs as [Hgt Hs]. inversion Hle as [|? ? Hi Hle']; subst. split.
    + unfold ids_gt in *. apply Forall_app. split; [exact Hgt|]. constructor; [lia|constructor].
    + apply IH; assumption.
Qed.

Lemma sorted_not_in_front d0 a fa : sorted (d0 ++ [(a, fa)]) -> ~ In a (map fst d0).
Proof.
  induction d0 as [|[i g] d0 IH]; cbn [app sorted map fst In]; [tauto|].
  intros [Hgt Hs] [H|H].
  - subst i. unfold ids_gt in Hgt. rewrite Forall_app in Hgt. destruct Hgt as [_ Hg]. inversion Hg; subst. lia.
  - exact (IH Hs H).
Qed.

(* ---------- the log of a sorted directory has distinct positions ---------- *)
Lemma log_file_bounds fid : forall es pos f p e, In (f, p, e) (log_file fid es pos) ->
  f = fid /\ pos <= p /\ p + entry_size e <= pos + data_size es.
Proof.
  induction es as [|e0 es IH]; intros pos f p e; cbn [log_file data_size In]; [tauto|].
  intros [H|H].
  - inversion H; subst. pose proof (entry_size_pos e). lia.
  - apply IH in H. pose proof (entry_size_pos e0). lia.
Qed.

Lemma existsb_at_pos_false L f p : (forall f' p' e', In (f', p', e') L -> f' <> f \/ p' <> p) -> existsb (at_pos f p) L = false.
Proof.
  induction L as [|[[f' p'] e'] L IH]; intros H; [reflexivity|].
  cbn [existsb at_pos]. rewrite IH by (intros f0 p0 e0 Hin0; apply (H f0 p0 e0); right; exact Hin0).
  destruct (H f' p' e' (or_introl eq_refl)) as [Hn|Hn]; apply N.eqb_neq in Hn; rewrite Hn; [reflexivity|rewrite andb_false_r; reflexivity].
Qed.

Lemma wfL_log_file fid : forall es pos, wfL (log_file fid es pos).
Proof.
  induction es as [|e es IH]; intros pos; cbn [log_file wfL]; [exact I|].
  split; [|apply IH]. apply existsb_at_pos_false. intros f' p' e' Hin. apply log_file_bounds in Hin.
  pose proof (entry_size_pos e). right. lia.
Qed.

Lemma wfL_app L1 L2 : wfL L1 -> wfL L2 ->
  (forall f p e f' p' e', In (f, p, e) L1 -> In (f', p', e') L2 -> f <> f' \/ p <> p') -> wfL (L1 ++ L2).
Proof.
  induction L1 as [|[[f p] e] L1 IH]; cbn [app wfL]; intros H1 H2 Hd; [exact H2|].
  destruct H1 as [Hx H1]. split.
  - rewrite existsb_app, Hx. cbn [orb]. apply existsb_at_pos_false. intros f' p' e' Hin.
    destruct (Hd f p e f' p' e' (or_introl eq_refl) Hin) as [H|H]; [left|right]; congruence.
  - apply IH; auto. intros. eapply Hd; [right|]; eassumption.
Qed.

Lemma log_of_dir_ids d : forall f p e, In (f, p, e) (log_of_dir d) -> In f (map fst d).
Proof.
  induction d as [|[i g] d IH]; cbn [log_of_dir map fst In]; [tauto|].
  intros f p e H. apply in_app_or in H as [H|H]; [left; apply log_file_bounds in H; symmetry; tauto|right; eauto].
Qed.

Lemma wfL_log_of_dir d : sorted d -> wfL (log_of_dir d).
Proof.
  induction d as [|[i g] d IH]; cbn [sorted log_of_dir]; [intros; exact I|].
  intros [Hgt Hs]. apply wfL_app; [apply wfL_log_file|auto|].
  intros f p e f' p' e' H1 H2. apply log_file_bounds in H1. apply log_of_dir_ids in H2.
  left. destruct H1 as [-> _]. intros ->. apply in_map_iff in H2 as ([j h] & Ej & Hin). cbn in Ej. subst j.
  unfold ids_gt in Hgt. rewrite Forall_forall in Hgt. specialize (Hgt _ Hin). cbn in Hgt. lia.
Qed.

(* ---------- reading a location the log contains ---------- *)
Lemma log_file_entry_at fid : forall es pos p e, In (fid, p, e) (log_file fid es pos) ->
  entry_at es (p - pos) = Some e.
Proof.
  induction es as [|e0 es IH]; intros pos p e; cbn [log_file In]; [tauto|].
  intros [H|H].
  - inversion H; subst. cbn [entry_at]. rewrite N.sub_diag. reflexivity.
  - pose proof (log_file_bounds fid es _ _ _ _ H) as (_ & Hlo & _). pose proof (entry_size_pos e0).
    cbn [entry_at]. replace (p - pos =? 0) with false by (symmetry; apply N.eqb_neq; lia).
    replace (p - pos <? entry_size e0) with false by (symmetry; apply N.ltb_ge; lia).
    replace (p - pos - entry_size e0) with (p - (pos + entry_size e0)) by lia. apply IH. exact H.
Qed.

Lemma log_of_dir_In d : sorted d -> forall f p e, In (f, p, e) (log_of_dir d) ->
  exists g, dir_get d f = Some g /\ In (f, p, e) (log_file f (d_data g) 0).
Proof.
  induction d as [|[i g] d IH]; cbn [sorted log_of_dir]; [intros _ f p e []|].
  intros [Hgt Hs] f p e H. apply in_app_or in H as [H|H].
  - pose proof (log_file_bounds _ _ _ _ _ _ H) as (-> & _). exists g. cbn [dir_get]. rewrite N.eqb_refl. auto.
  - destruct (IH Hs f p e H) as (h & Hget & Hin). exists h. split; [|exact Hin].
    cbn [dir_get]. destruct (N.eqb_spec i f) as [->|]; [|exact Hget].
    apply dir_get_In in Hget. unfold ids_gt in Hgt. rewrite Forall_forall in Hgt. specialize (Hgt _ Hget). cbn in Hgt. lia.
Qed.

Lemma read_loc_log d f p e : sorted d -> In (f, p, e) (log_of_dir d) -> read_loc d (loc_of (f, p, e)) = ROk e.
Proof.
  intros Hs Hin. destruct (log_of_dir_In d Hs f p e Hin) as (g & Hget & Hin').
  unfold read_loc. cbn [loc_of l_fid l_pos l_len]. rewrite Hget.
  pose proof (log_file_bounds _ _ _ _ _ _ Hin') as (_ & _ & Hhi).
  replace (data_size (d_data g) <? p + entry_size e) with false by (symmetry; apply N.ltb_ge; lia).
  pose proof (log_file_entry_at f (d_data g) 0 p e Hin') as He. rewrite N.sub_0_r in He. rewrite He, N.eqb_refl. reflexivity.
Qed.

(* where [lastloc] points, [lastval] reads *)
Lemma lastloc_lastval k : forall L accl accv,
  (accl = None -> accv = None) ->
  match lastloc L k accl with
  | None => lastval L k accv = None
  | Some l => (accl = Some l /\ lastval L k accv = accv) \/
              (exists f p e, In (f, p, e) L /\ l = loc_of (f, p, e) /\ lastval L k accv = e_val e /\ e_val e <> None /\ e_key e = k)
  end.
Proof.
  induction L as [|[[f p] e] L IH]; intros accl accv Hacc.
  - cbn. destruct accl; auto.
  - cbn [lastloc lastval]. destruct (beq k (e_key e)) eqn:Ek.
    + apply beq_eq in Ek. destruct (e_val e) as [v|] eqn:Ev.
      * specialize (IH (Some (loc_of (f, p, e))) (Some v) ltac:(discriminate)).
        destruct (lastloc L k (Some (loc_of (f, p, e)))) as [l|]; [|exact IH].
        destruct IH as [[E1 E2]|(f' & p' & e' & Hin & El & Hv & Hn & Hk)].
        -- right. exists f, p, e. inversion E1; subst. repeat split; [left; reflexivity|congruence|congruence].
        -- right. exists f', p', e'. repeat split; auto. right. exact Hin.
      * specialize (IH None None ltac:(reflexivity)).
        destruct (lastloc L k None) as [l|]; [|exact IH].
        destruct IH as [[E1 _]|(f' & p' & e' & Hin & El & Hv & Hn & Hk)]; [discriminate|].
        right. exists f', p', e'. repeat split; auto. right. exact Hin.
    + specialize (IH accl accv Hacc). destruct (lastloc L k accl) as [l|]; [|exact IH].
      destruct IH as [[E1 E2]|(f' & p' & e' & Hin & El & Hv & Hn & Hk)]; [left; auto|].
      right. exists f', p', e'. repeat split; auto. right. exact Hin.
Qed.

(* ---------- the invariant ---------- *)
Definition Inv (s : st) : Prop :=
  sorted (s_dir s) /\ ids_le (s_dir s) (s_last s) /\
  (forall id f, In (id, f) (s_dir s) -> hints_ok f) /\
  s_stale s = false /\ s_active s = s_last s /\
  (exists fa, dir_get (s_dir s) (s_active s) = Some fa /\ d_hint fa = None) /\
  cons (log_of_dir (s_dir s)) (s_idx s) (s_stats s).

Definition slog (s : st) : list lentry := log_of_dir (s_dir s).
Definition abs (s : st) (k : bytes) : option bytes := lastval (slog s) k None.

Theorem get_abs s k : Inv s -> get s k = ROk (abs s k).
Proof.
  intros (Hs & _ & _ & _ & _ & _ & (C1 & _)). unfold get, abs, slog. rewrite C1.
  pose proof (lastloc_lastval k (log_of_dir (s_dir s)) None None ltac:(reflexivity)) as H.
  destruct (lastloc (log_of_dir (s_dir s)) k None) as [l|]; [|rewrite H; reflexivity].
  destruct H as [[E _]|(f & p & e & Hin & -> & Hv & _)]; [discriminate|].
  rewrite (read_loc_log _ f p e Hs Hin), Hv. reflexivity.
Qed.

(* ---------- rollover ---------- *)
Lemma ids_le_weaken d m m' : ids_le d m -> m <= m' -> ids_le d m'.
Proof. unfold ids_le. rewrite !Forall_forall. intros H Hle [j g] Hin. specialize (H _ Hin). cbn in *. lia. Qed.

Lemma ids_le_get_none d m id : ids_le d m -> m < id -> dir_get d id = None.
Proof.
  induction d as [|[i g] d IH]; cbn [dir_get]; [reflexivity|].
  intros Hle Hlt. inversion Hle as [|? ? Hi Hle']; subst. destruct (N.eqb_spec i id); [lia|auto].
Qed.

Lemma log_of_dir_app_empty d id : log_of_dir (d ++ [(id, empty_file)]) = log_of_dir d.
Proof. rewrite log_of_dir_app. cbn. apply app_nil_r. Qed.

(* what new_active does to a state whose files all have ids <= s_last *)
Lemma new_active_ok s : sorted (s_dir s) -> ids_le (s_dir s) (s_last s) ->
  (forall id f, In (id, f) (s_dir s) -> hints_ok f) -> cons (slog s) (s_idx s) (s_stats s) ->
  exists s', new_active s = ROk (s', [SCreate (FData (s_last s + 1))]) /\ Inv s' /\ slog s' = slog s /\
             s_idx s' = s_idx s /\ s_stats s' = s_stats s /\ s_clock s' = s_clock s /\ s_last s' = s_last s + 1.
Proof.
  intros Hs Hle Hh HC. unfold new_active.
  rewrite (ids_le_get_none _ _ (s_last s + 1) Hle) by lia.
  eexists. split; [reflexivity|]. rewrite dir_set_new by (apply (ids_le_get_none _ (s_last s)); [exact Hle|lia]).
  unfold Inv, slog. cbn [s_dir s_idx s_stats s_active s_last s_stale s_clock].
  rewrite log_of_dir_app_empty.
  assert (Hs' : sorted (s_dir s ++ [(s_last s + 1, empty_file)])).
  { apply sorted_app_one; [exact Hs| |lia]. replace (s_last s + 1 - 1) with (s_last s) by lia. exact Hle. }
  split; [|repeat split; reflexivity].
  split; [exact Hs'|]. split.
  { unfold ids_le. apply Forall_app. split; [apply (ids_le_weaken _ (s_last s)); [exact Hle|lia]|].
    constructor; [lia|constructor]. }
  split.
  { intros id f Hin. apply in_app_or in Hin as [Hin|[Hin|[]]]; [eauto|]. inversion Hin; subst. exact I. }
  split; [reflexivity|]. split; [reflexivity|]. split; [|exact HC].
  exists empty_file. split; [|reflexivity].
  apply In_dir_get; [exact Hs'|apply in_or_app; right; left; reflexivity].
Qed.

(* ---------- write: append one record to the active file ---------- *)
Lemma Forall_app_inv {A} (P : A -> Prop) l1 l2 : Forall P (l1 ++ l2) -> Forall P l1 /\ Forall P l2.
Proof. apply Forall_app. Qed.

Lemma write_ok c s k v : Inv s ->
  exists s' l t, write c s k v = ROk (s', l, t) /\
    let en := (s_active s, l_pos l, mkEntry (s_clock s) k v) in
    l = loc_of en /\
    slog s' = slog s ++ [en] /\ wfL (slog s ++ [en]) /\
    s_idx s' = s_idx s /\
    s_stats s' = aset (s_stats s) (s_active s)
                      (if is_value en then add_live (sget0 (s_stats s) (s_active s))
                       else add_dead (sget0 (s_stats s) (s_active s)) (entry_size (mkEntry (s_clock s) k v))) /\
    sorted (s_dir s') /\ ids_le (s_dir s') (s_last s') /\ (forall id f, In (id, f) (s_dir s') -> hints_ok f) /\
    s_stale s' = false /\ s_active s' = s_last s' /\
    (exists fa, dir_get (s_dir s') (s_active s') = Some fa /\ d_hint fa = None) /\
    s_clock s' = (s_clock s + 1)%Z.
Proof.
  intros (Hs & Hle & Hh & Hst & Hact & (fa & Hfa & Hhint) & HC).
  unfold write. rewrite Hst.
  assert (Hle' : ids_le (s_dir s) (s_active s)) by (rewrite Hact; exact Hle).
  destruct (dir_split_last _ _ _ Hs Hle' Hfa) as (d0 & Ed).
  set (e := mkEntry (s_clock s) k v).
  assert (Hnotin : ~ In (s_active s) (map fst d0)) by (apply (sorted_not_in_front d0 _ fa); rewrite <- Ed; exact Hs).
  unfold append_data. rewrite Hfa.
  set (fa' := mkFile (d_data fa ++ [e]) (d_hint fa)).
  assert (Ed2 : dir_set (s_dir s) (s_active s) fa' = d0 ++ [(s_active s, fa')]).
  { rewrite Ed. apply dir_set_last. exact Hnotin. }
  assert (Elog : log_of_dir (d0 ++ [(s_active s, fa')]) = slog s ++ [(s_active s, data_size (d_data fa), e)]).
  { unfold slog. rewrite Ed, !log_of_dir_app. cbn [log_of_dir]. rewrite !app_nil_r. subst fa'. cbn [d_data].
    rewrite log_file_app. cbn [log_file]. rewrite N.add_0_l, app_assoc. reflexivity. }
  assert (Hs2 : sorted (d0 ++ [(s_active s, fa')])).
  { clear - Hs Ed. rewrite Ed in Hs. clear Ed. induction d0 as [|[i g] d0 IH]; cbn [app sorted] in *; [auto|].
    destruct Hs as [Hgt Hs]. split; [|auto]. unfold ids_gt in *. rewrite Forall_app in *. destruct Hgt as [H1 H2].
    split; [exact H1|]. inversion H2; subst. constructor; [assumption|constructor]. }
  assert (Hle2 : ids_le (d0 ++ [(s_active s, fa')]) (s_last s)).
  { clear - Hle Ed. rewrite Ed in Hle. unfold ids_le in *. rewrite Forall_app in *. destruct Hle as [H1 H2].
    split; [exact H1|]. inversion H2; subst. constructor; [assumption|constructor]. }
  assert (Hh2 : forall id f, In (id, f) (d0 ++ [(s_active s, fa')]) -> hints_ok f).
  { intros id f Hin. apply in_app_or in Hin as [Hin|[Hin|[]]].
    - apply (Hh id f). rewrite Ed. apply in_or_app. left. exact Hin.
    - inversion Hin; subst. unfold hints_ok, fa'. cbn [d_hint]. rewrite Hhint. exact I. }
  assert (Hwf : wfL (slog s ++ [(s_active s, data_size (d_data fa), e)])).
  { rewrite <- Elog. apply wfL_log_of_dir. exact Hs2. }
  set (written := s_written s + entry_size e).
  set (stats2 := aset (s_stats s) (s_active s)
                      (match v with Some _ => add_live (sget0 (s_stats s) (s_active s))
                                  | None => add_dead (sget0 (s_stats s) (s_active s)) (entry_size e) end)).
  set (s2 := mkSt (dir_set (s_dir s) (s_active s) fa') (s_idx s) stats2 (s_active s) written (s_last s) false (s_clock s + 1)%Z).
  assert (Hstats : stats2 = aset (s_stats s) (s_active s)
                      (if is_value (s_active s, data_size (d_data fa), e) then add_live (sget0 (s_stats s) (s_active s))
                       else add_dead (sget0 (s_stats s) (s_active s)) (entry_size e))).
  { subst stats2. cbn [is_value e e_val]. destruct v; reflexivity. }
  destruct (c_max c <? written) eqn:Eroll.
  - (* rollover after the append *)
    assert (HC2 : exists s3, new_active s2 = ROk (s3, [SCreate (FData (s_last s2 + 1))]) /\
                  s_dir s3 = s_dir s2 ++ [(s_last s + 1, empty_file)] /\ s_idx s3 = s_idx s2 /\ s_stats s3 = s_stats s2 /\
                  s_active s3 = s_last s + 1 /\ s_last s3 = s_last s + 1 /\ s_stale s3 = false /\ s_clock s3 = s_clock s2).
    { unfold new_active. subst s2. cbn [s_dir s_last s_idx s_stats s_clock]. rewrite Ed2.
      rewrite (ids_le_get_none _ _ (s_last s + 1) Hle2) by lia.
      eexists. split; [reflexivity|]. cbn [s_dir s_idx s_stats s_active s_last s_stale s_clock].
      rewrite dir_set_new by (apply (ids_le_get_none _ (s_last s)); [exact Hle2|lia]). repeat split. }
    destruct HC2 as (s3 & Hna & Hd3 & Hi3 & Hx3 & Ha3 & Hl3 & Hst3 & Hc3). rewrite Hna.
    exists s3, (mkLoc (s_active s) (data_size (d_data fa)) (entry_size e) (s_clock s)), ([] ++ (SWrite (FData (s_active s)) (enc_entry e) :: (if c_sync c then [SFsync (FData (s_active s))] else [])) ++ [SCreate (FData (s_last s2 + 1))]).
    split; [reflexivity|]. cbn [l_pos]. fold e.
    assert (Hs3 : sorted (s_dir s3)).
    { rewrite Hd3. subst s2. cbn [s_dir]. rewrite Ed2. apply sorted_app_one; [exact Hs2| |lia].
      replace (s_last s + 1 - 1) with (s_last s) by lia. exact Hle2. }
    repeat split.
    + unfold slog. rewrite Hd3. subst s2. cbn [s_dir]. rewrite Ed2, log_of_dir_app_empty. exact Elog.
    + exact Hwf.
    + rewrite Hi3. reflexivity.
    + rewrite Hx3. subst s2. cbn [s_stats]. exact Hstats.
    + exact Hs3.
    + rewrite Hd3, Hl3. subst s2. cbn [s_dir]. rewrite Ed2. unfold ids_le. apply Forall_app. split.
      * apply (ids_le_weaken _ (s_last s)); [exact Hle2|lia].
      * constructor; [lia|constructor].
    + intros id f Hin. rewrite Hd3 in Hin. subst s2. cbn [s_dir] in Hin. rewrite Ed2 in Hin.
      apply in_app_or in Hin as [Hin|[Hin|[]]]; [eauto|]. inversion Hin; subst. exact I.
    + exact Hst3.
    + rewrite Ha3, Hl3. reflexivity.
    + exists empty_file. split; [|reflexivity]. rewrite Ha3. apply In_dir_get; [exact Hs3|].
      rewrite Hd3. apply in_or_app. right. left. reflexivity.
    + rewrite Hc3. subst s2. reflexivity.
  - exists s2, (mkLoc (s_active s) (data_size (d_data fa)) (entry_size e) (s_clock s)), ([] ++ (SWrite (FData (s_active s)) (enc_entry e) :: (if c_sync c then [SFsync (FData (s_active s))] else []))).
    split; [reflexivity|]. cbn [l_pos]. fold e. subst s2. unfold slog. cbn [s_dir s_idx s_stats s_active s_last s_stale s_clock].
    rewrite Ed2. repeat split; auto.
    exists fa'. split; [|exact Hhint]. apply In_dir_get; [exact Hs2|]. apply in_or_app. right. left. reflexivity.
Qed.
