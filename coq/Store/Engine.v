(* Store/Engine.v — executable model of the sequential storage engine (src/storage/bitcask.rs,
   log.rs, bufio.rs, utils.rs) as it stands after the repairs D1, D2, D3, D8, D9, D10.

   Files are kept as lists of records (data files: [entry]s, hint files: [hint]s); positions and
   lengths are computed from the bincode sizes of Codec.v, and [render_*] gives the bytes.  What the
   code does with bytes (slice at (pos, len) then decode; sequential decode until EOF) is tied to
   the record-level view by the codec theorems in Store/CodecProofs.v.

   Every operation returns the new state, a result, and the list of mutating system calls it
   issued (normalised: one write per appended record).

   Nondeterminism enters as explicit arguments: the timestamp source (a counter in the state, set
   by the harness through the `verif` clock hook), and the order in which a merge visits the
   index ([ord], DashMap iteration order). *)
From BC Require Export Base.Bytes Store.Codec.
Open Scope N_scope.

(* ---------- files and directories ---------- *)
Record dfile := mkFile { d_data : list entry; d_hint : option (list hint) }.
Definition dir := list (N * dfile).                (* ascending ids, each once *)

Fixpoint data_size (es : list entry) : N :=
  match es with [] => 0 | e :: es' => entry_size e + data_size es' end.

Fixpoint dir_get (d : dir) (id : N) : option dfile :=
  match d with
  | [] => None
  | (i, f) :: d' => if i =? id then Some f else dir_get d' id
  end.
Fixpoint dir_set (d : dir) (id : N) (f : dfile) : dir :=          (* replace, or append a new id *)
  match d with
  | [] => [(id, f)]
  | (i, g) :: d' => if i =? id then (i, f) :: d' else (i, g) :: dir_set d' id f
  end.
Fixpoint dir_remove (d : dir) (id : N) : dir :=
  match d with
  | [] => []
  | (i, g) :: d' => if i =? id then d' else (i, g) :: dir_remove d' id
  end.

(* the record that starts at byte offset [pos] of a data file, with its length *)
Fixpoint entry_at (es : list entry) (pos : N) : option entry :=
  match es with
  | [] => None
  | e :: es' => if pos =? 0 then Some e
                else if pos <? entry_size e then None
                else entry_at es' (pos - entry_size e)
  end.

(* ---------- index and statistics ---------- *)
Record loc := mkLoc { l_fid : N; l_pos : N; l_len : N; l_ts : Z }.
Record cnt := mkCnt { live : N; dead : N; dead_bytes : N }.
Definition cnt0 := mkCnt 0 0 0.

Definition index := amap bytes loc.
Definition stats_t := amap N cnt.
Definition iget (i : index) (k : bytes) : option loc := aget beq i k.
Definition sget (s : stats_t) (f : N) : option cnt := aget N.eqb s f.
Definition sget0 (s : stats_t) (f : N) : cnt := match sget s f with Some c => c | None => cnt0 end.

Definition add_live (c : cnt) : cnt := mkCnt (live c + 1) (dead c) (dead_bytes c).
Definition add_dead (c : cnt) (n : N) : cnt := mkCnt (live c) (dead c + 1) (dead_bytes c + n).
(* `live_keys -= 1`: underflow is a panic in a debug build (a wrapped counter in release) *)
Definition overwrite (c : cnt) (n : N) : option cnt :=
  if live c =? 0 then None else Some (mkCnt (live c - 1) (dead c + 1) (dead_bytes c + n)).

(* ---------- configuration ---------- *)
Record cfg := mkCfg {
  c_max : N;                 (* max_file_size *)
  c_sync : bool;             (* SyncStrategy::Always *)
  c_frag_num : N; c_frag_den : N;     (* merge threshold fragmentation = num/den, den a power of two *)
  c_dead : N;                (* merge threshold dead_bytes *)
  c_small : N                (* merge threshold small_file *)
}.

(* ---------- system calls ---------- *)
Inductive fname := FData (id : N) | FHint (id : N).
Inductive syscall :=
| SCreate (f : fname) | SWrite (f : fname) (b : bytes) | SFsync (f : fname) | SUnlink (f : fname).

(* ---------- engine state ---------- *)
Record st := mkSt {
  s_dir : dir;
  s_idx : index;
  s_stats : stats_t;
  s_active : N;              (* active_fileid *)
  s_written : N;             (* written_bytes *)
  s_last : N;                (* last_fileid: highest id ever handed out by this writer *)
  s_stale : bool;            (* the active file must be replaced before the next append *)
  s_clock : Z                (* next timestamp *)
}.

Inductive serr := ENotFound | EExists | EDecode | EUnderflow | EBadOracle.
Inductive res (A : Type) := ROk (a : A) | RFail (e : serr) | RPanicked (e : serr).
Arguments ROk {A}. Arguments RFail {A}. Arguments RPanicked {A}.

Definition upd_dir (s : st) (d : dir) : st :=
  mkSt d (s_idx s) (s_stats s) (s_active s) (s_written s) (s_last s) (s_stale s) (s_clock s).
Definition upd_idx (s : st) (i : index) : st :=
  mkSt (s_dir s) i (s_stats s) (s_active s) (s_written s) (s_last s) (s_stale s) (s_clock s).
Definition upd_stats (s : st) (x : stats_t) : st :=
  mkSt (s_dir s) (s_idx s) x (s_active s) (s_written s) (s_last s) (s_stale s) (s_clock s).

(* ---------- new_active_datafile ---------- *)
Definition empty_file := mkFile [] None.

Definition new_active (s : st) : res (st * list syscall) :=
  let id := s_last s + 1 in
  match dir_get (s_dir s) id with
  | Some _ => RFail EExists                                   (* create_new on an existing name *)
  | None =>
    ROk (mkSt (dir_set (s_dir s) id empty_file) (s_idx s) (s_stats s) id 0 id false (s_clock s),
         [SCreate (FData id)])
  end.

(* ---------- Writer::write: append one record to the active file ---------- *)
Definition append_data (d : dir) (id : N) (e : entry) : option (dir * N) :=   (* new dir, position *)
  match dir_get d id with
  | Some f => Some (dir_set d id (mkFile (d_data f ++ [e]) (d_hint f)), data_size (d_data f))
  | None => None
  end.

Definition write (c : cfg) (s : st) (k : bytes) (v : option bytes) : res (st * loc * list syscall) :=
  let pre := if s_stale s then new_active s else ROk (s, []) in
  match pre with
  | RFail e => RFail e | RPanicked e => RPanicked e
  | ROk (s1, t1) =>
    let ts := s_clock s1 in
    let e := mkEntry ts k v in
    match append_data (s_dir s1) (s_active s1) e with
    | None => RFail ENotFound                                 (* the writer's file is gone: not reachable *)
    | Some (d2, pos) =>
      let len := entry_size e in
      let t2 := SWrite (FData (s_active s1)) (enc_entry e) ::
                (if c_sync c then [SFsync (FData (s_active s1))] else []) in
      let written := s_written s1 + len in
      let c0 := sget0 (s_stats s1) (s_active s1) in
      let stats2 := aset (s_stats s1) (s_active s1)
                         (match v with Some _ => add_live c0 | None => add_dead c0 len end) in
      let l := mkLoc (s_active s1) pos len ts in
      let s2 := mkSt d2 (s_idx s1) stats2 (s_active s1) written (s_last s1) false (s_clock s1 + 1)%Z in
      if c_max c <? written then
        match new_active s2 with
        | ROk (s3, t3) => ROk (s3, l, t1 ++ t2 ++ t3)
        | RFail e => RFail e | RPanicked e => RPanicked e
        end
      else ROk (s2, l, t1 ++ t2)
    end
  end.

(* stats.entry(prev.fileid).or_default().overwrite(prev.len) *)
Definition account_overwrite (x : stats_t) (prev : loc) : option stats_t :=
  match overwrite (sget0 x (l_fid prev)) (l_len prev) with
  | Some c' => Some (aset x (l_fid prev) c')
  | None => None
  end.

Definition put (c : cfg) (s : st) (k v : bytes) : res (st * unit * list syscall) :=
  match write c s k (Some v) with
  | RFail e => RFail e | RPanicked e => RPanicked e
  | ROk (s1, l, t) =>
    match iget (s_idx s1) k with
    | Some prev =>
      match account_overwrite (s_stats s1) prev with
      | Some x => ROk (upd_stats (upd_idx s1 (aset (s_idx s1) k l)) x, tt, t)
      | None => RPanicked EUnderflow
      end
    | None => ROk (upd_idx s1 (aset (s_idx s1) k l), tt, t)
    end
  end.

Definition delete (c : cfg) (s : st) (k : bytes) : res (st * bool * list syscall) :=
  match write c s k None with
  | RFail e => RFail e | RPanicked e => RPanicked e
  | ROk (s1, _, t) =>
    match iget (s_idx s1) k with
    | Some prev =>
      match account_overwrite (s_stats s1) prev with
      | Some x => ROk (upd_stats (upd_idx s1 (adel (s_idx s1) k)) x, true, t)
      | None => RPanicked EUnderflow
      end
    | None => ROk (s1, false, t)
    end
  end.

(* ---------- Reader::get ---------- *)
Definition read_loc (d : dir) (l : loc) : res entry :=
  match dir_get d (l_fid l) with
  | None => RFail ENotFound                                   (* open() of the data file fails *)
  | Some f =>
    if data_size (d_data f) <? l_pos l + l_len l then RPanicked EDecode   (* slice beyond the (re)mapped file *)
    else match entry_at (d_data f) (l_pos l) with
         | Some e => if entry_size e =? l_len l then ROk e else RFail EDecode
         | None => RFail EDecode
         end
  end.

Definition get (s : st) (k : bytes) : res (option bytes) :=
  match iget (s_idx s) k with
  | None => ROk None
  | Some l =>
    match read_loc (s_dir s) l with
    | ROk e => ROk (e_val e)
    | RFail e => RFail e | RPanicked e => RPanicked e
    end
  end.

(* ---------- merge ---------- *)
(* fragmentation() > threshold, on exact rationals: dead/(dead+live) > num/den.  For counters far
   below 2^52 and a dyadic threshold this is what the binary64 computation in the code decides
   (Sys/Trigger.v states the binary64 version). *)
Definition frag_gt (c : cnt) (num den : N) : bool :=
  if dead c =? 0 then false                                   (* 0.0 > t is false for t >= 0 *)
  else num * (dead c + live c) <? dead c * den.

Definition meets (c : cfg) (x : cnt) (size : N) : bool :=
  (c_dead c <? dead_bytes x) || frag_gt x (c_frag_num c) (c_frag_den c) || (size <? c_small c).

Definition stat_ids (x : stats_t) : list N := akeys N.eqb x.

Fixpoint nmax (l : list N) : option N :=
  match l with
  | [] => None
  | a :: l' => match nmax l' with Some m => Some (N.max a m) | None => Some a end
  end.

(* fileids_to_merge (after D2): files meeting a threshold, closed downwards over the counted files *)
Definition select (c : cfg) (s : st) : res (list N) :=
  let ids := stat_ids (s_stats s) in
  let step acc id :=
    match acc with
    | ROk sel =>
      match dir_get (s_dir s) id with
      | None => RFail ENotFound                               (* fs::metadata on a missing file *)
      | Some f => if meets c (sget0 (s_stats s) id) (data_size (d_data f)) then ROk (id :: sel) else ROk sel
      end
    | other => other
    end in
  match fold_left step ids (ROk []) with
  | ROk sel =>
    match nmax sel with
    | None => ROk []
    | Some newest => ROk (filter (fun id => id <=? newest) ids)
    end
  | other => other
  end.

Definition mem (id : N) (sel : list N) : bool := existsb (N.eqb id) sel.

Record mstate := mkM {
  m_dir : dir; m_idx : index; m_stats : stats_t;
  m_id : N;            (* merge_fileid *)
  m_pos : N;           (* merge_pos *)
  m_last : N;          (* last_fileid *)
  m_trace : list syscall   (* reversed *)
}.

Definition create_pair (d : dir) (id : N) : option dir :=
  match dir_get d id with
  | Some _ => None
  | None => Some (dir_set d id (mkFile [] (Some [])))
  end.

Definition append_hint (d : dir) (id : N) (h : hint) : dir :=
  match dir_get d id with
  | Some f => dir_set d id (mkFile (d_data f) (match d_hint f with Some hs => Some (hs ++ [h]) | None => Some [h] end))
  | None => d
  end.

(* one iteration of the merge loop for key [k] whose index entry [l] lies in a selected file *)
Definition merge_one (c : cfg) (m : mstate) (k : bytes) (l : loc) : res mstate :=
  match read_loc (m_dir m) l with
  | RFail e => RFail e | RPanicked e => RPanicked e
  | ROk e =>
    match append_data (m_dir m) (m_id m) e with
    | None => RFail ENotFound
    | Some (d1, _) =>
      let len := l_len l in
      let l' := mkLoc (m_id m) (m_pos m) len (l_ts l) in
      let h := mkHint (l_ts l) len (m_pos m) k in
      let d2 := append_hint d1 (m_id m) h in
      let x := aset (m_stats m) (m_id m) (add_live (sget0 (m_stats m) (m_id m))) in
      let i := aset (m_idx m) k l' in
      let t := SWrite (FHint (m_id m)) (enc_hint h) :: SWrite (FData (m_id m)) (enc_entry e) :: m_trace m in
      let pos' := m_pos m + len in
      if c_max c <? pos' then
        let id' := m_last m + 1 in
        match create_pair d2 id' with
        | None => RFail EExists
        | Some d3 =>
          ROk (mkM d3 i x id' 0 id'
                   (SCreate (FHint id') :: SCreate (FData id') :: SFsync (FHint (m_id m)) :: SFsync (FData (m_id m)) :: t))
        end
      else ROk (mkM d2 i x (m_id m) pos' (m_last m) t)
    end
  end.

Fixpoint merge_loop (c : cfg) (sel : list N) (m : mstate) (ord : list bytes) : res mstate :=
  match ord with
  | [] => ROk m
  | k :: ord' =>
    match iget (m_idx m) k with
    | Some l =>
      if mem (l_fid l) sel then
        match merge_one c m k l with
        | ROk m' => merge_loop c sel m' ord'
        | other => other
        end
      else merge_loop c sel m ord'
    | None => merge_loop c sel m ord'
    end
  end.

Fixpoint nodup_keys (l : list bytes) : bool :=
  match l with
  | [] => true
  | k :: l' => negb (existsb (beq k) l') && nodup_keys l'
  end.

(* the oracle order must visit every key whose entry lies in a selected file exactly once *)
Definition ord_ok (s : st) (sel : list N) (ord : list bytes) : bool :=
  nodup_keys ord &&
  forallb (fun k => match iget (s_idx s) k with
                    | Some l => negb (mem (l_fid l) sel) || existsb (beq k) ord
                    | None => true
                    end) (akeys beq (s_idx s)).

Fixpoint unlink_all (d : dir) (x : stats_t) (sel : list N) (t : list syscall) : dir * stats_t * list syscall :=
  match sel with
  | [] => (d, x, t)
  | id :: sel' =>
    let t' := match dir_get d id with
              | Some f => SUnlink (FData id) :: (match d_hint f with Some _ => [SUnlink (FHint id)] | None => [] end) ++ t
              | None => t
              end in
    unlink_all (dir_remove d id) (adel x id) sel' t'
  end.

Fixpoint sort_insert (a : N) (l : list N) : list N :=
  match l with
  | [] => [a]
  | b :: l' => if a <=? b then a :: l else b :: sort_insert a l'
  end.
Definition sort_ids (l : list N) : list N := fold_right sort_insert [] l.

Definition merge_with (selector : cfg -> st -> res (list N)) (c : cfg) (s : st) (ord : list bytes)
  : res (st * unit * list syscall) :=
  let id0 := s_last s + 1 in
  match selector c s with
  | RFail e => RFail e | RPanicked e => RPanicked e
  | ROk sel0 =>
    let sel := sort_ids sel0 in
    if negb (ord_ok s sel ord) then RFail EBadOracle else
    match create_pair (s_dir s) id0 with
    | None => RFail EExists
    | Some d0 =>
      let m0 := mkM d0 (s_idx s) (s_stats s) id0 0 id0 [SCreate (FHint id0); SCreate (FData id0)] in
      match merge_loop c sel m0 ord with
      | RFail e => RFail e | RPanicked e => RPanicked e
      | ROk m =>
        let t1 := SFsync (FHint (m_id m)) :: SFsync (FData (m_id m)) :: m_trace m in
        let '(d2, x2, t2) := unlink_all (m_dir m) (m_stats m) sel t1 in
        let s2 := mkSt d2 (m_idx m) x2 (s_active s) (s_written s) (m_last m) true (s_clock s) in
        match new_active s2 with
        | ROk (s3, t3) => ROk (s3, tt, rev t2 ++ t3)
        | RFail e => RFail e | RPanicked e => RPanicked e
        end
      end
    end
  end.

Definition merge := merge_with select.

(* ---------- rebuild_storage / open ---------- *)
Definition ins_loc (ix : index * stats_t) (k : bytes) (l : loc) : option (index * stats_t) :=
  let '(i, x) := ix in
  let x1 := aset x (l_fid l) (add_live (sget0 x (l_fid l))) in
  match iget i k with
  | Some prev =>
    match account_overwrite x1 prev with
    | Some x2 => Some (aset i k l, x2)
    | None => None
    end
  | None => Some (aset i k l, x1)
  end.

(* populate_keydir_with_datafile (after D1) *)
Fixpoint load_data (fid : N) (es : list entry) (pos : N) (ix : index * stats_t) : option (index * stats_t) :=
  match es with
  | [] => Some ix
  | e :: es' =>
    let len := entry_size e in
    let next :=
      match e_val e with
      | Some _ => ins_loc ix (e_key e) (mkLoc fid pos len (e_ts e))
      | None =>
        let '(i, x) := ix in
        let x1 := aset x fid (add_dead (sget0 x fid) len) in
        match iget i (e_key e) with
        | Some prev =>
          match account_overwrite x1 prev with
          | Some x2 => Some (adel i (e_key e), x2)
          | None => None
          end
        | None => Some (i, x1)
        end
      end in
    match next with
    | Some ix' => load_data fid es' (pos + len) ix'
    | None => None
    end
  end.

(* populate_keydir_with_hintfile (after D9): stop at the first hint that points past the data file *)
Fixpoint load_hints (fid : N) (datalen : N) (hs : list hint) (ix : index * stats_t) : option (index * stats_t) :=
  match hs with
  | [] => Some ix
  | h :: hs' =>
    if datalen <? h_pos h + h_len h then Some ix
    else match ins_loc ix (h_key h) (mkLoc fid (h_pos h) (h_len h) (h_ts h)) with
         | Some ix' => load_hints fid datalen hs' ix'
         | None => None
         end
  end.

Fixpoint rebuild_files (d : dir) (ix : index * stats_t) : option (index * stats_t) :=
  match d with
  | [] => Some ix
  | (fid, f) :: d' =>
    let r := match d_hint f with
             | Some hs => load_hints fid (data_size (d_data f)) hs ix
             | None => load_data fid (d_data f) 0 ix
             end in
    match r with
    | Some ix' => rebuild_files d' ix'
    | None => None
    end
  end.

Definition next_active (d : dir) : N :=
  match nmax (map fst d) with Some m => m + 1 | None => 0 end.

Definition open (d : dir) (clock : Z) : res (st * unit * list syscall) :=
  match rebuild_files d ([], []) with
  | None => RPanicked EUnderflow
  | Some (i, x) =>
    let a := next_active d in
    ROk (mkSt (dir_set d a empty_file) i x a 0 a false clock, tt, [SCreate (FData a)])
  end.

Definition reopen (s : st) : res (st * unit * list syscall) := open (s_dir s) (s_clock s).

(* ---------- failed writes (C20; theorems in Store/FaultContinue.v) ---------- *)
(* the state after a failed append in invariant state s (the clock may have been read) *)
Definition after_failed_append (s : st) (clk : Z) : st :=
  mkSt (s_dir s) (s_idx s) (s_stats s) (s_active s) (s_written s) (s_last s) true clk.
(* ... and after [n] creates of a new active file failed on top of that *)
Definition after_failed_creates (s : st) (clk : Z) (n : N) : st :=
  mkSt (s_dir s) (s_idx s) (s_stats s) (s_active s) (s_written s) (s_last s + n) true clk.

(* ---------- a failed fsync (C20; theorems in Store/FaultFsync.v) ----------
   With sync=always the fsync that follows the append of a set or delete fails: the operation returns the error, the
   record is complete in the active file, the index is not touched.  [fixed = true]: the code after repair 6ff1d59
   books the record as dead data of its file (so the file has a row); [fixed = false]: the pinned code returned
   before any bookkeeping. *)
Definition failed_fsync (fixed : bool) (s : st) (k : bytes) (v : option bytes) : res (st * list syscall) :=
  let pre := if s_stale s then new_active s else ROk (s, []) in
  match pre with
  | RFail e => RFail e | RPanicked e => RPanicked e
  | ROk (s1, t1) =>
    let e := mkEntry (s_clock s1) k v in
    match append_data (s_dir s1) (s_active s1) e with
    | None => RFail ENotFound
    | Some (d2, _) =>
      let len := entry_size e in
      let stats2 := if fixed then aset (s_stats s1) (s_active s1) (add_dead (sget0 (s_stats s1) (s_active s1)) len) else s_stats s1 in
      let written := if fixed then s_written s1 + len else s_written s1 in
      ROk (mkSt d2 (s_idx s1) stats2 (s_active s1) written (s_last s1) false (s_clock s1 + 1)%Z,
           t1 ++ [SWrite (FData (s_active s1)) (enc_entry e)])
    end
  end.

(* ---------- scripts ---------- *)
Inductive op :=
| OSet (k v : bytes) | OGet (k : bytes) | ODel (k : bytes) | OMerge (ord : list bytes) | OReopen | OClock (t : Z).

Inductive out := VUnit | VVal (v : option bytes) | VBool (b : bool) | VErr (e : serr) | VPanic (e : serr).

Definition step (c : cfg) (s : st) (o : op) : st * out * list syscall :=
  match o with
  | OSet k v => match put c s k v with ROk (s', _, t) => (s', VUnit, t) | RFail e => (s, VErr e, []) | RPanicked e => (s, VPanic e, []) end
  | ODel k => match delete c s k with ROk (s', b, t) => (s', VBool b, t) | RFail e => (s, VErr e, []) | RPanicked e => (s, VPanic e, []) end
  | OGet k => match get s k with ROk v => (s, VVal v, []) | RFail e => (s, VErr e, []) | RPanicked e => (s, VPanic e, []) end
  | OMerge ord => match merge c s ord with ROk (s', _, t) => (s', VUnit, t) | RFail e => (s, VErr e, []) | RPanicked e => (s, VPanic e, []) end
  | OReopen => match reopen s with ROk (s', _, t) => (s', VUnit, t) | RFail e => (s, VErr e, []) | RPanicked e => (s, VPanic e, []) end
  | OClock t => (mkSt (s_dir s) (s_idx s) (s_stats s) (s_active s) (s_written s) (s_last s) (s_stale s) t, VUnit, [])
  end.

Fixpoint run (c : cfg) (s : st) (ops : list op) : st * list out * list syscall :=
  match ops with
  | [] => (s, [], [])
  | o :: ops' =>
    let '(s1, r, t) := step c s o in
    let '(s2, rs, ts) := run c s1 ops' in
    (s2, r :: rs, t ++ ts)
  end.

(* ---------- the record a failed append left in the write buffer (C20) ----------
   std's BufWriter keeps what a failed flush could not write; Writer::new_active_datafile discards it
   (LogWriter::discard) when the next write or merge replaces the active file, but a clean close writes it out
   (BufWriter's Drop flushes).  [r = Some e]: the complete record e is still buffered for the file s_active. *)
Definition reopen_retained (x : st) (e : entry) : res (st * unit * list syscall) :=
  match append_data (s_dir x) (s_active x) e with
  | Some (d2, _) =>
    match open d2 (s_clock x) with
    | ROk (s', u, t) => ROk (s', u, SWrite (FData (s_active x)) (enc_entry e) :: t)
    | RFail er => RFail er | RPanicked er => RPanicked er
    end
  | None => RFail ENotFound
  end.

Definition step_r (c : cfg) (x : st) (r : option entry) (o : op) : st * option entry * out * list syscall :=
  match o, r with
  | OReopen, Some e =>
    match reopen_retained x e with
    | ROk (s', _, t) => (s', None, VUnit, t)
    | RFail er => (x, r, VErr er, []) | RPanicked er => (x, r, VPanic er, [])
    end
  | OGet _, _ | OClock _, _ => let '(x', o', t) := step c x o in (x', r, o', t)
  | _, _ => let '(x', o', t) := step c x o in (x', None, o', t)
  end.

Fixpoint run_r (c : cfg) (x : st) (r : option entry) (ops : list op) : st * option entry * list out * list syscall :=
  match ops with
  | [] => (x, r, [], [])
  | o :: ops' =>
    let '(x1, r1, o1, t) := step_r c x r o in
    let '(x2, r2, os, ts) := run_r c x1 r1 ops' in
    (x2, r2, o1 :: os, t ++ ts)
  end.

Definition init : st :=
  match open [] 1%Z with
  | ROk (s, _, _) => s
  | _ => mkSt [] [] [] 0 0 0 false 1%Z
  end.
