(* Store/Discipline.v — every trace of the model obeys the file discipline of C14: the monitor of
   Store/Trace.v accepts the system calls of every ready script (sets, deletes, reopens, merges) —
   data files are created under fresh, growing ids; every write appends to the data file created last
   or to its hint file; a data file is only extended while it does not exceed the maximum size.
   Proof: a monitor over the byte-level file system of Store/Crash.v ([fstep]) is simulated by the
   list-based monitor, and is run forward along the trace of each operation. *)
From BC Require Import Base.Bytes Store.Codec Store.CodecProofs Store.Engine Store.Log Store.Step Store.Cons Store.Inv Store.Refine
  Store.MergeLemmas Store.Merge Store.Sizes Store.Theorems Store.Trace Store.Crash Store.CrashScript Store.CrashMerge.
From Coq Require Import Lia List NArith ZArith Bool.
Import ListNotations.
Open Scope N_scope.

(* ---------- the monitor over a byte-level file system ---------- *)
Definition fmon := (fs * option N * option N)%type.     (* files, largest id ever, append target *)

Definition fstep (maxsize : N) (st : fmon) (c : syscall) : option fmon :=
  let '(s, mx, cur) := st in
  match c with
  | SCreate (FData i) => match s (FData i) with
                         | None => if gt_max mx i then Some (fupd s (FData i) (Some []), Some i, Some i) else None
                         | Some _ => None end
  | SCreate (FHint i) => match s (FHint i) with
                         | None => if is_cur cur i then Some (fupd s (FHint i) (Some []), mx, cur) else None
                         | Some _ => None end
  | SWrite f b => match s f with
                  | Some x => if is_cur cur (fid f) && (match f with FData _ => blen x <=? maxsize | FHint _ => true end)
                              then Some (fupd s f (Some (x ++ b)), mx, cur) else None
                  | None => None end
  | SFsync f => match s f with Some _ => Some st | None => None end
  | SUnlink f => match s f with Some _ => Some (fupd s f None, mx, cur) | None => None end
  end.
Fixpoint frun (maxsize : N) (st : fmon) (t : list syscall) : option fmon :=
  match t with [] => Some st | c :: t' => match fstep maxsize st c with Some st' => frun maxsize st' t' | None => None end end.

Lemma frun_app maxsize t1 : forall st t2, frun maxsize st (t1 ++ t2) = match frun maxsize st t1 with Some st' => frun maxsize st' t2 | None => None end.
Proof. induction t1 as [|c t1 IH]; intros st t2; cbn [app frun]; [reflexivity|]. destruct (fstep maxsize st c); [apply IH|reflexivity]. Qed.

(* ---------- the list-based monitor simulates it ---------- *)
Definition keys_distinct (l : list (fname * N)) : Prop := NoDup (map fst l).

Lemma fname_eqb_eq a b : fname_eqb a b = true <-> a = b.
Proof. destruct a, b; cbn; rewrite ?N.eqb_eq; split; intros H; try discriminate; try (inversion H; reflexivity); subst; reflexivity. Qed.
Lemma fname_eqb_refl a : fname_eqb a a = true.
Proof. apply fname_eqb_eq. reflexivity. Qed.
Lemma fname_eqb_neq a b : a <> b -> fname_eqb a b = false.
Proof. intros H. destruct (fname_eqb a b) eqn:E; [apply fname_eqb_eq in E; contradiction|reflexivity]. Qed.

Lemma fsize_of_notin l f : ~ In f (map fst l) -> fsize_of l f = None.
Proof.
  induction l as [|[g z] l IH]; cbn [fsize_of map fst In]; [reflexivity|]. intros H.
  rewrite fname_eqb_neq by (intros ->; apply H; left; reflexivity). apply IH. intros Hin. apply H. right. exact Hin.
Qed.

Lemma fsize_of_in l f : In f (map fst l) <-> fsize_of l f <> None.
Proof.
  induction l as [|[g z] l IH]; cbn [fsize_of map fst In]; [split; [intros []|congruence]|].
  destruct (fname_eqb g f) eqn:E.
  - apply fname_eqb_eq in E. split; [discriminate|auto].
  - rewrite <- IH. split; [intros [H|H]; [subst; rewrite fname_eqb_refl in E; discriminate|exact H]|auto].
Qed.

Lemma fsize_fset l f z g : fsize_of (fset l f z) g = if fname_eqb f g then Some z else fsize_of l g.
Proof.
  induction l as [|[h y] l IH]; cbn [fset fsize_of].
  - destruct (fname_eqb f g); reflexivity.
  - destruct (fname_eqb h f) eqn:E; cbn [fsize_of].
    + apply fname_eqb_eq in E. subst h. destruct (fname_eqb f g); reflexivity.
    + rewrite IH. destruct (fname_eqb h g) eqn:E2; [|reflexivity]. apply fname_eqb_eq in E2. subst h. rewrite fname_eqb_neq; [reflexivity|].
      intros ->. rewrite fname_eqb_refl in E. discriminate.
Qed.

Lemma fset_keys_in l f z x : In x (map fst (fset l f z)) -> In x (map fst l) \/ x = f.
Proof.
  induction l as [|[h y] l IH]; cbn [fset map fst In]; [intros [H|[]]; auto|].
  destruct (fname_eqb h f); cbn [map fst In]; [auto|]. intros [H|H]; [auto|]. destruct (IH H); auto.
Qed.

Lemma fset_distinct l f z : keys_distinct l -> keys_distinct (fset l f z).
Proof.
  unfold keys_distinct. induction l as [|[h y] l IH]; cbn [fset map fst]; intros H.
  - constructor; [intros []|constructor].
  - inversion H as [|? ? Hnot Hnd]; subst. destruct (fname_eqb h f) eqn:E; cbn [map fst]; [constructor; assumption|].
    constructor; [|apply IH; exact Hnd]. intros Hin. apply fset_keys_in in Hin as [Hin| ->]; [contradiction|]. rewrite fname_eqb_refl in E. discriminate.
Qed.

Lemma fdel_keys_in l f x : In x (map fst (fdel l f)) -> In x (map fst l).
Proof.
  induction l as [|[h y] l IH]; cbn [fdel map fst In]; [auto|]. destruct (fname_eqb h f); cbn [map fst In]; [auto|]. intros [H|H]; auto.
Qed.

Lemma fdel_distinct l f : keys_distinct l -> keys_distinct (fdel l f).
Proof.
  unfold keys_distinct. induction l as [|[h y] l IH]; cbn [fdel map fst]; intros H; [constructor|].
  inversion H as [|? ? Hnot Hnd]; subst. destruct (fname_eqb h f); cbn [map fst]; [exact Hnd|].
  constructor; [|apply IH; exact Hnd]. intros Hin. apply fdel_keys_in in Hin. contradiction.
Qed.

Lemma fsize_fdel l f g : keys_distinct l -> fsize_of (fdel l f) g = if fname_eqb f g then None else fsize_of l g.
Proof.
  unfold keys_distinct. induction l as [|[h y] l IH]; cbn [fdel fsize_of map fst]; intros H; [destruct (fname_eqb f g); reflexivity|].
  inversion H as [|? ? Hnot Hnd]; subst. destruct (fname_eqb h f) eqn:E.
  - apply fname_eqb_eq in E. subst h. destruct (fname_eqb f g) eqn:E2; [|reflexivity].
    apply fname_eqb_eq in E2. subst g. apply fsize_of_notin. exact Hnot.
  - cbn [fsize_of]. destruct (fname_eqb h g) eqn:E2.
    + apply fname_eqb_eq in E2. subst h. rewrite fname_eqb_neq; [reflexivity|]. intros ->. rewrite fname_eqb_refl in E. discriminate.
    + apply IH. exact Hnd.
Qed.

Definition MRel (mo : mon) (st : fmon) : Prop :=
  let '(s, mx, cur) := st in
  keys_distinct (mn_files mo) /\ (forall f, fsize_of (mn_files mo) f = option_map blen (s f)) /\ mn_max mo = mx /\ mn_cur mo = cur.

Lemma fn_fname a b : fn_eqb a b = fname_eqb a b.
Proof. destruct a, b; reflexivity. Qed.

Lemma sim_step maxsize mo st c st' : MRel mo st -> fstep maxsize st c = Some st' ->
  exists mo', disc_step maxsize mo c = Some mo' /\ MRel mo' st'.
Proof.
  destruct st as [[s mx] cur]. intros (Hd & Hf & Hmx & Hcur) H. unfold fstep in H. unfold disc_step.
  assert (Hupd : forall f v g, option_map blen (fupd s f v g) = if fname_eqb f g then option_map blen v else option_map blen (s g)).
  { intros f v g. unfold fupd. rewrite fn_fname. destruct (fname_eqb g f) eqn:E.
    - apply fname_eqb_eq in E. subst. rewrite fname_eqb_refl. reflexivity.
    - rewrite fname_eqb_neq; [reflexivity|]. intros ->. rewrite fname_eqb_refl in E. discriminate. }
  destruct c as [[i|i]|f b|f|f].
  - rewrite Hf. destruct (s (FData i)); [discriminate|]. cbn [option_map]. rewrite Hmx. destruct (gt_max mx i); [|discriminate].
    inversion H; subst. eexists. split; [reflexivity|]. cbn [MRel mn_files mn_max mn_cur]. split; [apply fset_distinct; exact Hd|]. split; [|auto].
    intros g. rewrite fsize_fset, Hupd, Hf. reflexivity.
  - rewrite Hf. destruct (s (FHint i)); [discriminate|]. cbn [option_map]. rewrite Hcur. destruct (is_cur cur i); [|discriminate].
    inversion H; subst. eexists. split; [reflexivity|]. cbn [MRel mn_files mn_max mn_cur]. split; [apply fset_distinct; exact Hd|]. split; [|auto].
    intros g. rewrite fsize_fset, Hupd, Hf. reflexivity.
  - rewrite Hf. destruct (s f) as [x|]; [|discriminate]. cbn [option_map]. rewrite Hcur.
    destruct (is_cur cur (fid f) && match f with FData _ => blen x <=? maxsize | FHint _ => true end); [|discriminate].
    inversion H; subst. eexists. split; [reflexivity|]. cbn [MRel mn_files mn_max mn_cur]. split; [apply fset_distinct; exact Hd|]. split; [|auto].
    intros g. rewrite fsize_fset, Hupd, Hf. cbn [option_map]. rewrite blen_app. reflexivity.
  - rewrite Hf. destruct (s f); [|discriminate]. cbn [option_map]. inversion H; subst. exists mo. split; [reflexivity|]. cbn [MRel]. auto.
  - rewrite Hf. destruct (s f); [|discriminate]. cbn [option_map]. inversion H; subst. eexists. split; [reflexivity|].
    cbn [MRel mn_files mn_max mn_cur]. split; [apply fdel_distinct; exact Hd|]. split; [|auto].
    intros g. rewrite (fsize_fdel _ _ _ Hd), Hupd, Hf. reflexivity.
Qed.

Lemma sim_run maxsize : forall t mo st st', MRel mo st -> frun maxsize st t = Some st' ->
  exists mo', disc_run maxsize mo t = Some mo' /\ MRel mo' st'.
Proof.
  induction t as [|c t IH]; intros mo st st' HR H; cbn [frun disc_run] in *.
  - inversion H; subst. eauto.
  - destruct (fstep maxsize st c) as [st1|] eqn:E; [|discriminate].
    destruct (sim_step maxsize mo st c st1 HR E) as (mo1 & H1 & HR1). rewrite H1. eapply IH; eauto.
Qed.

(* ---------- running the monitor forward along the model's traces ---------- *)
Lemma blen_file_bytes es : blen (file_bytes es) = data_size es.
Proof. induction es as [|e es IH]; cbn [file_bytes data_size]; [reflexivity|]. rewrite blen_app, enc_entry_size, IH. reflexivity. Qed.

Definition plain (c : syscall) : bool := match c with SFsync _ | SUnlink _ => true | _ => false end.

Lemma frun_plain maxsize mx cur : forall t f f', forallb plain t = true -> fs_run f t = Some f' -> frun maxsize (f, mx, cur) t = Some (f', mx, cur).
Proof.
  induction t as [|c t IH]; intros f f' Hp H; cbn [fs_run frun forallb] in *; [inversion H; reflexivity|].
  apply andb_true_iff in Hp as [Hc Hp]. destruct c as [g|g b|g|g]; try discriminate; cbn [fs_step fstep] in *.
  - destruct (f g); [|discriminate]. apply IH; assumption.
  - destruct (f g); [|discriminate]. apply IH; assumption.
Qed.

Lemma unlink_trace_plain : forall sel d, forallb plain (unlink_trace d sel) = true.
Proof.
  induction sel as [|id sel IH]; intros d; cbn [unlink_trace]; [reflexivity|]. rewrite forallb_app, IH, andb_true_r.
  destruct (dir_get d id) as [f|]; [|reflexivity]. destruct (d_hint f); reflexivity.
Qed.

(* the state of the monitor after the calls so far, against the model state *)
Definition FS (c : cfg) (s : st) (stt : fmon) : Prop :=
  let '(f, mx, cur) := stt in
  rep f (s_dir s) /\ mx = Some (s_last s) /\ cur = Some (s_active s) /\
  exists fa, dir_get (s_dir s) (s_active s) = Some fa /\ data_size (d_data fa) = s_written s /\ s_written s <= c_max c.

Lemma write_forward c s k v s' l t f : Inv s -> FS c s (f, Some (s_last s), Some (s_active s)) -> write c s k v = ROk (s', l, t) ->
  exists f', frun (c_max c) (f, Some (s_last s), Some (s_active s)) t = Some (f', Some (s_last s'), Some (s_active s')) /\
             FS c s' (f', Some (s_last s'), Some (s_active s')).
Proof.
  intros HI (Hrep & _ & _ & (fa & Hfa & Hsz & Hw)) H.
  pose proof HI as (Hs & Hle & Hh & Hst & Hact & (fa' & Hfa' & Hfh) & HC). rewrite Hfa in Hfa'. inversion Hfa'; subst fa'.
  unfold write in H. rewrite Hst in H. unfold append_data in H. rewrite Hfa in H.
  set (e := mkEntry (s_clock s) k v) in *. set (a := s_active s) in *.
  set (d2 := dir_set (s_dir s) a (mkFile (d_data fa ++ [e]) (d_hint fa))) in *.
  destruct (rep_get f (s_dir s) a fa Hrep Hfa) as [Hfd _].
  assert (Hstep : fstep (c_max c) (f, Some (s_last s), Some a) (SWrite (FData a) (enc_entry e)) =
                  Some (fupd f (FData a) (Some (file_bytes (d_data fa) ++ enc_entry e)), Some (s_last s), Some a)).
  { cbn [fstep]. rewrite Hfd. cbn [is_cur fid]. rewrite N.eqb_refl, blen_file_bytes, Hsz. replace (s_written s <=? c_max c) with true by (symmetry; apply N.leb_le; exact Hw). reflexivity. }
  set (f1 := fupd f (FData a) (Some (file_bytes (d_data fa) ++ enc_entry e))) in *.
  assert (Hrep1 : rep f1 d2) by (unfold d2; rewrite Hfh; apply rep_after_write; assumption).
  assert (Hsync : forall mx cur, frun (c_max c) (f1, mx, cur) (if c_sync c then [SFsync (FData a)] else []) = Some (f1, mx, cur)).
  { intros mx cur. destruct (c_sync c); [|reflexivity]. cbn [frun fstep]. unfold f1. rewrite fupd_same. reflexivity. }
  assert (Hg2 : dir_get d2 a = Some (mkFile (d_data fa ++ [e]) (d_hint fa))) by (unfold d2; rewrite dir_get_set, N.eqb_refl; reflexivity).
  destruct (c_max c <? s_written s + entry_size e) eqn:Er.
  - unfold new_active in H. cbn [s_last s_dir s_idx s_stats s_clock] in H.
    assert (Hn : dir_get d2 (s_last s + 1) = None).
    { unfold d2. rewrite dir_get_set. replace (a =? s_last s + 1) with false by (symmetry; apply N.eqb_neq; unfold a; lia).
      apply (ids_le_get_none _ (s_last s)); [exact Hle|lia]. }
    rewrite Hn in H. inversion H; subst s' l t. cbn [s_last s_active s_dir s_written].
    destruct (rep_after_create f1 d2 (s_last s + 1) Hrep1 Hn) as [Hcr Hr2].
    eexists. split.
    + cbn [app frun]. rewrite Hstep. rewrite frun_app, Hsync. cbn [frun fstep].
      destruct (rep_none f1 d2 (s_last s + 1) Hrep1 Hn) as [Hnone _]. rewrite Hnone. cbn [gt_max].
      replace (s_last s <? s_last s + 1) with true by (symmetry; apply N.ltb_lt; lia). reflexivity.
    + cbn [FS s_dir s_last s_active s_written]. rewrite (dir_set_new _ _ _ Hn). split; [exact Hr2|]. split; [reflexivity|]. split; [reflexivity|].
      exists empty_file. split; [|split; [reflexivity|lia]]. rewrite <- (dir_set_new _ _ _ Hn), dir_get_set, N.eqb_refl. reflexivity.
  - inversion H; subst s' l t. cbn [s_last s_active s_dir s_written]. exists f1. split.
    + cbn [app frun]. rewrite Hstep. apply Hsync.
    + cbn [FS s_dir s_last s_active s_written]. split; [exact Hrep1|]. split; [reflexivity|]. split; [reflexivity|].
      eexists. split; [exact Hg2|]. cbn [d_data]. rewrite data_size_app. cbn [data_size]. apply N.ltb_ge in Er. split; lia.
Qed.

(* ---------- a merge pass ---------- *)
Lemma merge_one_shape2 c s S m M k l m' :
  LI s S m M -> merge_one c m k l = ROk m' ->
  exists fm hs e,
    dir_get (m_dir m) (m_id m) = Some fm /\ d_hint fm = Some hs /\
    let a := m_id m in
    let h := mkHint (l_ts l) (l_len l) (m_pos m) k in
    let d2 := dir_set (m_dir m) a (mkFile (d_data fm ++ [e]) (Some (hs ++ [h]))) in
    let w := [SWrite (FData a) (enc_entry e); SWrite (FHint a) (enc_hint h)] in
    (m_dir m' = d2 /\ rev (m_trace m') = rev (m_trace m) ++ w /\
     m_id m' = m_id m /\ m_last m' = m_last m /\ m_pos m' <= c_max c) \/
    (let id' := m_last m + 1 in
     m_dir m' = d2 ++ [(id', mkFile [] (Some []))] /\ dir_get d2 id' = None /\
     rev (m_trace m') = rev (m_trace m) ++ w ++ [SFsync (FData a); SFsync (FHint a); SCreate (FData id'); SCreate (FHint id')] /\
     m_id m' = id' /\ m_last m' = id' /\ m_pos m' = 0).
Proof.
  intros (Hs & Hle & Hh & Hid & Hgt & (fm & hs & Hfm & Hhint & Hpos) & _) H. exists fm, hs.
  unfold merge_one in H. destruct (read_loc (m_dir m) l) as [e|?|?]; try discriminate. exists e.
  split; [exact Hfm|]. split; [exact Hhint|]. cbv zeta.
  unfold append_data in H. rewrite Hfm in H. unfold append_hint in H. rewrite dir_get_set, N.eqb_refl in H. cbn [d_data d_hint] in H.
  rewrite Hhint, dir_set_twice in H.
  destruct (c_max c <? m_pos m + l_len l) eqn:Er.
  - unfold create_pair in H.
    destruct (dir_get (dir_set (m_dir m) (m_id m) (mkFile (d_data fm ++ [e]) (Some (hs ++ [mkHint (l_ts l) (l_len l) (m_pos m) k])))) (m_last m + 1)) eqn:Eg; [discriminate|].
    inversion H; subst m'. cbn [m_dir m_trace m_id m_last m_pos]. right. split; [apply dir_set_new; exact Eg|]. split; [first [exact Eg|reflexivity]|].
    split; [cbn [rev]; rewrite <- !app_assoc; reflexivity|auto].
  - inversion H; subst m'. cbn [m_dir m_trace m_id m_last m_pos]. left. split; [reflexivity|]. split; [cbn [rev]; rewrite <- !app_assoc; reflexivity|].
    apply N.ltb_ge in Er. auto.
Qed.

(* the monitor state during the merge loop *)
Definition FI (c : cfg) (st0 : fmon) (m : mstate) : Prop :=
  exists f, frun (c_max c) st0 (rev (m_trace m)) = Some (f, Some (m_last m), Some (m_id m)) /\ rep f (m_dir m) /\ m_pos m <= c_max c.

Lemma merge_one_forward c s S m M k l m' M' st0 :
  LI s S m M -> LI s S m' M' -> merge_one c m k l = ROk m' -> FI c st0 m -> FI c st0 m'.
Proof.
  intros HLI HLI' Hone (f & Hrun & Hrep & Hpos).
  destruct (merge_one_shape2 c s S m M k l m' HLI Hone) as (fm & hs & e & Hfm & Hhint & Hshape). cbv zeta in Hshape.
  set (a := m_id m) in *. set (h := mkHint (l_ts l) (l_len l) (m_pos m) k) in *.
  set (d2 := dir_set (m_dir m) a (mkFile (d_data fm ++ [e]) (Some (hs ++ [h])))) in *.
  destruct (rep_get f (m_dir m) a fm Hrep Hfm) as [Hfd Hfh]. rewrite Hhint in Hfh. cbn [option_map] in Hfh.
  assert (Hposm : m_pos m = data_size (d_data fm)).
  { destruct HLI as (_ & _ & _ & _ & _ & (fm' & hs' & Hfm' & _ & Hp) & _). fold a in Hfm'. rewrite Hfm in Hfm'. inversion Hfm'; subst. exact Hp. }
  set (f1 := fupd f (FData a) (Some (file_bytes (d_data fm) ++ enc_entry e))).
  set (f2 := fupd f1 (FHint a) (Some (hint_bytes hs ++ enc_hint h))).
  assert (Hrep2 : rep f2 d2) by (apply rep_copy; assumption).
  assert (Hs1 : fstep (c_max c) (f, Some (m_last m), Some a) (SWrite (FData a) (enc_entry e)) = Some (f1, Some (m_last m), Some a)).
  { cbn [fstep]. rewrite Hfd. cbn [is_cur fid]. rewrite N.eqb_refl, blen_file_bytes, <- Hposm.
    replace (m_pos m <=? c_max c) with true by (symmetry; apply N.leb_le; exact Hpos). reflexivity. }
  assert (Hf1h : f1 (FHint a) = Some (hint_bytes hs)) by (unfold f1; rewrite fupd_other by discriminate; exact Hfh).
  assert (Hs2 : fstep (c_max c) (f1, Some (m_last m), Some a) (SWrite (FHint a) (enc_hint h)) = Some (f2, Some (m_last m), Some a)).
  { cbn [fstep]. rewrite Hf1h. cbn [is_cur fid]. rewrite N.eqb_refl. reflexivity. }
  assert (Hw : frun (c_max c) (f, Some (m_last m), Some a) [SWrite (FData a) (enc_entry e); SWrite (FHint a) (enc_hint h)] = Some (f2, Some (m_last m), Some a)).
  { cbn [frun]. rewrite Hs1, Hs2. reflexivity. }
  destruct Hshape as [(Hd & Ht & Hid' & Hl' & Hp')|(Hd & Hn & Ht & Hid' & Hl' & Hp')].
  - exists f2. rewrite Ht, frun_app, Hrun, Hw, Hid', Hl', Hd. auto.
  - set (id' := m_last m + 1) in *.
    destruct (rep_after_create f2 d2 id' Hrep2 Hn) as [Hcr Hrep3]. set (f3 := fupd f2 (FData id') (Some [])) in *.
    assert (Hs3 : sorted (d2 ++ [(id', empty_file)])).
    { destruct HLI as (Hs & Hle & _ & Hid & _).
      assert (Hle' : ids_le (m_dir m) (m_id m)) by (rewrite Hid; exact Hle).
      destruct (append_last (m_dir m) (m_id m) fm e (Some (hs ++ [h])) Hs Hle' Hfm) as (_ & Hsd2 & Hle2 & _).
      apply sorted_app_one; [exact Hsd2| |unfold id'; lia]. unfold id'. replace (m_last m + 1 - 1) with (m_id m) by lia. exact Hle2. }
    destruct (rep_create_hint f3 d2 id' Hrep3 Hn Hs3) as [Hcr2 Hrep4]. set (f4 := fupd f3 (FHint id') (Some [])) in *.
    assert (Hf2d : f2 (FData a) = Some (file_bytes (d_data fm) ++ enc_entry e)) by (unfold f2, f1; rewrite fupd_other by discriminate; apply fupd_same).
    assert (Hf2h : f2 (FHint a) = Some (hint_bytes hs ++ enc_hint h)) by (unfold f2; apply fupd_same).
    destruct (rep_none f2 d2 id' Hrep2 Hn) as [Hnd Hnh].
    assert (Hf3h : f3 (FHint id') = None) by (unfold f3; rewrite fupd_other by discriminate; exact Hnh).
    assert (Hr1 : fstep (c_max c) (f2, Some (m_last m), Some a) (SFsync (FData a)) = Some (f2, Some (m_last m), Some a)) by (cbn [fstep]; rewrite Hf2d; reflexivity).
    assert (Hr2 : fstep (c_max c) (f2, Some (m_last m), Some a) (SFsync (FHint a)) = Some (f2, Some (m_last m), Some a)) by (cbn [fstep]; rewrite Hf2h; reflexivity).
    assert (Hr3 : fstep (c_max c) (f2, Some (m_last m), Some a) (SCreate (FData id')) = Some (f3, Some id', Some id')).
    { cbn [fstep]. rewrite Hnd. cbn [gt_max]. replace (m_last m <? id') with true by (symmetry; apply N.ltb_lt; unfold id'; lia). reflexivity. }
    assert (Hr4 : fstep (c_max c) (f3, Some id', Some id') (SCreate (FHint id')) = Some (f4, Some id', Some id')).
    { cbn [fstep]. rewrite Hf3h. cbn [is_cur]. rewrite N.eqb_refl. reflexivity. }
    exists f4. rewrite Ht, frun_app, Hrun, frun_app, Hw. cbn [frun]. rewrite Hr1, Hr2, Hr3, Hr4.
    rewrite Hid', Hl', Hd, Hp'. split; [reflexivity|]. split; [exact Hrep4|lia].
Qed.

Lemma loop_forward c s S sel st0 : (forall g, S g = mem g sel) -> (forall g, S g = true -> g <= s_last s) ->
  forall ord m M m', LI s S m M -> merge_loop c sel m ord = ROk m' -> FI c st0 m -> FI c st0 m'.
Proof.
  intros HS HSle. induction ord as [|k ord IH]; intros m M m' HLI H HFI; cbn [merge_loop] in H.
  - inversion H; subst. exact HFI.
  - destruct (iget (m_idx m) k) as [l|] eqn:Ek; [|exact (IH m M m' HLI H HFI)].
    destruct (mem (l_fid l) sel) eqn:Em; [|exact (IH m M m' HLI H HFI)].
    destruct (merge_one_ok c s S m M k l HLI HSle Ek ltac:(rewrite HS; exact Em)) as (m1 & M1 & H1 & HLI1 & _).
    rewrite H1 in H. apply (IH m1 M1 m' HLI1 H). exact (merge_one_forward c s S m M k l m1 M1 st0 HLI HLI1 H1 HFI).
Qed.

Lemma merge_forward c s ord s' t f0 : Inv s -> merge_ready c s ord -> rep f0 (s_dir s) -> merge c s ord = ROk (s', tt, t) ->
  exists f', frun (c_max c) (f0, Some (s_last s), Some (s_active s)) t = Some (f', Some (s_last s'), Some (s_active s')) /\
             FS c s' (f', Some (s_last s'), Some (s_active s')).
Proof.
  intros HI Hready Hrep0 Hmerge.
  destruct (merge_anatomy c s ord HI Hready) as (sel0 & bound & m & M & d2 & x2 & t2 & Hana). cbv zeta in Hana.
  set (sel := sort_ids sel0) in *. set (S := fun g => mem g sel) in *. set (id0 := s_last s + 1) in *.
  set (d0 := s_dir s ++ [(id0, mkFile [] (Some []))]) in *.
  set (m0 := mkM d0 (s_idx s) (s_stats s) id0 0 id0 [SCreate (FHint id0); SCreate (FData id0)]) in *.
  destruct Hana as (HS & Hrow & HSle & HLI0 & Hloop & HLI & E1 & Eun & Ed2 & Hn2 & s'' & Hm & Hd' & HI' & Habs & Hl' & Ha' & Hw').
  rewrite Hm in Hmerge. inversion Hmerge; subst s'' t. clear Hmerge.
  pose proof HI as (Hs & Hle & Hh & _ & _ & _ & _).
  pose proof (unlink_all_trace sel (m_dir m) (m_stats m) (SFsync (FHint (m_id m)) :: SFsync (FData (m_id m)) :: m_trace m)) as Htr.
  rewrite Eun in Htr. cbn [snd rev] in Htr. rewrite <- !app_assoc in Htr. cbn [app] in Htr.
  (* phase 0 *)
  assert (Hn0 : dir_get (s_dir s) id0 = None) by (apply (ids_le_get_none _ (s_last s)); [exact Hle|unfold id0; lia]).
  destruct (rep_after_create f0 (s_dir s) id0 Hrep0 Hn0) as [_ Hr1]. set (f1 := fupd f0 (FData id0) (Some [])) in *.
  assert (Hs1 : sorted (s_dir s ++ [(id0, empty_file)])).
  { apply sorted_app_one; [exact Hs| |unfold id0; lia]. unfold id0. replace (s_last s + 1 - 1) with (s_last s) by lia. exact Hle. }
  destruct (rep_create_hint f1 (s_dir s) id0 Hr1 Hn0 Hs1) as [_ Hr2]. set (f2 := fupd f1 (FHint id0) (Some [])) in *.
  destruct (rep_none f0 (s_dir s) id0 Hrep0 Hn0) as [Hnd Hnh].
  assert (Hc1 : fstep (c_max c) (f0, Some (s_last s), Some (s_active s)) (SCreate (FData id0)) = Some (f1, Some id0, Some id0)).
  { cbn [fstep]. rewrite Hnd. cbn [gt_max]. replace (s_last s <? id0) with true by (symmetry; apply N.ltb_lt; unfold id0; lia). reflexivity. }
  assert (Hf1h : f1 (FHint id0) = None) by (unfold f1; rewrite fupd_other by discriminate; exact Hnh).
  assert (Hc2 : fstep (c_max c) (f1, Some id0, Some id0) (SCreate (FHint id0)) = Some (f2, Some id0, Some id0)).
  { cbn [fstep]. rewrite Hf1h. cbn [is_cur]. rewrite N.eqb_refl. reflexivity. }
  assert (FI0 : FI c (f0, Some (s_last s), Some (s_active s)) m0).
  { exists f2. unfold m0. cbn [m_trace m_dir m_last m_id m_pos rev app frun]. rewrite Hc1, Hc2. split; [reflexivity|]. split; [exact Hr2|lia]. }
  (* phase 1 *)
  destruct (loop_forward c s S sel _ (fun g => eq_refl) HSle ord m0 [] m HLI0 Hloop FI0) as (f & Hrun & Hrepm & Hposm).
  pose proof HLI as (Hsm & _ & _ & _ & _ & (fm & hsm & Hfm & Hhm & _) & _).
  destruct (rep_get f (m_dir m) (m_id m) fm Hrepm Hfm) as [Hfd Hfh]. rewrite Hhm in Hfh. cbn [option_map] in Hfh.
  (* phase 2 *)
  assert (Hgood_all : forall j, (j <= length sel)%nat -> good (abs s) (dir_filter (fun g => mem g (firstn j sel)) (m_dir m))).
  { intros j _. exact (prefix_good s sel0 bound m M j Hs HS Hrow HSle HLI E1). }
  assert (Hrep_nil : rep f (dir_filter (fun g => mem g []) (m_dir m))) by (rewrite dir_filter_none by reflexivity; exact Hrepm).
  destruct (unlink_walk (abs s) (m_dir m) sel Hsm Hgood_all sel [] eq_refl f Hrep_nil) as (f' & Hrun' & Hrep' & _).
  rewrite dir_filter_none in Hrun' by reflexivity. fold S in Hrep'. rewrite <- Ed2 in Hrep'.
  destruct (rep_after_create f' d2 (m_last m + 1) Hrep' Hn2) as [_ Hr3].
  destruct (rep_none f' d2 (m_last m + 1) Hrep' Hn2) as [Hnd' _].
  set (f'' := fupd f' (FData (m_last m + 1)) (Some [])) in *.
  exists f''. split.
  - assert (Hy1 : forall mx cur, fstep (c_max c) (f, mx, cur) (SFsync (FData (m_id m))) = Some (f, mx, cur)) by (intros; cbn [fstep]; rewrite Hfd; reflexivity).
    assert (Hy2 : forall mx cur, fstep (c_max c) (f, mx, cur) (SFsync (FHint (m_id m))) = Some (f, mx, cur)) by (intros; cbn [fstep]; rewrite Hfh; reflexivity).
    assert (Hy3 : fstep (c_max c) (f', Some (m_last m), Some (m_id m)) (SCreate (FData (m_last m + 1))) = Some (f'', Some (m_last m + 1), Some (m_last m + 1))).
    { cbn [fstep]. rewrite Hnd'. cbn [gt_max]. replace (m_last m <? m_last m + 1) with true by (symmetry; apply N.ltb_lt; lia). reflexivity. }
    rewrite Htr, <- app_assoc, frun_app, Hrun. cbn [app frun]. rewrite Hy1, Hy2.
    rewrite frun_app, (frun_plain _ _ _ _ f f' (unlink_trace_plain sel (m_dir m)) Hrun'). cbn [frun]. rewrite Hy3, Hl', Ha'. reflexivity.
  - cbn [FS]. rewrite Hd'. split; [exact Hr3|]. split; [rewrite Hl'; reflexivity|]. split; [rewrite Ha'; reflexivity|].
    exists empty_file. rewrite Ha', Hw'. split; [|split; [reflexivity|lia]].
    rewrite <- (dir_set_new _ _ _ Hn2), dir_get_set, N.eqb_refl. reflexivity.
Qed.

(* ---------- every operation, every script ---------- *)
Lemma nmax_in : forall l m, nmax l = Some m -> In m l.
Proof.
  induction l as [|a l IH]; intros m H; cbn [nmax] in H; [discriminate|]. destruct (nmax l) as [m'|] eqn:E; inversion H; subst.
  - destruct (N.max_spec a m') as [[_ ->]|[_ ->]]; [right; apply IH; reflexivity|left; reflexivity].
  - left. reflexivity.
Qed.

Lemma step_forward c s o f : Inv s -> op_ready c s o -> FS c s (f, Some (s_last s), Some (s_active s)) ->
  let '(s', _, t) := step c s o in
  exists f', frun (c_max c) (f, Some (s_last s), Some (s_active s)) t = Some (f', Some (s_last s'), Some (s_active s')) /\
             FS c s' (f', Some (s_last s'), Some (s_active s')).
Proof.
  intros HI Hready HFS. destruct o as [k v|k|k|ord| |tm]; cbn [step].
  - destruct (put_ok c s k v HI) as (s' & t & pos & Hp & _). rewrite Hp.
    unfold put in Hp. destruct (write c s k (Some v)) as [[[s1 l] t1]|e|e] eqn:Ew; try discriminate.
    destruct (write_forward c s k (Some v) s1 l t1 f HI HFS Ew) as (f' & Hrun & HFS').
    assert (Hd : s_dir s' = s_dir s1 /\ t = t1 /\ s_last s' = s_last s1 /\ s_active s' = s_active s1 /\ s_written s' = s_written s1).
    { destruct (iget (s_idx s1) k); [destruct (account_overwrite (s_stats s1) l0); [|discriminate]|]; inversion Hp; subst; cbn; auto. }
    destruct Hd as (Hd & -> & Hl & Ha & Hw). exists f'. unfold FS in *. rewrite Hd, Hl, Ha, Hw. auto.
  - rewrite (get_abs s k HI). exists f. split; [reflexivity|exact HFS].
  - destruct (delete_ok c s k HI) as (s' & t & pos & Hp & _). rewrite Hp.
    unfold delete in Hp. destruct (write c s k None) as [[[s1 l] t1]|e|e] eqn:Ew; try discriminate.
    destruct (write_forward c s k None s1 l t1 f HI HFS Ew) as (f' & Hrun & HFS').
    assert (Hd : s_dir s' = s_dir s1 /\ t = t1 /\ s_last s' = s_last s1 /\ s_active s' = s_active s1 /\ s_written s' = s_written s1).
    { destruct (iget (s_idx s1) k); [destruct (account_overwrite (s_stats s1) l0); [|discriminate]|]; inversion Hp; subst; cbn; auto. }
    destruct Hd as (Hd & -> & Hl & Ha & Hw). exists f'. unfold FS in *. rewrite Hd, Hl, Ha, Hw. auto.
  - cbn [op_ready] in Hready. destruct (merge_ok c s ord HI Hready) as (s' & t & Hm & _). rewrite Hm.
    destruct HFS as (Hrep & _). exact (merge_forward c s ord s' t f HI Hready Hrep Hm).
  - destruct (reopen_ok s HI) as (s' & t & Ho & HI' & _). rewrite Ho.
    unfold reopen, open in Ho. destruct (rebuild_files (s_dir s) ([], [])) as [[i x]|]; [|discriminate]. inversion Ho; subst s' t. cbn [s_dir s_last s_active s_written] in *.
    pose proof HI as (Hs & Hle & _ & _ & Hact & (fa & Hfa & _) & _). destruct HFS as (Hrep & _).
    assert (Ea : next_active (s_dir s) = s_last s + 1).
    { unfold next_active. destruct (nmax (map fst (s_dir s))) as [mx|] eqn:Em.
      - pose proof (nmax_ub _ _ Em) as Hub. pose proof (nmax_in _ _ Em) as Hin. rewrite Forall_forall in Hub.
        assert (mx <= s_last s).
        { apply in_map_iff in Hin as ([j g] & Ej & Hin). cbn in Ej. subst j. unfold ids_le in Hle. rewrite Forall_forall in Hle. apply (Hle _ Hin). }
        assert (s_last s <= mx).
        { apply Hub. apply in_map_iff. exists (s_active s, fa). split; [cbn; exact Hact|apply dir_get_In; exact Hfa]. }
        f_equal. lia.
      - apply dir_get_In in Hfa. destruct (s_dir s) as [|[j g] d']; [destruct Hfa|]. cbn in Em. destruct (nmax (map fst d')); discriminate. }
    rewrite Ea.
    assert (Hn : dir_get (s_dir s) (s_last s + 1) = None) by (apply (ids_le_get_none _ (s_last s)); [exact Hle|lia]).
    destruct (rep_after_create f (s_dir s) (s_last s + 1) Hrep Hn) as [_ Hr2]. destruct (rep_none f _ _ Hrep Hn) as [Hnd _].
    eexists. split.
    + cbn [frun fstep]. rewrite Hnd. cbn [gt_max]. replace (s_last s <? s_last s + 1) with true by (symmetry; apply N.ltb_lt; lia). reflexivity.
    + cbn [FS s_dir s_last s_active s_written]. rewrite (dir_set_new _ _ _ Hn). split; [exact Hr2|]. split; [reflexivity|]. split; [reflexivity|].
      exists empty_file. split; [|split; [reflexivity|lia]]. rewrite <- (dir_set_new _ _ _ Hn), dir_get_set, N.eqb_refl. reflexivity.
  - exists f. split; [reflexivity|]. cbn [FS s_dir s_last s_active s_written]. exact HFS.
Qed.

Theorem run_forward c : forall ops s f, Inv s -> run_ready c s ops -> FS c s (f, Some (s_last s), Some (s_active s)) ->
  exists st', frun (c_max c) (f, Some (s_last s), Some (s_active s)) (snd (run c s ops)) = Some st'.
Proof.
  induction ops as [|o ops IH]; intros s f HI Hready HFS; cbn [run snd run_ready] in *; [eexists; reflexivity|].
  destruct Hready as [Hr1 Hr2]. pose proof (step_forward c s o f HI Hr1 HFS) as Hstep. pose proof (step_refines c s o HI Hr1) as Href.
  destruct (step c s o) as [[s1 r] t] eqn:Es. cbn [fst] in Hr2. destruct Href as (HI1 & _). destruct Hstep as (f1 & Hrun1 & HFS1).
  destruct (IH s1 f1 HI1 Hr2 HFS1) as (st' & Hrun2). destruct (run c s1 ops) as [[s2 rs] ts]. cbn [snd] in *.
  exists st'. rewrite frun_app, Hrun1. exact Hrun2.
Qed.

(* C14 for the model: the list-based monitor accepts the whole trace of a process that opens an empty
   directory and runs any ready script *)
Theorem model_traces_accepted c ops : run_ready c init ops ->
  disc_ok (c_max c) (mon_init []) (SCreate (FData 0) :: snd (run c init ops)) = true.
Proof.
  intros Hready. set (f0 := fupd (fun _ => None) (FData 0) (Some [])).
  assert (Hrep : rep f0 (s_dir init)).
  { apply rep_intro. intros id. change (s_dir init) with [(0, empty_file)]. cbn [dir_get]. destruct (N.eqb_spec 0 id) as [<-|Hne].
    - unfold f0. rewrite fupd_same. rewrite fupd_other by discriminate. cbn. auto.
    - unfold f0. rewrite !fupd_other by (intros E; inversion E; subst; contradiction). auto. }
  assert (HFS : FS c init (f0, Some (s_last init), Some (s_active init))).
  { cbn [FS]. split; [exact Hrep|]. split; [reflexivity|]. split; [reflexivity|]. exists empty_file. change (s_dir init) with [(0, empty_file)].
    change (s_active init) with 0. change (s_written init) with 0. cbn. split; [reflexivity|split; [reflexivity|lia]]. }
  destruct (run_forward c ops init f0 (proj1 init_inv) Hready HFS) as (st' & Hrun).
  assert (H0 : fstep (c_max c) (fun _ => None, None, None) (SCreate (FData 0)) = Some (f0, Some (s_last init), Some (s_active init))) by reflexivity.
  assert (HR0 : MRel (mon_init []) (fun _ => None, None, None)).
  { cbn [MRel mon_init mn_files mn_max mn_cur fold_left]. split; [constructor|]. split; [reflexivity|auto]. }
  destruct (sim_run (c_max c) (SCreate (FData 0) :: snd (run c init ops)) _ _ st' HR0) as (mo' & Hd & _).
  { cbn [frun]. rewrite H0. exact Hrun. }
  unfold disc_ok. rewrite Hd. reflexivity.
Qed.
