(* Store/Render.v — runs operation scripts on the engine model and renders the observables exactly
   as harness/src/store.rs does (trusted glue for the correspondence runs; no theorem depends on it). *)
From BC Require Import Store.Engine Store.MergeFail.
From Coq Require Import Ascii String.
Open Scope string_scope.

(* [FailAppend o kept]: the put or delete o, whose append failed after the timestamp had been read; [kept]: its whole
   record is still in the write buffer (the failing call was the final flush), otherwise what was buffered is lost or junk *)
(* [FailFsync o]: the put or delete o under sync=always, whose fsync failed behind the completed append *)
Inductive sop := Op (o : op) | Dump | Ls | Cat | DropHints | FailAppend (o : op) (kept : bool) | FailFsync (o : op)
  | FailHint (ord1 : list bytes) (k : bytes) (retried : bool).   (* a merge pass stopped by the failing hint write for key k *)

Definition render_data (es : list entry) : bytes := List.concat (List.map enc_entry es).
Definition render_hints (hs : list hint) : bytes := List.concat (List.map enc_hint hs).

Definition show_file (full : bool) (name : string) (b : bytes) : string :=
  if full then name ++ "=" ++ (match b with [] => "-" | _ => hex_of b end)
  else name ++ "=" ++ show_N (blen b) ++ ":" ++ show_N (blob_hash b).

Definition show_ls (full : bool) (d : dir) : string :=
  join "," (List.concat (List.map (fun '(id, f) =>
    show_file full (show_N id ++ ".data") (render_data (d_data f)) ::
    match d_hint f with Some hs => [show_file full (show_N id ++ ".hint") (render_hints hs)] | None => [] end) d)).

Definition show_loc (k : bytes) (l : loc) : string :=
  show_hex k ++ ":" ++ show_N (l_fid l) ++ ":" ++ show_N (l_pos l) ++ ":" ++ show_N (l_len l) ++ ":" ++ show_Z (l_ts l).

Definition show_dump (s : st) : string :=
  "dump a=" ++ show_N (s_active s) ++ " w=" ++ show_N (s_written s) ++ " k=[" ++
  join "," (List.map (fun k => match iget (s_idx s) k with Some l => show_loc k l | None => "?" end) (akeys beq (s_idx s))) ++
  "] s=[" ++
  join "," (List.map (fun f => let c := sget0 (s_stats s) f in
                           show_N f ++ ":" ++ show_N (live c) ++ ":" ++ show_N (dead c) ++ ":" ++ show_N (dead_bytes c))
                (stat_ids (s_stats s))) ++ "]".

Definition show_out (o : out) : string :=
  match o with
  | VUnit => "ok"
  | VVal (Some v) => "some:" ++ show_hex v
  | VVal None => "none"
  | VBool true => "true" | VBool false => "false"
  | VErr _ => "err"
  | VPanic _ => "panic"
  end.

Definition drop_hints (d : dir) : dir := List.map (fun '(id, f) => (id, mkFile (d_data f) None)) d.

Definition retained_of (s : st) (o : op) (kept : bool) : option entry :=
  if kept then match o with
               | OSet k v => Some (mkEntry (s_clock s) k (Some v))
               | ODel k => Some (mkEntry (s_clock s) k None)
               | _ => None
               end
  else None.

Fixpoint run_script (c : cfg) (s : st) (r : option entry) (ops : list sop) : list string :=
  match ops with
  | [] => ["end"]
  | Op o :: ops' => let '(s', r', o', _) := step_r c s r o in show_out o' :: run_script c s' r' ops'
  | FailAppend o kept :: ops' => "err" :: run_script c (after_failed_append s (s_clock s + 1)%Z) (retained_of s o kept) ops'
  | FailFsync o :: ops' =>
    match (match o with OSet k v => failed_fsync true s k (Some v) | ODel k => failed_fsync true s k None | _ => RFail EBadOracle end) with
    | ROk (s', _) => "err" :: run_script c s' None ops'
    | _ => "panic" :: run_script c s r ops'
    end
  | FailHint ord1 k retried :: ops' =>
    match merge_fail_hint false true retried c s ord1 k with
    | ROk s' => "err" :: run_script c s' None ops'
    | _ => "panic" :: run_script c s r ops'
    end
  | Dump :: ops' => show_dump s :: run_script c s r ops'
  | Ls :: ops' => ("ls " ++ show_ls false (s_dir s)) :: run_script c s r ops'
  | Cat :: ops' => ("cat " ++ show_ls true (s_dir s)) :: run_script c s r ops'
  | DropHints :: ops' =>
    match open (drop_hints (s_dir s)) (s_clock s) with
    | ROk (s', _, _) => "ok" :: run_script c s' None ops'
    | _ => "panic" :: run_script c s r ops'
    end
  end.

Definition render_case (c : cfg) (ops : list sop) : string :=
  join nl ("open ok" :: run_script c init None ops).

Definition render_cases (cases : list (cfg * list sop)) : string :=
  join nl (List.map (fun '(c, ops) => render_case c ops) cases).

(* ---- system-call traces (C14, C03, C09, C20) ---- *)
From BC Require Import Store.Trace.
Definition show_fname (f : fname) : string :=
  match f with FData i => show_N i ++ ".data" | FHint i => show_N i ++ ".hint" end.
Definition show_call (c : syscall) : string :=
  match c with
  | SCreate f => "create " ++ show_fname f
  | SWrite f b => "write " ++ show_fname f ++ " " ++ show_N (blen b) ++ ":" ++ show_N (blob_hash b)
  | SFsync f => "fsync " ++ show_fname f
  | SUnlink f => "unlink " ++ show_fname f
  end.
Definition show_trace (t : list syscall) : string := join ";" (List.map show_call t).

Fixpoint run_traces (c : cfg) (s : st) (ops : list sop) : list string :=
  match ops with
  | [] => []
  | Op o :: ops' => let '(s', _, t) := step c s o in show_trace t :: run_traces c s' ops'
  | DropHints :: ops' =>
    match open (drop_hints (s_dir s)) (s_clock s) with
    | ROk (s', _, t) => show_trace t :: run_traces c s' ops'
    | _ => "?" :: run_traces c s ops'
    end
  | _ :: ops' => "" :: run_traces c s ops'
  end.

Definition render_case_traces (c : cfg) (ops : list sop) : string :=
  join nl ("create 0.data" :: run_traces c init ops).
Definition render_cases_traces (cases : list (cfg * list sop)) : string :=
  join nl (List.map (fun '(c, ops) => render_case_traces c ops) cases).

(* the monitor on a given trace: "ok" or the index of the first rejected call *)
Fixpoint disc_first_reject (maxsize : N) (m : mon) (tr : list syscall) (i : N) : option N :=
  match tr with
  | [] => None
  | c :: tr' => match disc_step maxsize m c with Some m' => disc_first_reject maxsize m' tr' (i + 1)%N | None => Some i end
  end.
Definition render_monitor (maxsize : N) (tr : list syscall) : string :=
  match disc_first_reject maxsize (mon_init []) tr 0 with None => "ok" | Some i => "reject@" ++ show_N i end.
Definition render_monitors (cases : list (N * list syscall)) : string :=
  join nl (List.map (fun '(mx, tr) => render_monitor mx tr) cases).
