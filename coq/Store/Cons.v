(* Store/Cons.v — appending one record keeps (index, counters) consistent with the log, with the
   exact counter arithmetic of the code (no underflow); recovery (data scan, hint scan, whole
   directory) is a fold of such steps. *)
From BC Require Import Store.Engine Store.Log Store.Step.
Open Scope N_scope.

Definition stats_step (x : stats_t) (i : index) (en : lentry) : option stats_t :=
  let '(f, p, e) := en in
  let x1 := aset x f (if is_value en then add_live (sget0 x f) else add_dead (sget0 x f) (entry_size e)) in
  match iget i (e_key e) with
  | Some prev => account_overwrite x1 prev
  | None => Some x1
  end.

(* counts depend on the index only through lookups *)
Lemma is_live_ext i1 i2 en : (forall k, iget i1 k = iget i2 k) -> is_live i1 en = is_live i2 en.
Proof. intros H. destruct en as [[f p] e]. cbn [is_live]. rewrite H. reflexivity. Qed.
Lemma nlive_ext i1 i2 L g : (forall k, iget i1 k = iget i2 k) -> nlive L i1 g = nlive L i2 g.
Proof. intros H. induction L as [|en L IH]; cbn [nlive]; [reflexivity|]. rewrite IH, (is_live_ext i1 i2 en H). reflexivity. Qed.
Lemma ndead_ext i1 i2 L g : (forall k, iget i1 k = iget i2 k) -> ndead L i1 g = ndead L i2 g.
Proof. intros H. induction L as [|en L IH]; cbn [ndead]; [reflexivity|]. rewrite IH, (is_live_ext i1 i2 en H). reflexivity. Qed.
Lemma bdead_ext i1 i2 L g : (forall k, iget i1 k = iget i2 k) -> bdead L i1 g = bdead L i2 g.
Proof. intros H. induction L as [|en L IH]; cbn [bdead]; [reflexivity|]. rewrite IH, (is_live_ext i1 i2 en H). reflexivity. Qed.

Lemma cons_ex_ext S L i1 i2 x1 x2 :
  (forall k, iget i1 k = iget i2 k) -> (forall g, sget x1 g = sget x2 g) -> cons_ex S L i1 x1 -> cons_ex S L i2 x2.
Proof.
  intros Hi Hx (C1 & C2 & C3). repeat split.
  - intros k. rewrite <- Hi. apply C1.
  - unfold sget0. rewrite <- Hx. rewrite <- (nlive_ext i1 i2 L g Hi). apply C2. assumption.
  - unfold sget0. rewrite <- Hx. rewrite <- (ndead_ext i1 i2 L g Hi). apply C2. assumption.
  - unfold sget0. rewrite <- Hx. rewrite <- (bdead_ext i1 i2 L g Hi). apply C2. assumption.
  - rewrite <- Hx. apply C3. assumption.
  - rewrite <- Hx. apply C3. assumption.
Qed.

Lemma has_file_snoc L f p e g : has_file (L ++ [(f, p, e)]) g = has_file L g || (f =? g).
Proof. rewrite has_file_app. cbn [has_file existsb in_file]. rewrite orb_false_r. reflexivity. Qed.

Ltac crunch :=
  repeat match goal with |- context [is_value ?en] => destruct (is_value en) end;
  repeat match goal with |- context [N.eqb ?a ?b] => destruct (N.eqb_spec a b) end;
  try congruence; cbn [live dead dead_bytes andb negb b2n]; intros; subst;
  cbn [andb negb b2n] in *; try congruence; lia.

(* ---- the full step: what put, delete and the recovery scan do ---- *)
Theorem step_full L i x f p e :
  wfL (L ++ [(f, p, e)]) -> cons L i x ->
  exists x', stats_step x i (f, p, e) = Some x' /\ cons (L ++ [(f, p, e)]) (idx_step i (f, p, e)) x'.
Proof.
  intros Hw (C1 & C2 & C3).
  pose proof (counts_step L i f p e Hw C1) as HC. cbv zeta in HC.
  unfold stats_step.
  set (c1 := if is_value (f, p, e) then add_live (sget0 x f) else add_dead (sget0 x f) (entry_size e)).
  assert (Hc1 : live c1 = live (sget0 x f) + b2n (is_value (f, p, e)) /\
                dead c1 = dead (sget0 x f) + b2n (negb (is_value (f, p, e))) /\
                dead_bytes c1 = dead_bytes (sget0 x f) + (if negb (is_value (f, p, e)) then entry_size e else 0)).
  { subst c1. destruct (is_value (f, p, e)); cbn [add_live add_dead live dead dead_bytes b2n negb]; repeat split; lia. }
  destruct Hc1 as (Hl1 & Hd1 & Hb1). clearbody c1.

  destruct (iget i (e_key e)) as [prev|] eqn:Ep.
  - (* an older entry of the key is overwritten *)
    assert (Hprev : 1 <= nlive L i (l_fid prev) /\ has_file L (l_fid prev) = true).
    { destruct (HC (l_fid prev)) as (_ & _ & _ & H). apply H. rewrite N.eqb_refl. reflexivity. }
    destruct Hprev as [Hge Hhas].
    destruct (C2 (l_fid prev) eq_refl) as (Lp & Dp & Bp).
    unfold account_overwrite, overwrite. rewrite sget0_aset.
    set (cp := if l_fid prev =? f then c1 else sget0 x (l_fid prev)).
    assert (Hcp : 1 <= live cp).
    { subst cp. destruct (N.eqb_spec (l_fid prev) f) as [E|E]; [rewrite <- E in Hl1|]; lia. }
    replace (live cp =? 0) with false by (symmetry; apply N.eqb_neq; lia).
    eexists. split; [reflexivity|]. repeat split.
    + apply idx_step_lastloc. exact C1.
    + destruct (HC g) as (HL & HD & HB & _). destruct (C2 g eq_refl) as (Lg & Dg & Bg).
      rewrite !sget0_aset. subst cp. revert HL HD HB Hl1 Hd1 Hb1 Hcp. crunch.
    + destruct (HC g) as (HL & HD & HB & _). destruct (C2 g eq_refl) as (Lg & Dg & Bg).
      rewrite !sget0_aset. subst cp. revert HL HD HB Hl1 Hd1 Hb1 Hcp. crunch.
    + destruct (HC g) as (HL & HD & HB & _). destruct (C2 g eq_refl) as (Lg & Dg & Bg).
      rewrite !sget0_aset. subst cp. revert HL HD HB Hl1 Hd1 Hb1 Hcp. crunch.
    + intros Hn. rewrite !sget_aset in Hn. rewrite has_file_snoc.
      destruct (N.eqb_spec g (l_fid prev)); [discriminate|]. destruct (N.eqb_spec g f) as [|Hgf]; [discriminate|].
      apply C3 in Hn; [|reflexivity]. rewrite Hn. cbn [orb]. apply N.eqb_neq. congruence.
    + intros Hn. rewrite has_file_snoc in Hn. apply orb_false_iff in Hn as [H1 H2].
      rewrite !sget_aset. apply N.eqb_neq in H2.
      destruct (N.eqb_spec g (l_fid prev)) as [->|]; [congruence|].
      destruct (N.eqb_spec g f); [congruence|]. apply C3; auto.
  - (* first entry of the key, or nothing to delete *)
    eexists. split; [reflexivity|]. repeat split.
    + apply idx_step_lastloc. exact C1.
    + destruct (HC g) as (HL & HD & HB & _). destruct (C2 g eq_refl) as (Lg & Dg & Bg).
      rewrite !sget0_aset. revert HL HD HB Hl1 Hd1 Hb1. crunch.
    + destruct (HC g) as (HL & HD & HB & _). destruct (C2 g eq_refl) as (Lg & Dg & Bg).
      rewrite !sget0_aset. revert HL HD HB Hl1 Hd1 Hb1. crunch.
    + destruct (HC g) as (HL & HD & HB & _). destruct (C2 g eq_refl) as (Lg & Dg & Bg).
      rewrite !sget0_aset. revert HL HD HB Hl1 Hd1 Hb1. crunch.
    + intros Hn. rewrite sget_aset in Hn. rewrite has_file_snoc.
      destruct (N.eqb_spec g f) as [|Hgf]; [discriminate|].
      apply C3 in Hn; [|reflexivity]. rewrite Hn. cbn [orb]. apply N.eqb_neq. congruence.
    + intros Hn. rewrite has_file_snoc in Hn. apply orb_false_iff in Hn as [H1 H2].
      rewrite sget_aset. apply N.eqb_neq in H2. destruct (N.eqb_spec g f); [congruence|]. apply C3; auto.
Qed.

(* ---- recovery as a fold of steps ---- *)
Definition all_values (es : list entry) : Prop := Forall (fun e => e_val e <> None) es.

Fixpoint hints_of (es : list entry) (pos : N) : list hint :=
  match es with
  | [] => []
  | e :: es' => mkHint (e_ts e) (entry_size e) pos (e_key e) :: hints_of es' (pos + entry_size e)
  end.

Definition hints_ok (f : dfile) : Prop :=
  match d_hint f with
  | None => True
  | Some hs => hs = hints_of (d_data f) 0 /\ all_values (d_data f)
  end.

Lemma load_data_cons fid : forall es pos L i x,
  wfL (L ++ log_file fid es pos) -> cons L i x ->
  exists i' x', load_data fid es pos (i, x) = Some (i', x') /\ cons (L ++ log_file fid es pos) i' x'.
Proof.
  induction es as [|e es IH]; intros pos L i x Hw HC.
  - cbn [load_data log_file]. rewrite app_nil_r. eauto.
  - cbn [log_file] in *.
    replace (L ++ (fid, pos, e) :: log_file fid es (pos + entry_size e))
      with ((L ++ [(fid, pos, e)]) ++ log_file fid es (pos + entry_size e)) in * by (rewrite <- app_assoc; reflexivity).
    assert (Hw1 : wfL (L ++ [(fid, pos, e)])).
    { clear - Hw. revert Hw. generalize (log_file fid es (pos + entry_size e)) as T. intros T.
      induction (L ++ [(fid, pos, e)]) as [|[[f' p'] e'] M IHM]; cbn [app wfL]; [auto|].
      intros [H1 H2]. rewrite existsb_app in H1. apply orb_false_iff in H1. split; [tauto|auto]. }
    destruct (step_full L i x fid pos e Hw1 HC) as (x1 & Hs & HC1).
    cbn [load_data]. unfold stats_step in Hs. cbn [is_value] in Hs.
    destruct (e_val e) as [v|] eqn:Ev.
    + (* value *)
      cbn [ins_loc l_fid]. destruct (iget i (e_key e)) as [prev|] eqn:Ep.
      * rewrite Hs. cbn [idx_step] in HC1. rewrite Ev in HC1. apply IH; assumption.
      * inversion Hs; subst x1. cbn [idx_step] in HC1. rewrite Ev in HC1. apply IH; assumption.
    + (* tombstone *)
      destruct (iget i (e_key e)) as [prev|] eqn:Ep.
      * rewrite Hs. cbn [idx_step] in HC1. rewrite Ev in HC1. apply IH; assumption.
      * inversion Hs; subst x1. apply IH; [assumption|].
        eapply cons_ex_ext; [| |exact HC1]; [|reflexivity].
        intros k. cbn [idx_step]. rewrite Ev, iget_adel. destruct (beq_spec k (e_key e)) as [->|]; [symmetry; exact Ep|reflexivity].
Qed.

Lemma load_hints_is_load_data fid : forall es pos datalen ix,
  all_values es -> pos + data_size es <= datalen ->
  load_hints fid datalen (hints_of es pos) ix = load_data fid es pos ix.
Proof.
  induction es as [|e es IH]; intros pos datalen [i x] Hv Hlen; [reflexivity|].
  inversion Hv as [|? ? Hve Hv']; subst. cbn [hints_of load_hints load_data h_pos h_len h_key h_ts data_size] in *.
  replace (datalen <? pos + entry_size e) with false by (symmetry; apply N.ltb_ge; lia).
  destruct (e_val e) as [v|]; [|congruence].
  destruct (ins_loc (i, x) (e_key e) _) as [ix'|]; [|reflexivity].
  apply IH; [assumption|lia].
Qed.

Lemma wfL_app_l L1 L2 : wfL (L1 ++ L2) -> wfL L1.
Proof.
  induction L1 as [|[[f p] e] L1 IH]; cbn [app wfL]; [auto|].
  intros [H1 H2]. rewrite existsb_app in H1. apply orb_false_iff in H1. split; [tauto|auto].
Qed.

Theorem rebuild_cons : forall d L i x,
  wfL (L ++ log_of_dir d) -> (forall id f, In (id, f) d -> hints_ok f) -> cons L i x ->
  exists i' x', rebuild_files d (i, x) = Some (i', x') /\ cons (L ++ log_of_dir d) i' x'.
Proof.
  induction d as [|[fid f] d IH]; intros L i x Hw Hh HC.
  - cbn [rebuild_files log_of_dir]. rewrite app_nil_r. eauto.
  - cbn [log_of_dir] in *. rewrite app_assoc in Hw |- *.
    assert (Hw1 : wfL (L ++ log_file fid (d_data f) 0)) by (eapply wfL_app_l; exact Hw).
    destruct (load_data_cons fid (d_data f) 0 L i x Hw1 HC) as (i1 & x1 & Hl & HC1).
    cbn [rebuild_files].
    assert (Hload : match d_hint f with
                    | Some hs => load_hints fid (data_size (d_data f)) hs (i, x)
                    | None => load_data fid (d_data f) 0 (i, x)
                    end = Some (i1, x1)).
    { pose proof (Hh fid f (or_introl eq_refl)) as Hok. unfold hints_ok in Hok.
      destruct (d_hint f) as [hs|]; [|exact Hl]. destruct Hok as [-> Hv].
      rewrite load_hints_is_load_data; [exact Hl|exact Hv|lia]. }
    rewrite Hload. apply IH; [exact Hw| |exact HC1].
    intros id g Hin. apply (Hh id g). right. exact Hin.
Qed.
