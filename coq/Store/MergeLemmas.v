(* Store/MergeLemmas.v — supporting facts for the merge proof: the selected set is closed
   downwards over the files that hold records, removing files filters the log, and a log whose
   selected records form a prefix can drop them without changing what any key resolves to, provided
   no key still resolves into the dropped part. *)
From BC Require Import Store.Engine Store.Log Store.Step Store.Cons Store.Inv.
Open Scope N_scope.

(* ---------- membership, sorting ---------- *)
Lemma mem_sort_insert a l g : mem g (sort_insert a l) = (g =? a) || mem g l.
Proof.
  unfold mem. induction l as [|b l IH]; cbn [sort_insert existsb]; [reflexivity|].
  destruct (a <=? b); cbn [existsb]; [reflexivity|]. rewrite IH.
  destruct (g =? a), (g =? b); reflexivity.
Qed.

Lemma mem_sort_ids l g : mem g (sort_ids l) = mem g l.
Proof.
  unfold sort_ids. induction l as [|a l IH]; cbn [fold_right]; [reflexivity|].
  rewrite mem_sort_insert, IH. reflexivity.
Qed.

Lemma mem_filter (P : N -> bool) l g : mem g (filter P l) = mem g l && P g.
Proof.
  unfold mem. induction l as [|a l IH]; cbn [filter existsb]; [reflexivity|].
  destruct (P a) eqn:Ea; cbn [existsb]; rewrite IH.
  - destruct (N.eqb_spec g a) as [->|]; [rewrite Ea; cbn; destruct (existsb _ l); reflexivity|reflexivity].
  - destruct (N.eqb_spec g a) as [->|]; [rewrite Ea; cbn; rewrite andb_false_r; reflexivity|reflexivity].
Qed.

(* keys of an update log: every bound key is listed *)
Lemma akeys_aux_complete {V} (m : amap N V) : True.
Proof. exact I. Qed.

Lemma akeys_aux_spec (i : index) : forall seen k l,
  iget i k = Some l -> existsb (beq k) seen = false -> existsb (beq k) (akeys_aux beq i seen) = true.
Proof.
  induction i as [|[k0 o] i IH]; intros seen k l Hg Hs; [discriminate|].
  cbn [akeys_aux]. unfold iget in Hg. cbn [aget] in Hg.
  destruct (beq_spec k k0) as [->|Hne].
  - assert (Hs0 : existsb (beq k0) seen = false) by exact Hs.
    rewrite Hs0. subst o. cbn [existsb]. rewrite beq_refl. reflexivity.
  - destruct (existsb (beq k0) seen) eqn:E0.
    + apply (IH seen k l Hg Hs).
    + assert (Hs' : existsb (beq k) (k0 :: seen) = false).
      { cbn [existsb]. rewrite Hs. rewrite (beq_neq k k0 Hne). reflexivity. }
      destruct o; [cbn [existsb]; rewrite (IH (k0 :: seen) k l Hg Hs'); apply orb_true_r|apply (IH (k0 :: seen) k l Hg Hs')].
Qed.

Lemma akeys_spec (i : index) k l : iget i k = Some l -> existsb (beq k) (akeys beq i) = true.
Proof. intros H. apply (akeys_aux_spec i [] k l H). reflexivity. Qed.

Lemma akeys_aux_N_spec (x : stats_t) : forall seen g c,
  sget x g = Some c -> existsb (N.eqb g) seen = false -> existsb (N.eqb g) (akeys_aux N.eqb x seen) = true.
Proof.
  induction x as [|[g0 o] x IH]; intros seen g c Hg Hs; [discriminate|].
  cbn [akeys_aux]. unfold sget in Hg. cbn [aget] in Hg.
  destruct (N.eqb_spec g g0) as [->|Hne].
  - rewrite Hs. subst o. cbn [existsb]. rewrite N.eqb_refl. reflexivity.
  - destruct (existsb (N.eqb g0) seen) eqn:E0.
    + apply (IH seen g c Hg Hs).
    + assert (Hs' : existsb (N.eqb g) (g0 :: seen) = false).
      { cbn [existsb]. rewrite Hs. apply N.eqb_neq in Hne. rewrite Hne. reflexivity. }
      destruct o; [cbn [existsb]; rewrite (IH (g0 :: seen) g c Hg Hs'); apply orb_true_r|apply (IH (g0 :: seen) g c Hg Hs')].
Qed.

Lemma akeys_aux_N_sound (x : stats_t) : forall seen g,
  existsb (N.eqb g) (akeys_aux N.eqb x seen) = true -> sget x g <> None.
Proof.
  induction x as [|[g0 o] x IH]; intros seen g H; [discriminate|].
  cbn [akeys_aux] in H. unfold sget. cbn [aget].
  destruct (existsb (N.eqb g0) seen) eqn:E0.
  - destruct (N.eqb_spec g g0) as [->|Hne]; [|apply (IH seen g H)].
    (* g0 already seen: the binding listed comes from an earlier element; we cannot conclude from here *)
    destruct o; [discriminate|]. exfalso. revert H. clear IH. revert E0.
    (* a key in [seen] is never listed again *)
    assert (Hno : forall (y : stats_t) seen', existsb (N.eqb g0) seen' = true -> existsb (N.eqb g0) (akeys_aux N.eqb y seen') = false).
    { induction y as [|[g1 o1] y IHy]; intros seen' Hs'; [reflexivity|]. cbn [akeys_aux].
      destruct (existsb (N.eqb g1) seen') eqn:E1; [apply IHy; exact Hs'|].
      assert (Hne1 : g0 <> g1) by (intros ->; congruence).
      assert (Hs'' : existsb (N.eqb g0) (g1 :: seen') = true) by (cbn [existsb]; rewrite Hs'; apply orb_true_r).
      destruct o1; [cbn [existsb]; rewrite (IHy _ Hs''); apply N.eqb_neq in Hne1; rewrite Hne1; reflexivity|apply IHy; exact Hs'']. }
    intros E0 H. rewrite (Hno x seen E0) in H. discriminate.
  - destruct (N.eqb_spec g g0) as [->|Hne].
    + destruct o; [discriminate|]. exfalso.
      assert (Hno : forall (y : stats_t) seen', existsb (N.eqb g0) seen' = true -> existsb (N.eqb g0) (akeys_aux N.eqb y seen') = false).
      { induction y as [|[g1 o1] y IHy]; intros seen' Hs'; [reflexivity|]. cbn [akeys_aux].
        destruct (existsb (N.eqb g1) seen') eqn:E1; [apply IHy; exact Hs'|].
        assert (Hne1 : g0 <> g1) by (intros ->; congruence).
        assert (Hs'' : existsb (N.eqb g0) (g1 :: seen') = true) by (cbn [existsb]; rewrite Hs'; apply orb_true_r).
        destruct o1; [cbn [existsb]; rewrite (IHy _ Hs''); apply N.eqb_neq in Hne1; rewrite Hne1; reflexivity|apply IHy; exact Hs'']. }
      rewrite (Hno x (g0 :: seen)) in H; [discriminate|]. cbn [existsb]. rewrite N.eqb_refl. reflexivity.
    + destruct o as [c|].
      * cbn [existsb] in H. apply N.eqb_neq in Hne. rewrite Hne in H. cbn [orb] in H. apply (IH (g0 :: seen) g H).
      * apply (IH (g0 :: seen) g H).
Qed.

Lemma stat_ids_iff x g : mem g (stat_ids x) = true <-> sget x g <> None.
Proof.
  unfold mem, stat_ids, akeys. split.
  - apply akeys_aux_N_sound.
  - intros H. destruct (sget x g) as [c|] eqn:E; [|congruence]. apply (akeys_aux_N_spec x [] g c E). reflexivity.
Qed.

(* ---------- removing files ---------- *)
Definition keep (S : N -> bool) (en : lentry) : bool := let '(f, _, _) := en in negb (S f).

Lemma filter_log_file S fid es pos :
  filter (keep S) (log_file fid es pos) = if S fid then [] else log_file fid es pos.
Proof.
  revert pos. induction es as [|e es IH]; intros pos; cbn [log_file filter keep]; [destruct (S fid); reflexivity|].
  rewrite IH. destruct (S fid); reflexivity.
Qed.

Fixpoint dir_filter (S : N -> bool) (d : dir) : dir :=
  match d with
  | [] => []
  | (i, f) :: d' => if S i then dir_filter S d' else (i, f) :: dir_filter S d'
  end.

Lemma log_dir_filter S d : log_of_dir (dir_filter S d) = filter (keep S) (log_of_dir d).
Proof.
  induction d as [|[i f] d IH]; cbn [dir_filter log_of_dir]; [reflexivity|].
  rewrite filter_app, filter_log_file. destruct (S i); cbn [log_of_dir app]; rewrite IH; reflexivity.
Qed.

Lemma dir_filter_In S d id f : In (id, f) (dir_filter S d) <-> In (id, f) d /\ S id = false.
Proof.
  induction d as [|[i g] d IH]; cbn [dir_filter In]; [tauto|].
  destruct (S i) eqn:Ei; cbn [In]; rewrite IH; split.
  - intros [H1 H2]. auto.
  - intros [[H|H] H2]; [inversion H; subst; congruence|auto].
  - intros [H|[H1 H2]]; [inversion H; subst; auto|auto].
  - intros [[H|H] H2]; auto.
Qed.

Lemma dir_filter_sorted S d : sorted d -> sorted (dir_filter S d).
Proof.
  induction d as [|[i g] d IH]; cbn [dir_filter sorted]; [auto|].
  intros [Hgt Hs]. destruct (S i); [auto|]. cbn [sorted]. split; [|auto].
  unfold ids_gt in *. rewrite Forall_forall in *. intros [j h] Hin. apply dir_filter_In in Hin as [Hin _]. apply (Hgt _ Hin).
Qed.

Lemma dir_remove_filter d id : sorted d -> dir_remove d id = dir_filter (fun j => j =? id) d.
Proof.
  induction d as [|[i g] d IH]; cbn [dir_remove dir_filter sorted]; [reflexivity|].
  intros [Hgt Hs]. destruct (N.eqb_spec i id) as [->|Hne].
  - (* nothing else has this id *)
    clear IH. induction d as [|[j h] d IHd]; [reflexivity|]. cbn [dir_filter].
    inversion Hgt as [|? ? Hj Hgt']; subst. destruct (N.eqb_spec j id); [lia|].
    destruct Hs as [_ Hs']. rewrite <- IHd; auto.
  - rewrite IH by exact Hs. reflexivity.
Qed.

Lemma dir_filter_filter S1 S2 d : dir_filter S1 (dir_filter S2 d) = dir_filter (fun j => S2 j || S1 j) d.
Proof.
  induction d as [|[i g] d IH]; cbn [dir_filter]; [reflexivity|].
  destruct (S2 i); cbn [orb dir_filter]; [exact IH|]. destruct (S1 i); rewrite IH; reflexivity.
Qed.

Lemma dir_filter_ext S1 S2 d : (forall j, S1 j = S2 j) -> dir_filter S1 d = dir_filter S2 d.
Proof. intros H. induction d as [|[i g] d IH]; cbn [dir_filter]; [reflexivity|]. rewrite H, IH. reflexivity. Qed.

Lemma dir_filter_none S d : (forall j, S j = false) -> dir_filter S d = d.
Proof. intros H. induction d as [|[i g] d IH]; cbn [dir_filter]; [reflexivity|]. rewrite H, IH. reflexivity. Qed.

(* unlink_all = filtering out the selected ids, dropping their counter rows *)
Lemma unlink_all_spec : forall sel d x t, sorted d ->
  let '(d', x', _) := unlink_all d x sel t in
  d' = dir_filter (fun j => mem j sel) d /\ (forall g, sget x' g = if mem g sel then None else sget x g).
Proof.
  induction sel as [|id sel IH]; intros d x t Hs; cbn [unlink_all].
  - split; [|intros; reflexivity]. symmetry. apply dir_filter_none. reflexivity.
  - set (t' := match dir_get d id with Some f => _ | None => t end).
    assert (Hs' : sorted (dir_remove d id)) by (rewrite dir_remove_filter by exact Hs; apply dir_filter_sorted; exact Hs).
    specialize (IH (dir_remove d id) (adel x id) t' Hs').
    destruct (unlink_all (dir_remove d id) (adel x id) sel t') as [[d' x'] t''].
    destruct IH as [-> Hx]. split.
    + rewrite dir_remove_filter by exact Hs. rewrite dir_filter_filter. apply dir_filter_ext.
      intros j. unfold mem. cbn [existsb]. reflexivity.
    + intros g. rewrite Hx, sget_adel. unfold mem. cbn [existsb]. destruct (g =? id); cbn [orb]; [destruct (existsb _ sel); reflexivity|reflexivity].
Qed.

(* ---------- dropping a selected prefix of the log ---------- *)
Definition has_key (k : bytes) (L : list lentry) : bool := existsb (fun en => beq k (key_of en)) L.

Lemma lastloc_has_key L k a1 a2 : has_key k L = true -> lastloc L k a1 = lastloc L k a2.
Proof.
  revert a1 a2. induction L as [|[[f p] e] L IH]; intros a1 a2; cbn [has_key existsb key_of lastloc]; [discriminate|].
  destruct (beq k (e_key e)); cbn [orb]; [reflexivity|]. apply IH.
Qed.
Lemma lastloc_no_key L k a : has_key k L = false -> lastloc L k a = a.
Proof.
  revert a. induction L as [|[[f p] e] L IH]; intros a; cbn [has_key existsb key_of lastloc]; [reflexivity|].
  intros H. apply orb_false_iff in H as [H1 H2]. rewrite H1. apply IH. exact H2.
Qed.
Lemma lastval_has_key L k a1 a2 : has_key k L = true -> lastval L k a1 = lastval L k a2.
Proof.
  revert a1 a2. induction L as [|[[f p] e] L IH]; intros a1 a2; cbn [has_key existsb key_of lastval]; [discriminate|].
  destruct (beq k (e_key e)); cbn [orb]; [reflexivity|]. apply IH.
Qed.
Lemma lastval_no_key L k a : has_key k L = false -> lastval L k a = a.
Proof.
  revert a. induction L as [|[[f p] e] L IH]; intros a; cbn [has_key existsb key_of lastval]; [reflexivity|].
  intros H. apply orb_false_iff in H as [H1 H2]. rewrite H1. apply IH. exact H2.
Qed.

(* a location produced by [lastloc] is the location of a record of the log, with that key *)
Lemma lastloc_In L k l : lastloc L k None = Some l ->
  exists f p e, In (f, p, e) L /\ l = loc_of (f, p, e) /\ e_key e = k /\ e_val e <> None /\ lastval L k None = e_val e.
Proof.
  intros H. pose proof (lastloc_lastval k L None None ltac:(reflexivity)) as HL. rewrite H in HL.
  destruct HL as [[E _]|(f & p & e & Hin & El & Hv & Hn & Hk)]; [discriminate|].
  exists f, p, e. repeat split; auto.
Qed.
