(* Store/CrashScript.v — crash safety of whole scripts: every crash image (any call boundary, the last
   write cut at any byte) of the trace of any ready script recovers to the map after the first n
   operations, for some n: the acknowledged operations are there, the one in flight entirely or not at
   all.  Parametric in the per-operation statement, which Store/Crash.v proves for set / delete /
   reopen / get and Store/CrashMerge.v for a merge pass. *)
From BC Require Import Base.Bytes Store.Codec Store.CodecProofs Store.Engine Store.Log Store.Step Store.Cons Store.Inv Store.Refine
  Store.MergeLemmas Store.Merge Store.Sizes Store.Theorems Store.Crash.
From Coq Require Import Lia List NArith ZArith.
Import ListNotations.
Open Scope N_scope.

(* an image is fine for the map [m]: what the scanner reads from it is a directory (up to a torn tail
   that is a strict prefix of some record) that opens to a store reading [m] *)
Definition img_ok (img : fs) (m : bytes -> option bytes) : Prop := image_recovers img m.

Definition step_safe_at (c : cfg) (s : st) (o : op) : Prop :=
  forall s0, rep s0 (s_dir s) ->
    let '(s', _, t) := step c s o in
    trace_wf t ->
    (exists s1, fs_run s0 t = Some s1 /\ rep s1 (s_dir s')) /\
    forall img, image_of s0 t img -> img_ok img (abs s) \/ img_ok img (abs s').

Lemma img_ok_rep s0 s : Inv s -> rep s0 (s_dir s) -> img_ok s0 (abs s).
Proof.
  intros (Hs & _ & Hh & _ & _ & (fa & Hfa & _) & _) Hr. exists (s_dir s). split; [apply rep_reads; exact Hr|].
  apply recovers_log; [exact Hs| |exact Hh]. intros E. rewrite E in Hfa. discriminate.
Qed.

Lemma image_nil s0 img : image_of s0 [] img -> img = s0.
Proof.
  intros [t1 t2 E R|t1 f b1 b2 t2 E _ _].
  - symmetry in E. apply app_eq_nil in E as [-> _]. cbn in R. inversion R. reflexivity.
  - destruct t1; discriminate.
Qed.

Lemma silent_safe c s o : Inv s -> (let '(s', _, t) := step c s o in t = [] /\ s_dir s' = s_dir s /\ forall k, abs s' k = abs s k) -> step_safe_at c s o.
Proof.
  intros HI H s0 Hr. destruct (step c s o) as [[s' r] t]. destruct H as (-> & Hd & _). intros _. split.
  - exists s0. rewrite Hd. auto.
  - intros img Him. apply image_nil in Him. subst. left. apply img_ok_rep; assumption.
Qed.

Lemma write_safe c s k v s1 l t : Inv s -> write c s k v = ROk (s1, l, t) ->
  forall s0, rep s0 (s_dir s) -> trace_wf t ->
    (exists f1, fs_run s0 t = Some f1 /\ rep f1 (s_dir s1)) /\
    forall img, image_of s0 t img -> img_ok img (abs s) \/ img_ok img (fun k' => lastval (slog s1) k' None).
Proof.
  intros HI Hw s0 Hr Hwf.
  destruct (write_ok c s k v HI) as (s1' & l' & t' & Hw' & _ & Hlog & _ & _ & _ & Hs1 & _ & Hh1 & _).
  rewrite Hw in Hw'. inversion Hw'; subst s1' l' t'. cbv zeta in Hlog.
  destruct (write_crash_safe c s k v s1 l t s0 HI Hw Hr Hwf Hs1 Hh1 Hlog) as [Hrun Himg]. split; [exact Hrun|].
  intros img Him. destruct (Himg img Him) as [H|H]; [left|right]; exact H.
Qed.

Theorem set_safe c s k v : Inv s -> step_safe_at c s (OSet k v).
Proof.
  intros HI s0 Hr. cbn [step]. destruct (put_ok c s k v HI) as (s' & t & pos & Hp & _ & _ & _). rewrite Hp.
  unfold put in Hp. destruct (write c s k (Some v)) as [[[s1 l] t1]|e|e] eqn:Ew; try discriminate.
  assert (Hd : s_dir s' = s_dir s1 /\ t = t1).
  { destruct (iget (s_idx s1) k); [destruct (account_overwrite (s_stats s1) l0); [|discriminate]|]; inversion Hp; subst; split; reflexivity. }
  destruct Hd as [Hd ->]. intros Hwf. destruct (write_safe c s k (Some v) s1 l t1 HI Ew s0 Hr Hwf) as [Hrun Himg]. rewrite Hd. split; [exact Hrun|].
  intros img Him. destruct (Himg img Him) as [H|H]; [left; exact H|right]. unfold abs, slog. rewrite Hd. exact H.
Qed.

Theorem del_safe c s k : Inv s -> step_safe_at c s (ODel k).
Proof.
  intros HI s0 Hr. cbn [step]. destruct (delete_ok c s k HI) as (s' & t & pos & Hp & _). rewrite Hp.
  unfold delete in Hp. destruct (write c s k None) as [[[s1 l] t1]|e|e] eqn:Ew; try discriminate.
  assert (Hd : s_dir s' = s_dir s1 /\ t = t1).
  { destruct (iget (s_idx s1) k); [destruct (account_overwrite (s_stats s1) l0); [|discriminate]|]; inversion Hp; subst; split; reflexivity. }
  destruct Hd as [Hd ->].
  intros Hwf. destruct (write_safe c s k None s1 l t1 HI Ew s0 Hr Hwf) as [Hrun Himg]. rewrite Hd. split; [exact Hrun|].
  intros img Him. destruct (Himg img Him) as [H|H]; [left; exact H|right]. unfold abs, slog. rewrite Hd. exact H.
Qed.

Theorem get_safe c s k : Inv s -> step_safe_at c s (OGet k).
Proof. intros HI. apply silent_safe; [exact HI|]. cbn [step]. rewrite (get_abs s k HI). auto. Qed.

Theorem clock_safe c s t : Inv s -> step_safe_at c s (OClock t).
Proof. intros HI. apply silent_safe; [exact HI|]. cbn [step]. auto. Qed.

Theorem reopen_safe c s : Inv s -> step_safe_at c s OReopen.
Proof.
  intros HI s0 Hr. cbn [step]. destruct (reopen_ok s HI) as (s' & t & Ho & HI' & Hl & _). rewrite Ho.
  unfold reopen, open in Ho. destruct (rebuild_files (s_dir s) ([], [])) as [[i x]|]; [|discriminate]. inversion Ho; subst s' t. cbn [s_dir] in *.
  pose proof HI as (Hs & Hle & _ & _ & Hact & (fa & Hfa & _) & _).
  set (a := next_active (s_dir s)) in *.
  assert (Hn : dir_get (s_dir s) a = None).
  { unfold a, next_active. destruct (nmax (map fst (s_dir s))) as [m|] eqn:Em.
    - apply (ids_le_get_none _ m); [|lia]. apply nmax_ub in Em. unfold ids_le. rewrite Forall_forall in *. intros [j g] Hin. apply (Em j). apply in_map_iff. exists (j, g). auto.
    - destruct (s_dir s) as [|[j g] d']; [reflexivity|]. cbn in Em. destruct (nmax (map fst d')); discriminate. }
  destruct (rep_after_create s0 (s_dir s) a Hr Hn) as [Hcr Hr2]. rewrite (dir_set_new _ _ _ Hn) in *.
  intros _. split.
  - eexists. cbn [fs_run]. rewrite Hcr. split; [reflexivity|exact Hr2].
  - intros img Him. destruct Him as [t1 t2 E R|t1 f b1 b2 t2 E _ _].
    + destruct t1 as [|y t1]; cbn [app] in E.
      * cbn in R. inversion R; subst. left. apply img_ok_rep; assumption.
      * injection E as Hx E'. subst y. symmetry in E'. apply app_eq_nil in E' as [-> _]. cbn [fs_run] in R. rewrite Hcr in R. inversion R; subst.
        right. apply (img_ok_rep _ _ HI'). exact Hr2.
    + destruct t1 as [|y t1]; cbn [app] in E; [discriminate|]. injection E as _ E'. destruct t1; discriminate.
Qed.

(* ---------- composition over a script ---------- *)
Lemma image_app s0 t ts img s1 : fs_run s0 t = Some s1 -> image_of s0 (t ++ ts) img -> image_of s0 t img \/ image_of s1 ts img.
Proof.
  intros Hrun [t1 t2 E R|t1 f b1 b2 t2 E Hb R].
  - apply app_eq_app_cases in E as [(q1 & _ & E1 & _)|(p2 & -> & E2)].
    + left. eapply img_boundary; eauto.
    + right. rewrite fs_run_app, Hrun in R. eapply img_boundary; eauto.
  - apply app_eq_app_cases in E as [(q1 & Hq1 & E1 & E2)|(p2 & -> & E2)].
    + (* the torn write belongs to [t] *)
      destruct q1 as [|x q1]; [contradiction|]. cbn [app] in E2. injection E2 as Hx E3. subst x.
      left. eapply img_torn; [exact E1|exact Hb|exact R].
    + right. rewrite <- app_assoc, fs_run_app, Hrun in R. eapply img_torn; [exact E2|exact Hb|exact R].
Qed.

Fixpoint state_after (c : cfg) (s : st) (ops : list op) (n : nat) : st :=
  match n, ops with
  | S n', o :: ops' => state_after c (fst (fst (step c s o))) ops' n'
  | _, _ => s
  end.

Theorem script_crash_safe c : forall ops s s0,
  Inv s -> run_ready c s ops -> rep s0 (s_dir s) -> trace_wf (snd (run c s ops)) ->
  (forall s' o, Inv s' -> op_ready c s' o -> In o ops -> step_safe_at c s' o) ->
  (exists s1, fs_run s0 (snd (run c s ops)) = Some s1 /\ rep s1 (s_dir (fst (fst (run c s ops))))) /\
  forall img, image_of s0 (snd (run c s ops)) img ->
    exists n, (n <= length ops)%nat /\ img_ok img (abs (state_after c s ops n)).
Proof.
  induction ops as [|o ops IH]; intros s s0 HI Hready Hr Hwf Hsafe; cbn [run snd fst] in *.
  - split; [exists s0; auto|]. intros img Him. apply image_nil in Him. subst. exists 0%nat. split; [lia|]. cbn. apply img_ok_rep; assumption.
  - destruct Hready as [Hr1 Hr2].
    pose proof (Hsafe s o HI Hr1 (or_introl eq_refl) s0 Hr) as Hstep.
    pose proof (step_refines c s o HI Hr1) as Href.
    destruct (step c s o) as [[s1 r] t] eqn:Es. cbn [fst] in Hr2. destruct Href as (HI1 & _ & _).
    destruct (run c s1 ops) as [[s2 rs] ts] eqn:Er. cbn [snd fst] in *.
    unfold trace_wf in Hwf. apply Forall_app in Hwf as [Hwf1 Hwf2].
    destruct (Hstep Hwf1) as [(f1 & Hrun1 & Hrep1) Himg1].
    specialize (IH s1 f1 HI1 Hr2 Hrep1). rewrite Er in IH. cbn [snd fst] in IH.
    destruct (IH Hwf2 (fun s' o' H1 H2 H3 => Hsafe s' o' H1 H2 (or_intror H3))) as [(f2 & Hrun2 & Hrep2) Himg2].
    split.
    + exists f2. rewrite fs_run_app, Hrun1. auto.
    + intros img Him. destruct (image_app s0 t ts img f1 Hrun1 Him) as [H|H].
      * destruct (Himg1 img H) as [H0|H1].
        -- exists 0%nat. split; [lia|exact H0].
        -- exists 1%nat. split; [cbn; lia|]. cbn [state_after]. rewrite Es. cbn [fst]. destruct ops; exact H1.
      * destruct (Himg2 img H) as (n & Hn & Hok). exists (S n). split; [cbn; lia|]. cbn [state_after]. rewrite Es. exact Hok.
Qed.

(* merge-free scripts need no further hypothesis *)
Definition no_merge (ops : list op) : Prop := forall o, In o ops -> is_merge o = false.

Theorem nomerge_step_safe c s o : Inv s -> is_merge o = false -> step_safe_at c s o.
Proof.
  intros HI Hm. destruct o; try discriminate.
  - apply set_safe; exact HI.
  - apply get_safe; exact HI.
  - apply del_safe; exact HI.
  - apply reopen_safe; exact HI.
  - apply clock_safe; exact HI.
Qed.

Lemma no_merge_ready c : forall ops s, no_merge ops -> run_ready c s ops.
Proof.
  induction ops as [|o ops IH]; intros s H; cbn [run_ready]; [exact I|]. split.
  - specialize (H o (or_introl eq_refl)). destruct o; try discriminate; exact I.
  - apply IH. intros o' Ho'. apply H. right. exact Ho'.
Qed.

Theorem crash_safe_no_merge c ops s0 : no_merge ops -> rep s0 (s_dir init) -> trace_wf (snd (run c init ops)) ->
  forall img, image_of s0 (snd (run c init ops)) img ->
    exists n, (n <= length ops)%nat /\ img_ok img (abs (state_after c init ops n)).
Proof.
  intros Hn Hr Hwf. apply script_crash_safe; [exact (proj1 init_inv)|apply no_merge_ready; exact Hn|exact Hr|exact Hwf|].
  intros s' o HI _ Hin. apply nomerge_step_safe; [exact HI|apply Hn; exact Hin].
Qed.
