(* Store/MergeFail.v — executable model of a merge pass that stops because the write of a hint entry failed (C20).
   Definitions only (theorems: Store/FaultMerge.v; rendering for the correspondence runs: Store/Render.v). *)
From BC Require Import Store.Engine.
Open Scope N_scope.

(* the state a pass is left in when the hint write for key [k] fails, after the keys [ord1] went through *)
(* [repoint_first]: the pinned order (index entry moved before the hint write).  [row_first]: the merge file's row of the
   statistics is written before the hint write (pinned code and final repair a53a922: yes; first repair 97ca669: no).
   [retried]: the bytes of the hint entry were still in std's BufWriter when the write failed and its Drop wrote them
   out after all (a hint entry below the buffer size), so the hint file lists the entry although the pass has failed. *)
Definition merge_fail_hint (repoint_first row_first retried : bool) (c : cfg) (s : st) (ord1 : list bytes) (k : bytes) : res st :=
  let id0 := s_last s + 1 in
  match select c s with
  | RFail e => RFail e | RPanicked e => RPanicked e
  | ROk sel0 =>
    let sel := sort_ids sel0 in
    match create_pair (s_dir s) id0 with
    | None => RFail EExists
    | Some d0 =>
      let m0 := mkM d0 (s_idx s) (s_stats s) id0 0 id0 [SCreate (FHint id0); SCreate (FData id0)] in
      match merge_loop c sel m0 ord1 with
      | RFail e => RFail e | RPanicked e => RPanicked e
      | ROk m =>
        match iget (m_idx m) k with
        | None => RFail EBadOracle
        | Some l =>
          if negb (mem (l_fid l) sel) then RFail EBadOracle else
          match read_loc (m_dir m) l with
          | RFail e => RFail e | RPanicked e => RPanicked e
          | ROk e =>
            match append_data (m_dir m) (m_id m) e with
            | None => RFail ENotFound
            | Some (d1, _) =>
              let i := if repoint_first then aset (m_idx m) k (mkLoc (m_id m) (m_pos m) (l_len l) (l_ts l)) else m_idx m in
              let x := if repoint_first || row_first then aset (m_stats m) (m_id m) (add_live (sget0 (m_stats m) (m_id m))) else m_stats m in
              let d2 := if retried then append_hint d1 (m_id m) (mkHint (l_ts l) (l_len l) (m_pos m) k) else d1 in
              ROk (mkSt d2 i x (s_active s) (s_written s) (m_last m) true (s_clock s))
            end
          end
        end
      end
    end
  end.

