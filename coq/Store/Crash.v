(* Store/Crash.v — crash safety at the byte level for set / delete (with rollover) and reopen.
   A byte-level file system executes the model's system-call traces; a CRASH IMAGE of a trace is the
   file system after any prefix of the calls, the last write possibly cut at any byte.  For every
   image of the trace of a set or a delete we exhibit the record-level directory the scanner reads
   from it (Store/CodecProofs.v: a torn tail is end-of-input) and show that opening it yields the
   state before the operation or the state after it — nothing else.  Lifted to scripts of sets,
   deletes and reopens: every crash image of every script recovers to the map after the acknowledged
   operations, with or without the operation in flight.  Merge passes: Store/CrashMerge.v. *)
From BC Require Import Base.Bytes Store.Codec Store.CodecProofs Store.Engine Store.Log Store.Step Store.Cons Store.Inv Store.Refine.
From Coq Require Import Lia List NArith ZArith.
Import ListNotations.
Open Scope N_scope.

(* ---------- byte-level file system ---------- *)
Definition fs := fname -> option bytes.
Definition fn_eqb (a b : fname) : bool :=
  match a, b with FData i, FData j | FHint i, FHint j => i =? j | _, _ => false end.
Lemma fn_eqb_eq a b : fn_eqb a b = true <-> a = b.
Proof. destruct a, b; cbn; rewrite ?N.eqb_eq; split; intros H; try discriminate; try (inversion H; reflexivity); subst; reflexivity. Qed.
Lemma fn_eqb_refl a : fn_eqb a a = true.
Proof. apply fn_eqb_eq. reflexivity. Qed.
Definition fupd (s : fs) (f : fname) (v : option bytes) : fs := fun g => if fn_eqb g f then v else s g.
Lemma fupd_same s f v : fupd s f v f = v.
Proof. unfold fupd. rewrite fn_eqb_refl. reflexivity. Qed.
Lemma fupd_other s f v g : g <> f -> fupd s f v g = s g.
Proof. intros H. unfold fupd. destruct (fn_eqb g f) eqn:E; [apply fn_eqb_eq in E; contradiction|reflexivity]. Qed.

Definition fs_step (s : fs) (c : syscall) : option fs :=
  match c with
  | SCreate f => match s f with None => Some (fupd s f (Some [])) | Some _ => None end      (* O_CREAT|O_EXCL *)
  | SWrite f b => match s f with Some x => Some (fupd s f (Some (x ++ b))) | None => None end   (* O_APPEND *)
  | SFsync f => match s f with Some _ => Some s | None => None end
  | SUnlink f => match s f with Some _ => Some (fupd s f None) | None => None end
  end.
Fixpoint fs_run (s : fs) (t : list syscall) : option fs :=
  match t with [] => Some s | c :: t' => match fs_step s c with Some s' => fs_run s' t' | None => None end end.

Lemma fs_run_app t1 : forall s t2, fs_run s (t1 ++ t2) = match fs_run s t1 with Some s' => fs_run s' t2 | None => None end.
Proof. induction t1 as [|c t1 IH]; intros s t2; cbn [app fs_run]; [reflexivity|]. destruct (fs_step s c); [apply IH|reflexivity]. Qed.

(* the crash images of a trace *)
Inductive image_of (s0 : fs) (t : list syscall) (img : fs) : Prop :=
| img_boundary t1 t2 : t = t1 ++ t2 -> fs_run s0 t1 = Some img -> image_of s0 t img
| img_torn t1 f b1 b2 t2 : t = t1 ++ SWrite f (b1 ++ b2) :: t2 -> b2 <> [] ->
    fs_run s0 (t1 ++ [SWrite f b1]) = Some img -> image_of s0 t img.

(* ---------- representation of a record-level directory by bytes ---------- *)
(* [torn]: the data file [fst torn] carries the extra bytes [snd torn] after its records *)
Definition rep_torn (s : fs) (d : dir) (torn : N * bytes) : Prop :=
  forall id, match dir_get d id with
             | Some f => s (FData id) = Some (file_bytes (d_data f) ++ (if id =? fst torn then snd torn else [])) /\
                         s (FHint id) = option_map hint_bytes (d_hint f)
             | None => s (FData id) = None /\ s (FHint id) = None
             end.
Definition rep (s : fs) (d : dir) : Prop := rep_torn s d (0, []).

Lemma rep_torn_nil s d a : rep_torn s d (a, []) <-> rep s d.
Proof.
  unfold rep, rep_torn. cbn [fst snd]. split; intros H id; specialize (H id); destruct (dir_get d id); auto;
    destruct (id =? a), (id =? 0); exact H.
Qed.

(* What the scanner reads.  A file without hint file is scanned record by record: its bytes are the
   records of [d] and possibly a torn tail (a strict prefix of some record), which reads as end of
   input.  Of a file with a hint file only the hint file is scanned (its last entry may be torn); the
   data file is not read at start-up, whatever follows the records the hints describe. *)
Definition torn_entry (tail : bytes) : Prop := tail = [] \/ exists e q, wf_entry e /\ q <> [] /\ enc_entry e = tail ++ q.
Definition torn_hint (tail : bytes) : Prop := tail = [] \/ exists h q, wf_hint h /\ q <> [] /\ enc_hint h = tail ++ q.

Definition reads_as (img : fs) (d : dir) : Prop :=
  forall id, match dir_get d id with
             | Some f =>
               match d_hint f with
               | None => (exists tail, img (FData id) = Some (file_bytes (d_data f) ++ tail) /\ torn_entry tail) /\ img (FHint id) = None
               | Some hs => (exists b, img (FData id) = Some (file_bytes (d_data f) ++ b)) /\
                            (exists tail, img (FHint id) = Some (hint_bytes hs ++ tail) /\ torn_hint tail)
               end
             | None => img (FData id) = None /\ img (FHint id) = None
             end.

Lemma rep_torn_reads img d a p : rep_torn img d (a, p) -> torn_entry p -> reads_as img d.
Proof.
  intros Hr Ht id. specialize (Hr id). cbn [fst snd] in Hr. destruct (dir_get d id) as [f|]; [|exact Hr]. destruct Hr as [Hd Hh].
  destruct (d_hint f) as [hs|]; cbn [option_map] in Hh.
  - split; [eexists; exact Hd|]. exists []. rewrite app_nil_r. split; [exact Hh|left; reflexivity].
  - split; [|exact Hh]. eexists. split; [exact Hd|]. destruct (id =? a); [exact Ht|left; reflexivity].
Qed.

Lemma rep_reads img d : rep img d -> reads_as img d.
Proof. intros H. apply (rep_torn_reads img d 0 []); [exact H|left; reflexivity]. Qed.

Lemma dir_get_set d id f : forall j, dir_get (dir_set d id f) j = if id =? j then Some f else dir_get d j.
Proof.
  induction d as [|[i g] d IH]; intros j; cbn [dir_set dir_get].
  - reflexivity.
  - destruct (i =? id) eqn:E; cbn [dir_get].
    + apply N.eqb_eq in E. subst i. destruct (id =? j); reflexivity.
    + rewrite IH. destruct (i =? j) eqn:E2; [|reflexivity]. apply N.eqb_eq in E2. subst i. rewrite N.eqb_sym, E. reflexivity.
Qed.

(* ---------- what the scanner reads from an image ---------- *)
Definition wf_dir (d : dir) : Prop := forall id f, In (id, f) d -> Forall wf_entry (d_data f).

(* what [reads_as] means for the scanner: record by record for files without hint file, hint by hint
   otherwise — torn tails read as end of input, provided the torn record is representable *)
Definition wf_hints (d : dir) : Prop := forall id f hs, In (id, f) d -> d_hint f = Some hs -> Forall wf_hint hs.

Definition dir_hints_ok (d : dir) : Prop := forall id f, In (id, f) d -> hints_ok f.

Lemma hints_of_fit : forall es pos h, In h (hints_of es pos) -> h_pos h + h_len h <= pos + data_size es.
Proof.
  induction es as [|e es IH]; intros pos h Hin; cbn [hints_of data_size In] in *; [destruct Hin|].
  destruct Hin as [<-|Hin]; [cbn; lia|]. specialize (IH _ _ Hin). lia.
Qed.

Theorem reads_scan img d : reads_as img d -> wf_dir d -> wf_hints d -> dir_hints_ok d ->
  forall id f, dir_get d id = Some f ->
    match d_hint f with
    | None => exists b, img (FData id) = Some b /\ scan dec_entry b = Some (layout 0 (d_data f))
    | Some hs => (exists b, img (FHint id) = Some b /\ scan dec_hint b = Some (hint_layout 0 hs)) /\
                 (* and every hint lies within the data file, whose bytes are not read *)
                 (exists bd, img (FData id) = Some bd /\ Forall (fun h => h_pos h + h_len h <= blen bd) hs)
    end.
Proof.
  intros Hr Hw Hwh Hok id f Hg. specialize (Hr id). rewrite Hg in Hr. pose proof (dir_get_In _ _ _ Hg) as Hin.
  destruct (d_hint f) as [hs|] eqn:Eh.
  - destruct Hr as [(bx & Hbd) (tail & Hb & Ht)]. split.
    2:{ eexists. split; [exact Hbd|]. pose proof (Hok id f Hin) as Hho. unfold hints_ok in Hho. rewrite Eh in Hho. destruct Hho as [-> _].
        rewrite Forall_forall. intros h Hh. apply hints_of_fit in Hh. rewrite blen_app.
        assert (blen (file_bytes (d_data f)) = data_size (d_data f)).
        { clear. induction (d_data f) as [|e es IH]; cbn [file_bytes data_size]; [reflexivity|]. rewrite blen_app, enc_entry_size, IH. reflexivity. }
        lia. }
    eexists. split; [exact Hb|]. pose proof (Hwh id f hs Hin Eh) as Hhs.
    destruct Ht as [->|(h & q & Hwfh & Hq & E)]; [rewrite app_nil_r; apply scan_hint_file; exact Hhs|].
    eapply scan_torn_hint_file; eauto.
  - destruct Hr as [(tail & Hb & Ht) _]. eexists. split; [exact Hb|]. pose proof (Hw id f Hin) as Hf.
    destruct Ht as [->|(e & q & Hwfe & Hq & E)]; [rewrite app_nil_r; apply scan_file; exact Hf|].
    eapply scan_torn_file; eauto.
Qed.

Lemma sorted_app_inv_l (d1 d2 : dir) : sorted (d1 ++ d2) -> sorted d1.
Proof.
  induction d1 as [|[i g] d1 IH]; cbn [app sorted]; [auto|]. intros [Hg Hs]. split; [|apply IH; exact Hs].
  unfold ids_gt in *. apply Forall_app in Hg. tauto.
Qed.

(* ---------- the shape of an append ---------- *)
Definition sync_calls (c : cfg) (a : N) : list syscall := if c_sync c then [SFsync (FData a)] else [].

Lemma write_shape c s k v s' l t : Inv s -> write c s k v = ROk (s', l, t) ->
  exists fa, dir_get (s_dir s) (s_active s) = Some fa /\ d_hint fa = None /\
    let a := s_active s in
    let e := mkEntry (s_clock s) k v in
    let d2 := dir_set (s_dir s) a (mkFile (d_data fa ++ [e]) None) in
    (t = SWrite (FData a) (enc_entry e) :: sync_calls c a /\ s_dir s' = d2) \/
    (t = SWrite (FData a) (enc_entry e) :: sync_calls c a ++ [SCreate (FData (s_last s + 1))] /\
     s_dir s' = d2 ++ [(s_last s + 1, empty_file)] /\ dir_get d2 (s_last s + 1) = None).
Proof.
  intros (Hs & Hle & Hh & Hst & Hact & (fa & Hfa & Hfh) & HC) H. exists fa. split; [exact Hfa|]. split; [exact Hfh|].
  unfold write in H. rewrite Hst in H. unfold append_data in H. rewrite Hfa in H. rewrite Hfh in H.
  cbv zeta. set (e := mkEntry (s_clock s) k v) in *. set (a := s_active s) in *.
  set (d2 := dir_set (s_dir s) a (mkFile (d_data fa ++ [e]) None)) in *.
  destruct (c_max c <? s_written s + entry_size e) eqn:Er.
  - unfold new_active in H. cbn [s_last s_dir s_idx s_stats s_clock] in H.
    assert (Hn : dir_get d2 (s_last s + 1) = None).
    { unfold d2. rewrite dir_get_set. replace (a =? s_last s + 1) with false by (symmetry; apply N.eqb_neq; unfold a; lia).
      apply (ids_le_get_none _ (s_last s)); [exact Hle|lia]. }
    rewrite Hn in H. inversion H; subst. right. cbn [app s_dir]. split; [reflexivity|]. split; [apply dir_set_new; exact Hn|exact Hn].
  - inversion H; subst. left. cbn [app s_dir]. split; reflexivity.
Qed.

(* ---------- the file system follows the trace of an append, and every image is represented ---------- *)
Lemma rep_write s d a fa b : rep s d -> dir_get d a = Some fa ->
  fs_step s (SWrite (FData a) b) = Some (fupd s (FData a) (Some (file_bytes (d_data fa) ++ b))).
Proof.
  intros Hr Hg. specialize (Hr a). rewrite Hg in Hr. destruct Hr as [Hd _]. cbn [fst snd] in Hd.
  unfold fs_step. rewrite Hd. destruct (a =? 0); rewrite app_nil_r; reflexivity.
Qed.

Lemma file_bytes_app es e : file_bytes (es ++ [e]) = file_bytes es ++ enc_entry e.
Proof. induction es as [|x es IH]; cbn [app file_bytes]; [rewrite app_nil_r; reflexivity|]. rewrite IH, app_assoc. reflexivity. Qed.

(* after the (possibly partial) write the image is the old directory with a torn tail *)
Lemma rep_after_partial s d a fa p : rep s d -> dir_get d a = Some fa ->
  rep_torn (fupd s (FData a) (Some (file_bytes (d_data fa) ++ p))) d (a, p).
Proof.
  intros Hr Hg id. pose proof (Hr id) as H. cbn [fst snd] in *. destruct (N.eq_dec id a) as [->|Hne].
  - rewrite Hg in *. rewrite fupd_same, N.eqb_refl. rewrite fupd_other by discriminate. destruct H as [_ Hh]. auto.
  - replace (id =? a) with false by (symmetry; apply N.eqb_neq; exact Hne).
    rewrite !fupd_other by (intros E; inversion E; contradiction).
    destruct (dir_get d id); [|exact H]. destruct H as [Hd Hh]. split; [|exact Hh]. rewrite Hd. destruct (id =? 0); rewrite ?app_nil_r; reflexivity.
Qed.

(* after the whole write it is the directory with the record appended *)
Lemma rep_after_write s d a fa e : rep s d -> dir_get d a = Some fa -> d_hint fa = None ->
  rep (fupd s (FData a) (Some (file_bytes (d_data fa) ++ enc_entry e))) (dir_set d a (mkFile (d_data fa ++ [e]) None)).
Proof.
  intros Hr Hg Hh id. pose proof (Hr id) as H. cbn [fst snd] in *. rewrite dir_get_set. destruct (N.eq_dec a id) as [->|Hne].
  - rewrite N.eqb_refl. cbn [d_data d_hint]. rewrite Hg in H. rewrite fupd_same, file_bytes_app. rewrite fupd_other by discriminate.
    destruct H as [_ H2]. rewrite Hh in H2. split; [destruct (id =? 0); rewrite ?app_nil_r; reflexivity|exact H2].
  - replace (a =? id) with false by (symmetry; apply N.eqb_neq; exact Hne).
    rewrite !fupd_other by (intros E; inversion E; subst; contradiction). exact H.
Qed.

Lemma rep_after_create s d id : rep s d -> dir_get d id = None ->
  fs_step s (SCreate (FData id)) = Some (fupd s (FData id) (Some [])) /\ rep (fupd s (FData id) (Some [])) (d ++ [(id, empty_file)]).
Proof.
  intros Hr Hn. pose proof (Hr id) as H. rewrite Hn in H. destruct H as [H1 H2]. unfold fs_step. rewrite H1. split; [reflexivity|].
  intros j. rewrite <- (dir_set_new d id empty_file Hn), dir_get_set. destruct (N.eq_dec id j) as [->|Hne].
  - rewrite N.eqb_refl, fupd_same. rewrite fupd_other by discriminate. cbn [fst snd empty_file d_data d_hint file_bytes option_map app].
    destruct (j =? 0); rewrite H2; auto.
  - replace (id =? j) with false by (symmetry; apply N.eqb_neq; exact Hne).
    rewrite !fupd_other by (intros E; inversion E; subst; contradiction). exact (Hr j).
Qed.

Lemma fs_run_sync s c a : s (FData a) <> None -> fs_run s (sync_calls c a) = Some s.
Proof. intros H. unfold sync_calls. destruct (c_sync c); cbn [fs_run fs_step]; [|reflexivity]. destruct (s (FData a)); [reflexivity|contradiction]. Qed.

(* prefixes of a list, by cases on its shape *)
Lemma prefix_cons {A} (x : A) l t1 t2 : x :: l = t1 ++ t2 -> (t1 = [] /\ t2 = x :: l) \/ (exists t1', t1 = x :: t1' /\ l = t1' ++ t2).
Proof. destruct t1 as [|y t1']; cbn [app]; intros H; [left; auto|right]. inversion H; subst. eauto. Qed.

(* [d] is a directory whose hint files describe their data files, and opening it yields the map [m] *)
Definition recovers_to (d : dir) (m : bytes -> option bytes) : Prop :=
  dir_hints_ok d /\
  forall clk, exists s' t, open d clk = ROk (s', tt, t) /\ Inv s' /\ forall k, abs s' k = m k.

Lemma recovers_log d : sorted d -> d <> [] -> (forall id f, In (id, f) d -> hints_ok f) ->
  recovers_to d (fun k => lastval (log_of_dir d) k None).
Proof.
  intros Hs Hn Hh. split; [exact Hh|]. intros clk. destruct (open_ok d clk Hs Hn Hh) as (s' & t & Ho & HI & Hl & _). exists s', t. split; [exact Ho|]. split; [exact HI|].
  intros k. unfold abs. rewrite Hl. reflexivity.
Qed.

(* The verdict for an image: it is represented — up to a torn tail that is a strict prefix of the
   record in flight — by a directory that recovers to the map [m]. *)
Definition image_recovers (img : fs) (m : bytes -> option bytes) : Prop :=
  exists d, reads_as img d /\ recovers_to d m.

Lemma mk_img img d a p e q m : wf_entry e -> rep_torn img d (a, p) -> enc_entry e = p ++ q -> (p = [] \/ q <> []) -> recovers_to d m -> image_recovers img m.
Proof.
  intros Hwfe Hr E Hpq Hrec. exists d. split; [|exact Hrec]. apply (rep_torn_reads img d a p Hr).
  destruct Hpq as [->|Hq]; [left; reflexivity|right; exists e, q; auto].
Qed.

(* every record and hint the trace writes is representable (lengths below 2^64, timestamps in i64) *)
Definition call_wf (c : syscall) : Prop :=
  match c with
  | SWrite (FData _) b => exists e, wf_entry e /\ b = enc_entry e
  | SWrite (FHint _) b => exists h, wf_hint h /\ b = enc_hint h
  | _ => True
  end.
Definition trace_wf (t : list syscall) : Prop := Forall call_wf t.

(* ---------- one append ---------- *)
Theorem write_crash_safe c s k v s' l t s0 : Inv s -> write c s k v = ROk (s', l, t) -> rep s0 (s_dir s) -> trace_wf t ->
  sorted (s_dir s') -> (forall id f, In (id, f) (s_dir s') -> hints_ok f) ->
  slog s' = slog s ++ [(s_active s, l_pos l, mkEntry (s_clock s) k v)] ->
  let e := mkEntry (s_clock s) k v in
  let before := fun k' => lastval (slog s) k' None in
  let after := fun k' => lastval (slog s') k' None in
  (exists s1, fs_run s0 t = Some s1 /\ rep s1 (s_dir s')) /\
  forall img, image_of s0 t img -> image_recovers img before \/ image_recovers img after.
Proof.
  intros HI Hw Hr Hwft Hs' Hh' Hlog. cbv zeta.
  destruct (write_shape c s k v s' l t HI Hw) as (fa & Hfa & Hfh & Hshape). cbv zeta in Hshape.
  set (e := mkEntry (s_clock s) k v) in *. set (a := s_active s) in *.
  assert (Hwfe : exists e', wf_entry e' /\ enc_entry e = enc_entry e').
  { destruct Hshape as [(Ht & _)|(Ht & _)]; rewrite Ht in Hwft; inversion Hwft as [|? ? Hc _]; subst; exact Hc. }
  destruct Hwfe as (e' & Hwfe & Ee').
  set (d2 := dir_set (s_dir s) a (mkFile (d_data fa ++ [e]) None)) in *.
  pose proof HI as (Hs & Hle & Hh & _ & _ & _ & _).
  assert (Hne : s_dir s <> []) by (intros E; rewrite E in Hfa; discriminate).
  set (s1 := fupd s0 (FData a) (Some (file_bytes (d_data fa) ++ enc_entry e))).
  assert (Hstep : fs_step s0 (SWrite (FData a) (enc_entry e)) = Some s1) by (apply rep_write with (d := s_dir s); assumption).
  assert (Hr1 : rep s1 d2) by (apply rep_after_write; assumption).
  assert (Hex1 : s1 (FData a) <> None) by (unfold s1; rewrite fupd_same; discriminate).
  (* recovery verdicts *)
  assert (Vbefore : recovers_to (s_dir s) (fun k' => lastval (slog s) k' None)) by (apply recovers_log; assumption).
  assert (Hlog2 : log_of_dir d2 = slog s').
  { destruct Hshape as [(_ & Hd)|(_ & Hd & _)]; unfold slog; rewrite Hd; [reflexivity|rewrite log_of_dir_app_empty; reflexivity]. }
  assert (Hs2 : sorted d2 /\ (forall id f, In (id, f) d2 -> hints_ok f)).
  { destruct Hshape as [(_ & Hd)|(_ & Hd & _)]; rewrite Hd in Hs', Hh'; [split; assumption|].
    split; [eapply sorted_app_inv_l; exact Hs'|intros id f Hin; apply (Hh' id f); apply in_or_app; left; exact Hin]. }
  assert (Hne2 : d2 <> []) by (unfold d2; destruct (s_dir s) as [|[i g] r]; [congruence|cbn [dir_set]; destruct (i =? a); discriminate]).
  assert (V2 : recovers_to d2 (fun k' => lastval (slog s') k' None)) by (rewrite <- Hlog2; apply recovers_log; tauto).
  assert (Vafter : recovers_to (s_dir s') (fun k' => lastval (slog s') k' None)).
  { apply recovers_log; [exact Hs'| |exact Hh']. destruct Hshape as [(_ & Hd)|(_ & Hd & _)]; rewrite Hd; [exact Hne2|destruct d2; discriminate]. }
  (* the images of [SWrite .. :: rest] where [rest] does not touch the record bytes *)
  assert (Himg_write : forall img t1 t2, SWrite (FData a) (enc_entry e) :: sync_calls c a = t1 ++ t2 -> fs_run s0 t1 = Some img ->
            image_recovers img (fun k' => lastval (slog s) k' None) \/ image_recovers img (fun k' => lastval (slog s') k' None)).
  { intros img t1 t2 E R. apply prefix_cons in E as [[-> _]|(t1' & -> & E')].
    - cbn [fs_run] in R. inversion R; subst. left. apply (mk_img _ (s_dir s) a [] e' (enc_entry e') _ Hwfe); [apply rep_torn_nil; exact Hr|reflexivity|left; reflexivity|exact Vbefore].
    - cbn [fs_run] in R. rewrite Hstep in R. right.
      assert (img = s1).
      { unfold sync_calls in E'. destruct (c_sync c).
        - apply prefix_cons in E' as [[-> _]|(t1'' & -> & E'')]; [cbn in R; inversion R; reflexivity|].
          destruct t1''; [|destruct t1''; discriminate]. cbn [fs_run fs_step] in R. destruct (s1 (FData a)); [inversion R; reflexivity|contradiction].
        - destruct t1'; [cbn in R; inversion R; reflexivity|discriminate]. }
      subst img. apply (mk_img s1 d2 a [] e' (enc_entry e') _ Hwfe); [apply rep_torn_nil; exact Hr1|reflexivity|left; reflexivity|exact V2]. }
  assert (Himg_torn : forall img b1 b2, enc_entry e = b1 ++ b2 -> b2 <> [] -> fs_run s0 [SWrite (FData a) b1] = Some img ->
            image_recovers img (fun k' => lastval (slog s) k' None)).
  { intros img b1 b2 E Hb R. cbn [fs_run] in R. rewrite (rep_write s0 (s_dir s) a fa b1 Hr Hfa) in R. inversion R; subst.
    apply (mk_img _ (s_dir s) a b1 e' b2 _ Hwfe); [apply rep_after_partial; assumption|rewrite <- Ee'; exact E|right; exact Hb|exact Vbefore]. }
  destruct Hshape as [(Ht & Hd)|(Ht & Hd & Hn)].
  - (* no rollover *)
    split.
    + exists s1. rewrite Ht. cbn [fs_run]. rewrite Hstep, fs_run_sync by exact Hex1. rewrite Hd. auto.
    + intros img Him. rewrite Ht in Him. destruct Him as [t1 t2 E R|t1 f b1 b2 t2 E Hb R].
      * eapply Himg_write; eauto.
      * apply prefix_cons in E as [[-> E]|(t1' & -> & E')].
        -- injection E as Hf Hb12. subst f. left. exact (Himg_torn img b1 b2 (eq_sym Hb12) Hb R).
        -- exfalso. unfold sync_calls in E'. destruct (c_sync c); [|destruct t1'; discriminate].
           destruct t1' as [|x t1'']; [discriminate|]. cbn [app] in E'. inversion E' as [[Hx E'']]. destruct t1''; discriminate.
  - (* rollover: one more call, the creation of the next active file *)
    destruct (rep_after_create s1 d2 (s_last s + 1) Hr1 Hn) as [Hcr Hr2].
    assert (Hrun : fs_run s0 (SWrite (FData a) (enc_entry e) :: sync_calls c a) = Some s1)
      by (cbn [fs_run]; rewrite Hstep; apply fs_run_sync; exact Hex1).
    assert (Hrun2 : forall rest, fs_run s0 ((SWrite (FData a) (enc_entry e) :: sync_calls c a) ++ rest) = fs_run s1 rest)
      by (intros rest; rewrite fs_run_app, Hrun; reflexivity).
    split.
    + exists (fupd s1 (FData (s_last s + 1)) (Some [])). rewrite Ht.
      change (SWrite (FData a) (enc_entry e) :: sync_calls c a ++ [SCreate (FData (s_last s + 1))])
        with ((SWrite (FData a) (enc_entry e) :: sync_calls c a) ++ [SCreate (FData (s_last s + 1))]).
      rewrite Hrun2. cbn [fs_run]. rewrite Hcr, Hd. auto.
    + intros img Him. rewrite Ht in Him.
      change (SWrite (FData a) (enc_entry e) :: sync_calls c a ++ [SCreate (FData (s_last s + 1))])
        with ((SWrite (FData a) (enc_entry e) :: sync_calls c a) ++ [SCreate (FData (s_last s + 1))]) in Him.
      destruct Him as [t1 t2 E R|t1 f b1 b2 t2 E Hb R].
      * (* a prefix of (w ++ [create]) is a prefix of w, or everything *)
        apply app_eq_app_cases in E as [(q1 & Hq1 & E1 & _)|(p2 & -> & E2)].
        -- eapply Himg_write; [exact E1|exact R].
        -- rewrite Hrun2 in R. destruct p2 as [|x p2].
           ++ cbn in R. inversion R; subst. right. apply (mk_img _ d2 a [] e' (enc_entry e') _ Hwfe); [apply rep_torn_nil; exact Hr1|reflexivity|left; reflexivity|exact V2].
           ++ cbn [app] in E2. inversion E2 as [[Hx E3]]. subst x. destruct p2; [|destruct p2; discriminate].
              cbn [fs_run] in R. rewrite Hcr in R. inversion R; subst. right. apply (mk_img _ (s_dir s') a [] e' (enc_entry e') _ Hwfe); [apply rep_torn_nil; rewrite Hd; exact Hr2|reflexivity|left; reflexivity|exact Vafter].
      * apply prefix_cons in E as [[-> E]|(t1' & -> & E')].
        -- injection E as Hf Hb12. subst f. left. exact (Himg_torn img b1 b2 (eq_sym Hb12) Hb R).
        -- exfalso. assert (Hnw : forall x, In x (sync_calls c a ++ [SCreate (FData (s_last s + 1))]) -> forall g b, x <> SWrite g b).
           { intros x Hx g b. unfold sync_calls in Hx. destruct (c_sync c); cbn in Hx; intuition (subst; discriminate). }
           assert (Hin : In (SWrite f (b1 ++ b2)) (t1' ++ SWrite f (b1 ++ b2) :: t2)) by (apply in_or_app; right; left; reflexivity).
           rewrite <- E' in Hin. exact (Hnw _ Hin f (b1 ++ b2) eq_refl).
Qed.
