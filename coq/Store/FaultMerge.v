(* Store/FaultMerge.v — a merge pass that stops in the middle of its copy loop because the write of a HINT entry
   failed (C20).  A restart reads a merge file through its hint file only, so what matters for every later restart is
       [reach_ok]: every index entry lies in a file that exists, and if that file has a hint file the entry is listed there.
   The loop copies a record, writes its hint entry and moves the index entry to the copy.  With the repaired order
   (97ca669: hint entry first, index entry afterwards) a failure of the hint write leaves the index entry where it was —
   [reach_ok] survives a failure at ANY entry of ANY pass ([hint_first_keeps_reach]).  With the pinned order (index entry
   first) it is lost: the entry points at a copy the hint file does not list, and the history of the finding
       set K v; set a 1; set a 2; merge (hint write of K fails); merge; restart; get K
   computed in the model loses K under the pinned order only ([pinned_order_loses_key], [repaired_order_keeps_key]).
   Not proved: the map a restart yields after the process went on behind the failed pass (the unlisted copy breaks
   [hints_ok], hence [Inv]); that is decided by the fault sweep of `bin/check C20`. *)
From BC Require Import Base.Bytes Store.Codec Store.Engine Store.Log Store.Step Store.Cons Store.Inv Store.Refine
  Store.MergeLemmas Store.Merge Store.Sizes Store.Theorems Store.Crash Store.MergeFail.
From Coq Require Import Lia List NArith ZArith Bool.
Import ListNotations.
Open Scope N_scope.

Definition listed (hs : list hint) (k : bytes) (l : loc) : Prop :=
  exists h, In h hs /\ h_pos h = l_pos l /\ h_key h = k.

Definition reach_ok (d : dir) (i : index) : Prop :=
  forall k l, iget i k = Some l ->
    exists f, dir_get d (l_fid l) = Some f /\ forall hs, d_hint f = Some hs -> listed hs k l.

(* ---------- directory updates ---------- *)
Lemma append_data_get d id e d1 p : append_data d id e = Some (d1, p) ->
  exists f, dir_get d id = Some f /\
    forall j, dir_get d1 j = if id =? j then Some (mkFile (d_data f ++ [e]) (d_hint f)) else dir_get d j.
Proof.
  unfold append_data. destruct (dir_get d id) as [f|] eqn:E; [|discriminate]. intros H. injection H as <- _.
  exists f. split; [reflexivity|]. intros j. apply dir_get_set.
Qed.

Lemma append_hint_get d id h f : dir_get d id = Some f ->
  forall j, dir_get (append_hint d id h) j =
            if id =? j then Some (mkFile (d_data f) (match d_hint f with Some hs => Some (hs ++ [h]) | None => Some [h] end)) else dir_get d j.
Proof. intros E j. unfold append_hint. rewrite E. apply dir_get_set. Qed.

Lemma create_pair_get d id d' : create_pair d id = Some d' ->
  dir_get d id = None /\ forall j, dir_get d' j = if id =? j then Some (mkFile [] (Some [])) else dir_get d j.
Proof.
  unfold create_pair. destruct (dir_get d id) eqn:E; [discriminate|]. intros H. injection H as <-.
  split; [reflexivity|]. intros j. apply dir_get_set.
Qed.

(* ---------- the loop keeps [reach_ok] (and the merge file keeps its hint file) ---------- *)
Definition loop_inv (m : mstate) : Prop :=
  reach_ok (m_dir m) (m_idx m) /\ exists f hs, dir_get (m_dir m) (m_id m) = Some f /\ d_hint f = Some hs.

Lemma merge_one_inv c m k l m' : loop_inv m -> merge_one c m k l = ROk m' -> loop_inv m'.
Proof.
  intros [HR (fm & hsm & Hfm & Hhm)] H. unfold merge_one in H.
  destruct (read_loc (m_dir m) l) as [e| |]; try discriminate.
  destruct (append_data (m_dir m) (m_id m) e) as [[d1 p]|] eqn:Ea; [|discriminate].
  destruct (append_data_get _ _ _ _ _ Ea) as (f0 & Hf0 & Hd1). rewrite Hfm in Hf0. injection Hf0 as <-.
  set (h := mkHint (l_ts l) (l_len l) (m_pos m) k) in *.
  set (l' := mkLoc (m_id m) (m_pos m) (l_len l) (l_ts l)) in *.
  assert (Hg1 : dir_get d1 (m_id m) = Some (mkFile (d_data fm ++ [e]) (d_hint fm))) by (rewrite Hd1, N.eqb_refl; reflexivity).
  pose proof (append_hint_get d1 (m_id m) h _ Hg1) as Hd2. cbn [d_data d_hint] in Hd2. rewrite Hhm in Hd2.
  set (d2 := append_hint d1 (m_id m) h) in *.
  (* what the directory after data and hint append gives *)
  assert (HR2 : reach_ok d2 (aset (m_idx m) k l')).
  { intros k' lk Hk. rewrite iget_aset in Hk. destruct (beq k' k) eqn:Ek.
    - injection Hk as <-. apply beq_eq in Ek. subst k'. cbn [l' l_fid l_pos]. rewrite Hd2, N.eqb_refl.
      eexists. split; [reflexivity|]. cbn [d_hint]. intros hs Ehs. injection Ehs as <-.
      exists h. split; [apply in_or_app; right; left; reflexivity|]. split; reflexivity.
    - destruct (HR k' lk Hk) as (f & Hf & Hl). rewrite Hd2. destruct (N.eqb_spec (m_id m) (l_fid lk)) as [E|E].
      + rewrite <- E, Hfm in Hf. injection Hf as <-. eexists. split; [reflexivity|]. cbn [d_hint]. intros hs Ehs. injection Ehs as <-.
        destruct (Hl hsm Hhm) as (h0 & Hin & Hp & Hk0). exists h0. split; [apply in_or_app; left; exact Hin|auto].
      + rewrite Hd1. replace (m_id m =? l_fid lk) with false by (symmetry; apply N.eqb_neq; exact E). exists f. auto. }
  assert (Hm2 : exists f hs, dir_get d2 (m_id m) = Some f /\ d_hint f = Some hs).
  { rewrite Hd2, N.eqb_refl. eexists. eexists. split; reflexivity. }
  destruct (c_max c <? m_pos m + l_len l).
  - destruct (create_pair d2 (m_last m + 1)) as [d3|] eqn:Ec; [|discriminate]. injection H as <-.
    destruct (create_pair_get _ _ _ Ec) as [Hnone Hd3]. split; cbn [m_dir m_idx m_id].
    + intros k' lk Hk. destruct (HR2 k' lk Hk) as (f & Hf & Hl). rewrite Hd3.
      destruct (N.eqb_spec (m_last m + 1) (l_fid lk)) as [E|E]; [rewrite E in Hnone; congruence|]. exists f. auto.
    + rewrite Hd3, N.eqb_refl. eexists. eexists. split; reflexivity.
  - injection H as <-. split; cbn [m_dir m_idx m_id]; assumption.
Qed.

Lemma merge_loop_inv c sel : forall ord m m', loop_inv m -> merge_loop c sel m ord = ROk m' -> loop_inv m'.
Proof.
  induction ord as [|k ord IH]; intros m m' HJ H; cbn [merge_loop] in H.
  - injection H as <-. exact HJ.
  - destruct (iget (m_idx m) k) as [l|]; [|eapply IH; eassumption].
    destruct (mem (l_fid l) sel); [|eapply IH; eassumption].
    destruct (merge_one c m k l) as [m1| |] eqn:E1; try discriminate.
    eapply IH; [eapply merge_one_inv; eassumption|exact H].
Qed.

(* THE theorem: with the hint entry written first, a failing hint write at any entry of any pass leaves every index
   entry in a file that exists and, where that file is read through a hint file, listed there *)
Theorem hint_first_keeps_reach row_first retried c s ord1 k s' : reach_ok (s_dir s) (s_idx s) ->
  merge_fail_hint false row_first retried c s ord1 k = ROk s' -> reach_ok (s_dir s') (s_idx s').
Proof.
  intros HR H. unfold merge_fail_hint in H.
  destruct (select c s) as [sel0| |]; try discriminate.
  destruct (create_pair (s_dir s) (s_last s + 1)) as [d0|] eqn:Ec; [|discriminate].
  destruct (create_pair_get _ _ _ Ec) as [Hnone Hd0].
  set (m0 := mkM d0 (s_idx s) (s_stats s) (s_last s + 1) 0 (s_last s + 1) [SCreate (FHint (s_last s + 1)); SCreate (FData (s_last s + 1))]) in *.
  assert (HJ0 : loop_inv m0).
  { split; cbn [m0 m_dir m_idx m_id].
    - intros k' lk Hk. destruct (HR k' lk Hk) as (f & Hf & Hl). rewrite Hd0.
      destruct (N.eqb_spec (s_last s + 1) (l_fid lk)) as [E|E]; [rewrite E in Hnone; congruence|]. exists f. auto.
    - rewrite Hd0, N.eqb_refl. eexists. eexists. split; reflexivity. }
  destruct (merge_loop c (sort_ids sel0) m0 ord1) as [m| |] eqn:El; try discriminate.
  destruct (merge_loop_inv c _ _ _ _ HJ0 El) as [HRm (fm & hsm & Hfm & Hhm)].
  destruct (iget (m_idx m) k) as [l|]; [|discriminate].
  destruct (negb (mem (l_fid l) (sort_ids sel0))); [discriminate|].
  destruct (read_loc (m_dir m) l) as [e| |]; try discriminate.
  destruct (append_data (m_dir m) (m_id m) e) as [[d1 p]|] eqn:Ea; [|discriminate].
  injection H as <-. cbn [s_dir s_idx].
  destruct (append_data_get _ _ _ _ _ Ea) as (f0 & Hf0 & Hd1). rewrite Hfm in Hf0. injection Hf0 as <-.
  assert (Hg1 : dir_get d1 (m_id m) = Some (mkFile (d_data fm ++ [e]) (d_hint fm))) by (rewrite Hd1, N.eqb_refl; reflexivity).
  intros k' lk Hk. destruct (HRm k' lk Hk) as (f & Hf & Hl).
  destruct retried.
  - pose proof (append_hint_get d1 (m_id m) (mkHint (l_ts l) (l_len l) (m_pos m) k) _ Hg1) as Hd2. cbn [d_data d_hint] in Hd2. rewrite Hhm in Hd2.
    rewrite Hd2. destruct (N.eqb_spec (m_id m) (l_fid lk)) as [E|E].
    + rewrite <- E, Hfm in Hf. injection Hf as <-. eexists. split; [reflexivity|]. cbn [d_hint]. intros hs Ehs. injection Ehs as <-.
      destruct (Hl hsm Hhm) as (h0 & Hin & Hp & Hk0). exists h0. split; [apply in_or_app; left; exact Hin|auto].
    + rewrite Hd1. replace (m_id m =? l_fid lk) with false by (symmetry; apply N.eqb_neq; exact E). exists f. auto.
  - rewrite Hd1. destruct (N.eqb_spec (m_id m) (l_fid lk)) as [E|E]; [|exists f; auto].
    rewrite <- E, Hfm in Hf. injection Hf as <-. eexists. split; [reflexivity|]. cbn [d_hint]. exact Hl.
Qed.

(* reachable states satisfy the hypothesis *)
Lemma hints_of_In fid : forall es pos p e, In (fid, p, e) (log_file fid es pos) ->
  exists h, In h (hints_of es pos) /\ h_pos h = p /\ h_key h = e_key e.
Proof.
  induction es as [|x es IH]; intros pos p e Hin; cbn [log_file hints_of In] in *; [destruct Hin|].
  destruct Hin as [Hin|Hin].
  - inversion Hin; subst. eexists. split; [left; reflexivity|]. split; reflexivity.
  - destruct (IH _ _ _ Hin) as (h & Hh & Hp & Hk). exists h. split; [right; exact Hh|auto].
Qed.

Theorem inv_reach_ok s : Inv s -> reach_ok (s_dir s) (s_idx s).
Proof.
  intros (Hs & _ & Hh & _ & _ & _ & (C1 & _)) k l Hk. rewrite C1 in Hk.
  pose proof (lastloc_lastval k (log_of_dir (s_dir s)) None None ltac:(reflexivity)) as H. rewrite Hk in H.
  destruct H as [[E _]|(f & p & e & Hin & -> & Hv & _ & Hkey)]; [discriminate|].
  destruct (log_of_dir_In (s_dir s) Hs f p e Hin) as (g & Hget & Hin'). cbn [loc_of l_fid l_pos].
  exists g. split; [exact Hget|]. intros hs Ehs.
  pose proof (Hh f g (dir_get_In _ _ _ Hget)) as Hok. unfold hints_ok in Hok. rewrite Ehs in Hok. destruct Hok as [-> _].
  destruct (hints_of_In f _ _ _ _ Hin') as (h & Hh1 & Hp & Hk1). exists h. split; [exact Hh1|]. split; [exact Hp|].
  rewrite Hk1. exact Hkey.
Qed.

(* ---------- the history of the finding, in the model, under both orders ---------- *)
Definition fm_cfg : cfg := mkCfg 2147483648 false 0 1 0 0.
Definition fm_before : st := fst (fst (run fm_cfg init [OSet [75] [118]; OSet [97] [49]; OSet [97] [50]])).

Definition fm_history (repoint_first : bool) : out :=
  match merge_fail_hint repoint_first true false fm_cfg fm_before [] [75] with
  | ROk s' =>
    let '(_, outs, _) := run fm_cfg s' [OMerge [[75]; [97]]; OReopen; OGet [75]] in
    last outs VUnit
  | _ => VUnit
  end.

Theorem pinned_order_loses_key : fm_history true = VVal None.
Proof. vm_compute. reflexivity. Qed.
Theorem repaired_order_keeps_key : fm_history false = VVal (Some [118]).
Proof. vm_compute. reflexivity. Qed.

(* under the pinned order the state after the failure violates [reach_ok]: K points into the merge file, whose hint
   file is empty *)
Example pinned_order_breaks_reach :
  match merge_fail_hint true true false fm_cfg fm_before [] [75] with
  | ROk s' => exists l f, iget (s_idx s') [75] = Some l /\ dir_get (s_dir s') (l_fid l) = Some f /\ d_hint f = Some []
  | _ => False
  end.
Proof. vm_compute. eexists. eexists. split; [reflexivity|]. split; reflexivity. Qed.

(* The first repair (97ca669) wrote the hint entry before the merge file had a row.  When the failing write is the FIRST
   hint write of the pass and the retry at drop writes it out, the merge file lists a record and has no row: the history
       set k v; set k w; merge (first hint write fails, written out at drop); del k; merge; restart; get k
   resurrects k without the row and not with it (final repair a53a922: row first). *)
Definition fm2_before : st := fst (fst (run fm_cfg init [OSet [107] [118]; OSet [107] [119]])).
Definition fm2_history (row_first : bool) : out :=
  match merge_fail_hint false row_first true fm_cfg fm2_before [] [107] with
  | ROk s' =>
    let '(_, outs, _) := run fm_cfg s' [ODel [107]; OMerge []; OReopen; OGet [107]] in
    last outs VUnit
  | _ => VUnit
  end.
Theorem hint_before_row_resurrects : fm2_history false = VVal (Some [119]).
Proof. vm_compute. reflexivity. Qed.
Theorem row_before_hint_does_not : fm2_history true = VVal None.
Proof. vm_compute. reflexivity. Qed.

Lemma fm_before_inv : Inv fm_before.
Proof.
  apply (reachable_inv fm_cfg). exists [OSet [75] [118]; OSet [97] [49]; OSet [97] [50]]. split; [|reflexivity].
  cbn [run_ready op_ready]. auto.
Qed.

(* ---------- rows for listed records (what the final repair a53a922 is about) ----------
   [hint_rows]: a file whose hint file lists something has a row of the statistics — so the downward-closed selection of
   later merges takes it.  The loop keeps it, and so does a failing hint write when the row is written first, whether or
   not the bytes of the hint entry reach the file at drop. *)
Definition hint_rows (d : dir) (x : stats_t) : Prop :=
  forall id f hs h, dir_get d id = Some f -> d_hint f = Some hs -> In h hs -> sget x id <> None.

Definition loop_inv2 (m : mstate) : Prop :=
  hint_rows (m_dir m) (m_stats m) /\ exists f hs, dir_get (m_dir m) (m_id m) = Some f /\ d_hint f = Some hs.

Lemma merge_one_inv2 c m k l m' : loop_inv2 m -> merge_one c m k l = ROk m' -> loop_inv2 m'.
Proof.
  intros [HR (fm & hsm & Hfm & Hhm)] H. unfold merge_one in H.
  destruct (read_loc (m_dir m) l) as [e| |]; try discriminate.
  destruct (append_data (m_dir m) (m_id m) e) as [[d1 p]|] eqn:Ea; [|discriminate].
  destruct (append_data_get _ _ _ _ _ Ea) as (f0 & Hf0 & Hd1). rewrite Hfm in Hf0. injection Hf0 as <-.
  set (h := mkHint (l_ts l) (l_len l) (m_pos m) k) in *.
  assert (Hg1 : dir_get d1 (m_id m) = Some (mkFile (d_data fm ++ [e]) (d_hint fm))) by (rewrite Hd1, N.eqb_refl; reflexivity).
  pose proof (append_hint_get d1 (m_id m) h _ Hg1) as Hd2. cbn [d_data d_hint] in Hd2. rewrite Hhm in Hd2.
  set (d2 := append_hint d1 (m_id m) h) in *.
  set (x2 := aset (m_stats m) (m_id m) (add_live (sget0 (m_stats m) (m_id m)))) in *.
  assert (HR2 : hint_rows d2 x2).
  { intros id f hs h0 Hf Hhs Hin. unfold x2. rewrite sget_aset. destruct (N.eqb_spec id (m_id m)) as [->|E]; [discriminate|].
    rewrite Hd2 in Hf. replace (m_id m =? id) with false in Hf by (symmetry; apply N.eqb_neq; congruence).
    rewrite Hd1 in Hf. replace (m_id m =? id) with false in Hf by (symmetry; apply N.eqb_neq; congruence).
    eapply HR; eassumption. }
  destruct (c_max c <? m_pos m + l_len l).
  - destruct (create_pair d2 (m_last m + 1)) as [d3|] eqn:Ec; [|discriminate]. injection H as <-.
    destruct (create_pair_get _ _ _ Ec) as [Hnone Hd3]. split; cbn [m_dir m_stats m_id].
    + intros id f hs h0 Hf Hhs Hin. rewrite Hd3 in Hf. destruct (N.eqb_spec (m_last m + 1) id) as [E|E].
      * injection Hf as <-. cbn [d_hint] in Hhs. injection Hhs as <-. destruct Hin.
      * eapply HR2; eassumption.
    + rewrite Hd3, N.eqb_refl. eexists. eexists. split; reflexivity.
  - injection H as <-. split; cbn [m_dir m_stats m_id]; [exact HR2|].
    rewrite Hd2, N.eqb_refl. eexists. eexists. split; reflexivity.
Qed.

Lemma merge_loop_inv2 c sel : forall ord m m', loop_inv2 m -> merge_loop c sel m ord = ROk m' -> loop_inv2 m'.
Proof.
  induction ord as [|k ord IH]; intros m m' HJ H; cbn [merge_loop] in H.
  - injection H as <-. exact HJ.
  - destruct (iget (m_idx m) k) as [l|]; [|eapply IH; eassumption].
    destruct (mem (l_fid l) sel); [|eapply IH; eassumption].
    destruct (merge_one c m k l) as [m1| |] eqn:E1; try discriminate.
    eapply IH; [eapply merge_one_inv2; eassumption|exact H].
Qed.

Theorem row_first_keeps_hint_rows repoint_first retried c s ord1 k s' : hint_rows (s_dir s) (s_stats s) ->
  merge_fail_hint repoint_first true retried c s ord1 k = ROk s' -> hint_rows (s_dir s') (s_stats s').
Proof.
  intros HR H. unfold merge_fail_hint in H.
  destruct (select c s) as [sel0| |]; try discriminate.
  destruct (create_pair (s_dir s) (s_last s + 1)) as [d0|] eqn:Ec; [|discriminate].
  destruct (create_pair_get _ _ _ Ec) as [Hnone Hd0].
  set (m0 := mkM d0 (s_idx s) (s_stats s) (s_last s + 1) 0 (s_last s + 1) [SCreate (FHint (s_last s + 1)); SCreate (FData (s_last s + 1))]) in *.
  assert (HJ0 : loop_inv2 m0).
  { split; cbn [m0 m_dir m_stats m_id].
    - intros id f hs h0 Hf Hhs Hin. rewrite Hd0 in Hf. destruct (N.eqb_spec (s_last s + 1) id) as [E|E].
      + injection Hf as <-. cbn [d_hint] in Hhs. injection Hhs as <-. destruct Hin.
      + eapply HR; eassumption.
    - rewrite Hd0, N.eqb_refl. eexists. eexists. split; reflexivity. }
  destruct (merge_loop c (sort_ids sel0) m0 ord1) as [m| |] eqn:El; try discriminate.
  destruct (merge_loop_inv2 c _ _ _ _ HJ0 El) as [HRm (fm & hsm & Hfm & Hhm)].
  destruct (iget (m_idx m) k) as [l|]; [|discriminate].
  destruct (negb (mem (l_fid l) (sort_ids sel0))); [discriminate|].
  destruct (read_loc (m_dir m) l) as [e| |]; try discriminate.
  destruct (append_data (m_dir m) (m_id m) e) as [[d1 p]|] eqn:Ea; [|discriminate].
  injection H as <-. cbn [s_dir s_stats]. rewrite orb_true_r.
  destruct (append_data_get _ _ _ _ _ Ea) as (f0 & Hf0 & Hd1). rewrite Hfm in Hf0. injection Hf0 as <-.
  assert (Hg1 : dir_get d1 (m_id m) = Some (mkFile (d_data fm ++ [e]) (d_hint fm))) by (rewrite Hd1, N.eqb_refl; reflexivity).
  intros id f hs h0 Hf Hhs Hin. rewrite sget_aset. destruct (N.eqb_spec id (m_id m)) as [->|E]; [discriminate|].
  assert (Hf' : dir_get (m_dir m) id = Some f).
  { destruct retried.
    - rewrite (append_hint_get d1 (m_id m) _ _ Hg1) in Hf. replace (m_id m =? id) with false in Hf by (symmetry; apply N.eqb_neq; congruence).
      rewrite Hd1 in Hf. replace (m_id m =? id) with false in Hf by (symmetry; apply N.eqb_neq; congruence). exact Hf.
    - rewrite Hd1 in Hf. replace (m_id m =? id) with false in Hf by (symmetry; apply N.eqb_neq; congruence). exact Hf. }
  eapply HRm; eassumption.
Qed.

(* reachable states satisfy the hypothesis: a listed record is a record, and files that hold records have rows *)
Theorem inv_hint_rows s : Inv s -> hint_rows (s_dir s) (s_stats s).
Proof.
  intros HI id f hs h Hf Hhs Hin.
  pose proof HI as (Hs & _ & Hh & _ & _ & _ & (_ & _ & C3)).
  pose proof (Hh id f (dir_get_In _ _ _ Hf)) as Hok. unfold hints_ok in Hok. rewrite Hhs in Hok. destruct Hok as [-> _].
  intros E. apply (C3 id eq_refl) in E.
  destruct (d_data f) as [|e0 es] eqn:Ed; [destruct Hin|].
  assert (Hinlog : In (id, 0, e0) (log_of_dir (s_dir s))).
  { clear - Hf Ed. induction (s_dir s) as [|[i g] d IH]; cbn [dir_get] in Hf; [discriminate|]. cbn [log_of_dir]. apply in_or_app.
    destruct (N.eqb_spec i id) as [->|Hne]; [injection Hf as ->; left; rewrite Ed; left; reflexivity|right; auto]. }
  assert (Hhas : has_file (log_of_dir (s_dir s)) id = true).
  { unfold has_file. apply existsb_exists. exists (id, 0, e0). split; [exact Hinlog|]. cbn. apply N.eqb_refl. }
  congruence.
Qed.

(* ... and with the hint entry before the row (first repair) it is lost when the bytes reach the file at drop *)
Example hint_before_row_loses_the_row :
  match merge_fail_hint false false true fm_cfg fm2_before [] [107] with
  | ROk s' => exists id f h, dir_get (s_dir s') id = Some f /\ d_hint f = Some [h] /\ sget (s_stats s') id = None
  | _ => False
  end.
Proof. vm_compute. exists 1. eexists. eexists. split; [reflexivity|]. split; reflexivity. Qed.
