(* Store/Codec.v — bincode 1.3 (default options) layout of the two record types the store writes:
     DataFileEntry { tstamp: i64, key: Bytes, value: Option<Bytes> }
     HintFileEntry { tstamp: i64, len: u64, pos: u64, key: Bytes }
   i64/u64 = 8 bytes little endian, Bytes = u64 length + payload, Option = tag byte 0/1. *)
From BC Require Export Base.Bytes.

Record entry := mkEntry { e_ts : Z; e_key : bytes; e_val : option bytes }.
Record hint := mkHint { h_ts : Z; h_len : N; h_pos : N; h_key : bytes }.

Definition enc_bytes (b : bytes) : bytes := u64_bytes (blen b) ++ b.

Definition enc_entry (e : entry) : bytes :=
  i64_bytes (e_ts e) ++ enc_bytes (e_key e) ++
  match e_val e with
  | None => [0%N]
  | Some v => 1%N :: enc_bytes v
  end.

Definition enc_hint (h : hint) : bytes :=
  i64_bytes (h_ts h) ++ u64_bytes (h_len h) ++ u64_bytes (h_pos h) ++ enc_bytes (h_key h).

Definition entry_size (e : entry) : N :=
  (17 + blen (e_key e) + match e_val e with None => 0 | Some v => 8 + blen v end)%N.
Definition hint_size (h : hint) : N := (32 + blen (h_key h))%N.

(* ---- decoding from a byte string (what `deserialize_from` over a file does): the result says
        whether a whole record was there ([DOk]), the input ended first ([DEof], reported by the
        iterator as the end of the file), or a byte made no sense ([DErr], reported as an error). ---- *)
Inductive dres (A : Type) := DOk (a : A) (rest : bytes) | DEof | DErr.
Arguments DOk {A}. Arguments DEof {A}. Arguments DErr {A}.

Definition take (n : nat) (l : bytes) : option (bytes * bytes) :=
  if Nat.leb n (length l) then Some (firstn n l, skipn n l) else None.

Definition dec_u64 (l : bytes) : dres N :=
  match take 8 l with Some (b, r) => DOk (le_value b) r | None => DEof end.
Definition dec_i64 (l : bytes) : dres Z :=
  match dec_u64 l with DOk x r => DOk (i64_of_u64 x) r | DEof => DEof | DErr => DErr end.
Definition dec_bytes (l : bytes) : dres bytes :=
  match dec_u64 l with
  | DOk n r => match take (N.to_nat n) r with Some (b, r') => DOk b r' | None => DEof end
  | DEof => DEof | DErr => DErr
  end.

Definition dec_entry (l : bytes) : dres entry :=
  match dec_i64 l with
  | DOk ts r1 =>
    match dec_bytes r1 with
    | DOk k r2 =>
      match r2 with
      | [] => DEof
      | tag :: r3 =>
        if (tag =? 0)%N then DOk (mkEntry ts k None) r3
        else if (tag =? 1)%N then
          match dec_bytes r3 with
          | DOk v r4 => DOk (mkEntry ts k (Some v)) r4
          | DEof => DEof | DErr => DErr
          end
        else DErr
      end
    | DEof => DEof | DErr => DErr
    end
  | DEof => DEof | DErr => DErr
  end.

Definition dec_hint (l : bytes) : dres hint :=
  match dec_i64 l with
  | DOk ts r1 =>
    match dec_u64 r1 with
    | DOk len r2 =>
      match dec_u64 r2 with
      | DOk pos r3 =>
        match dec_bytes r3 with
        | DOk k r4 => DOk (mkHint ts len pos k) r4
        | DEof => DEof | DErr => DErr
        end
      | DEof => DEof | DErr => DErr
      end
    | DEof => DEof | DErr => DErr
    end
  | DEof => DEof | DErr => DErr
  end.

(* LogIterator: records until the input ends ([None] = a decode error stops `open`). *)
Fixpoint scan_fuel {A} (dec : bytes -> dres A) (fuel : nat) (pos : N) (l : bytes) : option (list (N * N * A)) :=
  match fuel with
  | O => Some []
  | S f =>
    match dec l with
    | DOk a r =>
      let len := (blen l - blen r)%N in
      match scan_fuel dec f (pos + len)%N r with
      | Some xs => Some ((pos, len, a) :: xs)
      | None => None
      end
    | DEof => Some []
    | DErr => None
    end
  end.
Definition scan {A} (dec : bytes -> dres A) (l : bytes) : option (list (N * N * A)) :=
  scan_fuel dec (S (length l)) 0 l.
