(* Store/Theorems.v — the statements the property files cite: every script whose merges are given a
   valid iteration order refines the map specification and keeps the invariant; counters are exact;
   reopening (with or without hint files) changes nothing. *)
From BC Require Import Store.Engine Store.Log Store.Step Store.Cons Store.Inv Store.Refine Store.MergeLemmas Store.Merge Store.Sizes.
Open Scope N_scope.

Definition op_ready (c : cfg) (s : st) (o : op) : Prop :=
  match o with OMerge ord => merge_ready c s ord | _ => True end.

Theorem step_refines c s o : Inv s -> op_ready c s o ->
  let '(s', r, _) := step c s o in
  Inv s' /\ r = snd (spec_step (abs s) o) /\ forall k, abs s' k = fst (spec_step (abs s) o) k.
Proof.
  intros HI Hr. destruct (is_merge o) eqn:Em; [|apply step_refines_nomerge; assumption].
  destruct o as [| | |ord| |]; try discriminate. cbn [op_ready] in Hr. cbn [step spec_step fst snd].
  destruct (merge_ok c s ord HI Hr) as (s' & t & Hm & HI' & Habs & _). rewrite Hm. auto.
Qed.

Fixpoint run_ready (c : cfg) (s : st) (ops : list op) : Prop :=
  match ops with
  | [] => True
  | o :: ops' => op_ready c s o /\ run_ready c (fst (fst (step c s o))) ops'
  end.

Fixpoint spec_run (m : mapst) (ops : list op) : list out :=
  match ops with
  | [] => []
  | o :: ops' => snd (spec_step m o) :: spec_run (fst (spec_step m o)) ops'
  end.
Fixpoint spec_final (m : mapst) (ops : list op) : mapst :=
  match ops with
  | [] => m
  | o :: ops' => spec_final (fst (spec_step m o)) ops'
  end.

Lemma spec_step_ext m1 m2 o : (forall k, m1 k = m2 k) ->
  snd (spec_step m1 o) = snd (spec_step m2 o) /\ forall k, fst (spec_step m1 o) k = fst (spec_step m2 o) k.
Proof.
  intros H. destruct o; cbn [spec_step fst snd]; try (split; [reflexivity|exact H]).
  - split; [reflexivity|]. intros k'. destruct (beq k' k); auto.
  - split; [rewrite H; reflexivity|exact H].
  - split; [rewrite H; reflexivity|]. intros k'. destruct (beq k' k); auto.
Qed.

Lemma spec_run_ext ops : forall m1 m2, (forall k, m1 k = m2 k) ->
  spec_run m1 ops = spec_run m2 ops /\ forall k, spec_final m1 ops k = spec_final m2 ops k.
Proof.
  induction ops as [|o ops IH]; intros m1 m2 H; cbn [spec_run spec_final]; [auto|].
  destruct (spec_step_ext m1 m2 o H) as [E1 E2]. rewrite E1.
  destruct (IH _ _ E2) as [E3 E4]. rewrite E3. auto.
Qed.

Theorem run_refines c : forall ops s, Inv s -> run_ready c s ops ->
  let '(s', rs, _) := run c s ops in
  Inv s' /\ rs = spec_run (abs s) ops /\ forall k, abs s' k = spec_final (abs s) ops k.
Proof.
  induction ops as [|o ops IH]; intros s HI Hr; cbn [run spec_run spec_final]; [auto|].
  destruct Hr as [Hr1 Hr2]. pose proof (step_refines c s o HI Hr1) as Hstep.
  destruct (step c s o) as [[s1 r] t] eqn:Es. cbn [fst] in Hr2. destruct Hstep as (HI1 & Hr & Habs).
  specialize (IH s1 HI1 Hr2). destruct (run c s1 ops) as [[s2 rs] ts]. destruct IH as (HI2 & Hrs & Hfin).
  destruct (spec_run_ext ops (abs s1) (fst (spec_step (abs s) o)) Habs) as [E1 E2].
  split; [exact HI2|]. split; [rewrite Hr, Hrs, E1; reflexivity|]. intros k. rewrite Hfin. apply E2.
Qed.

(* every result of a ready script is a normal result: never an error, never a panic *)
Definition normal (o : out) : bool := match o with VErr _ | VPanic _ => false | _ => true end.
Lemma spec_run_normal ops : forall m, forallb normal (spec_run m ops) = true.
Proof. induction ops as [|o ops IH]; intros m; [reflexivity|]. cbn [spec_run forallb]. rewrite IH. destruct o; reflexivity. Qed.

(* ---------- reachable states ---------- *)
Definition reachable (c : cfg) (s : st) : Prop :=
  exists ops, run_ready c init ops /\ s = fst (fst (run c init ops)).

Theorem reachable_inv c s : reachable c s -> Inv s.
Proof.
  intros (ops & Hr & ->). pose proof (run_refines c ops init (proj1 init_inv) Hr) as H.
  destruct (run c init ops) as [[s' rs] ts]. tauto.
Qed.

(* C19: the counters are the ground truth of the files *)
Theorem counters_exact s : Inv s -> forall g,
  live (sget0 (s_stats s) g) = nlive (slog s) (s_idx s) g /\
  dead (sget0 (s_stats s) g) = ndead (slog s) (s_idx s) g /\
  dead_bytes (sget0 (s_stats s) g) = bdead (slog s) (s_idx s) g /\
  (sget (s_stats s) g = None <-> has_file (slog s) g = false).
Proof.
  intros (_ & _ & _ & _ & _ & _ & (C1 & C2 & C3)) g. destruct (C2 g eq_refl) as (A & B & C).
  repeat split; auto; apply C3; reflexivity.
Qed.

Theorem index_exact s : Inv s -> forall k, iget (s_idx s) k = lastloc (slog s) k None.
Proof. intros (_ & _ & _ & _ & _ & _ & (C1 & _)). exact C1. Qed.

(* the overwrite arithmetic never underflows: every step of a ready script returns normally *)
Theorem no_underflow c s o : Inv s -> op_ready c s o -> normal (snd (fst (step c s o))) = true.
Proof.
  intros HI Hr. pose proof (step_refines c s o HI Hr) as H. destruct (step c s o) as [[s' r] t]. cbn [fst snd].
  destruct H as (_ & -> & _). destruct o; reflexivity.
Qed.

(* C02: any number of reopen cycles changes no key *)
Fixpoint reopens (s : st) (n : nat) : st :=
  match n with O => s | S n' => reopens (fst (fst (step (mkCfg 0 false 0 1 0 0) s OReopen))) n' end.

Theorem reopen_preserves : forall n s, Inv s -> Inv (reopens s n) /\ forall k, abs (reopens s n) k = abs s k.
Proof.
  induction n as [|n IH]; intros s HI; cbn [reopens]; [auto|].
  pose proof (step_refines (mkCfg 0 false 0 1 0 0) s OReopen HI I) as H.
  destruct (step _ s OReopen) as [[s1 r] t]. cbn [fst]. destruct H as (HI1 & _ & Habs). cbn [spec_step fst] in Habs.
  destruct (IH s1 HI1) as [HI2 H2]. split; [exact HI2|]. intros k. rewrite H2. apply Habs.
Qed.

(* the reopened store also has the same index, position by position (recovery is exact) *)
Theorem reopen_index s : Inv s -> exists s' t, reopen s = ROk (s', tt, t) /\ Inv s' /\
  (forall k, iget (s_idx s') k = iget (s_idx s) k) /\
  (forall g, sget0 (s_stats s') g = sget0 (s_stats s) g) /\ slog s' = slog s.
Proof.
  intros HI. destruct (reopen_ok s HI) as (s' & t & Hr & HI' & Hlog & _). exists s', t. split; [exact Hr|]. split; [exact HI'|].
  split; [|split; [|exact Hlog]].
  - intros k. rewrite (index_exact s' HI'), (index_exact s HI), Hlog. reflexivity.
  - intros g. destruct (counters_exact s' HI' g) as (A & B & C & _). destruct (counters_exact s HI g) as (A0 & B0 & C0 & _).
    assert (Hi : forall k, iget (s_idx s') k = iget (s_idx s) k).
    { intros k. rewrite (index_exact s' HI'), (index_exact s HI), Hlog. reflexivity. }
    rewrite Hlog in *. rewrite (nlive_ext _ _ _ g Hi) in A. rewrite (ndead_ext _ _ _ g Hi) in B. rewrite (bdead_ext _ _ _ g Hi) in C.
    destruct (sget0 (s_stats s') g) as [a b c0], (sget0 (s_stats s) g) as [a0 b0 c1]. cbn [live dead dead_bytes] in *. congruence.
Qed.

(* C12: hint files are only an accelerator *)
Definition drop_hints (d : dir) : dir := map (fun '(id, f) => (id, mkFile (d_data f) None)) d.

Lemma log_drop_hints d : log_of_dir (drop_hints d) = log_of_dir d.
Proof. induction d as [|[i f] d IH]; cbn [drop_hints map log_of_dir d_data]; [reflexivity|]. unfold drop_hints in IH. rewrite IH. reflexivity. Qed.

Lemma sorted_drop_hints d : sorted d -> sorted (drop_hints d).
Proof.
  induction d as [|[i f] d IH]; cbn [drop_hints map sorted]; [auto|]. intros [Hgt Hs]. split; [|apply IH; exact Hs].
  unfold ids_gt in *. rewrite Forall_forall in *. intros [j h] Hin. apply in_map_iff in Hin as ([j' h'] & E & Hin). inversion E; subst. apply (Hgt _ Hin).
Qed.

Theorem hints_optional s clk : Inv s ->
  exists s1 t1 s2 t2, open (s_dir s) clk = ROk (s1, tt, t1) /\ open (drop_hints (s_dir s)) clk = ROk (s2, tt, t2) /\
    Inv s1 /\ Inv s2 /\ (forall k, abs s1 k = abs s k) /\ (forall k, abs s2 k = abs s k) /\
    (forall k, iget (s_idx s2) k = iget (s_idx s1) k).
Proof.
  intros HI. pose proof HI as (Hs & Hle & Hh & _ & _ & (fa & Hfa & _) & _).
  assert (Hne : s_dir s <> []) by (intros E; rewrite E in Hfa; discriminate).
  destruct (open_ok (s_dir s) clk Hs Hne Hh) as (s1 & t1 & H1 & HI1 & Hl1 & _).
  assert (Hne2 : drop_hints (s_dir s) <> []) by (destruct (s_dir s); [congruence|discriminate]).
  assert (Hh2 : forall id f, In (id, f) (drop_hints (s_dir s)) -> hints_ok f).
  { intros id f Hin. apply in_map_iff in Hin as ([j h] & E & _). inversion E; subst. exact I. }
  destruct (open_ok (drop_hints (s_dir s)) clk (sorted_drop_hints _ Hs) Hne2 Hh2) as (s2 & t2 & H2 & HI2 & Hl2 & _).
  rewrite log_drop_hints in Hl2. exists s1, t1, s2, t2.
  split; [exact H1|]. split; [exact H2|]. split; [exact HI1|]. split; [exact HI2|]. split; [|split].
  - intros k. unfold abs. rewrite Hl1. reflexivity.
  - intros k. unfold abs. rewrite Hl2. reflexivity.
  - intros k. rewrite (index_exact s2 HI2), (index_exact s1 HI1), Hl1, Hl2. reflexivity.
Qed.
