(* Store/Pinned.v — the pre-repair behaviour of the two storage defects whose repairs the model
   describes (D1: tombstones ignored when rebuilding from data files; D2: a merge could select a
   file holding a tombstone without the older file holding the deleted value).  Only used to keep
   the old code refutable. *)
From BC Require Import Store.Engine.
Open Scope N_scope.

(* populate_keydir_with_datafile before D1: a tombstone only counts as dead bytes *)
Fixpoint load_data_pinned (fid : N) (es : list entry) (pos : N) (ix : index * stats_t) : option (index * stats_t) :=
  match es with
  | [] => Some ix
  | e :: es' =>
    let len := entry_size e in
    let next :=
      match e_val e with
      | Some _ => ins_loc ix (e_key e) (mkLoc fid pos len (e_ts e))
      | None => let '(i, x) := ix in Some (i, aset x fid (add_dead (sget0 x fid) len))
      end in
    match next with
    | Some ix' => load_data_pinned fid es' (pos + len) ix'
    | None => None
    end
  end.

Fixpoint rebuild_files_pinned (d : dir) (ix : index * stats_t) : option (index * stats_t) :=
  match d with
  | [] => Some ix
  | (fid, f) :: d' =>
    match (match d_hint f with
           | Some hs => load_hints fid (data_size (d_data f)) hs ix
           | None => load_data_pinned fid (d_data f) 0 ix
           end) with
    | Some ix' => rebuild_files_pinned d' ix'
    | None => None
    end
  end.

(* what a get returns after reopening with the pinned recovery *)
Definition get_after_pinned_reopen (s : st) (k : bytes) : option (option bytes) :=
  match rebuild_files_pinned (s_dir s) ([], []) with
  | Some (i, _) =>
    match iget i k with
    | Some l => match read_loc (s_dir s) l with ROk e => Some (e_val e) | _ => None end
    | None => Some None
    end
  | None => None
  end.

(* fileids_to_merge before D2: exactly the files meeting a threshold *)
Definition select_pinned (c : cfg) (s : st) : res (list N) :=
  let ids := stat_ids (s_stats s) in
  ROk (filter (fun id => match dir_get (s_dir s) id with
                         | Some f => meets c (sget0 (s_stats s) id) (data_size (d_data f))
                         | None => false
                         end) ids).
Definition merge_pinned := merge_with select_pinned.
