(* Store/Log.v — the log of a directory: every record of every data file, in the order recovery
   replays them (ascending file id, then offset).  The index and the per-file counters are
   characterised as "consistent with the log" ([cons]); every engine operation and the recovery
   scan are steps on that relation.  This file: definitions and generic lemmas. *)
From BC Require Import Store.Engine.
Open Scope N_scope.

Definition lentry := (N * N * entry)%type.          (* file id, offset, record *)

Fixpoint log_file (fid : N) (es : list entry) (pos : N) : list lentry :=
  match es with
  | [] => []
  | e :: es' => (fid, pos, e) :: log_file fid es' (pos + entry_size e)
  end.

Fixpoint log_of_dir (d : dir) : list lentry :=
  match d with
  | [] => []
  | (fid, f) :: d' => log_file fid (d_data f) 0 ++ log_of_dir d'
  end.

Definition loc_of (en : lentry) : loc :=
  let '(f, p, e) := en in mkLoc f p (entry_size e) (e_ts e).

(* what the index must say about key [k] after replaying [L] (starting from [acc]) *)
Fixpoint lastloc (L : list lentry) (k : bytes) (acc : option loc) : option loc :=
  match L with
  | [] => acc
  | (f, p, e) :: L' =>
    lastloc L' k (if beq k (e_key e)
                  then match e_val e with Some _ => Some (loc_of (f, p, e)) | None => None end
                  else acc)
  end.

(* what a get must return *)
Fixpoint lastval (L : list lentry) (k : bytes) (acc : option bytes) : option bytes :=
  match L with
  | [] => acc
  | (f, p, e) :: L' => lastval L' k (if beq k (e_key e) then e_val e else acc)
  end.

Definition is_live (i : index) (en : lentry) : bool :=
  let '(f, p, e) := en in
  match iget i (e_key e) with
  | Some l => (l_fid l =? f) && (l_pos l =? p)
  | None => false
  end.

Definition in_file (g : N) (en : lentry) : bool := let '(f, _, _) := en in f =? g.
Definition esize (en : lentry) : N := let '(_, _, e) := en in entry_size e.

(* ground truth of the counters of file [g] *)
Fixpoint nlive (L : list lentry) (i : index) (g : N) : N :=
  match L with
  | [] => 0
  | en :: L' => (if in_file g en && is_live i en then 1 else 0) + nlive L' i g
  end.
Fixpoint ndead (L : list lentry) (i : index) (g : N) : N :=
  match L with
  | [] => 0
  | en :: L' => (if in_file g en && negb (is_live i en) then 1 else 0) + ndead L' i g
  end.
Fixpoint bdead (L : list lentry) (i : index) (g : N) : N :=
  match L with
  | [] => 0
  | en :: L' => (if in_file g en && negb (is_live i en) then esize en else 0) + bdead L' i g
  end.
Definition has_file (L : list lentry) (g : N) : bool := existsb (in_file g) L.

(* distinct records sit at distinct (file, offset) *)
Definition at_pos (f p : N) (en : lentry) : bool := let '(f', p', _) := en in (f' =? f) && (p' =? p).
Fixpoint wfL (L : list lentry) : Prop :=
  match L with
  | [] => True
  | (f, p, e) :: L' => existsb (at_pos f p) L' = false /\ wfL L'
  end.

(* Consistency of (index, counters) with a log, except on the counter rows of files in [S]. *)
Definition cons_ex (S : N -> bool) (L : list lentry) (i : index) (x : stats_t) : Prop :=
  (forall k, iget i k = lastloc L k None) /\
  (forall g, S g = false ->
     live (sget0 x g) = nlive L i g /\ dead (sget0 x g) = ndead L i g /\ dead_bytes (sget0 x g) = bdead L i g) /\
  (forall g, S g = false -> (sget x g = None <-> has_file L g = false)).
Definition cons := cons_ex (fun _ => false).

(* ---------------- generic lemmas ---------------- *)
Lemma entry_size_pos e : 0 < entry_size e.
Proof. unfold entry_size, blen. destruct (e_val e); lia. Qed.

Lemma lastloc_app L1 L2 k acc : lastloc (L1 ++ L2) k acc = lastloc L2 k (lastloc L1 k acc).
Proof. revert acc. induction L1 as [|[[f p] e] L1 IH]; intros acc; cbn [app lastloc]; auto. Qed.

Lemma lastval_app L1 L2 k acc : lastval (L1 ++ L2) k acc = lastval L2 k (lastval L1 k acc).
Proof. revert acc. induction L1 as [|[[f p] e] L1 IH]; intros acc; cbn [app lastval]; auto. Qed.

Lemma nlive_app L1 L2 i g : nlive (L1 ++ L2) i g = nlive L1 i g + nlive L2 i g.
Proof. induction L1 as [|en L1 IH]; cbn [app nlive]; [lia|]. rewrite IH. lia. Qed.
Lemma ndead_app L1 L2 i g : ndead (L1 ++ L2) i g = ndead L1 i g + ndead L2 i g.
Proof. induction L1 as [|en L1 IH]; cbn [app ndead]; [lia|]. rewrite IH. lia. Qed.
Lemma bdead_app L1 L2 i g : bdead (L1 ++ L2) i g = bdead L1 i g + bdead L2 i g.
Proof. induction L1 as [|en L1 IH]; cbn [app bdead]; [lia|]. rewrite IH. lia. Qed.
Lemma has_file_app L1 L2 g : has_file (L1 ++ L2) g = has_file L1 g || has_file L2 g.
Proof. unfold has_file. apply existsb_app. Qed.

Lemma log_file_app fid es1 es2 pos :
  log_file fid (es1 ++ es2) pos = log_file fid es1 pos ++ log_file fid es2 (pos + data_size es1).
Proof.
  revert pos. induction es1 as [|e es1 IH]; intros pos; cbn [app log_file data_size].
  - rewrite N.add_0_r. reflexivity.
  - rewrite IH. rewrite N.add_assoc. reflexivity.
Qed.

(* the value a location found by [lastloc] denotes is the one [lastval] finds *)
Definition val_at (L : list lentry) (l : loc) : option bytes :=
  match find (at_pos (l_fid l) (l_pos l)) L with
  | Some (_, _, e) => e_val e
  | None => None
  end.

(* index operations, pointwise *)
Lemma iget_aset i k l k' : iget (aset i k l) k' = if beq k' k then Some l else iget i k'.
Proof. reflexivity. Qed.
Lemma iget_adel i k k' : iget (adel i k) k' = if beq k' k then None else iget i k'.
Proof. reflexivity. Qed.
Lemma sget_aset x f c g : sget (aset x f c) g = if g =? f then Some c else sget x g.
Proof. reflexivity. Qed.
Lemma sget_adel x f g : sget (adel x f) g = if g =? f then None else sget x g.
Proof. reflexivity. Qed.
Lemma sget0_aset x f c g : sget0 (aset x f c) g = if g =? f then c else sget0 x g.
Proof. unfold sget0. rewrite sget_aset. destruct (g =? f); reflexivity. Qed.
Lemma sget0_adel x f g : sget0 (adel x f) g = if g =? f then cnt0 else sget0 x g.
Proof. unfold sget0. rewrite sget_adel. destruct (g =? f); reflexivity. Qed.

Lemma beq_sym a b : beq a b = beq b a.
Proof.
  destruct (beq_spec a b) as [->|H]; [symmetry; apply beq_refl|].
  symmetry. apply beq_neq. congruence.
Qed.
