(* Store/Power.v — power loss under sync=always (C09).  Failure model of the property: per file
   independently, any suffix written after that file's last completed fsync may be missing; file
   creations and removals already issued are persistent; the failure may strike at every boundary
   between file-system calls.  [pstep] tracks, besides the contents, the durable length of every
   file; a power image of a state keeps of each file a prefix at least that long. *)
From BC Require Import Base.Bytes Store.Codec Store.CodecProofs Store.Engine Store.Log Store.Step Store.Cons Store.Inv Store.Refine
  Store.MergeLemmas Store.Merge Store.Sizes Store.Theorems Store.Trace Store.Crash Store.CrashScript Store.CrashMerge Store.Discipline.
From Coq Require Import Lia List NArith ZArith Bool.
Import ListNotations.
Open Scope N_scope.

Definition pst := (fs * (fname -> nat))%type.
Definition nupd (g : fname -> nat) (f : fname) (n : nat) : fname -> nat := fun x => if fn_eqb x f then n else g x.
Lemma nupd_same g f n : nupd g f n f = n.
Proof. unfold nupd. rewrite fn_eqb_refl. reflexivity. Qed.
Lemma nupd_other g f n x : x <> f -> nupd g f n x = g x.
Proof. intros H. unfold nupd. destruct (fn_eqb x f) eqn:E; [apply fn_eqb_eq in E; contradiction|reflexivity]. Qed.

Definition pstep (st : pst) (c : syscall) : option pst :=
  let '(s, syn) := st in
  match c with
  | SCreate f => match s f with None => Some (fupd s f (Some []), nupd syn f 0%nat) | Some _ => None end
  | SWrite f b => match s f with Some x => Some (fupd s f (Some (x ++ b)), syn) | None => None end
  | SFsync f => match s f with Some x => Some (s, nupd syn f (length x)) | None => None end
  | SUnlink f => match s f with Some _ => Some (fupd s f None, syn) | None => None end
  end.
Fixpoint prun (st : pst) (t : list syscall) : option pst :=
  match t with [] => Some st | c :: t' => match pstep st c with Some st' => prun st' t' | None => None end end.

Lemma prun_app t1 : forall st t2, prun st (t1 ++ t2) = match prun st t1 with Some st' => prun st' t2 | None => None end.
Proof. induction t1 as [|c t1 IH]; intros st t2; cbn [app prun]; [reflexivity|]. destruct (pstep st c); [apply IH|reflexivity]. Qed.

Lemma pstep_fs s syn c s' syn' : pstep (s, syn) c = Some (s', syn') -> fs_step s c = Some s'.
Proof.
  unfold pstep, fs_step. destruct c as [f|f b|f|f]; destruct (s f); intros H; inversion H; reflexivity.
Qed.

Lemma prun_fs : forall t s syn s' syn', prun (s, syn) t = Some (s', syn') -> fs_run s t = Some s'.
Proof.
  induction t as [|c t IH]; intros s syn s' syn' H; cbn [prun fs_run] in *; [inversion H; reflexivity|].
  destruct (pstep (s, syn) c) as [[s1 syn1]|] eqn:E; [|discriminate]. rewrite (pstep_fs _ _ _ _ _ E). eapply IH; exact H.
Qed.

(* what a power failure can leave of a state *)
Definition pimage (st : pst) (img : fs) : Prop :=
  forall f, match fst st f with
            | Some b => exists j, (snd st f <= j <= length b)%nat /\ img f = Some (firstn j b)
            | None => img f = None
            end.

Inductive power_image_of (st0 : pst) (t : list syscall) (img : fs) : Prop :=
| pimg t1 t2 st : t = t1 ++ t2 -> prun st0 t1 = Some st -> pimage st img -> power_image_of st0 t img.

Definition synced (st : pst) : Prop := forall f b, fst st f = Some b -> snd st f = length b.

Lemma synced_image st img : synced st -> pimage st img -> forall f, img f = fst st f.
Proof.
  intros Hs Hp f. specialize (Hp f). destruct (fst st f) as [b|] eqn:E; [|exact Hp].
  destruct Hp as (j & Hj & ->). rewrite (Hs f b E) in Hj. assert (j = length b) by lia. subst j. rewrite firstn_all. reflexivity.
Qed.

(* ---------- what the scanner reads from a power image ---------- *)
(* as [reads_as], but of a hinted file the hint file may hold further hints after those of [d]: the
   first of them points past the end of the data file, which stops the scan (the D9 repair) *)
Definition reads_as_p (img : fs) (d : dir) : Prop :=
  forall id, match dir_get d id with
             | Some f =>
               match d_hint f with
               | None => (exists tail, img (FData id) = Some (file_bytes (d_data f) ++ tail) /\ torn_entry tail) /\ img (FHint id) = None
               | Some hs => exists b extra tail,
                   img (FData id) = Some b /\ Forall (fun h => h_pos h + h_len h <= blen b) hs /\
                   img (FHint id) = Some (hint_bytes (hs ++ extra) ++ tail) /\ torn_hint tail /\
                   match extra with [] => True | h :: _ => blen b < h_pos h + h_len h end
               end
             | None => img (FData id) = None /\ img (FHint id) = None
             end.

Definition img_ok_p (img : fs) (m : bytes -> option bytes) : Prop := exists d, reads_as_p img d /\ recovers_to d m.

Lemma reads_as_p_ext img img' d : (forall f, img' f = img f) -> reads_as_p img d -> reads_as_p img' d.
Proof. intros E H id. specialize (H id). rewrite !E. exact H. Qed.

Lemma blen_file_bytes' es : blen (file_bytes es) = data_size es.
Proof. induction es as [|e es IH]; cbn [file_bytes data_size]; [reflexivity|]. rewrite blen_app, enc_entry_size, IH. reflexivity. Qed.

Lemma reads_as_to_p img d : reads_as img d -> dir_hints_ok d -> reads_as_p img d.
Proof.
  intros H Hok id. specialize (H id). destruct (dir_get d id) as [f|] eqn:Eg; [|exact H]. destruct (d_hint f) as [hs|] eqn:Eh; [|exact H].
  destruct H as [(b & Hb) (tail & Ht & Htt)]. exists (file_bytes (d_data f) ++ b), [], tail. rewrite app_nil_r.
  split; [exact Hb|]. split; [|split; [exact Ht|split; [exact Htt|exact I]]].
  pose proof (Hok id f (dir_get_In _ _ _ Eg)) as Hho. unfold hints_ok in Hho. rewrite Eh in Hho. destruct Hho as [-> _].
  rewrite Forall_forall. intros h Hh. apply hints_of_fit in Hh. rewrite blen_app, blen_file_bytes'. lia.
Qed.

Lemma img_ok_to_p img img' m : (forall f, img' f = img f) -> img_ok img m -> img_ok_p img' m.
Proof.
  intros E (d & Hr & Hrec). exists d. split; [|exact Hrec]. apply (reads_as_p_ext img); [exact E|]. apply reads_as_to_p; [exact Hr|exact (proj1 Hrec)].
Qed.

(* the model's hint loader agrees: extra hints after the first one that overshoots are not loaded *)
Lemma load_hints_extra fid L L' : forall hs extra ix,
  Forall (fun h => h_pos h + h_len h <= L) hs -> Forall (fun h => h_pos h + h_len h <= L') hs ->
  match extra with [] => True | h :: _ => L < h_pos h + h_len h end ->
  load_hints fid L (hs ++ extra) ix = load_hints fid L' hs ix.
Proof.
  induction hs as [|h hs IH]; intros extra ix H1 H2 Hx; cbn [app load_hints].
  - destruct extra as [|x extra]; [reflexivity|]. cbn [load_hints]. replace (L <? h_pos x + h_len x) with true by (symmetry; apply N.ltb_lt; exact Hx). reflexivity.
  - inversion H1; subst. inversion H2; subst.
    replace (L <? h_pos h + h_len h) with false by (symmetry; apply N.ltb_ge; assumption).
    replace (L' <? h_pos h + h_len h) with false by (symmetry; apply N.ltb_ge; assumption).
    destruct (ins_loc ix (h_key h) _); [apply IH; assumption|reflexivity].
Qed.

(* ---------- cutting a hint file anywhere: complete hints, then a torn one ---------- *)
(* the bytes of [h] are the encoding of a representable hint (which the scanner will read) *)
Definition henc (h : hint) : Prop := exists h', wf_hint h' /\ enc_hint h = enc_hint h'.

Lemma hint_bytes_cut : forall hs j, Forall henc hs ->
  exists k tail, firstn j (hint_bytes hs) = hint_bytes (firstn k hs) ++ tail /\ torn_hint tail /\ (k <= length hs)%nat.
Proof.
  induction hs as [|h hs IH]; intros j Hwf.
  - exists 0%nat, []. cbn. rewrite firstn_nil. split; [reflexivity|]. split; [left; reflexivity|lia].
  - inversion Hwf as [|? ? Hh Hhs]; subst. cbn [hint_bytes]. rewrite firstn_app.
    destruct (Nat.lt_ge_cases j (length (enc_hint h))) as [Hlt|Hge].
    + exists 0%nat, (firstn j (enc_hint h)). replace (j - length (enc_hint h))%nat with 0%nat by lia. cbn [firstn hint_bytes app]. rewrite app_nil_r.
      split; [reflexivity|]. split; [|lia]. destruct Hh as (h' & Hh' & Eh'). right. exists h', (skipn j (enc_hint h)). split; [exact Hh'|]. split; [|rewrite <- Eh'; symmetry; apply firstn_skipn].
      intros E. pose proof (firstn_skipn j (enc_hint h)) as Hfs. rewrite E, app_nil_r in Hfs.
      assert (length (firstn j (enc_hint h)) = j) by (apply firstn_length_le; lia). rewrite Hfs in H. lia.
    + rewrite firstn_all2 by exact Hge. destruct (IH (j - length (enc_hint h))%nat Hhs) as (k & tail & E & Ht & Hk).
      exists (S k), tail. cbn [firstn hint_bytes length]. rewrite E, app_assoc. split; [reflexivity|]. split; [exact Ht|lia].
Qed.

Lemma hints_of_firstn : forall es n pos, firstn n (hints_of es pos) = hints_of (firstn n es) pos.
Proof. induction es as [|e es IH]; intros [|n] pos; cbn [firstn hints_of]; try reflexivity. rewrite IH. reflexivity. Qed.

Lemma hints_of_length es pos : length (hints_of es pos) = length es.
Proof. revert pos. induction es as [|e es IH]; intros pos; cbn [hints_of length]; [reflexivity|]. rewrite IH. reflexivity. Qed.

(* how many of the first [k] records lie entirely within [budget] bytes *)
Fixpoint fitn (es : list entry) (budget : N) (k : nat) : nat :=
  match k, es with
  | S k', e :: es' => if entry_size e <=? budget then S (fitn es' (budget - entry_size e) k') else 0%nat
  | _, _ => 0%nat
  end.

Lemma fitn_le : forall es budget k, (fitn es budget k <= k)%nat /\ (fitn es budget k <= length es)%nat.
Proof.
  induction es as [|e es IH]; intros budget [|k]; cbn [fitn length]; try (split; lia).
  destruct (entry_size e <=? budget); [|split; lia]. destruct (IH (budget - entry_size e) k). split; lia.
Qed.

Lemma fitn_fits : forall es budget k, data_size (firstn (fitn es budget k) es) <= budget.
Proof.
  induction es as [|e es IH]; intros budget [|k]; cbn [fitn firstn data_size]; try lia.
  destruct (N.leb_spec (entry_size e) budget) as [Hle|Hgt]; cbn [firstn data_size]; [|lia].
  specialize (IH (budget - entry_size e) k). lia.
Qed.

Lemma fitn_next : forall es budget k, (fitn es budget k < k)%nat -> (fitn es budget k < length es)%nat ->
  budget < data_size (firstn (S (fitn es budget k)) es).
Proof.
  induction es as [|e es IH]; intros budget [|k] Hk Hl; cbn [fitn length] in *; try lia.
  destruct (N.leb_spec (entry_size e) budget) as [Hle|Hgt].
  - cbn [firstn data_size]. assert (H1 : (fitn es (budget - entry_size e) k < k)%nat) by lia.
    assert (H2 : (fitn es (budget - entry_size e) k < length es)%nat) by lia. specialize (IH _ _ H1 H2). cbn [firstn] in IH. lia.
  - cbn [firstn data_size]. lia.
Qed.

(* the hint of the (n+1)-th record ends where the first n+1 records end *)
Lemma hints_of_nth : forall es pos n h rest, skipn n (hints_of es pos) = h :: rest -> h_pos h + h_len h = pos + data_size (firstn (S n) es).
Proof.
  induction es as [|e es IH]; intros pos n h rest H; [destruct n; discriminate|].
  destruct n as [|n]; cbn [skipn hints_of] in H.
  - inversion H; subst. cbn [h_pos h_len firstn data_size]. lia.
  - specialize (IH _ _ _ _ H). cbn [firstn data_size]. cbn [firstn] in IH. lia.
Qed.

(* ---------- the power images of a state in which only the current merge output is not durable ---------- *)
Definition trunc (d : dir) (a : N) (n : nat) : dir :=
  match dir_get d a with
  | Some fm => dir_set d a (mkFile (firstn n (d_data fm)) (Some (hints_of (firstn n (d_data fm)) 0)))
  | None => d
  end.

Lemma skipn_firstn_head {A} (l : list A) n k h rest : skipn n (firstn k l) = h :: rest -> exists rest', skipn n l = h :: rest' /\ (n < k)%nat /\ (n < length l)%nat.
Proof.
  revert n k. induction l as [|x l IH]; intros n k H.
  - rewrite firstn_nil, skipn_nil in H. discriminate.
  - destruct k as [|k]; [cbn [firstn] in H; rewrite skipn_nil in H; discriminate|]. cbn [firstn] in H.
    destruct n as [|n]; cbn [skipn] in *.
    + inversion H; subst. exists l. cbn [length]. split; [reflexivity|lia].
    + destruct (IH n k H) as (r' & E & H1 & H2). exists r'. cbn [length]. split; [exact E|lia].
Qed.

Lemma firstn_firstn_le {A} (l : list A) n k : (n <= k)%nat -> firstn n (firstn k l) = firstn n l.
Proof. intros H. rewrite firstn_firstn. f_equal. lia. Qed.

Lemma merge_file_images m0 d a fm x f0 syn img :
  dir_hints_ok d -> dir_get d a = Some fm -> d_hint fm = Some (hints_of (d_data fm) 0) -> Forall henc (hints_of (d_data fm) 0) ->
  rep f0 d ->
  (forall g b, g <> FData a -> g <> FHint a -> f0 g = Some b -> syn g = length b) ->
  (forall n, good m0 (trunc d a n)) ->
  pimage (fupd f0 (FData a) (Some (file_bytes (d_data fm) ++ x)), syn) img -> img_ok_p img m0.
Proof.
  intros Hok Hfm Hh Hwfh Hrep Hsyn HG Hp. set (es := d_data fm) in *. set (hs := hints_of es 0) in *.
  set (f := fupd f0 (FData a) (Some (file_bytes es ++ x))) in *.
  destruct (rep_get f0 d a fm Hrep Hfm) as [_ Hf0h]. rewrite Hh in Hf0h. cbn [option_map] in Hf0h.
  (* the two files of the merge output, cut *)
  pose proof (Hp (FData a)) as Hpd. cbn [fst snd] in Hpd. unfold f in Hpd. rewrite fupd_same in Hpd. destruct Hpd as (jd & _ & Hid).
  pose proof (Hp (FHint a)) as Hph. cbn [fst snd] in Hph. unfold f in Hph. rewrite fupd_other in Hph by discriminate. rewrite Hf0h in Hph.
  destruct Hph as (jh & _ & Hih).
  set (bd := firstn jd (file_bytes es ++ x)) in *.
  destruct (hint_bytes_cut hs jh Hwfh) as (k & tail & Ecut & Htorn & Hk).
  set (n := fitn es (blen bd) k).
  destruct (fitn_le es (blen bd) k) as [Hnk Hnl]. fold n in Hnk, Hnl.
  (* every other file is durable as it is *)
  assert (Hother : forall g, g <> FData a -> g <> FHint a -> img g = f0 g).
  { intros g H1 H2. specialize (Hp g). cbn [fst snd] in Hp. unfold f in Hp. rewrite fupd_other in Hp by exact H1.
    destruct (f0 g) as [b|] eqn:Eg; [|exact Hp]. destruct Hp as (j & Hj & ->). rewrite (Hsyn g b H1 H2 Eg) in Hj.
    assert (j = length b) by lia. subst j. rewrite firstn_all. reflexivity. }
  exists (trunc d a n). split; [|apply good_recovers; apply HG].
  intros id. unfold trunc. rewrite Hfm, dir_get_set. destruct (N.eq_dec a id) as [<-|Hne].
  - rewrite N.eqb_refl. cbn [d_hint d_data]. fold es. exists bd, (skipn n (firstn k hs)), tail.
    split; [exact Hid|]. split.
    { rewrite Forall_forall. intros h Hin. apply hints_of_fit in Hin. pose proof (fitn_fits es (blen bd) k). fold n in H. lia. }
    split.
    { rewrite Hih, Ecut. rewrite <- hints_of_firstn. fold hs. rewrite <- (firstn_firstn_le hs n k Hnk), firstn_skipn. reflexivity. }
    split; [exact Htorn|].
    destruct (skipn n (firstn k hs)) as [|h rest] eqn:Esk; [exact I|].
    destruct (skipn_firstn_head hs n k h rest Esk) as (rest' & Esk' & Hlt & Hlen). unfold hs in Hlen. rewrite hints_of_length in Hlen.
    pose proof (hints_of_nth es 0 n h rest' Esk') as Hpos. pose proof (fitn_next es (blen bd) k) as Hnext. fold n in Hnext.
    specialize (Hnext Hlt Hlen). lia.
  - replace (a =? id) with false by (symmetry; apply N.eqb_neq; exact Hne).
    pose proof (reads_as_to_p f0 d (rep_reads f0 d Hrep) Hok id) as Hr.
    rewrite !Hother by (intros E; inversion E; subst; contradiction). exact Hr.
Qed.

(* ---------- durable boundaries are crash boundaries; write-then-fsync traces ---------- *)
Lemma image_shift s0 pre s1 t img : fs_run s0 pre = Some s1 -> image_of s1 t img -> image_of s0 (pre ++ t) img.
Proof.
  intros Hrun [t1 t2 E R|t1 f b1 b2 t2 E Hb R].
  - apply (img_boundary _ _ _ (pre ++ t1) t2); [rewrite E, app_assoc; reflexivity|rewrite fs_run_app, Hrun; exact R].
  - apply (img_torn _ _ _ (pre ++ t1) f b1 b2 t2); [rewrite E, app_assoc; reflexivity|exact Hb|rewrite <- app_assoc, fs_run_app, Hrun; exact R].
Qed.

Lemma synced_boundary_crash st0 t1 t2 st img : prun st0 t1 = Some st -> synced st -> pimage st img ->
  exists img', image_of (fst st0) (t1 ++ t2) img' /\ forall f, img f = img' f.
Proof.
  destruct st0 as [s0 syn0], st as [s1 syn1]. intros Hrun Hs Hp. exists s1. split.
  - apply (img_boundary _ _ _ t1 t2); [reflexivity|]. eapply prun_fs; exact Hrun.
  - apply (synced_image _ _ Hs Hp).
Qed.

Lemma synced_create s syn f : synced (s, syn) -> synced (fupd s f (Some []), nupd syn f 0%nat).
Proof.
  intros H g b Hg. cbn [fst snd] in *. unfold fupd, nupd in *. destruct (fn_eqb g f); [inversion Hg; reflexivity|apply H; exact Hg].
Qed.
Lemma synced_fsync s syn f x : synced (s, syn) -> s f = Some x -> synced (s, nupd syn f (length x)).
Proof.
  intros H Hf g b Hg. cbn [fst snd] in *. unfold nupd. destruct (fn_eqb g f) eqn:E; [apply fn_eqb_eq in E; subst; congruence|apply H; exact Hg].
Qed.
Lemma synced_unlink s syn f : synced (s, syn) -> synced (fupd s f None, syn).
Proof.
  intros H g b Hg. cbn [fst snd] in *. unfold fupd in Hg. destruct (fn_eqb g f); [discriminate|apply H; exact Hg].
Qed.
Lemma synced_write_fsync s syn f x b : synced (s, syn) -> synced (fupd s f (Some (x ++ b)), nupd syn f (length (x ++ b))).
Proof.
  intros H g y Hg. cbn [fst snd] in *. unfold fupd, nupd in *. destruct (fn_eqb g f); [inversion Hg; reflexivity|apply H; exact Hg].
Qed.

(* after a write to a durable state: the image is the state with a prefix of the written bytes *)
Lemma write_boundary s syn f x b img : synced (s, syn) -> s f = Some x -> pimage (fupd s f (Some (x ++ b)), syn) img ->
  exists b1 b2, b = b1 ++ b2 /\ forall g, img g = fupd s f (Some (x ++ b1)) g.
Proof.
  intros Hs Hf Hp. pose proof (Hp f) as Hpf. cbn [fst snd] in Hpf. rewrite fupd_same in Hpf. destruct Hpf as (j & Hj & Hi).
  pose proof (Hs f x Hf) as Hsf. cbn [fst snd] in Hsf. rewrite Hsf in Hj. rewrite app_length in Hj.
  exists (firstn (j - length x) b), (skipn (j - length x) b). split; [symmetry; apply firstn_skipn|].
  intros g. destruct (fn_eqb g f) eqn:E.
  - apply fn_eqb_eq in E. subst g. rewrite fupd_same, Hi, firstn_app. rewrite firstn_all2 by lia. reflexivity.
  - assert (g <> f) by (intros ->; rewrite fn_eqb_refl in E; discriminate). rewrite fupd_other by assumption.
    specialize (Hp g). cbn [fst snd] in Hp. rewrite fupd_other in Hp by assumption. destruct (s g) as [y|] eqn:Eg; [|exact Hp].
    destruct Hp as (j' & Hj' & ->). pose proof (Hs g y Eg) as Hsg. cbn [fst snd] in Hsg. rewrite Hsg in Hj'. assert (j' = length y) by lia. subst. rewrite firstn_all. reflexivity.
Qed.

Fixpoint sync_shaped (t : list syscall) : bool :=
  match t with
  | [] => true
  | SWrite f b :: t' => match t' with SFsync g :: t'' => fn_eqb f g && sync_shaped t'' | _ => false end
  | _ :: t' => sync_shaped t'
  end.

Lemma shaped_power : forall n t st0 st1, (length t <= n)%nat -> synced st0 -> sync_shaped t = true -> prun st0 t = Some st1 ->
  synced st1 /\ forall img, power_image_of st0 t img -> exists img', image_of (fst st0) t img' /\ forall f, img f = img' f.
Proof.
  induction n as [|n IH]; intros t [s0 syn0] st1 Hlen Hs Hsh Hrun.
  - destruct t; [|cbn in Hlen; lia]. cbn in Hrun. inversion Hrun; subst. split; [exact Hs|].
    intros img [t1 t2 st E R Hp]. symmetry in E. apply app_eq_nil in E as [-> ->]. cbn in R. inversion R; subst.
    apply (synced_boundary_crash (s0, syn0) [] [] (s0, syn0) img eq_refl Hs Hp).
  - destruct t as [|c t]; [cbn in Hrun; inversion Hrun; subst; split; [exact Hs|];
      intros img [t1 t2 st E R Hp]; symmetry in E; apply app_eq_nil in E as [-> ->]; cbn in R; inversion R; subst;
      apply (synced_boundary_crash (s0, syn0) [] [] (s0, syn0) img eq_refl Hs Hp)|].
    (* images at the empty prefix *)
    assert (H0 : forall img t2, pimage (s0, syn0) img -> exists img', image_of s0 (c :: t2) img' /\ forall f, img f = img' f).
    { intros img t2 Hp. apply (synced_boundary_crash (s0, syn0) [] (c :: t2) (s0, syn0) img eq_refl Hs Hp). }
    (* a call that keeps the state durable *)
    assert (Hplain : forall sA synA, pstep (s0, syn0) c = Some (sA, synA) -> synced (sA, synA) -> sync_shaped t = true -> prun (sA, synA) t = Some st1 ->
              synced st1 /\ forall img, power_image_of (s0, syn0) (c :: t) img -> exists img', image_of s0 (c :: t) img' /\ forall f, img f = img' f).
    { intros sA synA Hst HsA Hsh' Hrun'. cbn [length] in Hlen. destruct (IH t (sA, synA) st1 ltac:(lia) HsA Hsh' Hrun') as [Hs1 Himgs]. split; [exact Hs1|].
      intros img [t1 t2 st E R Hp]. destruct t1 as [|c' t1]; cbn [app] in E.
      - cbn in R. inversion R; subst st. apply (H0 img t). exact Hp.
      - injection E as <- E. cbn [prun] in R. rewrite Hst in R.
        destruct (Himgs img (pimg _ _ _ t1 t2 st E R Hp)) as (img' & Hi & He). exists img'. split; [|exact He].
        cbn [fst] in Hi. apply (image_shift s0 [c] sA t img'); [cbn [fs_run]; rewrite (pstep_fs _ _ _ _ _ Hst); reflexivity|exact Hi]. }
    cbn [prun] in Hrun. destruct (pstep (s0, syn0) c) as [[sA synA]|] eqn:Est; [|discriminate].
    destruct c as [g|g b|g|g].
    + cbn [sync_shaped] in Hsh. apply (Hplain sA synA eq_refl); [|exact Hsh|exact Hrun].
      cbn [pstep] in Est. destruct (s0 g); [discriminate|]. inversion Est; subst. apply synced_create. exact Hs.
    + (* write: must be followed by the fsync of the same file *)
      cbn [sync_shaped] in Hsh. destruct t as [|[g'|g' b'|g'|g'] t'']; try discriminate. apply andb_true_iff in Hsh as [Hg Hsh]. apply fn_eqb_eq in Hg. subst g'.
      cbn [pstep] in Est. destruct (s0 g) as [x|] eqn:Eg; [|discriminate]. inversion Est; subst sA synA. clear Est.
      cbn [prun pstep] in Hrun. rewrite fupd_same in Hrun.
      set (s2 := fupd s0 g (Some (x ++ b))) in *. set (syn2 := nupd syn0 g (length (x ++ b))) in *.
      assert (Hs2 : synced (s2, syn2)) by (apply synced_write_fsync; exact Hs).
      cbn [length] in Hlen. destruct (IH t'' (s2, syn2) st1 ltac:(lia) Hs2 Hsh Hrun) as [Hs1 Himgs]. split; [exact Hs1|].
      assert (Hfs2 : fs_run s0 [SWrite g b; SFsync g] = Some s2).
      { cbn [fs_run fs_step]. rewrite Eg. fold s2. unfold s2 at 1. rewrite fupd_same. reflexivity. }
      intros img [t1 t2 st E R Hp]. destruct t1 as [|c1 t1]; cbn [app] in E.
      * cbn in R. inversion R; subst st. apply (H0 img (SFsync g :: t'')). exact Hp.
      * injection E as <- E. cbn [prun pstep] in R. rewrite Eg in R. destruct t1 as [|c2 t1]; cbn [app] in E.
        -- cbn in R. inversion R; subst st. destruct (write_boundary s0 syn0 g x b img Hs Eg Hp) as (b1 & b2 & Eb & He).
           assert (Hw1 : forall y, fs_run s0 [SWrite g y] = Some (fupd s0 g (Some (x ++ y)))) by (intros y; cbn [fs_run fs_step]; rewrite Eg; reflexivity).
           exists (fupd s0 g (Some (x ++ b1))). split; [|exact He]. destruct b2 as [|y b2].
           ++ rewrite app_nil_r in Eb. rewrite <- Eb. apply (img_boundary _ _ _ [SWrite g b] (SFsync g :: t'')); [reflexivity|apply Hw1].
           ++ apply (img_torn _ _ _ [] g b1 (y :: b2) (SFsync g :: t'')); [rewrite Eb; reflexivity|discriminate|apply Hw1].
        -- injection E as <- E. cbn [prun pstep] in R. fold s2 in R. unfold s2 at 1 in R. rewrite fupd_same in R. fold s2 in R. fold syn2 in R.
           destruct (Himgs img (pimg _ _ _ t1 t2 st E R Hp)) as (img' & Hi & He). exists img'. split; [|exact He].
           cbn [fst] in Hi. apply (image_shift s0 [SWrite g b; SFsync g] s2 t'' img' Hfs2 Hi).
    + cbn [sync_shaped] in Hsh. apply (Hplain sA synA eq_refl); [|exact Hsh|exact Hrun].
      cbn [pstep] in Est. destruct (s0 g) as [x|] eqn:Eg; [|discriminate]. inversion Est; subst. apply (synced_fsync _ _ _ x Hs Eg).
    + cbn [sync_shaped] in Hsh. apply (Hplain sA synA eq_refl); [|exact Hsh|exact Hrun].
      cbn [pstep] in Est. destruct (s0 g); [|discriminate]. inversion Est; subst. apply synced_unlink. exact Hs.
Qed.

(* ---------- operations whose traces are write-then-fsync shaped ---------- *)
Lemma prun_of_fs : forall t s syn s', fs_run s t = Some s' -> exists syn', prun (s, syn) t = Some (s', syn').
Proof.
  induction t as [|c t IH]; intros s syn s' H; cbn [fs_run prun] in *; [inversion H; eauto|].
  destruct (fs_step s c) as [s1|] eqn:E; [|discriminate].
  assert (exists syn1, pstep (s, syn) c = Some (s1, syn1)).
  { unfold fs_step in E. unfold pstep. destruct c as [f|f b|f|f]; destruct (s f); inversion E; subst; eauto. }
  destruct H0 as (syn1 & ->). apply IH. exact H.
Qed.

Definition step_power_safe (c : cfg) (s : st) (o : op) : Prop :=
  forall st0, synced st0 -> rep (fst st0) (s_dir s) ->
    let '(s', _, t) := step c s o in
    trace_wf t ->
    (exists st1, prun st0 t = Some st1 /\ synced st1 /\ rep (fst st1) (s_dir s')) /\
    forall img, power_image_of st0 t img -> img_ok_p img (abs s) \/ img_ok_p img (abs s').

Lemma shaped_step_power c s o : step_safe_at c s o -> sync_shaped (snd (step c s o)) = true -> step_power_safe c s o.
Proof.
  intros Hsafe Hsh [s0 syn0] Hs Hrep. specialize (Hsafe s0 Hrep). destruct (step c s o) as [[s' r] t]. cbn [snd fst] in *.
  intros Hwf. destruct (Hsafe Hwf) as [(s1 & Hrun & Hrep1) Himgs].
  destruct (prun_of_fs t s0 syn0 s1 Hrun) as (syn1 & Hprun).
  destruct (shaped_power (length t) t (s0, syn0) (s1, syn1) (le_n _) Hs Hsh Hprun) as [Hs1 Hpi].
  split; [exists (s1, syn1); auto|].
  intros img Hp. destruct (Hpi img Hp) as (img' & Hi & He). cbn [fst] in Hi.
  destruct (Himgs img' Hi) as [H|H]; [left|right]; eapply img_ok_to_p; eauto.
Qed.

Lemma sync_calls_true c a : c_sync c = true -> sync_calls c a = [SFsync (FData a)].
Proof. intros H. unfold sync_calls. rewrite H. reflexivity. Qed.

Lemma write_trace_shaped c s k v s' l t : c_sync c = true -> Inv s -> write c s k v = ROk (s', l, t) -> sync_shaped t = true.
Proof.
  intros Hsync HI Hw. destruct (write_shape c s k v s' l t HI Hw) as (fa & _ & _ & Hshape). cbv zeta in Hshape.
  rewrite (sync_calls_true c _ Hsync) in Hshape. destruct Hshape as [(-> & _)|(-> & _)]; cbn [sync_shaped app]; rewrite fn_eqb_refl; reflexivity.
Qed.

Theorem nomerge_power_safe c s o : c_sync c = true -> Inv s -> is_merge o = false -> step_power_safe c s o.
Proof.
  intros Hsync HI Hm. apply shaped_step_power; [apply nomerge_step_safe; assumption|].
  destruct o as [k v|k|k|ord| |tm]; try discriminate; cbn [step].
  - destruct (put_ok c s k v HI) as (s' & t & pos & Hp & _). rewrite Hp. cbn [snd].
    unfold put in Hp. destruct (write c s k (Some v)) as [[[s1 l] t1]|e|e] eqn:Ew; try discriminate.
    assert (t = t1) by (destruct (iget (s_idx s1) k); [destruct (account_overwrite (s_stats s1) l0); [|discriminate]|]; inversion Hp; reflexivity).
    subst t1. eapply write_trace_shaped; eauto.
  - rewrite (get_abs s k HI). reflexivity.
  - destruct (delete_ok c s k HI) as (s' & t & pos & Hp & _). rewrite Hp. cbn [snd].
    unfold delete in Hp. destruct (write c s k None) as [[[s1 l] t1]|e|e] eqn:Ew; try discriminate.
    assert (t = t1) by (destruct (iget (s_idx s1) k); [destruct (account_overwrite (s_stats s1) l0); [|discriminate]|]; inversion Hp; reflexivity).
    subst t1. eapply write_trace_shaped; eauto.
  - destruct (reopen_ok s HI) as (s' & t & Ho & _). rewrite Ho. cbn [snd].
    unfold reopen, open in Ho. destruct (rebuild_files (s_dir s) ([], [])) as [[i x]|]; [|discriminate]. inversion Ho; subst. reflexivity.
  - reflexivity.
Qed.

(* ---------- walking through power images ---------- *)
Lemma power_image_app st0 t ext img st : prun st0 t = Some st -> power_image_of st0 (t ++ ext) img ->
  power_image_of st0 t img \/ power_image_of st ext img.
Proof.
  intros Hrun [t1 t2 st' E R Hp]. apply app_eq_app_cases in E as [(q1 & _ & E1 & _)|(p2 & -> & E2)].
  - left. exact (pimg _ _ _ t1 q1 st' E1 R Hp).
  - right. rewrite prun_app, Hrun in R. exact (pimg _ _ _ p2 t2 st' E2 R Hp).
Qed.

Lemma power_image_cons st c t img : power_image_of st (c :: t) img ->
  pimage st img \/ exists st1, pstep st c = Some st1 /\ power_image_of st1 t img.
Proof.
  intros [t1 t2 st' E R Hp]. destruct t1 as [|c' t1]; cbn [app] in E.
  - cbn in R. inversion R; subst. left. exact Hp.
  - injection E as <- E. cbn [prun] in R. destruct (pstep st c) as [st1|] eqn:Es; [|discriminate]. right. exists st1. split; [reflexivity|].
    exact (pimg _ _ _ t1 t2 st' E R Hp).
Qed.

Lemma power_image_nil st img : power_image_of st [] img -> pimage st img.
Proof. intros [t1 t2 st' E R Hp]. symmetry in E. apply app_eq_nil in E as [-> ->]. cbn in R. inversion R; subst. exact Hp. Qed.

Lemma pimage_ext s s' syn img : (forall g, s' g = s g) -> pimage (s, syn) img -> pimage (s', syn) img.
Proof. intros E H g. specialize (H g). cbn [fst snd] in *. rewrite E. exact H. Qed.

Lemma synced_crash_ok s syn img d m0 : synced (s, syn) -> pimage (s, syn) img -> rep s d -> good m0 d -> img_ok_p img m0.
Proof.
  intros Hs Hp Hrep Hg. apply (img_ok_to_p s img m0 (synced_image _ _ Hs Hp)). exact (good_img m0 s d (rep_reads _ _ Hrep) Hg).
Qed.

(* ---------- the merge loop under power loss ---------- *)
Definition PI (s : st) (st0 : pst) (m : mstate) : Prop :=
  exists f syn, prun st0 (rev (m_trace m)) = Some (f, syn) /\ rep f (m_dir m) /\
    (forall g b, g <> FData (m_id m) -> g <> FHint (m_id m) -> f g = Some b -> syn g = length b) /\
    (forall n, good (abs s) (trunc (m_dir m) (m_id m) n)) /\
    (exists fm, dir_get (m_dir m) (m_id m) = Some fm /\ d_hint fm = Some (hints_of (d_data fm) 0) /\ Forall henc (hints_of (d_data fm) 0)) /\
    (forall img, power_image_of st0 (rev (m_trace m)) img -> img_ok_p img (abs s)).

Lemma dir_set_same d a f : dir_get d a = Some f -> dir_set d a f = d.
Proof.
  induction d as [|[i g] d IH]; cbn [dir_get dir_set]; [discriminate|]. destruct (i =? a) eqn:E.
  - intros H. inversion H; subst. reflexivity.
  - intros H. rewrite IH by exact H. reflexivity.
Qed.

Lemma call_wf_henc a h : call_wf (SWrite (FHint a) (enc_hint h)) -> henc h.
Proof. intros (h' & Hw & E). exists h'. auto. Qed.

Lemma merge_one_power c s S m M k l m' M' st0 :
  LI s S m M -> LI s S m' M' -> merge_one c m k l = ROk m' -> trace_wf (rev (m_trace m')) -> PI s st0 m -> PI s st0 m'.
Proof.
  intros HLI HLI' Hone Hwf (f & syn & Hrun & Hrep & Hsyn & HG & (fm0 & Hfm0 & Hh0 & Hwf0) & Himgs).
  destruct (merge_one_shape2 c s S m M k l m' HLI Hone) as (fm & hs & e & Hfm & Hhint & Hshape). cbv zeta in Hshape.
  rewrite Hfm in Hfm0. inversion Hfm0; subst fm0. clear Hfm0. rewrite Hh0 in Hhint. inversion Hhint; subst hs. clear Hhint.
  set (a := m_id m) in *. set (es := d_data fm) in *. set (hs := hints_of es 0) in *.
  set (h := mkHint (l_ts l) (l_len l) (m_pos m) k) in *.
  set (fm2 := mkFile (es ++ [e]) (Some (hs ++ [h]))) in *.
  set (d2 := dir_set (m_dir m) a fm2) in *.
  pose proof (LI_good s S m M HLI) as Hgood. pose proof (LI_good s S m' M' HLI') as Hgood'.
  pose proof HLI as (Hsm & Hlem & Hhm & Hidm & _).
  destruct (rep_get f (m_dir m) a fm Hrep Hfm) as [Hfd Hfh]. rewrite Hh0 in Hfh. cbn [option_map] in Hfh. fold es in Hfd. fold hs in Hfh.
  set (f1 := fupd f (FData a) (Some (file_bytes es ++ enc_entry e))).
  set (f2 := fupd f1 (FHint a) (Some (hint_bytes hs ++ enc_hint h))).
  assert (Hrep2 : rep f2 d2) by (apply rep_copy; assumption).
  assert (Hp1 : pstep (f, syn) (SWrite (FData a) (enc_entry e)) = Some (f1, syn)) by (cbn [pstep]; rewrite Hfd; reflexivity).
  assert (Hf1h : f1 (FHint a) = Some (hint_bytes hs)) by (unfold f1; rewrite fupd_other by discriminate; exact Hfh).
  assert (Hp2 : pstep (f1, syn) (SWrite (FHint a) (enc_hint h)) = Some (f2, syn)) by (cbn [pstep]; rewrite Hf1h; reflexivity).
  assert (Hf2d : f2 (FData a) = Some (file_bytes es ++ enc_entry e)) by (unfold f2, f1; rewrite fupd_other by discriminate; apply fupd_same).
  assert (Hf2h : f2 (FHint a) = Some (hint_bytes hs ++ enc_hint h)) by (unfold f2; apply fupd_same).
  assert (Hf2o : forall g, g <> FData a -> g <> FHint a -> f2 g = f g) by (intros g H1 H2; unfold f2, f1; rewrite !fupd_other by assumption; reflexivity).
  assert (Hhenc : henc h).
  { apply (call_wf_henc a). unfold trace_wf in Hwf. rewrite Forall_forall in Hwf. apply Hwf.
    destruct Hshape as [(_ & -> & _)|(_ & _ & -> & _)]; apply in_or_app; right; right; left; reflexivity. }
  (* the directory after the copy, and all its truncations *)
  assert (Hg2d : dir_get d2 a = Some fm2) by (unfold d2; rewrite dir_get_set, N.eqb_refl; reflexivity).
  assert (Hd2ne : d2 <> []) by (unfold d2; destruct (m_dir m) as [|[i g] r]; cbn [dir_set]; [discriminate|destruct (i =? a); discriminate]).
  assert (Hgood2 : good (abs s) d2).
  { destruct Hshape as [(Hd & _)|(Hd & _)]; [rewrite <- Hd; exact Hgood'|]. rewrite Hd in Hgood'. eapply good_prefix; [exact Hgood'|reflexivity|exact Hd2ne]. }
  assert (Hhs2 : hs ++ [h] = hints_of (es ++ [e]) 0).
  { destruct Hgood2 as (_ & _ & Hok2 & _). pose proof (Hok2 a fm2 (dir_get_In _ _ _ Hg2d)) as Hho. unfold hints_ok, fm2 in Hho. cbn [d_hint d_data] in Hho. tauto. }
  assert (HG2 : forall n, good (abs s) (trunc d2 a n)).
  { intros n. unfold trunc. rewrite Hg2d. unfold fm2 at 1 2. cbn [d_data]. unfold d2. rewrite dir_set_twice.
    destruct (Nat.le_gt_cases n (length es)) as [Hle|Hgt].
    - rewrite firstn_app. replace (n - length es)%nat with 0%nat by lia. cbn [firstn]. rewrite app_nil_r.
      specialize (HG n). unfold trunc in HG. rewrite Hfm in HG. exact HG.
    - rewrite firstn_all2 by (rewrite app_length; cbn; lia). rewrite <- Hhs2. fold fm2. fold d2. exact Hgood2. }
  assert (Hwf2 : Forall henc (hints_of (es ++ [e]) 0)) by (rewrite <- Hhs2; apply Forall_app; split; [exact Hwf0|constructor; [exact Hhenc|constructor]]).
  assert (Hok_m : dir_hints_ok (m_dir m)) by exact Hhm.
  assert (Hok2 : dir_hints_ok d2) by (destruct Hgood2 as (_ & _ & H & _); exact H).
  (* images after the data write, and after the hint write (also when one or both outputs were fsynced) *)
  assert (Himg1 : forall syn' img, (forall g b, g <> FData a -> g <> FHint a -> f g = Some b -> syn' g = length b) -> pimage (f1, syn') img -> img_ok_p img (abs s)).
  { intros syn' img Hs' Hp. exact (merge_file_images (abs s) (m_dir m) a fm (enc_entry e) f syn' img Hok_m Hfm Hh0 Hwf0 Hrep Hs' HG Hp). }
  assert (Himg2 : forall syn' img, (forall g b, g <> FData a -> g <> FHint a -> f g = Some b -> syn' g = length b) -> pimage (f2, syn') img -> img_ok_p img (abs s)).
  { intros syn' img Hs' Hp.
    apply (merge_file_images (abs s) d2 a fm2 [] f2 syn' img Hok2 Hg2d); [unfold fm2; cbn [d_hint d_data]; rewrite Hhs2; reflexivity|unfold fm2; cbn [d_data]; exact Hwf2|exact Hrep2| |exact HG2|].
    - intros g b H1 H2 Hg. rewrite Hf2o in Hg by assumption. eauto.
    - apply (pimage_ext f2); [|exact Hp]. intros g. unfold fupd. destruct (fn_eqb g (FData a)) eqn:E; [|reflexivity].
      apply fn_eqb_eq in E. subst g. unfold fm2. cbn [d_data]. rewrite app_nil_r, file_bytes_app. symmetry. exact Hf2d. }
  destruct Hshape as [(Hd & Ht & Hid' & Hl' & _)|(Hd & Hn & Ht & Hid' & Hl' & _)].
  - (* no rollover *)
    exists f2, syn. rewrite Ht, prun_app, Hrun. cbn [prun]. rewrite Hp1, Hp2. split; [reflexivity|]. split; [rewrite Hd; exact Hrep2|]. rewrite Hid', Hd.
    split; [intros g b H1 H2 Hg; rewrite Hf2o in Hg by assumption; eauto|]. split; [exact HG2|]. split.
    { exists fm2. split; [exact Hg2d|]. unfold fm2. cbn [d_hint d_data]. rewrite Hhs2. split; [reflexivity|exact Hwf2]. }
    intros img Hp. destruct (power_image_app st0 _ _ img (f, syn) Hrun Hp) as [H|H]; [apply Himgs; exact H|].
    apply power_image_cons in H as [H|(st1 & Hs1 & H)]; [apply (merge_file_images (abs s) (m_dir m) a fm [] f syn img Hok_m Hfm Hh0 Hwf0 Hrep Hsyn HG)|].
    { apply (pimage_ext f); [|exact H]. intros g. unfold fupd. destruct (fn_eqb g (FData a)) eqn:E; [|reflexivity]. apply fn_eqb_eq in E. subst g. rewrite app_nil_r. symmetry. exact Hfd. }
    rewrite Hp1 in Hs1. inversion Hs1; subst st1.
    apply power_image_cons in H as [H|(st2 & Hs2 & H)]; [exact (Himg1 syn img Hsyn H)|].
    rewrite Hp2 in Hs2. inversion Hs2; subst st2. apply power_image_nil in H. exact (Himg2 syn img Hsyn H).
  - (* rollover: both outputs are fsynced, then the next pair is created *)
    set (id' := m_last m + 1) in *.
    assert (Hle2 : ids_le d2 (id' - 1)).
    { assert (Hle' : ids_le (m_dir m) (m_id m)) by (rewrite Hidm; exact Hlem).
      destruct (append_last (m_dir m) (m_id m) fm e (Some (hs ++ [h])) Hsm Hle' Hfm) as (_ & _ & Hle2 & _).
      unfold id'. replace (m_last m + 1 - 1) with (m_id m) by lia. exact Hle2. }
    assert (Hgood3 : good (abs s) (d2 ++ [(id', empty_file)])) by (apply good_app_empty; [exact Hgood2|exact Hle2|unfold id'; lia]).
    destruct (rep_after_create f2 d2 id' Hrep2 Hn) as [_ Hrep3]. set (f3 := fupd f2 (FData id') (Some [])) in *.
    destruct (rep_create_hint f3 d2 id' Hrep3 Hn (proj1 Hgood3)) as [_ Hrep4]. set (f4 := fupd f3 (FHint id') (Some [])) in *.
    destruct (rep_none f2 d2 id' Hrep2 Hn) as [Hnd Hnh].
    assert (Hf3h : f3 (FHint id') = None) by (unfold f3; rewrite fupd_other by discriminate; exact Hnh).
    set (synA := nupd syn (FData a) (length (file_bytes es ++ enc_entry e))).
    set (synB := nupd synA (FHint a) (length (hint_bytes hs ++ enc_hint h))).
    set (synC := nupd synB (FData id') 0%nat). set (synD := nupd synC (FHint id') 0%nat).
    assert (Hp3 : pstep (f2, syn) (SFsync (FData a)) = Some (f2, synA)) by (cbn [pstep]; rewrite Hf2d; reflexivity).
    assert (Hp4 : pstep (f2, synA) (SFsync (FHint a)) = Some (f2, synB)) by (cbn [pstep]; rewrite Hf2h; reflexivity).
    assert (Hp5 : pstep (f2, synB) (SCreate (FData id')) = Some (f3, synC)) by (cbn [pstep]; rewrite Hnd; reflexivity).
    assert (Hp6 : pstep (f3, synC) (SCreate (FHint id')) = Some (f4, synD)) by (cbn [pstep]; rewrite Hf3h; reflexivity).
    assert (HsA : forall g b, g <> FData a -> g <> FHint a -> f g = Some b -> synA g = length b).
    { intros g b H1 H2 Hg. unfold synA. rewrite nupd_other by exact H1. eauto. }
    assert (HsB : forall g b, g <> FData a -> g <> FHint a -> f g = Some b -> synB g = length b).
    { intros g b H1 H2 Hg. unfold synB. rewrite nupd_other by exact H2. eauto. }
    assert (HsyB : synced (f2, synB)).
    { intros g b Hg. cbn [fst snd] in *. destruct (fn_eqb g (FHint a)) eqn:E1.
      - apply fn_eqb_eq in E1. subst g. unfold synB. rewrite nupd_same. rewrite Hf2h in Hg. inversion Hg. reflexivity.
      - assert (g <> FHint a) by (intros ->; rewrite fn_eqb_refl in E1; discriminate). unfold synB. rewrite nupd_other by assumption.
        destruct (fn_eqb g (FData a)) eqn:E2.
        + apply fn_eqb_eq in E2. subst g. unfold synA. rewrite nupd_same. rewrite Hf2d in Hg. inversion Hg. reflexivity.
        + assert (g <> FData a) by (intros ->; rewrite fn_eqb_refl in E2; discriminate). unfold synA. rewrite nupd_other by assumption.
          rewrite Hf2o in Hg by assumption. eauto. }
    assert (HsyC : synced (f3, synC)) by (apply synced_create; exact HsyB).
    assert (HsyD : synced (f4, synD)) by (apply synced_create; exact HsyC).
    assert (Hgm' : dir_get (m_dir m') id' = Some (mkFile [] (Some []))).
    { rewrite Hd, <- (dir_set_new d2 id' _ Hn), dir_get_set, N.eqb_refl. reflexivity. }
    exists f4, synD. rewrite Ht, prun_app, Hrun. cbn [app prun]. rewrite Hp1, Hp2, Hp3, Hp4, Hp5, Hp6.
    split; [reflexivity|]. split; [rewrite Hd; exact Hrep4|]. rewrite Hid'.
    split; [intros g b _ _ Hg; exact (HsyD g b Hg)|]. split.
    { intros n. unfold trunc. rewrite Hgm'. cbn [d_data]. rewrite firstn_nil. cbn [hints_of]. rewrite (dir_set_same _ _ _ Hgm'). exact Hgood'. }
    split; [exists (mkFile [] (Some [])); split; [exact Hgm'|split; [reflexivity|constructor]]|].
    intros img Hp. destruct (power_image_app st0 _ _ img (f, syn) Hrun Hp) as [H|H]; [apply Himgs; exact H|].
    apply power_image_cons in H as [H|(st1 & Hs1 & H)]; [apply (merge_file_images (abs s) (m_dir m) a fm [] f syn img Hok_m Hfm Hh0 Hwf0 Hrep Hsyn HG)|].
    { apply (pimage_ext f); [|exact H]. intros g. unfold fupd. destruct (fn_eqb g (FData a)) eqn:E; [|reflexivity]. apply fn_eqb_eq in E. subst g. rewrite app_nil_r. symmetry. exact Hfd. }
    rewrite Hp1 in Hs1. inversion Hs1; subst st1.
    apply power_image_cons in H as [H|(st2 & Hs2 & H)]; [exact (Himg1 syn img Hsyn H)|].
    rewrite Hp2 in Hs2. inversion Hs2; subst st2.
    apply power_image_cons in H as [H|(st3 & Hs3 & H)]; [exact (Himg2 syn img Hsyn H)|].
    rewrite Hp3 in Hs3. inversion Hs3; subst st3.
    apply power_image_cons in H as [H|(st4 & Hs4 & H)]; [exact (Himg2 synA img HsA H)|].
    rewrite Hp4 in Hs4. inversion Hs4; subst st4.
    apply power_image_cons in H as [H|(st5 & Hs5 & H)]; [exact (Himg2 synB img HsB H)|].
    rewrite Hp5 in Hs5. inversion Hs5; subst st5.
    apply power_image_cons in H as [H|(st6 & Hs6 & H)]; [exact (synced_crash_ok f3 synC img _ (abs s) HsyC H Hrep3 Hgood3)|].
    rewrite Hp6 in Hs6. inversion Hs6; subst st6. apply power_image_nil in H.
    apply (synced_crash_ok f4 synD img _ (abs s) HsyD H Hrep4). rewrite <- Hd. exact Hgood'.
Qed.

Lemma loop_power c s S sel st0 : (forall g, S g = mem g sel) -> (forall g, S g = true -> g <= s_last s) ->
  forall ord m M m', LI s S m M -> merge_loop c sel m ord = ROk m' -> trace_wf (rev (m_trace m')) -> PI s st0 m -> PI s st0 m'.
Proof.
  intros HS HSle. induction ord as [|k ord IH]; intros m M m' HLI H Hwf HPI; cbn [merge_loop] in H.
  - inversion H; subst. exact HPI.
  - destruct (iget (m_idx m) k) as [l|] eqn:Ek; [|exact (IH m M m' HLI H Hwf HPI)].
    destruct (mem (l_fid l) sel) eqn:Em; [|exact (IH m M m' HLI H Hwf HPI)].
    destruct (merge_one_ok c s S m M k l HLI HSle Ek ltac:(rewrite HS; exact Em)) as (m1 & M1 & H1 & HLI1 & _).
    rewrite H1 in H. destruct (merge_loop_trace c sel ord m1 m' H) as (pre & Epre).
    assert (Hwf1 : trace_wf (rev (m_trace m1))) by (rewrite Epre in Hwf; eapply trace_wf_prefix; exact Hwf).
    apply (IH m1 M1 m' HLI1 H Hwf). exact (merge_one_power c s S m M k l m1 M1 st0 HLI HLI1 H1 Hwf1 HPI).
Qed.

Lemma plain_shaped : forall t, forallb plain t = true -> sync_shaped t = true.
Proof.
  induction t as [|c t IH]; cbn [forallb sync_shaped]; [reflexivity|]. intros H. apply andb_true_iff in H as [Hc Ht].
  destruct c; try discriminate; apply IH; exact Ht.
Qed.

Lemma shaped_app_create : forall t g, forallb plain t = true -> sync_shaped (t ++ [SCreate g]) = true.
Proof.
  induction t as [|c t IH]; intros g H; cbn [app forallb sync_shaped] in *; [reflexivity|]. apply andb_true_iff in H as [Hc Ht].
  destruct c; try discriminate; apply IH; exact Ht.
Qed.

Theorem merge_power_safe c s ord : Inv s -> merge_ready c s ord -> step_power_safe c s (OMerge ord).
Proof.
  intros HI Hready [s0 syn0] Hsy0 Hrep0. cbn [fst] in Hrep0.
  pose proof (merge_safe c s ord HI Hready s0 Hrep0) as Hcrash. cbn [step] in *.
  destruct (merge_anatomy c s ord HI Hready) as (sel0 & bound & m & M & d2 & x2 & t2 & Hana). cbv zeta in Hana.
  set (sel := sort_ids sel0) in *. set (S := fun g => mem g sel) in *. set (id0 := s_last s + 1) in *.
  set (d0 := s_dir s ++ [(id0, mkFile [] (Some []))]) in *.
  set (m0 := mkM d0 (s_idx s) (s_stats s) id0 0 id0 [SCreate (FHint id0); SCreate (FData id0)]) in *.
  destruct Hana as (HS & Hrow & HSle & HLI0 & Hloop & HLI & E1 & Eun & Ed2 & Hn2 & s' & Hm & Hd' & HI' & Habs & _).
  rewrite Hm in *. intros Hwf. destruct (Hcrash Hwf) as [(s1 & Hfsrun & Hrep1) Hcimgs].
  pose proof HI as (Hs & Hle & Hh & _ & _ & _ & _).
  pose proof (inv_good s HI) as Hg0.
  pose proof (unlink_all_trace sel (m_dir m) (m_stats m) (SFsync (FHint (m_id m)) :: SFsync (FData (m_id m)) :: m_trace m)) as Htr.
  rewrite Eun in Htr. cbn [snd rev] in Htr. rewrite <- !app_assoc in Htr. cbn [app] in Htr.
  set (rest := unlink_trace (m_dir m) sel ++ [SCreate (FData (m_last m + 1))]).
  assert (Et : rev t2 ++ [SCreate (FData (m_last m + 1))] = rev (m_trace m) ++ SFsync (FData (m_id m)) :: SFsync (FHint (m_id m)) :: rest).
  { rewrite Htr. unfold rest. rewrite <- app_assoc. reflexivity. }
  rewrite Et in *.
  assert (Hwfm : trace_wf (rev (m_trace m))) by (unfold trace_wf in *; apply Forall_app in Hwf; tauto).
  (* phase 0 *)
  assert (Hn0 : dir_get (s_dir s) id0 = None) by (apply (ids_le_get_none _ (s_last s)); [exact Hle|unfold id0; lia]).
  destruct (rep_after_create s0 (s_dir s) id0 Hrep0 Hn0) as [_ Hr1]. set (f1 := fupd s0 (FData id0) (Some [])) in *.
  assert (Hg1 : good (abs s) (s_dir s ++ [(id0, empty_file)])).
  { apply good_app_empty; [exact Hg0| |unfold id0; lia]. unfold id0. replace (s_last s + 1 - 1) with (s_last s) by lia. exact Hle. }
  destruct (rep_create_hint f1 (s_dir s) id0 Hr1 Hn0 (proj1 Hg1)) as [_ Hr2]. set (f2 := fupd f1 (FHint id0) (Some [])) in *.
  destruct (rep_none s0 (s_dir s) id0 Hrep0 Hn0) as [Hnd Hnh].
  assert (Hf1h : f1 (FHint id0) = None) by (unfold f1; rewrite fupd_other by discriminate; exact Hnh).
  set (syn1 := nupd syn0 (FData id0) 0%nat). set (syn2 := nupd syn1 (FHint id0) 0%nat).
  assert (Hp1 : pstep (s0, syn0) (SCreate (FData id0)) = Some (f1, syn1)) by (cbn [pstep]; rewrite Hnd; reflexivity).
  assert (Hp2 : pstep (f1, syn1) (SCreate (FHint id0)) = Some (f2, syn2)) by (cbn [pstep]; rewrite Hf1h; reflexivity).
  assert (Hsy1 : synced (f1, syn1)) by (apply synced_create; exact Hsy0).
  assert (Hsy2 : synced (f2, syn2)) by (apply synced_create; exact Hsy1).
  assert (Hgm0 : dir_get d0 id0 = Some (mkFile [] (Some []))).
  { unfold d0. rewrite <- (dir_set_new (s_dir s) id0 _ Hn0), dir_get_set, N.eqb_refl. reflexivity. }
  pose proof (LI_good s S m0 [] HLI0) as Hgd0. cbn [m_dir m0] in Hgd0.
  assert (PI0 : PI s (s0, syn0) m0).
  { exists f2, syn2. unfold m0. cbn [m_trace m_dir m_id rev app prun]. rewrite Hp1, Hp2. split; [reflexivity|]. split; [exact Hr2|].
    split; [intros g b _ _ Hg; exact (Hsy2 g b Hg)|]. split.
    { intros n. unfold trunc. rewrite Hgm0. cbn [d_data]. rewrite firstn_nil. cbn [hints_of]. rewrite (dir_set_same _ _ _ Hgm0). exact Hgd0. }
    split; [exists (mkFile [] (Some [])); split; [exact Hgm0|split; [reflexivity|constructor]]|].
    intros img Hp.
    apply power_image_cons in Hp as [H|(st1 & Hs1 & H)]; [exact (synced_crash_ok s0 syn0 img _ (abs s) Hsy0 H Hrep0 Hg0)|].
    rewrite Hp1 in Hs1. inversion Hs1; subst st1.
    apply power_image_cons in H as [H|(st2 & Hs2 & H)]; [exact (synced_crash_ok f1 syn1 img _ (abs s) Hsy1 H Hr1 Hg1)|].
    rewrite Hp2 in Hs2. inversion Hs2; subst st2. apply power_image_nil in H.
    exact (synced_crash_ok f2 syn2 img _ (abs s) Hsy2 H Hr2 Hgd0). }
  (* phase 1 *)
  destruct (loop_power c s S sel (s0, syn0) (fun g => eq_refl) HSle ord m0 [] m HLI0 Hloop Hwfm PI0)
    as (f & syn & Hrun & Hrepm & Hsyn & HG & (fm & Hfm & Hhm & Hwfh) & Himgs).
  pose proof HLI as (Hsm & _ & Hhok & _).
  destruct (rep_get f (m_dir m) (m_id m) fm Hrepm Hfm) as [Hfd Hfh]. rewrite Hhm in Hfh. cbn [option_map] in Hfh.
  set (synA := nupd syn (FData (m_id m)) (length (file_bytes (d_data fm)))).
  set (synB := nupd synA (FHint (m_id m)) (length (hint_bytes (hints_of (d_data fm) 0)))).
  assert (Hq1 : pstep (f, syn) (SFsync (FData (m_id m))) = Some (f, synA)) by (cbn [pstep]; rewrite Hfd; reflexivity).
  assert (Hq2 : pstep (f, synA) (SFsync (FHint (m_id m))) = Some (f, synB)) by (cbn [pstep]; rewrite Hfh; reflexivity).
  assert (HsA : forall g b, g <> FData (m_id m) -> g <> FHint (m_id m) -> f g = Some b -> synA g = length b).
  { intros g b H1 H2 Hg. unfold synA. rewrite nupd_other by exact H1. eauto. }
  assert (HsyB : synced (f, synB)).
  { intros g b Hg. cbn [fst snd] in *. destruct (fn_eqb g (FHint (m_id m))) eqn:Ea.
    - apply fn_eqb_eq in Ea. subst g. unfold synB. rewrite nupd_same. rewrite Hfh in Hg. inversion Hg. reflexivity.
    - assert (g <> FHint (m_id m)) by (intros ->; rewrite fn_eqb_refl in Ea; discriminate). unfold synB. rewrite nupd_other by assumption.
      destruct (fn_eqb g (FData (m_id m))) eqn:Eb.
      + apply fn_eqb_eq in Eb. subst g. unfold synA. rewrite nupd_same. rewrite Hfd in Hg. inversion Hg. reflexivity.
      + assert (g <> FData (m_id m)) by (intros ->; rewrite fn_eqb_refl in Eb; discriminate). unfold synA. rewrite nupd_other by assumption. eauto. }
  (* phase 2: from here on every boundary is durable *)
  assert (Hrest_sh : sync_shaped rest = true) by (apply shaped_app_create; apply unlink_trace_plain).
  assert (Hpre : fs_run s0 (rev (m_trace m) ++ [SFsync (FData (m_id m)); SFsync (FHint (m_id m))]) = Some f).
  { rewrite fs_run_app, (prun_fs _ _ _ _ _ Hrun). cbn [fs_run fs_step]. rewrite Hfd, Hfh. reflexivity. }
  assert (Hfs_rest : fs_run f rest = Some s1).
  { replace (rev (m_trace m) ++ SFsync (FData (m_id m)) :: SFsync (FHint (m_id m)) :: rest)
      with ((rev (m_trace m) ++ [SFsync (FData (m_id m)); SFsync (FHint (m_id m))]) ++ rest) in Hfsrun by (rewrite <- app_assoc; reflexivity).
    rewrite fs_run_app, Hpre in Hfsrun. exact Hfsrun. }
  destruct (prun_of_fs rest f synB s1 Hfs_rest) as (syn1' & Hprest).
  destruct (shaped_power (length rest) rest (f, synB) (s1, syn1') (le_n _) HsyB Hrest_sh Hprest) as [Hsy_final Hpi_rest].
  split.
  - exists (s1, syn1'). rewrite prun_app, Hrun. cbn [prun]. rewrite Hq1, Hq2. split; [exact Hprest|]. split; [exact Hsy_final|exact Hrep1].
  - intros img Hp. destruct (power_image_app (s0, syn0) _ _ img (f, syn) Hrun Hp) as [H|H]; [left; apply Himgs; exact H|].
    assert (Hcut0 : forall syn' i, (forall g b, g <> FData (m_id m) -> g <> FHint (m_id m) -> f g = Some b -> syn' g = length b) -> pimage (f, syn') i -> img_ok_p i (abs s)).
    { intros syn' i Hs' Hpi. apply (merge_file_images (abs s) (m_dir m) (m_id m) fm [] f syn' i Hhok Hfm Hhm Hwfh Hrepm Hs' HG).
      apply (pimage_ext f); [|exact Hpi]. intros g. unfold fupd. destruct (fn_eqb g (FData (m_id m))) eqn:E; [|reflexivity].
      apply fn_eqb_eq in E. subst g. rewrite app_nil_r. symmetry. exact Hfd. }
    apply power_image_cons in H as [H|(st1 & Hs1 & H)]; [left; exact (Hcut0 syn img Hsyn H)|].
    rewrite Hq1 in Hs1. inversion Hs1; subst st1.
    apply power_image_cons in H as [H|(st2 & Hs2 & H)]; [left; exact (Hcut0 synA img HsA H)|].
    rewrite Hq2 in Hs2. inversion Hs2; subst st2.
    destruct (Hpi_rest img H) as (img' & Hi & He). cbn [fst] in Hi.
    assert (Hi' : image_of s0 (rev (m_trace m) ++ SFsync (FData (m_id m)) :: SFsync (FHint (m_id m)) :: rest) img').
    { replace (rev (m_trace m) ++ SFsync (FData (m_id m)) :: SFsync (FHint (m_id m)) :: rest)
        with ((rev (m_trace m) ++ [SFsync (FData (m_id m)); SFsync (FHint (m_id m))]) ++ rest) by (rewrite <- app_assoc; reflexivity).
      exact (image_shift s0 _ f rest img' Hpre Hi). }
    destruct (Hcimgs img' Hi') as [Hok|Hok]; [left|right]; exact (img_ok_to_p img' img _ He Hok).
Qed.

(* ---------- every operation, every script, under sync=always ---------- *)
Theorem step_power c s o : c_sync c = true -> Inv s -> op_ready c s o -> step_power_safe c s o.
Proof.
  intros Hsync HI Hr. destruct (is_merge o) eqn:Em; [|apply nomerge_power_safe; assumption].
  destruct o; try discriminate. apply merge_power_safe; assumption.
Qed.

Theorem power_safe_script c : c_sync c = true -> forall ops s st0,
  Inv s -> run_ready c s ops -> synced st0 -> rep (fst st0) (s_dir s) -> trace_wf (snd (run c s ops)) ->
  (exists st1, prun st0 (snd (run c s ops)) = Some st1 /\ synced st1 /\ rep (fst st1) (s_dir (fst (fst (run c s ops))))) /\
  forall img, power_image_of st0 (snd (run c s ops)) img ->
    exists n, (n <= length ops)%nat /\ img_ok_p img (abs (state_after c s ops n)).
Proof.
  intros Hsync. induction ops as [|o ops IH]; intros s st0 HI Hready Hsy Hrep Hwf; cbn [run snd fst] in *.
  - split; [exists st0; auto|]. intros img Hp. apply power_image_nil in Hp. exists 0%nat. split; [lia|]. cbn [state_after].
    destruct st0 as [s0 syn0]. exact (synced_crash_ok s0 syn0 img _ (abs s) Hsy Hp Hrep (inv_good s HI)).
  - destruct Hready as [Hr1 Hr2].
    pose proof (step_power c s o Hsync HI Hr1 st0 Hsy Hrep) as Hstep. pose proof (step_refines c s o HI Hr1) as Href.
    destruct (step c s o) as [[s1 r] t] eqn:Es. cbn [fst] in Hr2. destruct Href as (HI1 & _ & _).
    destruct (run c s1 ops) as [[s2 rs] ts] eqn:Er. cbn [snd fst] in *.
    unfold trace_wf in Hwf. apply Forall_app in Hwf as [Hwf1 Hwf2].
    destruct (Hstep Hwf1) as [(st1 & Hrun1 & Hsy1 & Hrep1) Himg1].
    specialize (IH s1 st1 HI1 Hr2 Hsy1 Hrep1). rewrite Er in IH. cbn [snd fst] in IH. destruct (IH Hwf2) as [(st2 & Hrun2 & Hsy2 & Hrep2) Himg2].
    split; [exists st2; rewrite prun_app, Hrun1; auto|].
    intros img Hp. destruct (power_image_app st0 t ts img st1 Hrun1 Hp) as [H|H].
    + destruct (Himg1 img H) as [H0|H1].
      * exists 0%nat. split; [lia|exact H0].
      * exists 1%nat. split; [cbn; lia|]. cbn [state_after]. rewrite Es. cbn [fst]. destruct ops; exact H1.
    + destruct (Himg2 img H) as (n & Hn & Hok). exists (S n). split; [cbn; lia|]. cbn [state_after]. rewrite Es. exact Hok.
Qed.

(* the sharp form: a power failure DURING operation [o], after [ops1] were acknowledged *)
Theorem power_during_op c ops1 o st0 : c_sync c = true ->
  run_ready c init (ops1 ++ [o]) -> synced st0 -> rep (fst st0) (s_dir init) -> trace_wf (snd (run c init (ops1 ++ [o]))) ->
  let s1 := fst (fst (run c init ops1)) in
  exists st1, prun st0 (snd (run c init ops1)) = Some st1 /\
    forall img, power_image_of st1 (snd (step c s1 o)) img ->
      img_ok_p img (abs s1) \/ img_ok_p img (abs (fst (fst (step c s1 o)))).
Proof.
  intros Hsync Hready Hsy Hrep Hwf. cbv zeta. destruct (run_ready_app c ops1 init [o] Hready) as [Hr1 Hr2].
  rewrite run_app in Hwf. pose proof (run_refines c ops1 init (proj1 init_inv) Hr1) as Href.
  pose proof (power_safe_script c Hsync ops1 init st0 (proj1 init_inv) Hr1 Hsy Hrep) as Hsc.
  destruct (run c init ops1) as [[s1 r1] t1] eqn:E1. cbn [fst snd] in *. destruct Href as (HI1 & _).
  cbn [run] in Hwf. destruct (step c s1 o) as [[s2 r2] t2] eqn:E2. cbn [snd fst] in *. rewrite app_nil_r in Hwf.
  unfold trace_wf in Hwf. apply Forall_app in Hwf as [Hwf1 Hwf2].
  destruct (Hsc Hwf1) as [(st1 & Hrun & Hsy1 & Hrep1) _].
  exists st1. split; [exact Hrun|]. cbn [run_ready] in Hr2. destruct Hr2 as [Hop _].
  pose proof (step_power c s1 o Hsync HI1 Hop st1 Hsy1 Hrep1) as Hst. rewrite E2 in Hst. destruct (Hst Hwf2) as [_ Himg]. exact Himg.
Qed.

(* ---------- durable lengths never exceed the file: cutting one file down to its durable length (or
   anywhere above) and keeping the others whole is a power image ---------- *)
Definition bounded (st : pst) : Prop := forall f b, fst st f = Some b -> (snd st f <= length b)%nat.

Lemma pstep_bounded st c st' : bounded st -> pstep st c = Some st' -> bounded st'.
Proof.
  destruct st as [s syn]. intros Hb H. unfold pstep in H. destruct c as [g|g x|g|g]; destruct (s g) as [y|] eqn:Eg; try discriminate; inversion H; subst; clear H.
  - intros f b Hf. cbn [fst snd] in *. unfold fupd, nupd in *. destruct (fn_eqb f g); [inversion Hf; cbn; lia|apply Hb; exact Hf].
  - intros f b Hf. cbn [fst snd] in *. unfold fupd in Hf. destruct (fn_eqb f g) eqn:E.
    + apply fn_eqb_eq in E. subst f. inversion Hf; subst. specialize (Hb g y Eg). cbn [fst snd] in Hb. rewrite app_length. lia.
    + apply Hb. exact Hf.
  - intros f b Hf. cbn [fst snd] in *. unfold nupd. destruct (fn_eqb f g) eqn:E; [apply fn_eqb_eq in E; subst; rewrite Eg in Hf; inversion Hf; lia|apply Hb; exact Hf].
  - intros f b Hf. cbn [fst snd] in *. unfold fupd in Hf. destruct (fn_eqb f g); [discriminate|apply Hb; exact Hf].
Qed.

Lemma prun_bounded : forall t st st', bounded st -> prun st t = Some st' -> bounded st'.
Proof.
  induction t as [|c t IH]; intros st st' Hb H; cbn [prun] in H; [inversion H; subst; exact Hb|].
  destruct (pstep st c) as [st1|] eqn:E; [|discriminate]. eapply IH; [eapply pstep_bounded; eassumption|exact H].
Qed.

Lemma cut_one_is_image st g j : bounded st -> (snd st g <= j)%nat ->
  pimage st (fun f => match fst st f with Some b => Some (if fn_eqb f g then firstn j b else b) | None => None end).
Proof.
  intros Hb Hj f. destruct (fst st f) as [b|] eqn:Ef; [|reflexivity]. destruct (fn_eqb f g) eqn:E.
  - apply fn_eqb_eq in E. subst f. exists (Nat.min j (length b)). pose proof (Hb g b Ef). split; [lia|]. f_equal.
    destruct (Nat.le_ge_cases j (length b)); [rewrite Nat.min_l by assumption; reflexivity|rewrite Nat.min_r, firstn_all, firstn_all2 by assumption; reflexivity].
  - exists (length b). split; [split; [apply Hb; exact Ef|lia]|rewrite firstn_all; reflexivity].
Qed.
