(* Store/Sizes.v — how many bytes a merge leaves (C13): the kept files, plus one copy of every
   record that was live in a selected file. *)
From BC Require Import Store.Engine Store.Log Store.Step Store.Cons Store.Inv Store.Refine Store.MergeLemmas Store.Merge.
Open Scope N_scope.

Fixpoint lsize (L : list lentry) : N := match L with [] => 0 | en :: L' => esize en + lsize L' end.
Definition dir_size (d : dir) : N := lsize (log_of_dir d).

Lemma lsize_app L1 L2 : lsize (L1 ++ L2) = lsize L1 + lsize L2.
Proof. induction L1 as [|en L1 IH]; cbn [app lsize]; [reflexivity|]. rewrite IH. lia. Qed.

Lemma lsize_log_file fid es pos : lsize (log_file fid es pos) = data_size es.
Proof. revert pos. induction es as [|e es IH]; intros pos; cbn [log_file lsize data_size esize]; [reflexivity|]. rewrite IH. reflexivity. Qed.

(* the total size of the data files, as the file system reports it *)
Fixpoint files_size (d : dir) : N := match d with [] => 0 | (_, f) :: d' => data_size (d_data f) + files_size d' end.
Lemma dir_size_files d : dir_size d = files_size d.
Proof. unfold dir_size. induction d as [|[i f] d IH]; cbn [log_of_dir files_size lsize]; [reflexivity|]. rewrite lsize_app, lsize_log_file, IH. reflexivity. Qed.

(* bytes of the records that are live and sit in a file of [S] *)
Fixpoint bliveS (S : N -> bool) (L : list lentry) (i : index) : N :=
  match L with
  | [] => 0
  | en :: L' => (if S (fid_of en) && is_live i en then esize en else 0) + bliveS S L' i
  end.

Lemma bliveS_app S L1 L2 i : bliveS S (L1 ++ L2) i = bliveS S L1 i + bliveS S L2 i.
Proof. induction L1 as [|en L1 IH]; cbn [app bliveS]; [reflexivity|]. rewrite IH. lia. Qed.

Lemma bliveS_le S L i : bliveS S L i <= lsize L.
Proof. induction L as [|en L IH]; cbn [bliveS lsize]; [lia|]. destruct (S (fid_of en) && is_live i en); lia. Qed.

Lemma bliveS_none S L i : Forall (fun en => S (fid_of en) = false) L -> bliveS S L i = 0.
Proof. induction 1 as [|en L Hx HL IH]; cbn [bliveS]; [reflexivity|]. rewrite Hx, IH. reflexivity. Qed.

Lemma bliveS_all S L i : Forall (fun en => S (fid_of en) = true) L ->
  bliveS S L i = bliveS (fun _ => true) L i.
Proof. induction 1 as [|en L Hx HL IH]; cbn [bliveS]; [reflexivity|]. rewrite Hx, IH. reflexivity. Qed.

(* forgetting key [k]: the live bytes drop by the record its entry denoted *)
Lemma kill_blive S L i i' k :
  (forall k', beq k' k = false -> iget i' k' = iget i k') -> misses (iget i' k) L ->
  bliveS S L i = bliveS S L i' +
    match iget i k with Some prev => if S (l_fid prev) then occb L (l_fid prev) (l_pos prev) k else 0 | None => 0 end.
Proof.
  intros Hag Hm. induction L as [|[[f' p'] e] L IH].
  - cbn. destruct (iget i k) as [prev|]; [destruct (S (l_fid prev))|]; reflexivity.
  - assert (Hm' : misses (iget i' k) L).
    { unfold misses in *. destruct (iget i' k) as [l'|]; [|exact I]. cbn [existsb] in Hm. apply orb_false_iff in Hm. tauto. }
    specialize (IH Hm'). cbn [bliveS occb fid_of is_live esize key_of at_pos].
    destruct (beq (e_key e) k) eqn:Ek.
    + apply beq_eq in Ek. subst k. rewrite beq_refl.
      assert (Hdead' : match iget i' (e_key e) with Some l => (l_fid l =? f') && (l_pos l =? p') | None => false end = false).
      { unfold misses in Hm. destruct (iget i' (e_key e)) as [l'|]; [|reflexivity].
        cbn [existsb at_pos] in Hm. apply orb_false_iff in Hm as [Hm _].
        rewrite (N.eqb_sym (l_fid l')), (N.eqb_sym (l_pos l')). exact Hm. }
      rewrite Hdead'. rewrite andb_false_r.
      destruct (iget i (e_key e)) as [prev|]; [|rewrite andb_false_r; lia].
      rewrite andb_true_r.
      destruct (N.eqb_spec (l_fid prev) f') as [Ef|Ef].
      * rewrite Ef in *. rewrite N.eqb_refl. cbn [andb]. rewrite (N.eqb_sym p').
        destruct (S f'); cbn [andb]; [|lia]. destruct (l_pos prev =? p'); lia.
      * cbn [andb]. rewrite andb_false_r. replace (f' =? l_fid prev) with false by (symmetry; apply N.eqb_neq; congruence).
        cbn [andb]. destruct (S (l_fid prev)); lia.
    + rewrite (Hag (e_key e) Ek). rewrite beq_sym in Ek.
      destruct (iget i k) as [prev|]; [|lia]. rewrite Ek, andb_false_r. destruct (S (l_fid prev)); lia.
Qed.

Lemma occb_app L1 L2 g p k : occb (L1 ++ L2) g p k = occb L1 g p k + occb L2 g p k.
Proof. induction L1 as [|en L1 IH]; cbn [app occb]; [reflexivity|]. rewrite IH. lia. Qed.

(* ---------- the merge loop copies exactly the live bytes of the selected files ---------- *)
Lemma merge_one_size c s S m M k l :
  LI s S m M -> (forall g, S g = true -> g <= s_last s) ->
  iget (m_idx m) k = Some l -> S (l_fid l) = true ->
  exists m' M', merge_one c m k l = ROk m' /\ LI s S m' M' /\
    lsize M' + bliveS S (slog s ++ M') (m_idx m') = lsize M + bliveS S (slog s ++ M) (m_idx m).
Proof.
  intros HLI HSle Hk HSl.
  destruct (merge_one_ok c s S m M k l HLI HSle Hk HSl) as (m' & M' & H1 & HLI' & (l' & Hl' & HSl') & Hoth & HM'eq).
  exists m', M'. split; [exact H1|]. split; [exact HLI'|].
  destruct HLI as (Hs & Hle & Hh & Hid & Hgt & _ & Hlog & HM & (C1 & C2 & C3) & HV).
  destruct HLI' as (Hs' & _ & _ & _ & _ & _ & Hlog' & HM' & (C1' & _) & _).
  assert (Hll : lastloc (slog s ++ M) k None = Some l) by (rewrite <- C1; exact Hk).
  destruct HM'eq as (en & -> & Hken & Hsz & HSen).
  assert (Hwf : wfL ((slog s ++ M) ++ [en])) by (rewrite <- app_assoc, <- Hlog'; apply wfL_log_of_dir; exact Hs').
  destruct en as [[fe pe] ee]. cbn [key_of esize fid_of] in *.
  apply wfL_app_one in Hwf as [Hwf Hfresh].
  rewrite app_assoc, bliveS_app. cbn [bliveS fid_of]. rewrite HSen. cbn [andb]. rewrite lsize_app. cbn [lsize esize].
  (* the new index agrees with the old one off k and misses the old log at k *)
  assert (Hmiss : misses (iget (m_idx m') k) (slog s ++ M)).
  { rewrite C1'. rewrite (app_assoc (slog s) M), lastloc_app. cbn [lastloc]. rewrite Hken, beq_refl.
    destruct (e_val ee); [cbn; exact Hfresh|exact I]. }
  rewrite (kill_blive S (slog s ++ M) (m_idx m) (m_idx m') k Hoth Hmiss). rewrite Hk, HSl.
  destruct (lastloc_occ k (slog s ++ M) None l Hwf I Hll) as [[Habs _]|[_ Hb]]; [discriminate|].
  rewrite Hb. lia.
Qed.

Lemma loop_size c s S sel : (forall g, S g = mem g sel) -> (forall g, S g = true -> g <= s_last s) ->
  forall ord m M, LI s S m M ->
  exists m' M', merge_loop c sel m ord = ROk m' /\ LI s S m' M' /\
    lsize M' + bliveS S (slog s ++ M') (m_idx m') = lsize M + bliveS S (slog s ++ M) (m_idx m).
Proof.
  intros HS HSle. induction ord as [|k ord IH]; intros m M HLI.
  - exists m, M. cbn [merge_loop]. auto.
  - cbn [merge_loop]. destruct (iget (m_idx m) k) as [l|] eqn:Ek; [|apply IH; exact HLI].
    destruct (mem (l_fid l) sel) eqn:Em; [|apply IH; exact HLI].
    destruct (merge_one_size c s S m M k l HLI HSle Ek ltac:(rewrite HS; exact Em)) as (m1 & M1 & H1 & HLI1 & Hsz).
    rewrite H1. destruct (IH m1 M1 HLI1) as (m' & M' & Hl & HLI' & Hsz'). exists m', M'. split; [exact Hl|]. split; [exact HLI'|]. lia.
Qed.

(* rows the loop creates only ever receive add_live *)
Lemma counters_merge_row c s S sel : (forall g, S g = mem g sel) -> (forall g, S g = true -> g <= s_last s) ->
  forall ord m M, LI s S m M -> forall m', merge_loop c sel m ord = ROk m' ->
  forall g, sget (m_stats m') g = sget (m_stats m) g \/ (dead (sget0 (m_stats m) g) = 0 -> dead (sget0 (m_stats m') g) = 0).
Proof.
  intros HS HSle. induction ord as [|k ord IH]; intros m M HLI m' Hl g.
  - cbn [merge_loop] in Hl. inversion Hl; subst. left. reflexivity.
  - cbn [merge_loop] in Hl. destruct (iget (m_idx m) k) as [l|] eqn:Ek; [|eapply IH; eassumption].
    destruct (mem (l_fid l) sel) eqn:Em; [|eapply IH; eassumption].
    destruct (merge_one_ok c s S m M k l HLI HSle Ek ltac:(rewrite HS; exact Em)) as (m1 & M1 & H1 & HLI1 & _).
    rewrite H1 in Hl. right. intros Hd.
    assert (Hd1 : dead (sget0 (m_stats m1) g) = 0).
    { unfold merge_one in H1. destruct (read_loc (m_dir m) l) as [e| |]; try discriminate.
      destruct (append_data (m_dir m) (m_id m) e) as [[d1 pos1]|]; [|discriminate].
      destruct (c_max c <? m_pos m + l_len l).
      - destruct (create_pair _ _); [|discriminate]. inversion H1; subst m1. cbn [m_stats]. rewrite sget0_aset.
        destruct (g =? m_id m) eqn:E; [apply N.eqb_eq in E; subst g; cbn [add_live dead]; exact Hd|exact Hd].
      - inversion H1; subst m1. cbn [m_stats]. rewrite sget0_aset.
        destruct (g =? m_id m) eqn:E; [apply N.eqb_eq in E; subst g; cbn [add_live dead]; exact Hd|exact Hd]. }
    destruct (IH m1 M1 HLI1 m' Hl g) as [E|Hz]; [unfold sget0; rewrite E; exact Hd1|exact (Hz Hd1)].
Qed.

Lemma bliveS_zero S L i : (forall k l, iget i k = Some l -> S (l_fid l) = false) -> bliveS S L i = 0.
Proof.
  intros H. induction L as [|[[f p] e] L IH]; cbn [bliveS fid_of is_live]; [reflexivity|]. rewrite IH.
  destruct (iget i (e_key e)) as [l|] eqn:E; [|rewrite andb_false_r; reflexivity].
  destruct (N.eqb_spec (l_fid l) f) as [<-|]; [|rewrite andb_false_r; reflexivity].
  rewrite (H _ _ E). reflexivity.
Qed.

Theorem merge_full c s ord : Inv s -> merge_ready c s ord ->
  exists s' t sel0, merge c s ord = ROk (s', tt, t) /\ select c s = ROk sel0 /\ Inv s' /\
    (forall k, abs s' k = abs s k) /\ s_clock s' = s_clock s /\
    dir_size (s_dir s') = lsize (filter (keep (fun g => mem g sel0)) (slog s)) + bliveS (fun g => mem g sel0) (slog s) (s_idx s) /\
    (forall g, mem g sel0 = true -> sget (s_stats s') g = None) /\
    (forall g, sget (s_stats s') g <> None -> mem g sel0 = false -> sget (s_stats s) g = None -> dead (sget0 (s_stats s') g) = 0).
Proof.
  intros HI Hready. pose proof HI as (Hs & Hle & Hh & Hst & Hact & Hfa & HC).
  destruct (select_ok c s HI) as (sel0 & bound & Hsel & Hmem).
  unfold merge, merge_with. rewrite Hsel. rewrite (Hready sel0 Hsel). cbn [negb].
  set (sel := sort_ids sel0). set (S := fun g => mem g sel).
  assert (HS : forall g, S g = hasrow (s_stats s) g && match bound with Some b => g <=? b | None => false end).
  { intros g. unfold S, sel. rewrite mem_sort_ids. apply Hmem. }
  pose proof HC as (C1 & C2 & C3).
  assert (Hrow : forall g, hasrow (s_stats s) g = has_file (slog s) g).
  { intros g. unfold hasrow. destruct (sget (s_stats s) g) eqn:E.
    - destruct (has_file (slog s) g) eqn:F; [reflexivity|]. apply C3 in F; [congruence|reflexivity].
    - symmetry. apply C3; [reflexivity|exact E]. }
  assert (HSle : forall g, S g = true -> g <= s_last s).
  { intros g Hg. rewrite HS in Hg. apply andb_true_iff in Hg as [Hg _]. rewrite Hrow in Hg.
    destruct (has_file_dir_get _ _ Hs Hg) as (f & Hget & _). apply dir_get_In in Hget.
    unfold ids_le in Hle. rewrite Forall_forall in Hle. apply (Hle _ Hget). }
  (* the first merge output *)
  unfold create_pair. rewrite (ids_le_get_none _ _ (s_last s + 1) Hle) by lia.
  rewrite dir_set_new by (apply (ids_le_get_none _ (s_last s)); [exact Hle|lia]).
  set (d0 := s_dir s ++ [(s_last s + 1, mkFile [] (Some []))]).
  set (m0 := mkM d0 (s_idx s) (s_stats s) (s_last s + 1) 0 (s_last s + 1) [SCreate (FHint (s_last s + 1)); SCreate (FData (s_last s + 1))]).
  assert (Hs0 : sorted d0).
  { apply sorted_app_one; [exact Hs| |lia]. replace (s_last s + 1 - 1) with (s_last s) by lia. exact Hle. }
  assert (HLI0 : LI s S m0 []).
  { unfold LI, m0. cbn [m_dir m_idx m_stats m_id m_pos m_last]. rewrite app_nil_r.
    split; [exact Hs0|]. split.
    { unfold ids_le. apply Forall_app. split; [apply (ids_le_weaken _ (s_last s)); [exact Hle|lia]|]. constructor; [lia|constructor]. }
    split.
    { intros id g Hin. apply in_app_or in Hin as [Hin|[Hin|[]]]; [eauto|]. inversion Hin; subst. split; [reflexivity|constructor]. }
    split; [reflexivity|]. split; [lia|]. split.
    { exists (mkFile [] (Some [])), []. split; [|split; reflexivity].
      apply In_dir_get; [exact Hs0|apply in_or_app; right; left; reflexivity]. }
    split.
    { unfold d0. rewrite log_of_dir_app. cbn [log_of_dir log_file d_data]. rewrite !app_nil_r. reflexivity. }
    split; [constructor|]. split; [apply cons_weaken; exact HC|reflexivity]. }
  destruct (loop_ok c s S sel ltac:(reflexivity) HSle ord m0 [] HLI0) as (m & M & Hloop & HLI & Hmoved & Hall).
  destruct (loop_size c s S sel ltac:(reflexivity) HSle ord m0 [] HLI0) as (m_ & M_ & Hloop_ & HLI_ & Hsize).
  rewrite Hloop in Hloop_. inversion Hloop_; subst m_. clear Hloop_.
  assert (EM : M_ = M).
  { destruct HLI as (_ & _ & _ & _ & _ & _ & HlA & _). destruct HLI_ as (_ & _ & _ & _ & _ & _ & HlB & _).
    rewrite HlA in HlB. apply app_inv_head in HlB. congruence. }
  subst M_. clear HLI_. cbn [lsize m_idx m0] in Hsize. rewrite app_nil_r in Hsize.
  rewrite Hloop.
  destruct HLI as (Hsm & Hlem & Hhm & Hidm & Hgtm & _ & Hlogm & HMm & (D1 & D2 & D3) & HVm).
  (* no key resolves into a selected file any more *)
  assert (E1 : forall k l, iget (m_idx m) k = Some l -> S (l_fid l) = false).
  { intros k l Hk. destruct (Hmoved k) as [E|(l' & E & HSl)]; [|congruence].
    cbn [m_idx m0] in E. destruct (S (l_fid l)) eqn:ES; [|reflexivity]. exfalso.
    assert (Hk0 : iget (s_idx s) k = Some l) by congruence.
    pose proof (Hready sel0 Hsel) as Hok. unfold ord_ok in Hok. apply andb_true_iff in Hok as [_ Hok].
    rewrite forallb_forall in Hok.
    pose proof (akeys_spec _ _ _ Hk0) as Hin. apply existsb_exists in Hin as (k0 & Hin & Hb). apply beq_eq in Hb. subst k0.
    specialize (Hok k Hin). rewrite Hk0 in Hok. fold sel in Hok. fold (S (l_fid l)) in Hok. rewrite ES in Hok. cbn [negb orb] in Hok.
    specialize (Hall k Hok). rewrite Hk in Hall. congruence. }
  (* removal of the selected files *)
  pose proof (unlink_all_spec sel (m_dir m) (m_stats m) (SFsync (FHint (m_id m)) :: SFsync (FData (m_id m)) :: m_trace m) Hsm) as Hun.
  destruct (unlink_all (m_dir m) (m_stats m) sel _) as [[d2 x2] t2]. destruct Hun as [Ed2 Hx2]. fold S in Ed2.
  set (s2 := mkSt d2 (m_idx m) x2 (s_active s) (s_written s) (m_last m) true (s_clock s)).
  assert (Hlog2 : log_of_dir d2 = filter (keep S) (slog s ++ M)) by (rewrite Ed2, log_dir_filter, Hlogm; reflexivity).
  (* the selected records are a prefix of the old log *)
  destruct (log_prefix (s_dir s) (fun g => match bound with Some b => g <=? b | None => false end) Hs) as (LS & LR & Esplit & HLS & HLR).
  { intros i j Hij Hj. destruct bound as [b|]; [|discriminate]. apply N.leb_le in Hj. apply N.leb_le. lia. }
  fold (slog s) in Esplit.
  assert (HinS : forall en, In en (slog s) -> S (fid_of en) = match bound with Some b => fid_of en <=? b | None => false end).
  { intros [[f p] e] Hin. cbn [fid_of]. rewrite HS, Hrow.
    replace (has_file (slog s) f) with true; [reflexivity|]. symmetry. unfold has_file. apply existsb_exists.
    exists (f, p, e). split; [exact Hin|]. cbn. apply N.eqb_refl. }
  assert (HLS' : Forall (fun en => S (fid_of en) = true) LS).
  { rewrite Forall_forall in *. intros en Hin. rewrite HinS by (rewrite Esplit; apply in_or_app; left; exact Hin). apply HLS. exact Hin. }
  assert (HLR' : Forall (fun en => S (fid_of en) = false) LR).
  { rewrite Forall_forall in *. intros en Hin. rewrite HinS by (rewrite Esplit; apply in_or_app; right; exact Hin). apply HLR. exact Hin. }
  assert (Hfil : filter (keep S) (slog s ++ M) = LR ++ M).
  { rewrite Esplit, !filter_app, (filter_keep_none S LS HLS'), (filter_keep_all S LR HLR'), (filter_keep_all S M HMm). reflexivity. }
  (* keys without a record in the kept part resolve to nothing *)
  assert (Hnokey : forall k, has_key k (LR ++ M) = false -> lastloc LS k None = None).
  { intros k Hnk. destruct (lastloc LS k None) as [l|] eqn:El; [|reflexivity]. exfalso.
    assert (Hk : iget (m_idx m) k = Some l).
    { rewrite D1, Esplit, <- app_assoc, (lastloc_app LS (LR ++ M)), El. apply lastloc_no_key. exact Hnk. }
    destruct (lastloc_In _ _ _ El) as (f & p & e & Hin & -> & _). rewrite Forall_forall in HLS'. specialize (HLS' _ Hin).
    specialize (E1 k _ Hk). cbn in *. congruence. }
  assert (HC2 : cons (log_of_dir d2) (m_idx m) x2).
  { rewrite Hlog2. split; [|split].
    - intros k. rewrite D1, Hfil, Esplit, <- app_assoc, (lastloc_app LS (LR ++ M)).
      destruct (has_key k (LR ++ M)) eqn:Hk; [apply lastloc_has_key; exact Hk|].
      rewrite (Hnokey k Hk). reflexivity.
    - intros g _. unfold sget0. rewrite Hx2. fold (S g). destruct (S g) eqn:ES.
      + destruct (counts_dropped S (slog s ++ M) (m_idx m) g ES) as (-> & -> & -> & _). repeat split.
      + destruct (counts_filter S (slog s ++ M) (m_idx m) g ES) as (-> & -> & -> & _). apply D2. exact ES.
    - intros g _. rewrite Hx2. fold (S g). destruct (S g) eqn:ES.
      + destruct (counts_dropped S (slog s ++ M) (m_idx m) g ES) as (_ & _ & _ & ->). split; reflexivity.
      + destruct (counts_filter S (slog s ++ M) (m_idx m) g ES) as (_ & _ & _ & ->). apply D3. exact ES. }
  assert (Hs2 : sorted d2) by (rewrite Ed2; apply dir_filter_sorted; exact Hsm).
  assert (Hle2 : ids_le d2 (m_last m)).
  { unfold ids_le in *. rewrite Forall_forall in *. intros [j g] Hin. rewrite Ed2 in Hin. apply dir_filter_In in Hin as [Hin _]. apply (Hlem _ Hin). }
  assert (Hh2 : forall id f, In (id, f) d2 -> hints_ok f).
  { intros id f Hin. rewrite Ed2 in Hin. apply dir_filter_In in Hin as [Hin _]. eauto. }
  destruct (new_active_ok s2 Hs2 Hle2 Hh2 HC2) as (s3 & Hna & HI3 & Hlog3 & _ & _ & Hclk & _).
  rewrite Hna. eexists s3, _, sel0. split; [reflexivity|]. split; [reflexivity|]. split; [exact HI3|].
  assert (HSsel : forall g, S g = mem g sel0) by (intros g; unfold S, sel; apply mem_sort_ids).
  split; [|split; [exact Hclk|]].
  2:{ destruct (new_active_ok s2 Hs2 Hle2 Hh2 HC2) as (s3' & Hna' & _ & Hlog3' & _ & Hx3' & _ & _).
      rewrite Hna in Hna'. inversion Hna'; subst s3'. clear Hna'.
      split; [|split].
      - unfold dir_size. fold (slog s3). rewrite Hlog3'. unfold slog at 1. cbn [s_dir s2]. rewrite Hlog2, Hfil.
        rewrite (bliveS_zero S _ _ E1) in Hsize.
        rewrite lsize_app.
        assert (EL : filter (keep (fun g => mem g sel0)) (slog s) = LR).
        { rewrite (filter_ext _ (keep S)) by (intros [[f0 p0] e0]; cbn [keep]; rewrite HSsel; reflexivity).
          rewrite Esplit, filter_app, (filter_keep_none S LS HLS'), (filter_keep_all S LR HLR'). reflexivity. }
        rewrite EL.
        assert (EB : bliveS (fun g => mem g sel0) (slog s) (s_idx s) = bliveS S (slog s) (s_idx s)).
        { clear. induction (slog s) as [|en L IH]; cbn [bliveS]; [reflexivity|]. rewrite IH. unfold S, sel. rewrite mem_sort_ids. reflexivity. }
        rewrite EB. lia.
      - intros g Hg. rewrite Hx3'. cbn [s_stats s2]. rewrite Hx2. fold (S g). rewrite HSsel, Hg. reflexivity.
      - intros g Hrw Hns Hold. rewrite Hx3' in *. cbn [s_stats s2] in *. unfold sget0. rewrite Hx2 in *. fold (S g) in *.
        rewrite HSsel, Hns in *.
        (* a fresh row, created by the merge loop: only add_live was ever applied to it *)
        destruct (counters_merge_row c s S sel ltac:(reflexivity) HSle ord m0 [] HLI0 m Hloop g) as [Hkeep|Hz].
        + cbn [m_stats m0] in Hkeep. rewrite Hkeep, Hold in Hrw. congruence.
        + apply Hz. cbn [m_stats m0]. unfold sget0. rewrite Hold. reflexivity. }
  intros k. unfold abs. rewrite Hlog3. unfold slog at 1. cbn [s_dir s2]. rewrite Hlog2, Hfil.
  rewrite <- (HVm k). rewrite Esplit, <- app_assoc, (lastval_app LS (LR ++ M)).
  destruct (has_key k (LR ++ M)) eqn:Hk; [apply lastval_has_key; exact Hk|].
  rewrite (lastval_no_key _ _ _ Hk), (lastval_no_key _ _ _ Hk).
  symmetry. apply lastloc_none_iff. apply Hnokey. exact Hk.
Qed.

Theorem merge_ok c s ord : Inv s -> merge_ready c s ord ->
  exists s' t, merge c s ord = ROk (s', tt, t) /\ Inv s' /\ (forall k, abs s' k = abs s k) /\ s_clock s' = s_clock s.
Proof.
  intros HI Hr. destruct (merge_full c s ord HI Hr) as (s' & t & sel0 & Hm & _ & HI' & Ha & Hc & _).
  exists s', t. split; [exact Hm|]. split; [exact HI'|]. split; [exact Ha|exact Hc].
Qed.

