(* Store/FaultFsync.v — a set or delete whose fsync fails behind the completed append (C20, sync=always).
   The record is whole in the active file, the error is returned before the index is touched ([failed_fsync],
   Store/Engine.v).  Proved here, from any invariant state:
   (1) the running process does not see the record: every get answers as before the failed operation;
   (2) a restart at that point reads it: the directory opens to the map with the failed operation applied — the failed
       operation "may or may not have taken effect", and no other key is concerned;
   (3) with the repaired bookkeeping (6ff1d59: the record is booked as dead data of its file) every file that holds a
       record still has a row of the statistics — the invariant the merge selection rests on (Store/FaultUnlink.v,
       [rows_cover]); with the pinned code (no bookkeeping) it is lost, and the history
           set a 1; merge; set k v (fsync fails); merge; del k; merge; restart; get k
       computed in the model answers v under the pinned bookkeeping and nothing under the repaired one.
   What is NOT proved: the map a restart yields after the process has gone on with further operations and merges (a record
   in the log that the index never knew is outside [Inv]); that part is decided by the fault sweep and by the comparison
   of this model with the real store on every sweep case whose fault hit such an fsync (lib/c20.py). *)
From BC Require Import Base.Bytes Store.Codec Store.Engine Store.Log Store.Step Store.Cons Store.Inv Store.Refine
  Store.MergeLemmas Store.Merge Store.Sizes Store.Theorems Store.FaultUnlink.
From Coq Require Import Lia List NArith ZArith Bool.
Import ListNotations.
Open Scope N_scope.

(* the shape of the state after the failed fsync *)
Lemma failed_fsync_shape fixed s k v : Inv s ->
  exists s' fa, failed_fsync fixed s k v = ROk (s', [SWrite (FData (s_active s)) (enc_entry (mkEntry (s_clock s) k v))]) /\
    dir_get (s_dir s) (s_active s) = Some fa /\
    let en := (s_active s, data_size (d_data fa), mkEntry (s_clock s) k v) in
    slog s' = slog s ++ [en] /\ sorted (s_dir s') /\ s_dir s' <> [] /\ (forall id f, In (id, f) (s_dir s') -> hints_ok f) /\
    s_idx s' = s_idx s /\
    s_stats s' = (if fixed then aset (s_stats s) (s_active s) (add_dead (sget0 (s_stats s) (s_active s)) (entry_size (mkEntry (s_clock s) k v)))
                  else s_stats s).
Proof.
  intros (Hs & Hle & Hh & Hst & Hact & (fa & Hfa & Hhint) & HC).
  unfold failed_fsync. rewrite Hst.
  assert (Hle' : ids_le (s_dir s) (s_active s)) by (rewrite Hact; exact Hle).
  destruct (dir_split_last _ _ _ Hs Hle' Hfa) as (d0 & Ed).
  set (e := mkEntry (s_clock s) k v).
  assert (Hnotin : ~ In (s_active s) (map fst d0)) by (apply (sorted_not_in_front d0 _ fa); rewrite <- Ed; exact Hs).
  unfold append_data. rewrite Hfa.
  set (fa' := mkFile (d_data fa ++ [e]) (d_hint fa)).
  assert (Ed2 : dir_set (s_dir s) (s_active s) fa' = d0 ++ [(s_active s, fa')]).
  { rewrite Ed. apply dir_set_last. exact Hnotin. }
  assert (Elog : log_of_dir (d0 ++ [(s_active s, fa')]) = slog s ++ [(s_active s, data_size (d_data fa), e)]).
  { unfold slog. rewrite Ed, !log_of_dir_app. cbn [log_of_dir]. rewrite !app_nil_r. subst fa'. cbn [d_data].
    rewrite log_file_app. cbn [log_file]. rewrite N.add_0_l, app_assoc. reflexivity. }
  assert (Hs2 : sorted (d0 ++ [(s_active s, fa')])).
  { clear - Hs Ed. rewrite Ed in Hs. clear Ed. induction d0 as [|[i g] d0 IH]; cbn [app sorted] in *; [auto|].
    destruct Hs as [Hgt Hs]. split; [|auto]. unfold ids_gt in *. rewrite Forall_app in *. destruct Hgt as [H1 H2].
    split; [exact H1|]. inversion H2; subst. constructor; [assumption|constructor]. }
  assert (Hh2 : forall id f, In (id, f) (d0 ++ [(s_active s, fa')]) -> hints_ok f).
  { intros id f Hin. apply in_app_or in Hin as [Hin|[Hin|[]]].
    - apply (Hh id f). rewrite Ed. apply in_or_app. left. exact Hin.
    - inversion Hin; subst. unfold hints_ok, fa'. cbn [d_hint]. rewrite Hhint. exact I. }
  eexists. exists fa. split; [cbn [app]; reflexivity|]. split; [reflexivity|].
  cbv zeta. unfold slog at 1. cbn [s_dir s_idx s_stats]. rewrite Ed2.
  split; [exact Elog|]. split; [exact Hs2|]. split; [destruct d0; discriminate|]. split; [exact Hh2|]. split; reflexivity.
Qed.

(* (1) the running process does not see the record *)
Theorem failed_fsync_invisible fixed s k v s' t : Inv s -> failed_fsync fixed s k v = ROk (s', t) ->
  forall k', get s' k' = ROk (abs s k').
Proof.
  intros HI Hf k'. destruct (failed_fsync_shape fixed s k v HI) as (s1 & fa & Hf1 & _ & Hlog & Hs' & _ & _ & Hidx & _). cbv zeta in Hlog.
  rewrite Hf1 in Hf. injection Hf as <- _.
  pose proof HI as (Hs & _ & _ & _ & _ & _ & (C1 & _)).
  unfold get, abs. rewrite Hidx, C1. fold (slog s).
  pose proof (lastloc_lastval k' (slog s) None None ltac:(reflexivity)) as H.
  destruct (lastloc (slog s) k' None) as [l|]; [|rewrite H; reflexivity].
  destruct H as [[E _]|(f & p & e & Hin & -> & Hv & _)]; [discriminate|].
  assert (Hin' : In (f, p, e) (log_of_dir (s_dir s1))) by (fold (slog s1); rewrite Hlog; apply in_or_app; left; exact Hin).
  rewrite (read_loc_log _ f p e Hs' Hin'), Hv. reflexivity.
Qed.

(* (2) a restart at that point reads it: the failed operation applied, every other key as before *)
Theorem failed_fsync_then_restart fixed s k v s' t : Inv s -> failed_fsync fixed s k v = ROk (s', t) ->
  exists s'' t', reopen s' = ROk (s'', tt, t') /\ Inv s'' /\
    forall k', abs s'' k' = if beq k' k then v else abs s k'.
Proof.
  intros HI Hf. destruct (failed_fsync_shape fixed s k v HI) as (s1 & fa & Hf1 & _ & Hlog & Hs' & Hne & Hh' & _). cbv zeta in Hlog.
  rewrite Hf1 in Hf. injection Hf as <- _.
  destruct (open_ok (s_dir s1) (s_clock s1) Hs' Hne Hh') as (s'' & t' & Ho & HI'' & Hl & _).
  exists s'', t'. split; [exact Ho|]. split; [exact HI''|].
  intros k'. unfold abs. rewrite Hl. fold (slog s1). rewrite Hlog, lastval_app. cbn [lastval e_key e_val].
  destruct (beq k' k); reflexivity.
Qed.

(* (3) rows still cover files — with the repaired bookkeeping *)
Theorem failed_fsync_keeps_rows s k v s' t : Inv s -> failed_fsync true s k v = ROk (s', t) ->
  rows_cover (s_dir s') (s_stats s').
Proof.
  intros HI Hf. destruct (failed_fsync_shape true s k v HI) as (s1 & fa & Hf1 & _ & Hlog & _ & _ & _ & _ & Hx). cbv zeta in Hlog.
  rewrite Hf1 in Hf. injection Hf as <- _.
  intros g Hg. fold (slog s1) in Hg. rewrite Hlog, has_file_snoc in Hg. rewrite Hx, sget_aset.
  destruct (N.eqb_spec g (s_active s)) as [->|Hne]; [discriminate|].
  apply (inv_rows_cover s HI). apply orb_true_iff in Hg as [Hg|Hg]; [exact Hg|].
  apply N.eqb_eq in Hg. congruence.
Qed.

(* ... and not with the pinned one: a fresh active file whose first record is the one whose fsync failed holds a
   record and has no row *)
Definition ff_cfg : cfg := mkCfg 2147483648 true 0 1 0 0.
Definition ff_before : st := fst (fst (run ff_cfg init [OSet [97] [49]; OMerge [[97]]])).

Example pinned_loses_the_row :
  match failed_fsync false ff_before [107] (Some [118]) with
  | ROk (s', _) => has_file (slog s') (s_active s') = true /\ sget (s_stats s') (s_active s') = None
  | _ => False
  end.
Proof. vm_compute. split; reflexivity. Qed.

(* the history of the finding, computed in the model under both bookkeepings *)
Definition ff_history (fixed : bool) : out :=
  match failed_fsync fixed ff_before [107] (Some [118]) with
  | ROk (s', _) =>
    let '(_, outs, _) := run ff_cfg s' [OMerge [[97]]; ODel [107]; OMerge [[97]]; OReopen; OGet [107]] in
    last outs VUnit
  | _ => VUnit
  end.

Theorem pinned_bookkeeping_resurrects : ff_history false = VVal (Some [118]).
Proof. vm_compute. reflexivity. Qed.
Theorem repaired_bookkeeping_does_not : ff_history true = VVal None.
Proof. vm_compute. reflexivity. Qed.

(* non-vacuity of (1)-(3): [ff_before] is an invariant state (it is reachable) *)
Lemma ff_before_inv : Inv ff_before.
Proof.
  apply (reachable_inv ff_cfg). exists [OSet [97] [49]; OMerge [[97]]]. split; [|reflexivity].
  cbn [run_ready op_ready]. split; [exact I|]. split; [|exact I].
  intros sel0 H. vm_compute in H. injection H as <-. vm_compute. reflexivity.
Qed.

(* ---------- the counters after the failed fsync (C19 under this fault) ----------
   With the repaired bookkeeping the per-file counters remain EXACT with respect to the index: the record whose fsync
   failed is an entry of its file that no index entry points at, and it is booked as exactly that — one dead entry of
   its size.  (The index itself no longer equals "the latest record of every key in the log": that is the one clause of
   [cons] a record unknown to the index breaks, and the reason the running process does not see it.) *)
Lemma unindexed_not_live L i x a p e : Log.cons L i x -> wfL (L ++ [(a, p, e)]) -> is_live i (a, p, e) = false.
Proof.
  intros (C1 & _) Hw. cbn [is_live]. destruct (iget i (e_key e)) as [l|] eqn:E; [|reflexivity]. rewrite C1 in E.
  pose proof (lastloc_lastval (e_key e) L None None ltac:(reflexivity)) as H. rewrite E in H.
  destruct H as [[E0 _]|(f & p' & e' & Hin & -> & _)]; [discriminate|]. cbn [loc_of l_fid l_pos].
  destruct (wfL_app_one L a p e Hw) as [_ Hno].
  destruct (N.eqb_spec f a) as [->|]; [|reflexivity]. destruct (N.eqb_spec p' p) as [->|]; [|reflexivity]. exfalso.
  assert (Ht : existsb (at_pos a p) L = true).
  { apply existsb_exists. exists (a, p, e'). split; [exact Hin|]. cbn [at_pos]. rewrite !N.eqb_refl. reflexivity. }
  congruence.
Qed.

Theorem failed_fsync_counters_exact s k v s' t : Inv s -> failed_fsync true s k v = ROk (s', t) ->
  forall g, live (sget0 (s_stats s') g) = nlive (slog s') (s_idx s') g /\
            dead (sget0 (s_stats s') g) = ndead (slog s') (s_idx s') g /\
            dead_bytes (sget0 (s_stats s') g) = bdead (slog s') (s_idx s') g.
Proof.
  intros HI Hf g. destruct (failed_fsync_shape true s k v HI) as (s1 & fa & Hf1 & _ & Hlog & Hs' & _ & _ & Hidx & Hx). cbv zeta in Hlog.
  rewrite Hf1 in Hf. injection Hf as <- _.
  pose proof HI as (_ & _ & _ & _ & _ & _ & HC). pose proof HC as (_ & C2 & _).
  assert (Hw : wfL (slog s ++ [(s_active s, data_size (d_data fa), mkEntry (s_clock s) k v)])).
  { rewrite <- Hlog. apply wfL_log_of_dir. exact Hs'. }
  pose proof (unindexed_not_live _ _ _ _ _ _ HC Hw) as Hnl.
  rewrite Hlog, Hidx, Hx, nlive_app, ndead_app, bdead_app. cbn [nlive ndead bdead in_file esize]. rewrite Hnl, sget0_aset.
  destruct (C2 g eq_refl) as (Lg & Dg & Bg). fold (slog s) in Lg, Dg, Bg.
  rewrite (N.eqb_sym g). destruct (N.eqb_spec (s_active s) g) as [->|Hne]; cbn [andb negb add_dead live dead dead_bytes]; repeat split; lia.
Qed.

(* ... and with the pinned bookkeeping they are not: the record is in the file and in no counter *)
Example pinned_counters_miss_the_record :
  match failed_fsync false ff_before [107] (Some [118]) with
  | ROk (s', _) => ndead (slog s') (s_idx s') (s_active s') = 1 /\ dead (sget0 (s_stats s') (s_active s')) = 0
  | _ => False
  end.
Proof. vm_compute. split; reflexivity. Qed.

(* hence every later selection from that state is still closed downwards over the files that hold records *)
Theorem selection_closed_after_failed_fsync c s k v s' t sel0 : Inv s -> failed_fsync true s k v = ROk (s', t) ->
  select c s' = ROk sel0 ->
  forall id g, mem id sel0 = true -> has_file (log_of_dir (s_dir s')) g = true -> g <= id -> mem g sel0 = true.
Proof.
  intros HI Hf Hsel. apply (rows_make_selection_closed c s' sel0); [|exact Hsel].
  exact (failed_fsync_keeps_rows s k v s' t HI Hf).
Qed.
