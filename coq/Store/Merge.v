(* Store/Merge.v — a merge pass preserves the invariant and leaves every key reading what it read
   (C05), for every threshold setting (the selection is whatever [select] computes) and every
   iteration order that visits each key once. *)
From BC Require Import Store.Engine Store.Log Store.Step Store.Cons Store.Inv Store.Refine Store.MergeLemmas.
Open Scope N_scope.

Definition fid_of (en : lentry) : N := let '(f, _, _) := en in f.

(* ---------- the merge step on the consistency relation ---------- *)
Lemma step_merge S L i x f p e :
  wfL (L ++ [(f, p, e)]) -> cons_ex S L i x -> S f = false -> e_val e <> None ->
  (match iget i (e_key e) with Some prev => S (l_fid prev) = true | None => True end) ->
  cons_ex S (L ++ [(f, p, e)]) (idx_step i (f, p, e)) (aset x f (add_live (sget0 x f))).
Proof.
  intros Hw (C1 & C2 & C3) HSf Hv Hprev.
  pose proof (counts_step L i f p e Hw C1) as HC. cbv zeta in HC.
  assert (Hval : is_value (f, p, e) = true) by (cbn [is_value]; destruct (e_val e); congruence).
  rewrite Hval in HC. cbn [negb] in HC.
  repeat split.
  - apply idx_step_lastloc. exact C1.
  - destruct (HC g) as (HL & _). destruct (C2 g H) as (Lg & _). rewrite sget0_aset.
    assert (HD : match iget i (e_key e) with Some prev => b2n (l_fid prev =? g) | None => 0 end = 0).
    { destruct (iget i (e_key e)) as [prev|]; [|reflexivity]. destruct (N.eqb_spec (l_fid prev) g) as [E|]; [|reflexivity]. congruence. }
    rewrite HD in HL. destruct (N.eqb_spec g f) as [->|Hgf].
    + rewrite N.eqb_refl in HL. cbn [andb b2n add_live live] in *. lia.
    + replace (f =? g) with false in HL by (symmetry; apply N.eqb_neq; congruence). cbn [andb b2n] in HL. lia.
  - destruct (HC g) as (_ & HDd & _). destruct (C2 g H) as (_ & Dg & _). rewrite sget0_aset.
    assert (HD : match iget i (e_key e) with Some prev => b2n (l_fid prev =? g) | None => 0 end = 0).
    { destruct (iget i (e_key e)) as [prev|]; [|reflexivity]. destruct (N.eqb_spec (l_fid prev) g) as [E|]; [|reflexivity]. congruence. }
    rewrite HD in HDd. rewrite andb_false_r in HDd. cbn [b2n] in HDd.
    destruct (N.eqb_spec g f) as [->|Hgf]; cbn [add_live dead]; lia.
  - destruct (HC g) as (_ & _ & HB & _). destruct (C2 g H) as (_ & _ & Bg). rewrite sget0_aset.
    assert (HD : match iget i (e_key e) with Some prev => if l_fid prev =? g then l_len prev else 0 | None => 0 end = 0).
    { destruct (iget i (e_key e)) as [prev|]; [|reflexivity]. destruct (N.eqb_spec (l_fid prev) g) as [E|]; [|reflexivity]. congruence. }
    rewrite HD in HB. rewrite andb_false_r in HB.
    destruct (N.eqb_spec g f) as [->|Hgf]; cbn [add_live dead_bytes]; lia.
  - intros Hn. rewrite sget_aset in Hn. rewrite has_file_snoc.
    destruct (N.eqb_spec g f) as [|Hgf]; [discriminate|].
    apply C3 in Hn; [|exact H]. rewrite Hn. cbn [orb]. apply N.eqb_neq. congruence.
  - intros Hn. rewrite has_file_snoc in Hn. apply orb_false_iff in Hn as [H1 H2].
    rewrite sget_aset. apply N.eqb_neq in H2. destruct (N.eqb_spec g f); [congruence|]. apply C3; auto.
Qed.

(* ---------- appending to the file with the largest id ---------- *)
Lemma append_last d a fa e h' : sorted d -> ids_le d a -> dir_get d a = Some fa ->
  let fa' := mkFile (d_data fa ++ [e]) h' in
  let d' := dir_set d a fa' in
  log_of_dir d' = log_of_dir d ++ [(a, data_size (d_data fa), e)] /\ sorted d' /\ ids_le d' a /\
  dir_get d' a = Some fa' /\
  (forall id f, In (id, f) d' -> (In (id, f) d /\ id <> a) \/ (id = a /\ f = fa')).
Proof.
  intros Hs Hle Hfa fa' d'.
  destruct (dir_split_last _ _ _ Hs Hle Hfa) as (d0 & Ed).
  assert (Hnotin : ~ In a (map fst d0)) by (apply (sorted_not_in_front d0 _ fa); rewrite <- Ed; exact Hs).
  assert (Ed2 : d' = d0 ++ [(a, fa')]) by (subst d'; rewrite Ed; apply dir_set_last; exact Hnotin).
  assert (Hs2 : sorted (d0 ++ [(a, fa')])).
  { clear - Hs Ed. rewrite Ed in Hs. clear Ed. induction d0 as [|[i g] d0 IH]; cbn [app sorted] in *; [auto|].
    destruct Hs as [Hgt Hs]. split; [|auto]. unfold ids_gt in *. rewrite Forall_app in *. destruct Hgt as [H1 H2].
    split; [exact H1|]. inversion H2; subst. constructor; [assumption|constructor]. }
  rewrite Ed2. repeat split.
  - rewrite Ed, !log_of_dir_app. cbn [log_of_dir]. rewrite !app_nil_r. subst fa'. cbn [d_data].
    rewrite log_file_app. cbn [log_file]. rewrite N.add_0_l, app_assoc. reflexivity.
  - exact Hs2.
  - clear - Hle Ed. rewrite Ed in Hle. unfold ids_le in *. rewrite Forall_app in *. destruct Hle as [H1 H2].
    split; [exact H1|]. constructor; [lia|constructor].
  - apply In_dir_get; [exact Hs2|]. apply in_or_app. right. left. reflexivity.
  - intros id f Hin. apply in_app_or in Hin as [Hin|[Hin|[]]].
    + left. split; [rewrite Ed; apply in_or_app; left; exact Hin|].
      intros ->. apply Hnotin. apply in_map_iff. exists (a, f). auto.
    + inversion Hin; subst. right. auto.
Qed.

Lemma data_size_app a b : data_size (a ++ b) = data_size a + data_size b.
Proof. induction a as [|e a IH]; cbn [app data_size]; [reflexivity|]. rewrite IH. lia. Qed.

Lemma hints_of_app es1 es2 pos : hints_of (es1 ++ es2) pos = hints_of es1 pos ++ hints_of es2 (pos + data_size es1).
Proof.
  revert pos. induction es1 as [|e es1 IH]; intros pos; cbn [app hints_of data_size].
  - rewrite N.add_0_r. reflexivity.
  - rewrite IH, N.add_assoc. reflexivity.
Qed.

(* ---------- the loop invariant ---------- *)
Definition LI (s : st) (S : N -> bool) (m : mstate) (M : list lentry) : Prop :=
  sorted (m_dir m) /\ ids_le (m_dir m) (m_last m) /\
  (forall id f, In (id, f) (m_dir m) -> hints_ok f) /\
  m_id m = m_last m /\ s_last s < m_id m /\
  (exists fm hs, dir_get (m_dir m) (m_id m) = Some fm /\ d_hint fm = Some hs /\ m_pos m = data_size (d_data fm)) /\
  log_of_dir (m_dir m) = slog s ++ M /\
  Forall (fun en => S (fid_of en) = false) M /\
  cons_ex S (slog s ++ M) (m_idx m) (m_stats m) /\
  (forall k, lastval (slog s ++ M) k None = lastval (slog s) k None).

Definition moved (S : N -> bool) (i i' : index) : Prop :=
  forall k, iget i' k = iget i k \/ exists l', iget i' k = Some l' /\ S (l_fid l') = false.

Lemma merge_one_ok c s S m M k l :
  LI s S m M -> (forall g, S g = true -> g <= s_last s) ->
  iget (m_idx m) k = Some l -> S (l_fid l) = true ->
  exists m' M', merge_one c m k l = ROk m' /\ LI s S m' M' /\
    (exists l', iget (m_idx m') k = Some l' /\ S (l_fid l') = false) /\
    (forall k', beq k' k = false -> iget (m_idx m') k' = iget (m_idx m) k') /\
    (exists en, M' = M ++ [en] /\ key_of en = k /\ esize en = l_len l /\ S (fid_of en) = false).
Proof.
  intros (Hs & Hle & Hh & Hid & Hgt & (fm & hs & Hfm & Hhint & Hpos) & Hlog & HM & HC & HV) HSle Hk HSl.
  destruct HC as (C1 & C2 & C3).
  assert (Hll : lastloc (slog s ++ M) k None = Some l) by (rewrite <- C1; exact Hk).
  destruct (lastloc_In _ _ _ Hll) as (f & p & e & Hin & -> & Hkey & Hval & Hlv).
  unfold merge_one. rewrite (read_loc_log (m_dir m) f p e Hs) by (rewrite Hlog; exact Hin).
  unfold append_data. rewrite Hfm.
  assert (Hle' : ids_le (m_dir m) (m_id m)) by (rewrite Hid; exact Hle).
  set (h := mkHint (l_ts (loc_of (f, p, e))) (l_len (loc_of (f, p, e))) (m_pos m) k).
  set (fm1 := mkFile (d_data fm ++ [e]) (d_hint fm)).
  set (d1 := dir_set (m_dir m) (m_id m) fm1).
  destruct (append_last (m_dir m) (m_id m) fm e (d_hint fm) Hs Hle' Hfm) as (Hlog1 & Hs1 & Hle1 & Hget1 & Hin1).
  fold fm1 in Hlog1, Hs1, Hle1, Hget1, Hin1. fold d1 in Hlog1, Hs1, Hle1, Hget1, Hin1.
  unfold append_hint. rewrite Hget1. unfold fm1. cbn [d_data d_hint]. rewrite Hhint.
  set (fm2 := mkFile (d_data fm ++ [e]) (Some (hs ++ [h]))).
  (* setting the same id twice = setting it once *)
  assert (Hd2 : dir_set d1 (m_id m) fm2 = dir_set (m_dir m) (m_id m) fm2).
  { subst d1. generalize (m_dir m) as d. induction d as [|[i g] d IHd]; cbn [dir_set].
    - rewrite N.eqb_refl. reflexivity.
    - destruct (N.eqb_spec i (m_id m)) as [->|]; cbn [dir_set]; [rewrite N.eqb_refl; reflexivity|].
      destruct (N.eqb_spec i (m_id m)); [congruence|]. rewrite IHd. reflexivity. }
  rewrite Hd2. set (d2 := dir_set (m_dir m) (m_id m) fm2).
  destruct (append_last (m_dir m) (m_id m) fm e (Some (hs ++ [h])) Hs Hle' Hfm) as (Hlog2 & Hs2 & Hle2 & Hget2 & Hin2).
  fold fm2 in Hlog2, Hs2, Hle2, Hget2, Hin2. fold d2 in Hlog2, Hs2, Hle2, Hget2, Hin2.
  set (en := (m_id m, m_pos m, e)).
  assert (HSm : S (m_id m) = false).
  { destruct (S (m_id m)) eqn:E; [|reflexivity]. apply HSle in E. lia. }
  assert (Hlog2' : log_of_dir d2 = slog s ++ (M ++ [en])).
  { rewrite Hlog2, Hlog, <- app_assoc. subst en. rewrite Hpos. reflexivity. }
  assert (Hwf : wfL ((slog s ++ M) ++ [en])).
  { rewrite <- app_assoc, <- Hlog2'. apply wfL_log_of_dir. exact Hs2. }
  assert (Hcons : cons_ex S ((slog s ++ M) ++ [en]) (idx_step (m_idx m) en) (aset (m_stats m) (m_id m) (add_live (sget0 (m_stats m) (m_id m))))).
  { apply step_merge; [exact Hwf|exact (conj C1 (conj C2 C3))|exact HSm|exact Hval|].
    rewrite Hkey, Hk. exact HSl. }
  assert (Hidx : idx_step (m_idx m) en = aset (m_idx m) k (mkLoc (m_id m) (m_pos m) (l_len (loc_of (f, p, e))) (l_ts (loc_of (f, p, e))))).
  { subst en. cbn [idx_step]. destruct (e_val e); [|congruence]. rewrite Hkey. reflexivity. }
  assert (Hh2 : forall id g, In (id, g) d2 -> hints_ok g).
  { intros id g Hing. destruct (Hin2 id g Hing) as [[Hin' _]|[-> ->]]; [eauto|].
    pose proof (Hh _ _ (dir_get_In _ _ _ Hfm)) as Hok. unfold hints_ok in *. rewrite Hhint in Hok. destruct Hok as [Ehs Hav].
    subst fm2. cbn [d_hint d_data]. split.
    - rewrite hints_of_app, <- Ehs. cbn [hints_of]. rewrite N.add_0_l. subst h. cbn [loc_of l_ts l_len]. rewrite <- Hpos, Hkey. reflexivity.
    - unfold all_values in *. apply Forall_app. split; [exact Hav|]. constructor; [exact Hval|constructor]. }
  assert (HV2 : forall k', lastval (slog s ++ M ++ [en]) k' None = lastval (slog s) k' None).
  { intros k'. rewrite app_assoc, lastval_app. subst en. cbn [lastval]. rewrite Hkey.
    destruct (beq_spec k' k) as [->|]; [|apply HV]. rewrite <- Hlv. apply HV. }
  assert (HM2 : Forall (fun en0 => S (fid_of en0) = false) (M ++ [en])).
  { apply Forall_app. split; [exact HM|]. constructor; [exact HSm|constructor]. }
  destruct (c_max c <? m_pos m + l_len (loc_of (f, p, e))) eqn:Eroll.
  - (* the merge output rolls over *)
    unfold create_pair. rewrite (ids_le_get_none d2 (m_id m) (m_last m + 1)) by (try exact Hle2; lia).
    rewrite dir_set_new by (apply (ids_le_get_none d2 (m_id m)); [exact Hle2|lia]).
    eexists _, (M ++ [en]). split; [reflexivity|].
    assert (Hs3 : sorted (d2 ++ [(m_last m + 1, mkFile [] (Some []))])).
    { apply sorted_app_one; [exact Hs2| |lia]. replace (m_last m + 1 - 1) with (m_id m) by lia. exact Hle2. }
    split; [|split].
    + unfold LI. cbn [m_dir m_idx m_stats m_id m_pos m_last].
      split; [exact Hs3|]. split.
      { unfold ids_le. apply Forall_app. split; [apply (ids_le_weaken _ (m_id m)); [exact Hle2|lia]|]. constructor; [lia|constructor]. }
      split.
      { intros id g Hing. apply in_app_or in Hing as [Hing|[Hing|[]]]; [eauto|]. inversion Hing; subst. split; [reflexivity|constructor]. }
      split; [reflexivity|]. split; [lia|]. split.
      { exists (mkFile [] (Some [])), []. split; [|split; reflexivity].
        apply In_dir_get; [exact Hs3|apply in_or_app; right; left; reflexivity]. }
      split.
      { rewrite log_of_dir_app. cbn [log_of_dir log_file d_data]. rewrite !app_nil_r. exact Hlog2'. }
      split; [exact HM2|]. split; [|exact HV2].
      rewrite <- Hidx. rewrite app_assoc. exact Hcons.
    + cbn [m_idx]. rewrite iget_aset, beq_refl. eexists. split; [reflexivity|]. cbn [l_fid]. exact HSm.
    + split; [intros k' Hk'; cbn [m_idx]; rewrite iget_aset, Hk'; reflexivity|].
      exists en. subst en. cbn [key_of esize fid_of loc_of l_len]. auto.
  - eexists _, (M ++ [en]). split; [reflexivity|]. split; [|split].
    + unfold LI. cbn [m_dir m_idx m_stats m_id m_pos m_last].
      split; [exact Hs2|]. split; [rewrite <- Hid; exact Hle2|]. split; [exact Hh2|].
      split; [exact Hid|]. split; [exact Hgt|]. split.
      { exists fm2, (hs ++ [h]). split; [exact Hget2|]. split; [reflexivity|].
        subst fm2. cbn [d_data]. rewrite data_size_app, <- Hpos. cbn [data_size loc_of l_len]. lia. }
      split; [exact Hlog2'|]. split; [exact HM2|]. split; [|exact HV2].
      rewrite <- Hidx. rewrite app_assoc. exact Hcons.
    + cbn [m_idx]. rewrite iget_aset, beq_refl. eexists. split; [reflexivity|]. cbn [l_fid]. exact HSm.
    + split; [intros k' Hk'; cbn [m_idx]; rewrite iget_aset, Hk'; reflexivity|].
      exists en. subst en. cbn [key_of esize fid_of loc_of l_len]. auto.
Qed.

(* ---------- the whole loop ---------- *)
Lemma moved_refl S i : moved S i i.
Proof. intros k. left. reflexivity. Qed.

Lemma loop_ok c s S sel : (forall g, S g = mem g sel) -> (forall g, S g = true -> g <= s_last s) ->
  forall ord m M, LI s S m M ->
  exists m' M', merge_loop c sel m ord = ROk m' /\ LI s S m' M' /\ moved S (m_idx m) (m_idx m') /\
    (forall k, existsb (beq k) ord = true -> match iget (m_idx m') k with Some l => S (l_fid l) = false | None => True end).
Proof.
  intros HS HSle. induction ord as [|k ord IH]; intros m M HLI.
  - exists m, M. cbn [merge_loop]. split; [reflexivity|]. split; [exact HLI|]. split; [apply moved_refl|]. intros k Hk. discriminate.
  - cbn [merge_loop].
    assert (Hstep : exists m1 M1, LI s S m1 M1 /\ moved S (m_idx m) (m_idx m1) /\
              (match iget (m_idx m1) k with Some l => S (l_fid l) = false | None => True end) /\
              merge_loop c sel m (k :: ord) = merge_loop c sel m1 ord).
    { cbn [merge_loop]. destruct (iget (m_idx m) k) as [l|] eqn:Ek.
      - destruct (mem (l_fid l) sel) eqn:Em.
        + destruct (merge_one_ok c s S m M k l HLI HSle Ek ltac:(rewrite HS; exact Em)) as (m1 & M1 & H1 & HLI1 & (l' & Hl' & HSl') & Hoth & _).
          rewrite H1. exists m1, M1. split; [exact HLI1|]. split; [|split; [rewrite Hl'; exact HSl'|reflexivity]].
          intros k'. destruct (beq_spec k' k) as [->|Hne]; [right; eauto|left; apply Hoth; apply beq_neq; exact Hne].
        + exists m, M. split; [exact HLI|]. split; [apply moved_refl|]. split; [|reflexivity]. rewrite Ek, HS. exact Em.
      - exists m, M. split; [exact HLI|]. split; [apply moved_refl|]. split; [|reflexivity]. rewrite Ek. exact I. }
    destruct Hstep as (m1 & M1 & HLI1 & Hmv1 & Hk1 & Heq). cbn [merge_loop] in Heq. rewrite Heq.
    destruct (IH m1 M1 HLI1) as (m' & M' & Hl & HLI' & Hmv' & Hall).
    exists m', M'. split; [exact Hl|]. split; [exact HLI'|]. split.
    + intros k'. destruct (Hmv' k') as [E|(l' & E & HSl)]; [|right; eauto]. rewrite E. apply Hmv1.
    + intros k' Hk'. cbn [existsb] in Hk'. apply orb_true_iff in Hk' as [Hk'|Hk']; [|apply Hall; exact Hk'].
      apply beq_eq in Hk'. subst k'.
      destruct (Hmv' k) as [E|(l' & E & HSl)]; [rewrite E; exact Hk1|rewrite E; exact HSl].
Qed.

(* ---------- the selection ---------- *)
Lemma has_file_dir_get d g : sorted d -> has_file (log_of_dir d) g = true -> exists f, dir_get d g = Some f /\ d_data f <> [].
Proof.
  intros Hs H. unfold has_file in H. apply existsb_exists in H as ([[f p] e] & Hin & Hf). cbn [in_file] in Hf.
  apply N.eqb_eq in Hf. subst f. destruct (log_of_dir_In d Hs g p e Hin) as (h & Hget & Hin'). exists h. split; [exact Hget|].
  intros E. rewrite E in Hin'. destruct Hin'.
Qed.

Definition hasrow (x : stats_t) (g : N) : bool := match sget x g with Some _ => true | None => false end.

Lemma mem_stat_ids x g : mem g (stat_ids x) = hasrow x g.
Proof.
  unfold hasrow. destruct (mem g (stat_ids x)) eqn:E.
  - apply stat_ids_iff in E. destruct (sget x g); congruence.
  - destruct (sget x g) eqn:Es; [|reflexivity]. assert (H : sget x g <> None) by congruence. apply stat_ids_iff in H. congruence.
Qed.

Lemma select_ok c s : Inv s ->
  exists sel0 bound, select c s = ROk sel0 /\
    forall g, mem g sel0 = hasrow (s_stats s) g && match bound with Some b => g <=? b | None => false end.
Proof.
  intros (Hs & _ & _ & _ & _ & _ & (_ & _ & C3)). unfold select.
  set (step := fun (acc : res (list N)) (id : N) => _).
  assert (Hfold : forall ids acc, (forall id, In id ids -> mem id (stat_ids (s_stats s)) = true) ->
                                  exists sel, fold_left step ids (ROk acc) = ROk sel).
  { induction ids as [|id ids IH]; intros acc Hin; cbn [fold_left]; [eauto|].
    assert (Hrow : sget (s_stats s) id <> None) by (apply stat_ids_iff; apply Hin; left; reflexivity).
    assert (Hf : has_file (log_of_dir (s_dir s)) id = true).
    { destruct (has_file (log_of_dir (s_dir s)) id) eqn:E; [reflexivity|]. apply C3 in E; [congruence|reflexivity]. }
    destruct (has_file_dir_get _ _ Hs Hf) as (f & Hget & _).
    unfold step at 2. rewrite Hget. destruct (meets c _ _); apply IH; intros; apply Hin; right; assumption. }
  destruct (Hfold (stat_ids (s_stats s)) []) as (sel & Hsel).
  { intros id Hin. unfold mem. apply existsb_exists. exists id. split; [exact Hin|apply N.eqb_refl]. }
  rewrite Hsel. destruct (nmax sel) as [newest|].
  - eexists _, (Some newest). split; [reflexivity|]. intros g. rewrite mem_filter, mem_stat_ids. reflexivity.
  - exists [], None. split; [reflexivity|]. intros g. cbn. rewrite andb_false_r. reflexivity.
Qed.

(* ---------- the selected records form a prefix of the log ---------- *)
Lemma log_prefix d (Sb : N -> bool) :
  sorted d -> (forall i j, i <= j -> Sb j = true -> Sb i = true) ->
  exists LS LR, log_of_dir d = LS ++ LR /\ Forall (fun en => Sb (fid_of en) = true) LS /\ Forall (fun en => Sb (fid_of en) = false) LR.
Proof.
  intros Hs Hmono. induction d as [|[i f] d IH]; [exists [], []; repeat split; constructor|].
  destruct Hs as [Hgt Hs]. destruct (IH Hs) as (LS & LR & E & HS & HR). cbn [log_of_dir].
  destruct (Sb i) eqn:Ei.
  - exists (log_file i (d_data f) 0 ++ LS), LR. rewrite E, app_assoc. repeat split; [|exact HR].
    apply Forall_app. split; [|exact HS]. rewrite Forall_forall. intros [[f' p'] e'] Hin. apply log_file_bounds in Hin. cbn. destruct Hin as [-> _]. exact Ei.
  - exists [], (log_file i (d_data f) 0 ++ log_of_dir d). repeat split; [constructor|].
    apply Forall_app. split.
    + rewrite Forall_forall. intros [[f' p'] e'] Hin. apply log_file_bounds in Hin. cbn. destruct Hin as [-> _]. exact Ei.
    + rewrite Forall_forall. intros [[f' p'] e'] Hin. cbn. apply log_of_dir_ids in Hin. apply in_map_iff in Hin as ([j h] & Ej & Hin). cbn in Ej. subst j.
      unfold ids_gt in Hgt. rewrite Forall_forall in Hgt. specialize (Hgt _ Hin). cbn in Hgt.
      destruct (Sb f') eqn:Ef; [|reflexivity]. rewrite (Hmono i f') in Ei; [discriminate|lia|exact Ef].
Qed.

Lemma filter_keep_all S L : Forall (fun en => S (fid_of en) = false) L -> filter (keep S) L = L.
Proof.
  induction 1 as [|[[f p] e] L Hx HL IH]; [reflexivity|]. cbn [filter keep fid_of] in *. rewrite Hx. cbn [negb]. rewrite IH. reflexivity.
Qed.
Lemma filter_keep_none S L : Forall (fun en => S (fid_of en) = true) L -> filter (keep S) L = [].
Proof.
  induction 1 as [|[[f p] e] L Hx HL IH]; [reflexivity|]. cbn [filter keep fid_of] in *. rewrite Hx. cbn [negb]. exact IH.
Qed.

(* counts of a file that is kept do not see the dropped records *)
Lemma counts_filter S L i g : S g = false ->
  nlive (filter (keep S) L) i g = nlive L i g /\ ndead (filter (keep S) L) i g = ndead L i g /\
  bdead (filter (keep S) L) i g = bdead L i g /\ has_file (filter (keep S) L) g = has_file L g.
Proof.
  intros Hg. unfold has_file. induction L as [|[[f p] e] L (I1 & I2 & I3 & I4)]; [repeat split|].
  cbn [filter keep]. destruct (S f) eqn:Ef; cbn [negb nlive ndead bdead existsb in_file].
  - assert (Hfg : (f =? g) = false) by (apply N.eqb_neq; congruence). rewrite Hfg. cbn [andb orb]. repeat split; [lia|lia|lia|exact I4].
  - rewrite I1, I2, I3, I4. repeat split.
Qed.
Lemma counts_dropped S L i g : S g = true ->
  nlive (filter (keep S) L) i g = 0 /\ ndead (filter (keep S) L) i g = 0 /\
  bdead (filter (keep S) L) i g = 0 /\ has_file (filter (keep S) L) g = false.
Proof.
  intros Hg. unfold has_file. induction L as [|[[f p] e] L (I1 & I2 & I3 & I4)]; [repeat split|].
  cbn [filter keep]. destruct (S f) eqn:Ef; cbn [negb nlive ndead bdead existsb in_file]; [repeat split; assumption|].
  assert (Hfg : (f =? g) = false) by (apply N.eqb_neq; congruence). rewrite Hfg. cbn [andb orb]. repeat split; [lia|lia|lia|exact I4].
Qed.

(* ---------- the whole merge ---------- *)
Lemma cons_weaken S L i x : cons L i x -> cons_ex S L i x.
Proof. intros (C1 & C2 & C3). repeat split; try apply C1; try (apply C2; reflexivity); try (apply C3; reflexivity). Qed.

Definition merge_ready (c : cfg) (s : st) (ord : list bytes) : Prop :=
  forall sel0, select c s = ROk sel0 -> ord_ok s (sort_ids sel0) ord = true.

