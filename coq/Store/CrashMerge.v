(* Store/CrashMerge.v — crash safety of a merge pass: every crash image of its trace (any call
   boundary; a copy's data write or hint write cut at any byte) recovers to the map before the merge.
   Phase 1 (copying): the old files are all there; the merge outputs hold copies of live records,
   which change no key's latest value; a merge output is read through its hint file, which is written
   after the data, so a torn or missing hint only hides a copy.  Phase 2 (unlinking, after both
   outputs were fsynced): the selected files are removed in ascending id order, hint file first; the
   removed set is at every instant closed downwards within the selection, so no tombstone is removed
   before the values it hides. *)
From BC Require Import Base.Bytes Store.Codec Store.CodecProofs Store.Engine Store.Log Store.Step Store.Cons Store.Inv Store.Refine
  Store.MergeLemmas Store.Merge Store.Sizes Store.Theorems Store.Crash Store.CrashScript.
From Coq Require Import Lia List NArith ZArith Bool.
Import ListNotations.
Open Scope N_scope.

(* ---------- walking through the images of a trace ---------- *)
Lemma image_cons_inv s0 c t img : image_of s0 (c :: t) img ->
  img = s0 \/
  (exists f b1 b2, c = SWrite f (b1 ++ b2) /\ b2 <> [] /\ fs_step s0 (SWrite f b1) = Some img) \/
  (exists s1, fs_step s0 c = Some s1 /\ image_of s1 t img).
Proof.
  intros [t1 t2 E R|t1 f b1 b2 t2 E Hb R].
  - destruct t1 as [|x t1]; cbn [app] in E.
    + cbn in R. inversion R. left. reflexivity.
    + injection E as <- E. cbn [fs_run] in R. destruct (fs_step s0 c) as [s1|] eqn:Es; [|discriminate].
      right. right. exists s1. split; [reflexivity|]. eapply img_boundary; eauto.
  - destruct t1 as [|x t1]; cbn [app] in E.
    + injection E as Hc _. subst c. cbn [app fs_run] in R. destruct (fs_step s0 (SWrite f b1)) as [s1|] eqn:Es; [|discriminate]. inversion R; subst.
      right. left. exists f, b1, b2. auto.
    + injection E as <- E. cbn [app fs_run] in R. destruct (fs_step s0 c) as [s1|] eqn:Es; [|discriminate].
      right. right. exists s1. split; [reflexivity|]. eapply img_torn; eauto.
Qed.

(* ---------- directories that recover to the map before the merge ---------- *)
Definition good (m0 : bytes -> option bytes) (d : dir) : Prop :=
  sorted d /\ d <> [] /\ (forall id f, In (id, f) d -> hints_ok f) /\ forall k, lastval (log_of_dir d) k None = m0 k.

Lemma good_recovers m0 d : good m0 d -> recovers_to d m0.
Proof.
  intros (Hs & Hn & Hh & Hv). split; [exact Hh|]. intros clk. destruct (recovers_log d Hs Hn Hh) as [_ Hrl].
  destruct (Hrl clk) as (s' & t & Ho & HI & Ha). exists s', t.
  split; [exact Ho|]. split; [exact HI|]. intros k. rewrite Ha. apply Hv.
Qed.

Lemma good_img m0 img d : reads_as img d -> good m0 d -> img_ok img m0.
Proof. intros Hr Hg. exists d. split; [exact Hr|apply good_recovers; exact Hg]. Qed.

(* adding an empty file without hint file at the end *)
Lemma good_app_empty m0 d id : good m0 d -> ids_le d (id - 1) -> 0 < id -> good m0 (d ++ [(id, empty_file)]).
Proof.
  intros (Hs & Hn & Hh & Hv) Hle Hpos. split; [apply sorted_app_one; assumption|]. split; [destruct d; discriminate|]. split.
  - intros j f Hin. apply in_app_or in Hin as [Hin|[Hin|[]]]; [eauto|]. inversion Hin; subst. exact I.
  - intros k. rewrite log_of_dir_app_empty. apply Hv.
Qed.

(* ---------- file-system updates against [rep] / [reads_as] ---------- *)
Lemma rep_get img d id f : rep img d -> dir_get d id = Some f ->
  img (FData id) = Some (file_bytes (d_data f)) /\ img (FHint id) = option_map hint_bytes (d_hint f).
Proof.
  intros Hr Hg. specialize (Hr id). rewrite Hg in Hr. cbn [fst snd] in Hr. destruct Hr as [H1 H2]. split; [|exact H2].
  rewrite H1. destruct (id =? 0); rewrite app_nil_r; reflexivity.
Qed.

Lemma rep_none img d id : rep img d -> dir_get d id = None -> img (FData id) = None /\ img (FHint id) = None.
Proof. intros Hr Hg. specialize (Hr id). rewrite Hg in Hr. exact Hr. Qed.

Lemma rep_intro img d : (forall id, match dir_get d id with
                                    | Some f => img (FData id) = Some (file_bytes (d_data f)) /\ img (FHint id) = option_map hint_bytes (d_hint f)
                                    | None => img (FData id) = None /\ img (FHint id) = None end) -> rep img d.
Proof.
  intros H id. specialize (H id). cbn [fst snd]. destruct (dir_get d id); [|exact H]. destruct H as [H1 H2]. split; [|exact H2].
  rewrite H1. destruct (id =? 0); rewrite app_nil_r; reflexivity.
Qed.

(* extra bytes on the data file of a hinted file, and a torn tail on its hint file, are not seen *)
Lemma reads_hinted img d a fm hs x y : rep img d -> dir_get d a = Some fm -> d_hint fm = Some hs -> torn_hint y ->
  reads_as (fupd (fupd img (FData a) (Some (file_bytes (d_data fm) ++ x))) (FHint a) (Some (hint_bytes hs ++ y))) d.
Proof.
  intros Hr Hg Hh Hy id. destruct (N.eq_dec id a) as [->|Hne].
  - rewrite Hg, Hh. rewrite fupd_same. rewrite fupd_other by discriminate. rewrite fupd_same. split; eauto.
  - rewrite !fupd_other by (intros E; inversion E; contradiction). exact (rep_reads img d Hr id).
Qed.

Lemma reads_hinted_data img d a fm hs x : rep img d -> dir_get d a = Some fm -> d_hint fm = Some hs ->
  reads_as (fupd img (FData a) (Some (file_bytes (d_data fm) ++ x))) d.
Proof.
  intros Hr Hg Hh id. destruct (N.eq_dec id a) as [->|Hne].
  - rewrite Hg, Hh. rewrite fupd_same. rewrite fupd_other by discriminate. destruct (rep_get img d a fm Hr Hg) as [_ H2]. rewrite Hh in H2. cbn in H2.
    split; [eauto|]. exists []. rewrite app_nil_r. split; [exact H2|left; reflexivity].
  - rewrite !fupd_other by (intros E; inversion E; contradiction). exact (rep_reads img d Hr id).
Qed.

(* after both writes: the directory with the copy appended *)
Lemma hint_bytes_app hs h : hint_bytes (hs ++ [h]) = hint_bytes hs ++ enc_hint h.
Proof. induction hs as [|x hs IH]; cbn [app hint_bytes]; [rewrite app_nil_r; reflexivity|]. rewrite IH, app_assoc. reflexivity. Qed.

Lemma rep_copy img d a fm hs e h : rep img d -> dir_get d a = Some fm -> d_hint fm = Some hs ->
  rep (fupd (fupd img (FData a) (Some (file_bytes (d_data fm) ++ enc_entry e))) (FHint a) (Some (hint_bytes hs ++ enc_hint h)))
      (dir_set d a (mkFile (d_data fm ++ [e]) (Some (hs ++ [h])))).
Proof.
  intros Hr Hg Hh. apply rep_intro. intros id. rewrite dir_get_set. destruct (N.eq_dec a id) as [->|Hne].
  - rewrite N.eqb_refl. cbn [d_data d_hint option_map]. rewrite fupd_same. rewrite fupd_other by discriminate. rewrite fupd_same.
    rewrite file_bytes_app, hint_bytes_app. auto.
  - replace (a =? id) with false by (symmetry; apply N.eqb_neq; exact Hne).
    rewrite !fupd_other by (intros E; inversion E; subst; contradiction).
    destruct (dir_get d id) as [f|] eqn:Eg; [exact (rep_get img d id f Hr Eg)|exact (rep_none img d id Hr Eg)].
Qed.

Lemma rep_create_hint img d id : rep img (d ++ [(id, empty_file)]) -> dir_get d id = None -> sorted (d ++ [(id, empty_file)]) ->
  fs_step img (SCreate (FHint id)) = Some (fupd img (FHint id) (Some [])) /\
  rep (fupd img (FHint id) (Some [])) (d ++ [(id, mkFile [] (Some []))]).
Proof.
  intros Hr Hn Hs.
  assert (Hg : dir_get (d ++ [(id, empty_file)]) id = Some empty_file) by (apply In_dir_get; [exact Hs|apply in_or_app; right; left; reflexivity]).
  destruct (rep_get _ _ _ _ Hr Hg) as [H1 H2]. cbn in H1, H2. unfold fs_step. rewrite H2. split; [reflexivity|].
  apply rep_intro. intros j. rewrite <- (dir_set_new d id _ Hn), dir_get_set. destruct (N.eq_dec id j) as [->|Hne].
  - rewrite N.eqb_refl. cbn [d_data d_hint option_map file_bytes hint_bytes]. rewrite fupd_same. rewrite fupd_other by discriminate. auto.
  - replace (id =? j) with false by (symmetry; apply N.eqb_neq; exact Hne).
    rewrite !fupd_other by (intros E; inversion E; subst; contradiction).
    assert (Hgj : dir_get (d ++ [(id, empty_file)]) j = dir_get d j).
    { rewrite <- (dir_set_new d id _ Hn), dir_get_set. replace (id =? j) with false by (symmetry; apply N.eqb_neq; exact Hne). reflexivity. }
    destruct (dir_get d j) as [f|] eqn:Eg; [apply (rep_get img _ j f Hr); rewrite Hgj; reflexivity|apply (rep_none img _ j Hr); rewrite Hgj; reflexivity].
Qed.

(* ---------- one copy of the merge loop ---------- *)
Lemma dir_set_twice d id f g : dir_set (dir_set d id f) id g = dir_set d id g.
Proof.
  induction d as [|[i x] d IH]; cbn [dir_set].
  - rewrite N.eqb_refl. reflexivity.
  - destruct (N.eqb_spec i id) as [->|]; cbn [dir_set]; [rewrite N.eqb_refl; reflexivity|].
    destruct (N.eqb_spec i id); [congruence|]. rewrite IH. reflexivity.
Qed.

Lemma merge_one_shape c s S m M k l m' :
  LI s S m M -> merge_one c m k l = ROk m' ->
  exists fm hs e,
    dir_get (m_dir m) (m_id m) = Some fm /\ d_hint fm = Some hs /\
    let a := m_id m in
    let h := mkHint (l_ts l) (l_len l) (m_pos m) k in
    let d2 := dir_set (m_dir m) a (mkFile (d_data fm ++ [e]) (Some (hs ++ [h]))) in
    let w := [SWrite (FData a) (enc_entry e); SWrite (FHint a) (enc_hint h)] in
    (m_dir m' = d2 /\ rev (m_trace m') = rev (m_trace m) ++ w) \/
    (let id' := m_last m + 1 in
     m_dir m' = d2 ++ [(id', mkFile [] (Some []))] /\ dir_get d2 id' = None /\
     rev (m_trace m') = rev (m_trace m) ++ w ++ [SFsync (FData a); SFsync (FHint a); SCreate (FData id'); SCreate (FHint id')]).
Proof.
  intros (Hs & Hle & Hh & Hid & Hgt & (fm & hs & Hfm & Hhint & Hpos) & _) H. exists fm, hs.
  unfold merge_one in H. destruct (read_loc (m_dir m) l) as [e|?|?]; try discriminate. exists e.
  split; [exact Hfm|]. split; [exact Hhint|]. cbv zeta.
  unfold append_data in H. rewrite Hfm in H. unfold append_hint in H. rewrite dir_get_set, N.eqb_refl in H. cbn [d_data d_hint] in H.
  rewrite Hhint, dir_set_twice in H.
  destruct (c_max c <? m_pos m + l_len l).
  - unfold create_pair in H.
    destruct (dir_get (dir_set (m_dir m) (m_id m) (mkFile (d_data fm ++ [e]) (Some (hs ++ [mkHint (l_ts l) (l_len l) (m_pos m) k])))) (m_last m + 1)) eqn:Eg; [discriminate|].
    inversion H; subst m'. cbn [m_dir m_trace]. right. split; [apply dir_set_new; exact Eg|]. split; [first [exact Eg|reflexivity]|].
    cbn [rev]. rewrite <- !app_assoc. reflexivity.
  - inversion H; subst m'. cbn [m_dir m_trace]. left. split; [reflexivity|]. cbn [rev]. rewrite <- !app_assoc. reflexivity.
Qed.

Definition TI (s0 : fs) (m0 : bytes -> option bytes) (m : mstate) : Prop :=
  exists f, fs_run s0 (rev (m_trace m)) = Some f /\ rep f (m_dir m) /\
            forall img, image_of s0 (rev (m_trace m)) img -> img_ok img m0.

Lemma LI_good s S m M : LI s S m M -> good (abs s) (m_dir m).
Proof.
  intros (Hs & _ & Hh & _ & _ & (fm & hs & Hfm & _) & Hlog & _ & _ & HV). split; [exact Hs|]. split.
  - intros E. rewrite E in Hfm. discriminate.
  - split; [exact Hh|]. intros k. rewrite Hlog. apply HV.
Qed.

Lemma good_prefix m0 d id f : good m0 (d ++ [(id, f)]) -> d_data f = [] -> d <> [] -> good m0 d.
Proof.
  intros (Hs & _ & Hh & Hv) Hd Hn. split; [eapply sorted_app_inv_l; exact Hs|]. split; [exact Hn|]. split.
  - intros j g Hin. apply (Hh j g). apply in_or_app. left. exact Hin.
  - intros k. rewrite <- Hv, log_of_dir_app. cbn [log_of_dir]. rewrite Hd. cbn [log_file]. rewrite !app_nil_r. reflexivity.
Qed.

Lemma image_app_ok s0 t ext img f m0 : fs_run s0 t = Some f -> (forall i, image_of s0 t i -> img_ok i m0) ->
  (forall i, image_of f ext i -> img_ok i m0) -> image_of s0 (t ++ ext) img -> img_ok img m0.
Proof. intros Hrun H1 H2 Him. destruct (image_app s0 t ext img f Hrun Him) as [H|H]; auto. Qed.

Lemma call_wf_hint a b : call_wf (SWrite (FHint a) b) -> forall b1 b2, b = b1 ++ b2 -> b2 <> [] -> torn_hint b1.
Proof. intros (h & Hw & E) b1 b2 Eb Hb. right. exists h, b2. rewrite <- E. auto. Qed.

Lemma merge_one_crash c s S m M k l m' M' s0 :
  LI s S m M -> LI s S m' M' -> merge_one c m k l = ROk m' ->
  trace_wf (rev (m_trace m')) -> TI s0 (abs s) m -> TI s0 (abs s) m'.
Proof.
  intros HLI HLI' Hone Hwf (f & Hrun & Hrep & Himgs).
  destruct (merge_one_shape c s S m M k l m' HLI Hone) as (fm & hs & e & Hfm & Hhint & Hshape). cbv zeta in Hshape.
  set (a := m_id m) in *. set (h := mkHint (l_ts l) (l_len l) (m_pos m) k) in *.
  set (d2 := dir_set (m_dir m) a (mkFile (d_data fm ++ [e]) (Some (hs ++ [h])))) in *.
  pose proof (LI_good s S m M HLI) as Hgood. pose proof (LI_good s S m' M' HLI') as Hgood'.
  destruct (rep_get f (m_dir m) a fm Hrep Hfm) as [Hfd Hfh]. rewrite Hhint in Hfh. cbn [option_map] in Hfh.
  set (x0 := file_bytes (d_data fm)) in *. set (y0 := hint_bytes hs) in *.
  set (f1 := fupd f (FData a) (Some (x0 ++ enc_entry e))).
  set (f2 := fupd f1 (FHint a) (Some (y0 ++ enc_hint h))).
  assert (Hrep2 : rep f2 d2) by (apply rep_copy; assumption).
  assert (Hstep1 : fs_step f (SWrite (FData a) (enc_entry e)) = Some f1) by (unfold fs_step; rewrite Hfd; reflexivity).
  assert (Hf1h : f1 (FHint a) = Some y0) by (unfold f1; rewrite fupd_other by discriminate; exact Hfh).
  assert (Hstep2 : fs_step f1 (SWrite (FHint a) (enc_hint h)) = Some f2) by (unfold fs_step; rewrite Hf1h; reflexivity).
  assert (Hwfw : call_wf (SWrite (FHint a) (enc_hint h))).
  { unfold trace_wf in Hwf. rewrite Forall_forall in Hwf. apply Hwf.
    destruct Hshape as [(_ & ->)|(_ & _ & ->)]; apply in_or_app; right; right; left; reflexivity. }
  (* the images up to and including the two writes *)
  assert (Hw_imgs : forall rest img, (forall i, image_of f2 rest i -> img_ok i (abs s)) ->
            image_of f ([SWrite (FData a) (enc_entry e); SWrite (FHint a) (enc_hint h)] ++ rest) img -> img_ok img (abs s)).
  { intros rest img Hrest Him. cbn [app] in Him.
    apply image_cons_inv in Him as [->|[(g & b1 & b2 & Ec & Hb & Hs1)|(s1 & Hs1 & Him)]].
    - apply (good_img _ _ (m_dir m)); [apply rep_reads; exact Hrep|exact Hgood].
    - injection Ec as <- Eb. unfold fs_step in Hs1. rewrite Hfd in Hs1. inversion Hs1; subst img.
      apply (good_img _ _ (m_dir m)); [|exact Hgood]. eapply reads_hinted_data; eauto.
    - rewrite Hstep1 in Hs1. inversion Hs1; subst s1.
      apply image_cons_inv in Him as [->|[(g & b1 & b2 & Ec & Hb & Hs2)|(s2 & Hs2 & Him)]].
      + apply (good_img _ _ (m_dir m)); [|exact Hgood]. eapply reads_hinted_data; eauto.
      + injection Ec as <- Eb. unfold fs_step in Hs2. rewrite Hf1h in Hs2. inversion Hs2; subst img.
        apply (good_img _ _ (m_dir m)); [|exact Hgood]. eapply reads_hinted; eauto. eapply call_wf_hint; eauto.
      + rewrite Hstep2 in Hs2. inversion Hs2; subst s2. apply Hrest. exact Him. }
  destruct Hshape as [(Hd & Ht)|(Hd & Hn & Ht)].
  - (* no rollover *)
    exists f2. rewrite Ht, fs_run_app, Hrun. cbn [fs_run]. rewrite Hstep1, Hstep2. split; [reflexivity|]. split; [rewrite Hd; exact Hrep2|].
    intros img Him. eapply image_app_ok; [exact Hrun|exact Himgs| |exact Him].
    intros i Hi. rewrite <- (app_nil_r [_; _]) in Hi. apply (Hw_imgs [] i); [|exact Hi].
    intros j Hj. apply image_nil in Hj. subst j. apply (good_img _ _ d2); [apply rep_reads; exact Hrep2|rewrite <- Hd; exact Hgood'].
  - (* rollover *)
    set (id' := m_last m + 1) in *.
    assert (Hd2ne : d2 <> []) by (unfold d2; destruct (m_dir m) as [|[i g] r]; cbn [dir_set]; [discriminate|destruct (i =? a); discriminate]).
    assert (Hgood2 : good (abs s) d2) by (rewrite Hd in Hgood'; eapply good_prefix; [exact Hgood'|reflexivity|exact Hd2ne]).
    assert (Hle2 : ids_le d2 (id' - 1)).
    { destruct HLI as (Hs & Hle & _ & Hid & _). 
      assert (Hle' : ids_le (m_dir m) (m_id m)) by (rewrite Hid; exact Hle).
      destruct (append_last (m_dir m) (m_id m) fm e (Some (hs ++ [h])) Hs Hle' Hfm) as (_ & _ & Hle2 & _).
      unfold id'. replace (m_last m + 1 - 1) with (m_id m) by lia. exact Hle2. }
    assert (Hgood3 : good (abs s) (d2 ++ [(id', empty_file)])) by (apply good_app_empty; [exact Hgood2|exact Hle2|unfold id'; lia]).
    assert (Hf2d : f2 (FData a) <> None) by (unfold f2, f1; rewrite fupd_other by discriminate; rewrite fupd_same; discriminate).
    assert (Hf2h : f2 (FHint a) <> None) by (unfold f2; rewrite fupd_same; discriminate).
    destruct (rep_after_create f2 d2 id' Hrep2 Hn) as [Hcr Hrep3].
    set (f3 := fupd f2 (FData id') (Some [])) in *.
    destruct (rep_create_hint f3 d2 id' Hrep3 Hn (proj1 Hgood3)) as [Hcr2 Hrep4].
    set (f4 := fupd f3 (FHint id') (Some [])) in *.
    assert (Hsy1 : fs_step f2 (SFsync (FData a)) = Some f2) by (unfold fs_step; destruct (f2 (FData a)); [reflexivity|contradiction]).
    assert (Hsy2 : fs_step f2 (SFsync (FHint a)) = Some f2) by (unfold fs_step; destruct (f2 (FHint a)); [reflexivity|contradiction]).
    exists f4. rewrite Ht, fs_run_app, Hrun. cbn [app fs_run]. rewrite Hstep1, Hstep2, Hsy1, Hsy2, Hcr, Hcr2.
    split; [reflexivity|]. split; [rewrite Hd; exact Hrep4|].
    intros img Him. eapply image_app_ok; [exact Hrun|exact Himgs| |exact Him].
    intros i Hi. apply (Hw_imgs [SFsync (FData a); SFsync (FHint a); SCreate (FData id'); SCreate (FHint id')] i); [|exact Hi]. clear Hi i.
    intros i Hi.
    apply image_cons_inv in Hi as [->|[(g & b1 & b2 & Ec & _)|(s1 & Hs1 & Hi)]]; [apply (good_img _ _ d2); [apply rep_reads; exact Hrep2|exact Hgood2]|discriminate|].
    rewrite Hsy1 in Hs1. inversion Hs1; subst s1.
    apply image_cons_inv in Hi as [->|[(g & b1 & b2 & Ec & _)|(s1 & Hs2 & Hi)]]; [apply (good_img _ _ d2); [apply rep_reads; exact Hrep2|exact Hgood2]|discriminate|].
    rewrite Hsy2 in Hs2. inversion Hs2; subst s1.
    apply image_cons_inv in Hi as [->|[(g & b1 & b2 & Ec & _)|(s1 & Hs3 & Hi)]]; [apply (good_img _ _ d2); [apply rep_reads; exact Hrep2|exact Hgood2]|discriminate|].
    rewrite Hcr in Hs3. inversion Hs3; subst s1.
    apply image_cons_inv in Hi as [->|[(g & b1 & b2 & Ec & _)|(s1 & Hs4 & Hi)]]; [apply (good_img _ _ _ (rep_reads _ _ Hrep3) Hgood3)|discriminate|].
    rewrite Hcr2 in Hs4. inversion Hs4; subst s1. apply image_nil in Hi. subst i.
    apply (good_img _ _ _ (rep_reads _ _ Hrep4)). rewrite <- Hd. exact Hgood'.
Qed.

(* ---------- the loop ---------- *)
Lemma merge_one_trace c m k l m' : merge_one c m k l = ROk m' -> exists pre, m_trace m' = pre ++ m_trace m.
Proof.
  unfold merge_one. destruct (read_loc (m_dir m) l) as [e|?|?]; try discriminate.
  destruct (append_data (m_dir m) (m_id m) e) as [[d1 p]|]; [|discriminate].
  destruct (c_max c <? m_pos m + l_len l).
  - destruct (create_pair _ _); [|discriminate]. intros H. inversion H; subst. cbn [m_trace].
    eexists [_; _; _; _; _; _]. reflexivity.
  - intros H. inversion H; subst. cbn [m_trace]. eexists [_; _]. reflexivity.
Qed.

Lemma merge_loop_trace c sel : forall ord m m', merge_loop c sel m ord = ROk m' -> exists pre, m_trace m' = pre ++ m_trace m.
Proof.
  induction ord as [|k ord IH]; intros m m' H; cbn [merge_loop] in H.
  - inversion H; subst. exists []. reflexivity.
  - destruct (iget (m_idx m) k) as [l|]; [|apply IH; exact H].
    destruct (mem (l_fid l) sel); [|apply IH; exact H].
    destruct (merge_one c m k l) as [m1|?|?] eqn:E1; try discriminate.
    destruct (merge_one_trace c m k l m1 E1) as (p1 & E). destruct (IH m1 m' H) as (p2 & E2). exists (p2 ++ p1). rewrite E2, E, app_assoc. reflexivity.
Qed.

Lemma trace_wf_prefix pre t : trace_wf (rev (pre ++ t)) -> trace_wf (rev t).
Proof. unfold trace_wf. rewrite rev_app_distr. intros H. apply Forall_app in H. tauto. Qed.

Lemma loop_crash c s S sel s0 : (forall g, S g = mem g sel) -> (forall g, S g = true -> g <= s_last s) ->
  forall ord m M m', LI s S m M -> merge_loop c sel m ord = ROk m' -> trace_wf (rev (m_trace m')) ->
  TI s0 (abs s) m -> TI s0 (abs s) m'.
Proof.
  intros HS HSle. induction ord as [|k ord IH]; intros m M m' HLI H Hwf HTI; cbn [merge_loop] in H.
  - inversion H; subst. exact HTI.
  - destruct (iget (m_idx m) k) as [l|] eqn:Ek; [|exact (IH m M m' HLI H Hwf HTI)].
    destruct (mem (l_fid l) sel) eqn:Em; [|exact (IH m M m' HLI H Hwf HTI)].
    destruct (merge_one_ok c s S m M k l HLI HSle Ek ltac:(rewrite HS; exact Em)) as (m1 & M1 & H1 & HLI1 & _).
    rewrite H1 in H. destruct (merge_loop_trace c sel ord m1 m' H) as (pre & Epre).
    assert (Hwf1 : trace_wf (rev (m_trace m1))) by (rewrite Epre in Hwf; eapply trace_wf_prefix; exact Hwf).
    apply (IH m1 M1 m' HLI1 H Hwf). exact (merge_one_crash c s S m M k l m1 M1 s0 HLI HLI1 H1 Hwf1 HTI).
Qed.

(* ---------- phase 2: the selected files are unlinked in ascending order ---------- *)
Fixpoint lsorted (l : list N) : Prop :=
  match l with [] => True | a :: l' => Forall (fun b => a <= b) l' /\ lsorted l' end.

Lemma In_sort_insert a l x : In x (sort_insert a l) <-> x = a \/ In x l.
Proof.
  induction l as [|b l IH]; cbn [sort_insert In]; [intuition congruence|]. destruct (a <=? b); cbn [In]; [intuition congruence|]. rewrite IH. intuition congruence.
Qed.

Lemma sort_insert_sorted a l : lsorted l -> lsorted (sort_insert a l).
Proof.
  induction l as [|b l IH]; cbn [sort_insert lsorted]; [auto|]. intros [Hb Hl].
  destruct (N.leb_spec a b) as [Hab|Hab]; cbn [lsorted].
  - split; [|split; assumption]. constructor; [exact Hab|]. rewrite Forall_forall in *. intros x Hx. specialize (Hb x Hx). lia.
  - split; [|apply IH; exact Hl]. rewrite Forall_forall in *. intros x Hx. apply In_sort_insert in Hx as [->|Hx]; [lia|auto].
Qed.

Lemma sort_ids_sorted l : lsorted (sort_ids l).
Proof. induction l as [|a l IH]; cbn [sort_ids fold_right]; [exact I|]. apply sort_insert_sorted. exact IH. Qed.

Lemma mem_In g l : mem g l = true <-> In g l.
Proof.
  unfold mem. rewrite existsb_exists. split; [intros (x & Hx & E); apply N.eqb_eq in E; subst; exact Hx|intros H; exists g; split; [exact H|apply N.eqb_refl]].
Qed.

(* a prefix of a sorted list is closed downwards within the list *)
Lemma lsorted_prefix_closed : forall l j g r, lsorted l -> In g l -> In r (firstn j l) -> g <= r -> In g (firstn j l).
Proof.
  induction l as [|a l IH]; intros j g r Hs Hg Hr Hle; [destruct j; destruct Hr|].
  destruct j as [|j]; [destruct Hr|]. cbn [firstn In] in *. destruct Hs as [Ha Hs]. rewrite Forall_forall in Ha.
  destruct Hg as [->|Hg]; [left; reflexivity|].
  destruct Hr as [<-|Hr].
  - specialize (Ha g Hg). left. lia.
  - right. eapply IH; eauto.
Qed.

(* the unlink calls, forward *)
Fixpoint unlink_trace (d : dir) (sel : list N) : list syscall :=
  match sel with
  | [] => []
  | id :: sel' =>
    (match dir_get d id with
     | Some f => (match d_hint f with Some _ => [SUnlink (FHint id)] | None => [] end) ++ [SUnlink (FData id)]
     | None => []
     end) ++ unlink_trace (dir_remove d id) sel'
  end.

Lemma unlink_all_trace : forall sel d x t, rev (snd (unlink_all d x sel t)) = rev t ++ unlink_trace d sel.
Proof.
  induction sel as [|id sel IH]; intros d x t; cbn [unlink_all unlink_trace snd]; [rewrite app_nil_r; reflexivity|].
  rewrite IH. destruct (dir_get d id) as [f|]; [|reflexivity].
  cbn [rev]. rewrite rev_app_distr. destruct (d_hint f); cbn [rev app]; rewrite <- !app_assoc; reflexivity.
Qed.

(* dropping a set of files that is closed downwards, once every live record has been copied *)
Lemma drop_closed (L M LS LR : list lentry) (i : index) (S R : N -> bool) :
  (forall k, iget i k = lastloc (L ++ M) k None) ->
  (forall k l, iget i k = Some l -> S (l_fid l) = false) ->
  (forall g, R g = true -> S g = true) ->
  Forall (fun en => S (fid_of en) = false) M ->
  L = LS ++ LR -> Forall (fun en => R (fid_of en) = true) LS -> Forall (fun en => R (fid_of en) = false) LR ->
  forall k, lastval (filter (keep R) (L ++ M)) k None = lastval (L ++ M) k None.
Proof.
  intros D1 E1 HRS HM EL HLS HLR k.
  assert (HMR : Forall (fun en => R (fid_of en) = false) M).
  { rewrite Forall_forall in *. intros en Hin. specialize (HM en Hin). destruct (R (fid_of en)) eqn:E; [apply HRS in E; congruence|reflexivity]. }
  assert (Hfil : filter (keep R) (L ++ M) = LR ++ M).
  { rewrite EL, !filter_app, (filter_keep_none R LS HLS), (filter_keep_all R LR HLR), (filter_keep_all R M HMR). reflexivity. }
  rewrite Hfil, EL, <- app_assoc, (lastval_app LS (LR ++ M)).
  destruct (has_key k (LR ++ M)) eqn:Hk; [apply lastval_has_key; exact Hk|].
  rewrite (lastval_no_key _ _ _ Hk), (lastval_no_key _ _ _ Hk). symmetry. apply lastloc_none_iff.
  destruct (lastloc LS k None) as [l|] eqn:El; [|reflexivity]. exfalso.
  assert (Hik : iget i k = Some l).
  { rewrite D1, EL, <- app_assoc, (lastloc_app LS (LR ++ M)), El. apply lastloc_no_key. exact Hk. }
  destruct (lastloc_In _ _ _ El) as (f & p & e & Hin & -> & _). rewrite Forall_forall in HLS. specialize (HLS _ Hin). cbn in HLS.
  specialize (E1 k _ Hik). cbn in E1. apply HRS in HLS. congruence.
Qed.

(* ---------- directory surgery ---------- *)
Lemma dir_filter_ext_in S1 S2 d : (forall j f, In (j, f) d -> S1 j = S2 j) -> dir_filter S1 d = dir_filter S2 d.
Proof.
  induction d as [|[i g] d IH]; intros H; cbn [dir_filter]; [reflexivity|].
  rewrite (H i g (or_introl eq_refl)), IH; [reflexivity|]. intros j f Hin. apply (H j f). right. exact Hin.
Qed.

Lemma dir_get_filter S d j : dir_get (dir_filter S d) j = if S j then None else dir_get d j.
Proof.
  induction d as [|[i g] d IH]; cbn [dir_filter dir_get]; [destruct (S j); reflexivity|].
  destruct (S i) eqn:Ei; cbn [dir_get]; rewrite IH.
  - destruct (N.eqb_spec i j) as [->|]; [rewrite Ei; reflexivity|reflexivity].
  - destruct (N.eqb_spec i j) as [->|]; [rewrite Ei; reflexivity|reflexivity].
Qed.

Lemma dir_set_present d id f g : sorted d -> dir_get d id = Some f ->
  sorted (dir_set d id g) /\
  (forall j h, In (j, h) (dir_set d id g) -> (In (j, h) d /\ j <> id) \/ (j = id /\ h = g)) /\
  (d_data g = d_data f -> log_of_dir (dir_set d id g) = log_of_dir d) /\
  dir_set d id g <> [].
Proof.
  induction d as [|[i x] d IH]; cbn [dir_get dir_set sorted]; [discriminate|]. intros [Hgt Hs]. destruct (N.eqb_spec i id) as [->|Hne].
  - intros E. inversion E; subst x. split; [cbn [sorted]; auto|]. split; [|split; [|discriminate]].
    + intros j h [H|H]; [inversion H; subst; right; auto|]. left. split; [right; exact H|].
      unfold ids_gt in Hgt. rewrite Forall_forall in Hgt. specialize (Hgt _ H). cbn in Hgt. lia.
    + intros Ed. cbn [log_of_dir]. rewrite Ed. reflexivity.
  - intros E. destruct (IH Hs E) as (Hs' & Hin' & Hlog' & _). split; [|split; [|split; [|discriminate]]].
    + cbn [sorted]. split; [|exact Hs']. unfold ids_gt in *. rewrite Forall_forall in *. intros [j h] Hj.
      destruct (Hin' j h Hj) as [[Hd _]|[-> ->]]; [exact (Hgt _ Hd)|]. apply dir_get_In in E. exact (Hgt _ E).
    + intros j h [H|H]; [inversion H; subst; left; split; [left; reflexivity|exact Hne]|].
      destruct (Hin' j h H) as [[Hd Hj]|Hj]; [left; split; [right; exact Hd|exact Hj]|right; exact Hj].
    + intros Ed. cbn [log_of_dir]. rewrite (Hlog' Ed). reflexivity.
Qed.

Lemma good_drop_hint m0 d id f : good m0 d -> dir_get d id = Some f -> good m0 (dir_set d id (mkFile (d_data f) None)).
Proof.
  intros (Hs & Hn & Hh & Hv) Hg. destruct (dir_set_present d id f (mkFile (d_data f) None) Hs Hg) as (Hs' & Hin' & Hlog' & Hne').
  split; [exact Hs'|]. split; [exact Hne'|]. split.
  - intros j h Hj. destruct (Hin' j h Hj) as [[Hd _]|[_ ->]]; [eauto|exact I].
  - intros k. rewrite (Hlog' eq_refl). apply Hv.
Qed.

(* ---------- the file system under the unlinks ---------- *)
Lemma rep_unlink_hint img d id g hs : rep img d -> dir_get d id = Some g -> d_hint g = Some hs ->
  fs_step img (SUnlink (FHint id)) = Some (fupd img (FHint id) None) /\ rep (fupd img (FHint id) None) (dir_set d id (mkFile (d_data g) None)).
Proof.
  intros Hr Hg Hh. destruct (rep_get img d id g Hr Hg) as [H1 H2]. rewrite Hh in H2. cbn in H2.
  unfold fs_step. rewrite H2. split; [reflexivity|]. apply rep_intro. intros j. rewrite dir_get_set. destruct (N.eq_dec id j) as [->|Hne].
  - rewrite N.eqb_refl. cbn [d_data d_hint option_map]. rewrite fupd_same. rewrite fupd_other by discriminate. auto.
  - replace (id =? j) with false by (symmetry; apply N.eqb_neq; exact Hne).
    rewrite !fupd_other by (intros E; inversion E; subst; contradiction).
    destruct (dir_get d j) as [f|] eqn:Eg; [exact (rep_get img d j f Hr Eg)|exact (rep_none img d j Hr Eg)].
Qed.

Lemma rep_unlink_data img d id g : sorted d -> rep img d -> dir_get d id = Some g -> d_hint g = None ->
  fs_step img (SUnlink (FData id)) = Some (fupd img (FData id) None) /\ rep (fupd img (FData id) None) (dir_remove d id).
Proof.
  intros Hs Hr Hg Hh. destruct (rep_get img d id g Hr Hg) as [H1 H2]. rewrite Hh in H2. cbn in H2.
  unfold fs_step. rewrite H1. split; [reflexivity|]. apply rep_intro. intros j. rewrite (dir_remove_filter d id Hs), dir_get_filter.
  destruct (N.eqb_spec j id) as [->|Hne].
  - rewrite fupd_same. rewrite fupd_other by discriminate. auto.
  - rewrite !fupd_other by (intros E; inversion E; subst; contradiction).
    destruct (dir_get d j) as [f|] eqn:Eg; [exact (rep_get img d j f Hr Eg)|exact (rep_none img d j Hr Eg)].
Qed.

Lemma mem_app g l1 l2 : mem g (l1 ++ l2) = mem g l1 || mem g l2.
Proof. unfold mem. apply existsb_app. Qed.

Lemma dir_remove_absent d id : dir_get d id = None -> dir_remove d id = d.
Proof.
  induction d as [|[i g] d IH]; cbn [dir_get dir_remove]; [reflexivity|]. destruct (i =? id); [discriminate|]. intros H. rewrite IH by exact H. reflexivity.
Qed.

Lemma dir_filter_set d id g' : dir_filter (fun j => j =? id) (dir_set d id g') = dir_filter (fun j => j =? id) d \/ dir_get d id = None.
Proof.
  induction d as [|[i x] d IH]; cbn [dir_set dir_get dir_filter]; [right; reflexivity|].
  destruct (i =? id) eqn:E; cbn [dir_filter]; rewrite E; [left; reflexivity|].
  destruct IH as [IH|IH]; [left; rewrite IH; reflexivity|right; exact IH].
Qed.

Lemma remove_step dm done id : sorted dm ->
  dir_remove (dir_filter (fun g => mem g done) dm) id = dir_filter (fun g => mem g (done ++ [id])) dm.
Proof.
  intros Hs. rewrite dir_remove_filter by (apply dir_filter_sorted; exact Hs). rewrite dir_filter_filter. apply dir_filter_ext.
  intros j. rewrite mem_app. f_equal. unfold mem. cbn [existsb]. rewrite orb_false_r. reflexivity.
Qed.

Lemma unlink_walk m0 dm sel : sorted dm ->
  (forall j, (j <= length sel)%nat -> good m0 (dir_filter (fun g => mem g (firstn j sel)) dm)) ->
  forall rest done, sel = done ++ rest -> forall f, rep f (dir_filter (fun g => mem g done) dm) ->
    exists f', fs_run f (unlink_trace (dir_filter (fun g => mem g done) dm) rest) = Some f' /\
               rep f' (dir_filter (fun g => mem g sel) dm) /\
               forall img, image_of f (unlink_trace (dir_filter (fun g => mem g done) dm) rest) img -> img_ok img m0.
Proof.
  intros Hs Hgood. induction rest as [|id rest IH]; intros done Esel f Hrep.
  - rewrite app_nil_r in Esel. subst done. cbn [unlink_trace fs_run]. exists f. split; [reflexivity|]. split; [exact Hrep|].
    intros img Him. apply image_nil in Him. subst img. apply (good_img _ _ _ (rep_reads _ _ Hrep)).
    specialize (Hgood (length sel) (le_n _)). rewrite firstn_all in Hgood. exact Hgood.
  - set (d := dir_filter (fun g => mem g done) dm) in *.
    assert (Hsd : sorted d) by (apply dir_filter_sorted; exact Hs).
    assert (Hgd : good m0 d).
    { assert (Hj : (length done <= length sel)%nat) by (rewrite Esel, app_length; lia).
      specialize (Hgood (length done) Hj). rewrite Esel, firstn_app, Nat.sub_diag, firstn_all in Hgood. cbn [firstn] in Hgood. rewrite app_nil_r in Hgood. exact Hgood. }
    assert (Esel' : sel = (done ++ [id]) ++ rest) by (rewrite <- app_assoc; exact Esel).
    assert (Erem : dir_remove d id = dir_filter (fun g => mem g (done ++ [id])) dm) by (apply remove_step; exact Hs).
    cbn [unlink_trace]. rewrite Erem.
    destruct (dir_get d id) as [g|] eqn:Eg.
    + (* the file is there: hint file first, then the data file *)
      assert (Hfinal : forall f1 d1 g1, rep f1 d1 -> sorted d1 -> dir_get d1 id = Some g1 -> d_hint g1 = None -> dir_remove d1 id = dir_remove d id ->
                exists f', fs_run f1 (SUnlink (FData id) :: unlink_trace (dir_filter (fun g0 => mem g0 (done ++ [id])) dm) rest) = Some f' /\
                           rep f' (dir_filter (fun g0 => mem g0 sel) dm) /\
                           forall img, image_of f1 (SUnlink (FData id) :: unlink_trace (dir_filter (fun g0 => mem g0 (done ++ [id])) dm) rest) img ->
                                       img = f1 \/ img_ok img m0).
      { intros f1 d1 g1 Hr1 Hs1 Hg1 Hh1 Erm. destruct (rep_unlink_data f1 d1 id g1 Hs1 Hr1 Hg1 Hh1) as [Hst Hr2].
        rewrite Erm, Erem in Hr2.
        destruct (IH (done ++ [id]) Esel' _ Hr2) as (f' & Hrun & Hrep' & Himgs).
        exists f'. cbn [fs_run]. rewrite Hst. split; [exact Hrun|]. split; [exact Hrep'|].
        intros img Him. apply image_cons_inv in Him as [->|[(h & b1 & b2 & Ec & _)|(s1 & Hs1' & Him)]]; [left; reflexivity|discriminate|].
        rewrite Hst in Hs1'. inversion Hs1'; subst s1. right. apply Himgs. exact Him. }
      destruct (d_hint g) as [hs|] eqn:Eh.
      * destruct (rep_unlink_hint f d id g hs Hrep Eg Eh) as [Hst1 Hr1].
        set (d1 := dir_set d id (mkFile (d_data g) None)) in *.
        destruct (dir_set_present d id g (mkFile (d_data g) None) Hsd Eg) as (Hs1 & _ & _ & _).
        assert (Hg1 : dir_get d1 id = Some (mkFile (d_data g) None)) by (unfold d1; rewrite dir_get_set, N.eqb_refl; reflexivity).
        assert (Erm : dir_remove d1 id = dir_remove d id).
        { rewrite (dir_remove_filter d1 id Hs1), (dir_remove_filter d id Hsd). unfold d1.
          destruct (dir_filter_set d id (mkFile (d_data g) None)) as [E|E]; [exact E|congruence]. }
        destruct (Hfinal _ d1 _ Hr1 Hs1 Hg1 eq_refl Erm) as (f' & Hrun & Hrep' & Himgs).
        exists f'. cbn [app fs_run]. rewrite Hst1. split; [exact Hrun|]. split; [exact Hrep'|].
        intros img Him. cbn [app] in Him.
        apply image_cons_inv in Him as [->|[(h & b1 & b2 & Ec & _)|(s1 & Hs1' & Him)]]; [apply (good_img _ _ _ (rep_reads _ _ Hrep) Hgd)|discriminate|].
        rewrite Hst1 in Hs1'. inversion Hs1'; subst s1. destruct (Himgs img Him) as [->|H]; [|exact H].
        apply (good_img _ _ _ (rep_reads _ _ Hr1)). apply good_drop_hint; assumption.
      * destruct (Hfinal f d g Hrep Hsd Eg Eh eq_refl) as (f' & Hrun & Hrep' & Himgs).
        exists f'. cbn [app]. split; [exact Hrun|]. split; [exact Hrep'|].
        intros img Him. cbn [app] in Him. destruct (Himgs img Him) as [->|H]; [|exact H]. apply (good_img _ _ _ (rep_reads _ _ Hrep) Hgd).
    + (* no such file: nothing is unlinked *)
      cbn [app]. apply (IH (done ++ [id]) Esel'). rewrite <- Erem, (dir_remove_absent d id Eg). exact Hrep.
Qed.

(* ---------- anatomy of a merge pass (the intermediate objects of Store/Sizes.v, merge_full) ---------- *)
Lemma merge_anatomy c s ord : Inv s -> merge_ready c s ord ->
  exists sel0 bound m M d2 x2 t2,
    let sel := sort_ids sel0 in
    let S := fun g => mem g sel in
    let id0 := s_last s + 1 in
    let d0 := s_dir s ++ [(id0, mkFile [] (Some []))] in
    let m0 := mkM d0 (s_idx s) (s_stats s) id0 0 id0 [SCreate (FHint id0); SCreate (FData id0)] in
    (forall g, S g = hasrow (s_stats s) g && match bound with Some b => g <=? b | None => false end) /\
    (forall g, hasrow (s_stats s) g = has_file (slog s) g) /\
    (forall g, S g = true -> g <= s_last s) /\
    LI s S m0 [] /\ merge_loop c sel m0 ord = ROk m /\ LI s S m M /\
    (forall k l, iget (m_idx m) k = Some l -> S (l_fid l) = false) /\
    unlink_all (m_dir m) (m_stats m) sel (SFsync (FHint (m_id m)) :: SFsync (FData (m_id m)) :: m_trace m) = (d2, x2, t2) /\
    d2 = dir_filter S (m_dir m) /\ dir_get d2 (m_last m + 1) = None /\
    exists s', merge c s ord = ROk (s', tt, rev t2 ++ [SCreate (FData (m_last m + 1))]) /\
               s_dir s' = d2 ++ [(m_last m + 1, empty_file)] /\ Inv s' /\ (forall k, abs s' k = abs s k) /\
               s_last s' = m_last m + 1 /\ s_active s' = m_last m + 1 /\ s_written s' = 0.
Proof.
  intros HI Hready. pose proof HI as (Hs & Hle & Hh & Hst & Hact & Hfa & HC).
  destruct (select_ok c s HI) as (sel0 & bound & Hsel & Hmem).
  destruct (merge_full c s ord HI Hready) as (s' & t & sel0' & Hm & _ & HI' & Habs & _).
  unfold merge, merge_with in Hm. rewrite Hsel in Hm. rewrite (Hready sel0 Hsel) in Hm. cbn [negb] in Hm.
  set (sel := sort_ids sel0) in *. set (S := fun g => mem g sel).
  assert (HS : forall g, S g = hasrow (s_stats s) g && match bound with Some b => g <=? b | None => false end).
  { intros g. unfold S, sel. rewrite mem_sort_ids. apply Hmem. }
  pose proof HC as (C1 & C2 & C3).
  assert (Hrow : forall g, hasrow (s_stats s) g = has_file (slog s) g).
  { intros g. unfold hasrow. destruct (sget (s_stats s) g) eqn:E.
    - destruct (has_file (slog s) g) eqn:F; [reflexivity|]. apply C3 in F; [congruence|reflexivity].
    - symmetry. apply C3; [reflexivity|exact E]. }
  assert (HSle : forall g, S g = true -> g <= s_last s).
  { intros g Hg. rewrite HS in Hg. apply andb_true_iff in Hg as [Hg _]. rewrite Hrow in Hg.
    destruct (has_file_dir_get _ _ Hs Hg) as (f & Hget & _). apply dir_get_In in Hget.
    unfold ids_le in Hle. rewrite Forall_forall in Hle. apply (Hle _ Hget). }
  unfold create_pair in Hm. rewrite (ids_le_get_none _ _ (s_last s + 1) Hle) in Hm by lia.
  rewrite dir_set_new in Hm by (apply (ids_le_get_none _ (s_last s)); [exact Hle|lia]).
  set (d0 := s_dir s ++ [(s_last s + 1, mkFile [] (Some []))]) in *.
  set (m0 := mkM d0 (s_idx s) (s_stats s) (s_last s + 1) 0 (s_last s + 1) [SCreate (FHint (s_last s + 1)); SCreate (FData (s_last s + 1))]) in *.
  assert (Hs0 : sorted d0).
  { apply sorted_app_one; [exact Hs| |lia]. replace (s_last s + 1 - 1) with (s_last s) by lia. exact Hle. }
  assert (HLI0 : LI s S m0 []).
  { unfold LI, m0. cbn [m_dir m_idx m_stats m_id m_pos m_last]. rewrite app_nil_r.
    split; [exact Hs0|]. split.
    { unfold ids_le. apply Forall_app. split; [apply (ids_le_weaken _ (s_last s)); [exact Hle|lia]|]. constructor; [lia|constructor]. }
    split.
    { intros id g Hin. apply in_app_or in Hin as [Hin|[Hin|[]]]; [eauto|]. inversion Hin; subst. split; [reflexivity|constructor]. }
    split; [reflexivity|]. split; [lia|]. split.
    { exists (mkFile [] (Some [])), []. split; [|split; reflexivity].
      apply In_dir_get; [exact Hs0|apply in_or_app; right; left; reflexivity]. }
    split.
    { unfold d0. rewrite log_of_dir_app. cbn [log_of_dir log_file d_data]. rewrite !app_nil_r. reflexivity. }
    split; [constructor|]. split; [apply cons_weaken; exact HC|reflexivity]. }
  destruct (loop_ok c s S sel ltac:(reflexivity) HSle ord m0 [] HLI0) as (m & M & Hloop & HLI & Hmoved & Hall).
  rewrite Hloop in Hm.
  assert (E1 : forall k l, iget (m_idx m) k = Some l -> S (l_fid l) = false).
  { intros k l Hk. destruct (Hmoved k) as [E|(l' & E & HSl)]; [|congruence].
    cbn [m_idx m0] in E. destruct (S (l_fid l)) eqn:ES; [|reflexivity]. exfalso.
    assert (Hk0 : iget (s_idx s) k = Some l) by congruence.
    pose proof (Hready sel0 Hsel) as Hok. unfold ord_ok in Hok. apply andb_true_iff in Hok as [_ Hok].
    rewrite forallb_forall in Hok.
    pose proof (akeys_spec _ _ _ Hk0) as Hin. apply existsb_exists in Hin as (k0 & Hin & Hb). apply beq_eq in Hb. subst k0.
    specialize (Hok k Hin). rewrite Hk0 in Hok. fold sel in Hok. fold (S (l_fid l)) in Hok. rewrite ES in Hok. cbn [negb orb] in Hok.
    specialize (Hall k Hok). rewrite Hk in Hall. congruence. }
  pose proof HLI as (Hsm & Hlem & _).
  pose proof (unlink_all_spec sel (m_dir m) (m_stats m) (SFsync (FHint (m_id m)) :: SFsync (FData (m_id m)) :: m_trace m) Hsm) as Hun.
  destruct (unlink_all (m_dir m) (m_stats m) sel (SFsync (FHint (m_id m)) :: SFsync (FData (m_id m)) :: m_trace m)) as [[d2 x2] t2] eqn:Eun.
  destruct Hun as [Ed2 _]. fold S in Ed2.
  assert (Hn2 : dir_get d2 (m_last m + 1) = None).
  { apply (ids_le_get_none _ (m_last m)); [|lia]. unfold ids_le in *. rewrite Forall_forall in *. intros [j g] Hin. rewrite Ed2 in Hin.
    apply dir_filter_In in Hin as [Hin _]. apply (Hlem _ Hin). }
  unfold new_active in Hm. cbn [s_last s_dir s_idx s_stats s_clock] in Hm. rewrite Hn2 in Hm. inversion Hm; subst s' t.
  exists sel0, bound, m, M, d2, x2, t2. cbv zeta. fold sel. fold S. fold d0. fold m0.
  split; [exact HS|]. split; [exact Hrow|]. split; [exact HSle|]. split; [exact HLI0|]. split; [exact Hloop|]. split; [exact HLI|].
  split; [exact E1|]. split; [exact Eun|]. split; [exact Ed2|]. split; [exact Hn2|].
  eexists. split; [|split; [|split; [exact HI'|split; [exact Habs|cbn [s_last s_active s_written]; auto]]]].
  - unfold merge, merge_with. rewrite Hsel. rewrite (Hready sel0 Hsel). cbn [negb]. fold sel.
    unfold create_pair. rewrite (ids_le_get_none _ _ (s_last s + 1) Hle) by lia.
    rewrite dir_set_new by (apply (ids_le_get_none _ (s_last s)); [exact Hle|lia]). fold d0. fold m0. rewrite Hloop, Eun.
    unfold new_active. cbn [s_last s_dir s_idx s_stats s_clock]. rewrite Hn2. reflexivity.
  - cbn [s_dir]. apply dir_set_new. exact Hn2.
Qed.

(* ---------- every prefix of the ascending removal leaves a directory that recovers to the old map ---------- *)
Lemma In_firstn {A} (x : A) : forall n l, In x (firstn n l) -> In x l.
Proof. induction n as [|n IH]; intros [|a l] H; cbn [firstn In] in *; try contradiction. destruct H as [H|H]; [left; exact H|right; apply IH; exact H]. Qed.

Lemma prefix_good s sel0 bound m M j :
  let sel := sort_ids sel0 in
  let S := fun g => mem g sel in
  sorted (s_dir s) ->
  (forall g, S g = hasrow (s_stats s) g && match bound with Some b => g <=? b | None => false end) ->
  (forall g, hasrow (s_stats s) g = has_file (slog s) g) ->
  (forall g, S g = true -> g <= s_last s) ->
  LI s S m M ->
  (forall k l, iget (m_idx m) k = Some l -> S (l_fid l) = false) ->
  good (abs s) (dir_filter (fun g => mem g (firstn j sel)) (m_dir m)).
Proof.
  intros sel S Hs HS Hrow HSle HLI E1.
  destruct HLI as (Hsm & Hlem & Hhm & Hidm & Hgtm & (fm & hsm & Hfm & _) & Hlogm & HMm & (D1 & _) & HVm).
  set (R := fun g => mem g (firstn j sel)).
  assert (HRS : forall g, R g = true -> S g = true).
  { intros g Hg. unfold R in Hg. apply mem_In in Hg. apply In_firstn in Hg. apply mem_In. exact Hg. }
  split; [apply dir_filter_sorted; exact Hsm|]. split; [|split].
  - (* the merge output is never selected *)
    assert (Hin : In (m_id m, fm) (dir_filter R (m_dir m))).
    { apply dir_filter_In. split; [apply dir_get_In; exact Hfm|]. destruct (R (m_id m)) eqn:E; [|reflexivity].
      apply HRS, HSle in E. lia. }
    intros E. rewrite E in Hin. destruct Hin.
  - intros id f Hin. apply dir_filter_In in Hin as [Hin _]. eauto.
  - intros k. rewrite log_dir_filter, Hlogm.
    (* the removed files are a prefix of the old log *)
    set (Sb := fun g => existsb (fun r => g <=? r) (firstn j sel)).
    destruct (log_prefix (s_dir s) Sb Hs) as (LS & LR & Esplit & HLS & HLR).
    { intros a b Hab Hb. unfold Sb in *. apply existsb_exists in Hb as (r & Hr & Hbr). apply existsb_exists. exists r. split; [exact Hr|].
      apply N.leb_le in Hbr. apply N.leb_le. lia. }
    fold (slog s) in Esplit.
    assert (Hagree : forall en, In en (slog s) -> Sb (fid_of en) = R (fid_of en)).
    { intros [[f p] e] Hin. cbn [fid_of]. destruct (R f) eqn:ER.
      - unfold Sb. apply existsb_exists. exists f. split; [apply mem_In; exact ER|apply N.leb_refl].
      - destruct (Sb f) eqn:ESb; [|reflexivity]. exfalso. unfold Sb in ESb. apply existsb_exists in ESb as (r & Hr & Hfr). apply N.leb_le in Hfr.
        assert (HSr : S r = true) by (apply mem_In; eapply In_firstn; exact Hr).
        assert (HSf : S f = true).
        { rewrite HS in HSr |- *. apply andb_true_iff in HSr as [_ Hb]. apply andb_true_iff. split.
          - rewrite Hrow. unfold has_file. apply existsb_exists. exists (f, p, e). split; [exact Hin|]. cbn. apply N.eqb_refl.
          - destruct bound as [b|]; [|discriminate]. apply N.leb_le in Hb. apply N.leb_le. lia. }
        assert (Hf : In f (firstn j sel)).
        { apply (lsorted_prefix_closed sel j f r); [apply sort_ids_sorted|apply mem_In; exact HSf|exact Hr|exact Hfr]. }
        apply mem_In in Hf. unfold R in ER. congruence. }
    assert (HLS' : Forall (fun en => R (fid_of en) = true) LS).
    { rewrite Forall_forall in *. intros en Hin. rewrite <- Hagree by (rewrite Esplit; apply in_or_app; left; exact Hin). apply HLS. exact Hin. }
    assert (HLR' : Forall (fun en => R (fid_of en) = false) LR).
    { rewrite Forall_forall in *. intros en Hin. rewrite <- Hagree by (rewrite Esplit; apply in_or_app; right; exact Hin). apply HLR. exact Hin. }
    rewrite (drop_closed (slog s) M LS LR (m_idx m) S R D1 E1 HRS HMm Esplit HLS' HLR' k). apply HVm.
Qed.

(* ---------- a merge pass is crash safe ---------- *)
Lemma inv_good s : Inv s -> good (abs s) (s_dir s).
Proof.
  intros (Hs & _ & Hh & _ & _ & (fa & Hfa & _) & _). split; [exact Hs|]. split; [intros E; rewrite E in Hfa; discriminate|]. split; [exact Hh|reflexivity].
Qed.

Theorem merge_safe c s ord : Inv s -> merge_ready c s ord -> step_safe_at c s (OMerge ord).
Proof.
  intros HI Hready s0 Hrep0. cbn [step].
  destruct (merge_anatomy c s ord HI Hready) as (sel0 & bound & m & M & d2 & x2 & t2 & Hana). cbv zeta in Hana.
  set (sel := sort_ids sel0) in *. set (S := fun g => mem g sel) in *. set (id0 := s_last s + 1) in *.
  set (d0 := s_dir s ++ [(id0, mkFile [] (Some []))]) in *.
  set (m0 := mkM d0 (s_idx s) (s_stats s) id0 0 id0 [SCreate (FHint id0); SCreate (FData id0)]) in *.
  destruct Hana as (HS & Hrow & HSle & HLI0 & Hloop & HLI & E1 & Eun & Ed2 & Hn2 & s' & Hm & Hd' & HI' & Habs & _).
  rewrite Hm. intros Hwf.
  pose proof HI as (Hs & Hle & Hh & _ & _ & _ & _).
  pose proof (inv_good s HI) as Hg0.
  (* the trace, forward *)
  pose proof (unlink_all_trace sel (m_dir m) (m_stats m) (SFsync (FHint (m_id m)) :: SFsync (FData (m_id m)) :: m_trace m)) as Htr.
  rewrite Eun in Htr. cbn [snd rev] in Htr. rewrite <- !app_assoc in Htr. cbn [app] in Htr.
  set (ext := SFsync (FData (m_id m)) :: SFsync (FHint (m_id m)) :: unlink_trace (m_dir m) sel ++ [SCreate (FData (m_last m + 1))]).
  assert (Et : rev t2 ++ [SCreate (FData (m_last m + 1))] = rev (m_trace m) ++ ext).
  { rewrite Htr. unfold ext. rewrite <- app_assoc. reflexivity. }
  rewrite Et in *.
  assert (Hwfm : trace_wf (rev (m_trace m))) by (unfold trace_wf in *; apply Forall_app in Hwf; tauto).
  (* phase 0: the first pair of output files *)
  assert (Hn0 : dir_get (s_dir s) id0 = None) by (apply (ids_le_get_none _ (s_last s)); [exact Hle|unfold id0; lia]).
  destruct (rep_after_create s0 (s_dir s) id0 Hrep0 Hn0) as [Hc1 Hr1]. set (f1 := fupd s0 (FData id0) (Some [])) in *.
  assert (Hg1 : good (abs s) (s_dir s ++ [(id0, empty_file)])).
  { apply good_app_empty; [exact Hg0| |unfold id0; lia]. unfold id0. replace (s_last s + 1 - 1) with (s_last s) by lia. exact Hle. }
  destruct (rep_create_hint f1 (s_dir s) id0 Hr1 Hn0 (proj1 Hg1)) as [Hc2 Hr2]. set (f2 := fupd f1 (FHint id0) (Some [])) in *.
  assert (TI0 : TI s0 (abs s) m0).
  { exists f2. unfold m0. cbn [m_trace m_dir rev app fs_run]. rewrite Hc1, Hc2. split; [reflexivity|]. split; [exact Hr2|].
    intros img Him.
    apply image_cons_inv in Him as [->|[(g & b1 & b2 & Ec & _)|(s1 & Hs1 & Him)]]; [apply (good_img _ _ _ (rep_reads _ _ Hrep0) Hg0)|discriminate|].
    rewrite Hc1 in Hs1. inversion Hs1; subst s1.
    apply image_cons_inv in Him as [->|[(g & b1 & b2 & Ec & _)|(s1 & Hs2 & Him)]]; [apply (good_img _ _ _ (rep_reads _ _ Hr1) Hg1)|discriminate|].
    rewrite Hc2 in Hs2. inversion Hs2; subst s1. apply image_nil in Him. subst img.
    apply (good_img _ _ _ (rep_reads _ _ Hr2)). exact (LI_good s S m0 [] HLI0). }
  (* phase 1: the copies *)
  destruct (loop_crash c s S sel s0 (fun g => eq_refl) HSle ord m0 [] m HLI0 Hloop Hwfm TI0) as (f & Hrun & Hrepm & Himgs).
  pose proof (LI_good s S m M HLI) as Hgm.
  pose proof HLI as (Hsm & _ & _ & _ & _ & (fm & hsm & Hfm & Hhm & _) & _).
  destruct (rep_get f (m_dir m) (m_id m) fm Hrepm Hfm) as [Hfd Hfh]. rewrite Hhm in Hfh. cbn [option_map] in Hfh.
  assert (Hsy1 : fs_step f (SFsync (FData (m_id m))) = Some f) by (unfold fs_step; rewrite Hfd; reflexivity).
  assert (Hsy2 : fs_step f (SFsync (FHint (m_id m))) = Some f) by (unfold fs_step; rewrite Hfh; reflexivity).
  (* phase 2: the unlinks *)
  assert (Hgood_all : forall j, (j <= length sel)%nat -> good (abs s) (dir_filter (fun g => mem g (firstn j sel)) (m_dir m))).
  { intros j _. exact (prefix_good s sel0 bound m M j Hs HS Hrow HSle HLI E1). }
  assert (Hrep_nil : rep f (dir_filter (fun g => mem g []) (m_dir m))) by (rewrite dir_filter_none by reflexivity; exact Hrepm).
  destruct (unlink_walk (abs s) (m_dir m) sel Hsm Hgood_all sel [] eq_refl f Hrep_nil) as (f' & Hrun' & Hrep' & Himgs').
  rewrite dir_filter_none in Hrun', Himgs' by reflexivity.
  fold S in Hrep'. rewrite <- Ed2 in Hrep'.
  destruct (rep_after_create f' d2 (m_last m + 1) Hrep' Hn2) as [Hc3 Hr3].
  assert (Hgd2 : good (abs s) d2).
  { specialize (Hgood_all (length sel) (le_n _)). rewrite firstn_all in Hgood_all. fold S in Hgood_all. rewrite <- Ed2 in Hgood_all. exact Hgood_all. }
  split.
  - eexists. rewrite fs_run_app, Hrun. unfold ext. cbn [fs_run]. rewrite Hsy1, Hsy2, fs_run_app, Hrun'. cbn [fs_run]. rewrite Hc3.
    split; [reflexivity|]. rewrite Hd'. exact Hr3.
  - intros img Him.
    destruct (image_app s0 (rev (m_trace m)) ext img f Hrun Him) as [H|H]; [left; apply Himgs; exact H|].
    unfold ext in H.
    apply image_cons_inv in H as [->|[(g & b1 & b2 & Ec & _)|(s1 & Hs1 & H)]]; [left; apply (good_img _ _ _ (rep_reads _ _ Hrepm) Hgm)|discriminate|].
    rewrite Hsy1 in Hs1. inversion Hs1; subst s1.
    apply image_cons_inv in H as [->|[(g & b1 & b2 & Ec & _)|(s1 & Hs2 & H)]]; [left; apply (good_img _ _ _ (rep_reads _ _ Hrepm) Hgm)|discriminate|].
    rewrite Hsy2 in Hs2. inversion Hs2; subst s1.
    destruct (image_app f (unlink_trace (m_dir m) sel) [SCreate (FData (m_last m + 1))] img f' Hrun' H) as [H1|H1]; [left; apply Himgs'; exact H1|].
    apply image_cons_inv in H1 as [->|[(g & b1 & b2 & Ec & _)|(s1 & Hs3 & H1)]]; [left; apply (good_img _ _ _ (rep_reads _ _ Hrep') Hgd2)|discriminate|].
    rewrite Hc3 in Hs3. inversion Hs3; subst s1. apply image_nil in H1. subst img.
    right. apply (img_ok_rep _ s' HI'). rewrite Hd'. exact Hr3.
Qed.

(* ---------- every script ---------- *)
Theorem step_safe c s o : Inv s -> op_ready c s o -> step_safe_at c s o.
Proof.
  intros HI Hr. destruct (is_merge o) eqn:Em; [|apply nomerge_step_safe; assumption].
  destruct o; try discriminate. apply merge_safe; assumption.
Qed.

Theorem crash_safe c ops s0 : run_ready c init ops -> rep s0 (s_dir init) -> trace_wf (snd (run c init ops)) ->
  forall img, image_of s0 (snd (run c init ops)) img ->
    exists n, (n <= length ops)%nat /\ img_ok img (abs (state_after c init ops n)).
Proof.
  intros Hr Hrep Hwf. apply script_crash_safe; [exact (proj1 init_inv)|exact Hr|exact Hrep|exact Hwf|].
  intros s' o HI Hop _. apply step_safe; assumption.
Qed.

(* ---------- the sharp form: a crash DURING operation [o], after [ops1] were acknowledged ---------- *)
Lemma run_app c : forall a s b, run c s (a ++ b) =
  let '(s1, r1, t1) := run c s a in let '(s2, r2, t2) := run c s1 b in (s2, r1 ++ r2, t1 ++ t2).
Proof.
  induction a as [|o a IH]; intros s b; cbn [app run].
  - destruct (run c s b) as [[s2 r2] t2]. reflexivity.
  - destruct (step c s o) as [[s1 r] t]. rewrite IH. destruct (run c s1 a) as [[s2 r2] t2]. destruct (run c s2 b) as [[s3 r3] t3].
    rewrite app_assoc. reflexivity.
Qed.

Lemma run_ready_app c : forall a s b, run_ready c s (a ++ b) -> run_ready c s a /\ run_ready c (fst (fst (run c s a))) b.
Proof.
  induction a as [|o a IH]; intros s b H; cbn [app run_ready run] in *; [split; [exact I|exact H]|].
  destruct H as [H1 H2]. destruct (step c s o) as [[s1 r] t] eqn:Es. cbn [fst] in *. destruct (IH s1 b H2) as [Ha Hb].
  destruct (run c s1 a) as [[s2 r2] t2]. cbn [fst] in *. auto.
Qed.

Theorem crash_during_op c ops1 o s0 :
  run_ready c init (ops1 ++ [o]) -> rep s0 (s_dir init) -> trace_wf (snd (run c init (ops1 ++ [o]))) ->
  let s1 := fst (fst (run c init ops1)) in
  exists f1, fs_run s0 (snd (run c init ops1)) = Some f1 /\
    forall img, image_of f1 (snd (step c s1 o)) img ->
      img_ok img (abs s1) \/ img_ok img (abs (fst (fst (step c s1 o)))).
Proof.
  intros Hready Hrep Hwf. cbv zeta. destruct (run_ready_app c ops1 init [o] Hready) as [Hr1 Hr2].
  rewrite run_app in Hwf. pose proof (run_refines c ops1 init (proj1 init_inv) Hr1) as Href.
  destruct (run c init ops1) as [[s1 r1] t1] eqn:E1. cbn [fst snd] in *. destruct Href as (HI1 & _).
  cbn [run] in Hwf. destruct (step c s1 o) as [[s2 r2] t2] eqn:E2. cbn [snd fst] in *. rewrite app_nil_r in Hwf.
  unfold trace_wf in Hwf. apply Forall_app in Hwf as [Hwf1 Hwf2].
  assert (Hsafe : forall s' o', Inv s' -> op_ready c s' o' -> In o' ops1 -> step_safe_at c s' o') by (intros; apply step_safe; assumption).
  pose proof (script_crash_safe c ops1 init s0 (proj1 init_inv) Hr1 Hrep) as Hsc. rewrite E1 in Hsc. cbn [snd fst] in Hsc.
  destruct (Hsc Hwf1 Hsafe) as [(f1 & Hrun & Hrep1) _].
  exists f1. split; [exact Hrun|]. cbn [run_ready] in Hr2. destruct Hr2 as [Hop _].
  pose proof (step_safe c s1 o HI1 Hop f1 Hrep1) as Hst. rewrite E2 in Hst. destruct (Hst Hwf2) as [_ Himg]. exact Himg.
Qed.

(* ---------- the bytes on disk after any script are the encodings of the model's records ---------- *)
Theorem bytes_on_disk c ops s0 : run_ready c init ops -> rep s0 (s_dir init) -> trace_wf (snd (run c init ops)) ->
  exists s1, fs_run s0 (snd (run c init ops)) = Some s1 /\ rep s1 (s_dir (fst (fst (run c init ops)))).
Proof.
  intros Hr Hrep Hwf. destruct (script_crash_safe c ops init s0 (proj1 init_inv) Hr Hrep Hwf) as [H _]; [|exact H].
  intros s' o HI Hop _. apply step_safe; assumption.
Qed.

Lemma rep_sizes s d id f : rep s d -> dir_get d id = Some f -> exists b, s (FData id) = Some b /\ blen b = data_size (d_data f).
Proof.
  intros Hr Hg. destruct (rep_get s d id f Hr Hg) as [H _]. eexists. split; [exact H|].
  clear. induction (d_data f) as [|e es IH]; cbn [file_bytes data_size]; [reflexivity|]. rewrite blen_app, enc_entry_size, IH. reflexivity.
Qed.

(* ---------- a failed call: the directory it leaves behind ---------- *)
(* A call that fails has no effect, and the error paths of set / delete / reopen / merge issue no further
   calls: the directory after operation [o] failed at its (n+1)-th call is the file system after the first
   [n] calls of [o].  Restarting from there recovers every earlier operation, and [o] entirely or not. *)
Lemma fs_run_prefix : forall t s s' n, fs_run s t = Some s' -> exists sn, fs_run s (firstn n t) = Some sn.
Proof.
  induction t as [|c t IH]; intros s s' n H; [rewrite firstn_nil; cbn; eauto|]. destruct n as [|n]; [cbn; eauto|].
  cbn [firstn fs_run] in *. destruct (fs_step s c) as [s1|]; [|discriminate]. eapply IH; exact H.
Qed.

Theorem fault_then_restart c ops1 o s0 n :
  run_ready c init (ops1 ++ [o]) -> rep s0 (s_dir init) -> trace_wf (snd (run c init (ops1 ++ [o]))) ->
  let s1 := fst (fst (run c init ops1)) in
  exists f1 fn, fs_run s0 (snd (run c init ops1)) = Some f1 /\ fs_run f1 (firstn n (snd (step c s1 o))) = Some fn /\
    (img_ok fn (abs s1) \/ img_ok fn (abs (fst (fst (step c s1 o))))).
Proof.
  intros Hready Hrep Hwf. cbv zeta.
  destruct (crash_during_op c ops1 o s0 Hready Hrep Hwf) as (f1 & Hrun & Himgs). cbv zeta in Himgs.
  (* the whole trace of [o] runs from f1 *)
  destruct (run_ready_app c ops1 init [o] Hready) as [Hr1 Hr2].
  pose proof (bytes_on_disk c (ops1 ++ [o]) s0 Hready Hrep Hwf) as (s2 & Hrun2 & _).
  rewrite run_app in Hrun2. destruct (run c init ops1) as [[s1 r1] t1] eqn:E1. cbn [fst snd] in *.
  cbn [run] in Hrun2. destruct (step c s1 o) as [[s2' r2] t2] eqn:E2. cbn [snd fst] in *. rewrite app_nil_r, fs_run_app, Hrun in Hrun2.
  destruct (fs_run_prefix t2 f1 s2 n Hrun2) as (fn & Hfn).
  exists f1, fn. split; [exact Hrun|]. split; [exact Hfn|]. apply Himgs.
  apply (img_boundary _ _ _ (firstn n t2) (skipn n t2)); [symmetry; apply firstn_skipn|exact Hfn].
Qed.
