(* Store/FaultUnlink.v — the removal loop of a merge pass with a failing unlink.
   The loop walks the selected files in ascending order; for each it removes the hint file, the data
   file, and the file's row of the statistics.  When an unlink fails the pass stops with an error.
   What matters for every LATER merge is the invariant that [select] rests on (Store/Merge.v,
   select_ok): a file that holds records has a row ("rows cover files"), because the selection is
   closed downwards over the files that have rows.  Order A (repaired code, e043e9c): unlink first,
   forget the row afterwards — the invariant survives a failure at any point.  Order B (pinned code):
   forget the row first — after a failed unlink the file is still there without a row, no later pass
   selects it, and the newer files holding the tombstones for its values can be merged away. *)
From BC Require Import Base.Bytes Store.Codec Store.Engine Store.Log Store.Step Store.Cons Store.Inv Store.Refine Store.MergeLemmas Store.Merge.
From Coq Require Import Lia List NArith ZArith Bool.
Import ListNotations.
Open Scope N_scope.

Definition rows_cover (d : dir) (x : stats_t) : Prop :=
  forall g, has_file (log_of_dir d) g = true -> sget x g <> None.

(* the state of directory and statistics when the unlink of the (j+1)-th selected file has failed *)
Definition failed_unlink (row_first : bool) (d : dir) (x : stats_t) (sel : list N) (j : nat) : dir * stats_t :=
  let '(d', x', _) := unlink_all d x (firstn j sel) [] in
  match skipn j sel with
  | id :: _ => (d', if row_first then adel x' id else x')
  | [] => (d', x')
  end.

(* removing whole files together with their rows keeps the invariant *)
Lemma rows_cover_filter (S : N -> bool) (d : dir) (x x' : stats_t) : sorted d -> rows_cover d x ->
  (forall g, sget x' g = if S g then None else sget x g) -> rows_cover (dir_filter S d) x'.
Proof.
  intros Hs H Hx g Hg. rewrite log_dir_filter in Hg. rewrite Hx. destruct (S g) eqn:ES.
  - destruct (counts_dropped S (log_of_dir d) (@nil (bytes * option loc)) g ES) as (_ & _ & _ & Hf). congruence.
  - destruct (counts_filter S (log_of_dir d) (@nil (bytes * option loc)) g ES) as (_ & _ & _ & Hf). rewrite Hf in Hg. apply H. exact Hg.
Qed.

(* Order A: whatever unlink fails, rows still cover files *)
Theorem unlink_first_keeps_rows d x sel j : sorted d -> rows_cover d x ->
  let '(d', x') := failed_unlink false d x sel j in rows_cover d' x'.
Proof.
  intros Hs H. unfold failed_unlink.
  pose proof (unlink_all_spec (firstn j sel) d x [] Hs) as Hun.
  destruct (unlink_all d x (firstn j sel) []) as [[d' x'] t']. destruct Hun as [-> Hx].
  assert (Hc : rows_cover (dir_filter (fun g => mem g (firstn j sel)) d) x') by (apply (rows_cover_filter _ d x); assumption).
  destruct (skipn j sel); exact Hc.
Qed.

(* Order B is refuted: value in file 0, tombstone in file 1, both selected; the unlink of file 0 fails
   after its row was dropped.  File 0 holds a record but has no row; the next selection (closed
   downwards over ROWS) can therefore take file 1 without file 0. *)
Definition ex_dir : dir :=
  [(0, mkFile [mkEntry 1 [107] (Some [118])] None); (1, mkFile [mkEntry 2 [107] None] None); (2, mkFile [] None)].
Definition ex_stats : stats_t := aset (aset [] 0 (mkCnt 0 1 0)) 1 (mkCnt 0 1 18).

Example row_first_loses_a_file :
  let '(d', x') := failed_unlink true ex_dir ex_stats [0; 1] 0 in
  has_file (log_of_dir d') 0 = true /\ sget x' 0 = None /\ sget x' 1 <> None.
Proof. vm_compute. split; [reflexivity|]. split; [reflexivity|discriminate]. Qed.

Example unlink_first_same_point :
  let '(d', x') := failed_unlink false ex_dir ex_stats [0; 1] 0 in
  has_file (log_of_dir d') 0 = true /\ sget x' 0 <> None.
Proof. vm_compute. split; [reflexivity|discriminate]. Qed.

(* the invariant is the one [Inv] provides *)
Lemma inv_rows_cover s : Inv s -> rows_cover (s_dir s) (s_stats s).
Proof.
  intros (_ & _ & _ & _ & _ & _ & (_ & _ & C3)) g Hg E. apply (C3 g eq_refl) in E. unfold slog in *. congruence.
Qed.

(* ---------- what "rows cover files" buys: every selection is closed downwards over the files that hold records ----------
   No invariant of the engine is assumed: this holds in the states the fault paths leave behind (a failed unlink, a
   failed fsync with the repaired bookkeeping), which are outside [Inv].  It is the reason a tombstone is never merged
   away while an older file still holds the value it shadows. *)
Lemma select_shape c s sel0 : select c s = ROk sel0 ->
  exists bound, forall g, mem g sel0 = mem g (stat_ids (s_stats s)) && match bound with Some b => g <=? b | None => false end.
Proof.
  unfold select. intros H.
  destruct (fold_left _ (stat_ids (s_stats s)) (ROk [])) as [sel| |]; try discriminate.
  destruct (nmax sel) as [newest|].
  - injection H as <-. exists (Some newest). intros g. exact (mem_filter (fun id => id <=? newest) _ g).
  - injection H as <-. exists None. intros g. cbn. rewrite andb_false_r. reflexivity.
Qed.

Theorem rows_make_selection_closed c s sel0 : rows_cover (s_dir s) (s_stats s) -> select c s = ROk sel0 ->
  forall id g, mem id sel0 = true -> has_file (log_of_dir (s_dir s)) g = true -> g <= id -> mem g sel0 = true.
Proof.
  intros HR Hsel id g Hid Hg Hle. destruct (select_shape c s sel0 Hsel) as (bound & Hb).
  rewrite Hb in Hid. apply andb_true_iff in Hid as [_ Hid]. destruct bound as [b|]; [|discriminate].
  rewrite Hb. apply andb_true_iff. split.
  - apply stat_ids_iff. apply HR. exact Hg.
  - apply N.leb_le. apply N.leb_le in Hid. lia.
Qed.
