(* Store/FaultContinue.v — the running process after a put or delete that FAILED in its append or while
   replacing the active file (C20, in-process half for these faults).

   What the code does on such a failure (Writer::write, Writer::new_active_datafile): the index and the
   statistics are not touched, `stale` is set (nothing may be appended behind what the failed append left),
   and `last_fileid` may already have been advanced by a create that failed.  [faulted s x]: x is such a
   state over the invariant state s the operation started from (at the record level the directory is
   unchanged: a partly written record is not a record).

   Proved: from a faulted state every script answers exactly as the map that s holds — the failed
   operation has not taken effect, every earlier and later acknowledged operation reads correctly — and
   the next successful put or delete first replaces the active file and re-establishes the invariant.
   A merge pass is covered when no create had failed (s_last unchanged).  The faults that leave a COMPLETE
   unindexed record behind (fsync failing after the append, rollover failing after the append) are not in
   this model; they are decided by the fault sweep of the C20 check. *)
From BC Require Import Base.Bytes Store.Codec Store.Engine Store.Log Store.Step Store.Cons Store.Inv Store.Refine
  Store.MergeLemmas Store.Merge Store.Sizes Store.Theorems.
From Coq Require Import Lia List NArith ZArith Bool.
Import ListNotations.
Open Scope N_scope.

Definition base_of (x : st) : st :=
  mkSt (s_dir x) (s_idx x) (s_stats x) (s_active x) (s_written x) (s_active x) false (s_clock x).

Definition faulted (x : st) : Prop :=
  s_stale x = true /\ s_active x <= s_last x /\ Inv (base_of x).

Lemma inv_clock s t : Inv s -> Inv (mkSt (s_dir s) (s_idx s) (s_stats s) (s_active s) (s_written s) (s_last s) (s_stale s) t).
Proof. intros H. exact H. Qed.

Lemma failed_append_faulted s clk : Inv s -> faulted (after_failed_append s clk).
Proof.
  intros HI. pose proof HI as (_ & _ & _ & Hst & Hal & _). unfold faulted, after_failed_append, base_of. cbn [s_stale s_active s_last s_dir s_idx s_stats s_written s_clock].
  split; [reflexivity|]. split; [lia|].
  unfold Inv in *. cbn [s_stale s_active s_last s_dir s_idx s_stats s_written s_clock]. rewrite Hal in *.
  destruct HI as (H1 & H2 & H3 & H4 & H5 & H6 & H7). exact (conj H1 (conj H2 (conj H3 (conj eq_refl (conj eq_refl (conj H6 H7)))))).
Qed.

Lemma failed_creates_faulted s clk n : Inv s -> faulted (after_failed_creates s clk n).
Proof.
  intros HI. pose proof HI as (_ & _ & _ & Hst & Hal & _). unfold faulted, after_failed_creates, base_of. cbn [s_stale s_active s_last s_dir s_idx s_stats s_written s_clock].
  split; [reflexivity|]. split; [lia|].
  unfold Inv in *. cbn [s_stale s_active s_last s_dir s_idx s_stats s_written s_clock]. rewrite Hal in *.
  destruct HI as (H1 & H2 & H3 & H4 & H5 & H6 & H7). exact (conj H1 (conj H2 (conj H3 (conj eq_refl (conj eq_refl (conj H6 H7)))))).
Qed.

Definition fabs (x : st) : bytes -> option bytes := abs (base_of x).

(* ---- reads, reopen and clock do not look at the flag ---- *)
Lemma get_faulted x k : faulted x -> get x k = ROk (fabs x k).
Proof. intros (_ & _ & HI). exact (get_abs (base_of x) k HI). Qed.

(* ---- a write first replaces the active file ---- *)
Lemma heal x : faulted x ->
  exists h, new_active x = ROk (h, [SCreate (FData (s_last x + 1))]) /\ Inv h /\ (forall k, abs h k = fabs x k) /\ s_clock h = s_clock x.
Proof.
  intros (Hst & Hle & HI). pose proof HI as (Hs & Hids & Hh & _ & _ & _ & HC). cbn [base_of s_dir s_last s_idx s_stats] in *.
  destruct (new_active_ok x Hs (ids_le_weaken _ _ _ Hids Hle) Hh HC) as (h & Hn & HIh & Hlog & _ & _ & Hclk & _).
  exists h. split; [exact Hn|]. split; [exact HIh|]. split; [|exact Hclk].
  intros k. unfold fabs, abs. rewrite Hlog. reflexivity.
Qed.

Lemma write_faulted c x k v h t1 : s_stale x = true -> new_active x = ROk (h, t1) -> s_stale h = false ->
  write c x k v = match write c h k v with
                  | ROk (s2, l, t2) => ROk (s2, l, t1 ++ t2)
                  | RFail e => RFail e | RPanicked e => RPanicked e
                  end.
Proof.
  intros Hst Hn Hh. unfold write. rewrite Hst, Hn, Hh.
  destruct (append_data (s_dir h) (s_active h) (mkEntry (s_clock h) k v)) as [[d2 pos]|]; [|reflexivity].
  cbn [app]. destruct (c_max c <? s_written h + entry_size (mkEntry (s_clock h) k v)).
  - match goal with |- context [new_active ?z] => destruct (new_active z) as [[s3 t3]| |] end; reflexivity.
  - reflexivity.
Qed.

Lemma step_set_faulted c x k v : faulted x ->
  exists h t1, new_active x = ROk (h, t1) /\ Inv h /\ (forall k', abs h k' = fabs x k') /\
    step c x (OSet k v) = let '(s2, r, t2) := step c h (OSet k v) in (s2, r, t1 ++ t2).
Proof.
  intros HF. destruct (heal x HF) as (h & Hn & HIh & Hab & _). exists h, [SCreate (FData (s_last x + 1))].
  split; [exact Hn|]. split; [exact HIh|]. split; [exact Hab|].
  pose proof HIh as (_ & _ & _ & Hsth & _). destruct HF as (Hst & _).
  destruct (put_ok c h k v HIh) as (s' & t & pos & Hp & _). cbn [step]. rewrite Hp.
  unfold put in *. rewrite (write_faulted c x k (Some v) h _ Hst Hn Hsth).
  destruct (write c h k (Some v)) as [[[s1 l] t2]| |]; try discriminate.
  destruct (iget (s_idx s1) k) as [prev|].
  - destruct (account_overwrite (s_stats s1) prev); [|discriminate]. inversion Hp; subst. reflexivity.
  - inversion Hp; subst. reflexivity.
Qed.

Lemma step_del_faulted c x k : faulted x ->
  exists h t1, new_active x = ROk (h, t1) /\ Inv h /\ (forall k', abs h k' = fabs x k') /\
    step c x (ODel k) = let '(s2, r, t2) := step c h (ODel k) in (s2, r, t1 ++ t2).
Proof.
  intros HF. destruct (heal x HF) as (h & Hn & HIh & Hab & _). exists h, [SCreate (FData (s_last x + 1))].
  split; [exact Hn|]. split; [exact HIh|]. split; [exact Hab|].
  pose proof HIh as (_ & _ & _ & Hsth & _). destruct HF as (Hst & _).
  destruct (delete_ok c h k HIh) as (s' & t & pos & Hp & _). cbn [step]. rewrite Hp.
  unfold delete in *. rewrite (write_faulted c x k None h _ Hst Hn Hsth).
  destruct (write c h k None) as [[[s1 l] t2]| |]; try discriminate.
  destruct (iget (s_idx s1) k) as [prev|].
  - destruct (account_overwrite (s_stats s1) prev); [|discriminate]. inversion Hp; subst. reflexivity.
  - inversion Hp; subst. reflexivity.
Qed.

(* ---- scripts from a faulted state ---- *)
(* a merge pass is covered when no create had failed before it *)
Definition fop_ready (c : cfg) (x : st) (o : op) : Prop :=
  match o with OMerge ord => s_last x = s_active x /\ merge_ready c (base_of x) ord | _ => True end.

Definition good (x : st) : Prop := Inv x \/ faulted x.
Definition gabs (x : st) : bytes -> option bytes := if s_stale x then fabs x else abs x.

Lemma gabs_inv x : Inv x -> gabs x = abs x.
Proof. intros (_ & _ & _ & Hst & _). unfold gabs. now rewrite Hst. Qed.
Lemma gabs_faulted x : faulted x -> gabs x = fabs x.
Proof. intros (Hst & _). unfold gabs. now rewrite Hst. Qed.

Definition gop_ready (c : cfg) (x : st) (o : op) : Prop := if s_stale x then fop_ready c x o else op_ready c x o.

Lemma merge_ignores_flag c x ord : s_last x = s_active x -> merge c x ord = merge c (base_of x) ord.
Proof.
  intros E. unfold merge, merge_with, select, base_of, ord_ok. cbn [s_dir s_idx s_stats s_active s_written s_last s_clock]. rewrite E. reflexivity.
Qed.

Theorem step_good c x o : good x -> gop_ready c x o ->
  let '(x', r, _) := step c x o in
  good x' /\ r = snd (spec_step (gabs x) o) /\ forall k, gabs x' k = fst (spec_step (gabs x) o) k.
Proof.
  intros [HI|HF] Hr.
  - pose proof HI as (_ & _ & _ & Hst & _). unfold gop_ready in Hr. rewrite Hst in Hr.
    pose proof (step_refines c x o HI Hr) as H. destruct (step c x o) as [[x' r] t]. destruct H as (HI' & Hrr & Hab).
    rewrite (gabs_inv x HI). split; [left; exact HI'|]. split; [exact Hrr|]. rewrite (gabs_inv x' HI'). exact Hab.
  - pose proof HF as (Hst & Hle & HIb). unfold gop_ready in Hr. rewrite Hst in Hr. rewrite (gabs_faulted x HF).
    destruct o as [k v|k|k|ord| |t].
    + destruct (step_set_faulted c x k v HF) as (h & t1 & _ & HIh & Hab & Hs). rewrite Hs.
      pose proof (step_refines c h (OSet k v) HIh I) as H. destruct (step c h (OSet k v)) as [[x' r] t]. destruct H as (HI' & Hrr & Hab').
      split; [left; exact HI'|]. rewrite (gabs_inv x' HI'). split.
      * rewrite Hrr. reflexivity.
      * intros k'. rewrite Hab'. cbn [spec_step fst]. destruct (beq k' k); [reflexivity|apply Hab].
    + cbn [step]. rewrite (get_faulted x k HF). cbn [spec_step fst snd]. split; [right; exact HF|]. split; [reflexivity|].
      intros k'. rewrite (gabs_faulted x HF). reflexivity.
    + destruct (step_del_faulted c x k HF) as (h & t1 & _ & HIh & Hab & Hs). rewrite Hs.
      pose proof (step_refines c h (ODel k) HIh I) as H. destruct (step c h (ODel k)) as [[x' r] t]. destruct H as (HI' & Hrr & Hab').
      split; [left; exact HI'|]. rewrite (gabs_inv x' HI'). split.
      * rewrite Hrr. cbn [spec_step snd]. rewrite Hab. reflexivity.
      * intros k'. rewrite Hab'. cbn [spec_step fst]. destruct (beq k' k); [reflexivity|apply Hab].
    + destruct Hr as [E Hmr]. cbn [step]. rewrite (merge_ignores_flag c x ord E).
      pose proof (step_refines c (base_of x) (OMerge ord) HIb Hmr) as H. cbn [step] in H.
      destruct (merge c (base_of x) ord) as [[[x' u] t]|e|e].
      * destruct H as (HI' & Hrr & Hab'). split; [left; exact HI'|]. rewrite (gabs_inv x' HI'). split; [exact Hrr|exact Hab'].
      * destruct H as (HI' & Hrr & _). cbn [spec_step snd] in Hrr. discriminate.
      * destruct H as (HI' & Hrr & _). cbn [spec_step snd] in Hrr. discriminate.
    + pose proof (step_refines c (base_of x) OReopen HIb I) as H. cbn [step] in *. unfold reopen in *. cbn [base_of s_dir s_clock] in H.
      destruct (open (s_dir x) (s_clock x)) as [[[x' u] t]|e|e].
      * destruct H as (HI' & Hrr & Hab'). split; [left; exact HI'|]. rewrite (gabs_inv x' HI'). split; [exact Hrr|exact Hab'].
      * destruct H as (_ & Hrr & _). cbn [spec_step snd] in Hrr. discriminate.
      * destruct H as (_ & Hrr & _). cbn [spec_step snd] in Hrr. discriminate.
    + cbn [step spec_step fst snd]. split; [|split; [reflexivity|]].
      * right. split; [exact Hst|]. split; [exact Hle|]. exact HIb.
      * intros k'. unfold gabs. cbn [s_stale]. rewrite Hst. reflexivity.
Qed.

Fixpoint grun_ready (c : cfg) (x : st) (ops : list op) : Prop :=
  match ops with
  | [] => True
  | o :: ops' => gop_ready c x o /\ grun_ready c (fst (fst (step c x o))) ops'
  end.

Theorem run_good c : forall ops x, good x -> grun_ready c x ops ->
  let '(x', rs, _) := run c x ops in
  good x' /\ rs = spec_run (gabs x) ops /\ forall k, gabs x' k = spec_final (gabs x) ops k.
Proof.
  induction ops as [|o ops IH]; intros x Hg Hr; cbn [run spec_run spec_final grun_ready] in *; [auto|].
  destruct Hr as [Hr1 Hr2]. pose proof (step_good c x o Hg Hr1) as H1. destruct (step c x o) as [[x1 r] t]. cbn [fst] in Hr2.
  destruct H1 as (Hg1 & Hr & Hab1). specialize (IH x1 Hg1 Hr2). destruct (run c x1 ops) as [[x2 rs] ts].
  destruct IH as (Hg2 & Hrs & Hab2). split; [exact Hg2|].
  destruct (spec_run_ext ops _ _ Hab1) as [E1 E2]. split.
  - rewrite Hr, Hrs, E1. reflexivity.
  - intros k. rewrite Hab2. apply E2.
Qed.

(* The statement for C20: a put or delete issued in invariant state s fails in its append (or [n] creates of
   the next active file fail on top of that); the process goes on with any script.  Every answer is the map's
   answer over the map of s: the failed operation has not taken effect, nothing else was disturbed. *)
Theorem continue_after_failed_write c s clk n ops : Inv s ->
  grun_ready c (after_failed_creates s clk n) ops ->
  let '(x', rs, _) := run c (after_failed_creates s clk n) ops in
  good x' /\ rs = spec_run (abs s) ops /\ forall k, gabs x' k = spec_final (abs s) ops k.
Proof.
  intros HI Hr. pose proof (failed_creates_faulted s clk n HI) as HF.
  pose proof (run_good c ops _ (or_intror HF) Hr) as H. destruct (run c (after_failed_creates s clk n) ops) as [[x' rs] ts].
  assert (E : forall k, gabs (after_failed_creates s clk n) k = abs s k).
  { intros k. rewrite (gabs_faulted _ HF). reflexivity. }
  destruct H as (Hg & Hrs & Hab). destruct (spec_run_ext ops _ _ E) as [E1 E2].
  split; [exact Hg|]. split; [rewrite Hrs; exact E1|]. intros k. rewrite Hab. apply E2.
Qed.

(* ====================================================================================================
   The record a failed append left in the write buffer (Engine.v: [step_r], [reopen_retained]).
   While the process runs, the buffered record is invisible; the next put, delete or merge discards it; a clean
   close writes it out, so after a restart that follows the failure without any write in between, the failed
   operation HAS taken effect.  Specification: the map with one pending operation. *)
Definition op_of_entry (e : entry) : op :=
  match e_val e with Some v => OSet (e_key e) v | None => ODel (e_key e) end.

Definition specr_step (m : mapst) (p : option op) (o : op) : mapst * option op * out :=
  match o, p with
  | OReopen, Some fo => (fst (spec_step m fo), None, VUnit)
  | OGet _, _ | OClock _, _ => (fst (spec_step m o), p, snd (spec_step m o))
  | _, _ => (fst (spec_step m o), None, snd (spec_step m o))
  end.

Fixpoint specr_run (m : mapst) (p : option op) (ops : list op) : list out * mapst * option op :=
  match ops with
  | [] => ([], m, p)
  | o :: ops' => let '(m1, p1, r) := specr_step m p o in
                 let '(rs, m2, p2) := specr_run m1 p1 ops' in (r :: rs, m2, p2)
  end.

Lemma specr_ext : forall ops m1 m2 p, (forall k, m1 k = m2 k) ->
  fst (fst (specr_run m1 p ops)) = fst (fst (specr_run m2 p ops)) /\
  (forall k, snd (fst (specr_run m1 p ops)) k = snd (fst (specr_run m2 p ops)) k) /\
  snd (specr_run m1 p ops) = snd (specr_run m2 p ops).
Proof.
  induction ops as [|o ops IH]; intros m1 m2 p E; cbn [specr_run fst snd]; [auto|].
  assert (Hstep : forall o', (forall k, fst (spec_step m1 o') k = fst (spec_step m2 o') k) /\ snd (spec_step m1 o') = snd (spec_step m2 o')).
  { intros o'. destruct o'; cbn [spec_step fst snd]; split; try reflexivity; try exact E.
    - intros k'. destruct (beq k' k); [reflexivity|apply E].
    - now rewrite E.
    - intros k'. destruct (beq k' k); [reflexivity|apply E].
    - now rewrite E. }
  assert (H : exists ma mb pp r, specr_step m1 p o = (ma, pp, r) /\ specr_step m2 p o = (mb, pp, r) /\ forall k, ma k = mb k).
  { destruct (Hstep o) as [Ha Hb]. unfold specr_step. destruct o as [k v|k|k|ord| |t]; destruct p as [fo|];
      try (rewrite Hb; do 4 eexists; split; [reflexivity|split; [reflexivity|exact Ha]]).
    destruct (Hstep fo) as [Hfa _]. do 4 eexists. split; [reflexivity|split; [reflexivity|exact Hfa]]. }
  destruct H as (ma & mb & pp & r & -> & -> & Hab). specialize (IH ma mb pp Hab).
  destruct (specr_run ma pp ops) as [[rs1 mf1] pf1]. destruct (specr_run mb pp ops) as [[rs2 mf2] pf2]. cbn [fst snd] in *.
  destruct IH as (-> & Hm & ->). auto.
Qed.

(* the state reached by the operation had it succeeded (in a configuration that does not replace the file): its
   directory is the one [reopen_retained] opens *)
Lemma put_dir c b k v p t : put c b k v = ROk (p, tt, t) -> exists s1 l, write c b k (Some v) = ROk (s1, l, t) /\ s_dir p = s_dir s1.
Proof.
  unfold put. destruct (write c b k (Some v)) as [[[s1 l] t1]| |]; try discriminate. intros H. exists s1, l.
  destruct (iget (s_idx s1) k) as [prev|]; [destruct (account_overwrite (s_stats s1) prev); [|discriminate]|]; inversion H; subst; auto.
Qed.
Lemma delete_dir c b k p r t : delete c b k = ROk (p, r, t) -> exists s1 l, write c b k None = ROk (s1, l, t) /\ s_dir p = s_dir s1.
Proof.
  unfold delete. destruct (write c b k None) as [[[s1 l] t1]| |]; try discriminate. intros H. exists s1, l.
  destruct (iget (s_idx s1) k) as [prev|]; [destruct (account_overwrite (s_stats s1) prev); [|discriminate]|]; inversion H; subst; auto.
Qed.
Lemma write_noroll_dir c b k v s1 l t : s_stale b = false ->
  (c_max c <? s_written b + entry_size (mkEntry (s_clock b) k v)) = false ->
  write c b k v = ROk (s1, l, t) -> exists pos, append_data (s_dir b) (s_active b) (mkEntry (s_clock b) k v) = Some (s_dir s1, pos).
Proof.
  intros Hst Hno. unfold write. rewrite Hst. destruct (append_data (s_dir b) (s_active b) (mkEntry (s_clock b) k v)) as [[d2 pos]|]; [|discriminate].
  rewrite Hno. intros H. inversion H; subst. exists pos. reflexivity.
Qed.

Definition roomy (b : st) (e : entry) : cfg := mkCfg (s_written b + entry_size e) false 0 1 0 0.

Lemma reopen_retained_ok x e : faulted x ->
  exists s' t, reopen_retained x e = ROk (s', tt, t) /\ Inv s' /\ forall k, abs s' k = fst (spec_step (fabs x) (op_of_entry e)) k.
Proof.
  intros (Hst & Hle & HIb). destruct e as [ts ek ev].
  set (b := mkSt (s_dir x) (s_idx x) (s_stats x) (s_active x) (s_written x) (s_active x) false ts).
  assert (HIbb : Inv b) by exact HIb.
  assert (Hab : forall k, abs b k = fabs x k) by reflexivity.
  set (c := roomy b (mkEntry ts ek ev)).
  pose proof HIbb as (_ & _ & _ & Hstb & _).
  assert (Hroom : (c_max c <? s_written b + entry_size (mkEntry (s_clock b) ek ev)) = false).
  { unfold c, roomy. cbn [c_max s_clock b]. apply N.ltb_ge. lia. }
  unfold reopen_retained. change (s_dir x) with (s_dir b). change (s_active x) with (s_active b).
  unfold op_of_entry. cbn [e_val e_key].
  destruct ev as [v|].
  - pose proof (step_refines c b (OSet ek v) HIbb I) as Hsr. cbn [step] in Hsr.
    destruct (put_ok c b ek v HIbb) as (p & t & pos & Hp & HIp & _). rewrite Hp in Hsr. destruct Hsr as (_ & _ & Habp).
    destruct (put_dir c b _ _ _ _ Hp) as (s1 & l & Hw & Hd).
    destruct (write_noroll_dir c b _ _ _ _ _ Hstb Hroom Hw) as (pos' & Hap).
    cbn [s_clock b] in Hap. rewrite Hap. rewrite <- Hd.
    set (p' := mkSt (s_dir p) (s_idx p) (s_stats p) (s_active p) (s_written p) (s_last p) (s_stale p) (s_clock x)).
    destruct (reopen_ok p' HIp) as (s' & t' & Hro & HI' & Hlog & _). unfold reopen in Hro. cbn [p' s_dir s_clock] in Hro. rewrite Hro.
    eexists s', _. split; [reflexivity|]. split; [exact HI'|].
    intros k. unfold abs at 1. rewrite Hlog. change (lastval (slog p') k None) with (abs p k). rewrite Habp.
    cbn [spec_step fst]. destruct (beq k ek); [reflexivity|apply Hab].
  - pose proof (step_refines c b (ODel ek) HIbb I) as Hsr. cbn [step] in Hsr.
    destruct (delete_ok c b ek HIbb) as (p & t & pos & Hp & HIp & _). rewrite Hp in Hsr. destruct Hsr as (_ & _ & Habp).
    destruct (delete_dir c b _ _ _ _ Hp) as (s1 & l & Hw & Hd).
    destruct (write_noroll_dir c b _ _ _ _ _ Hstb Hroom Hw) as (pos' & Hap).
    cbn [s_clock b] in Hap. rewrite Hap. rewrite <- Hd.
    set (p' := mkSt (s_dir p) (s_idx p) (s_stats p) (s_active p) (s_written p) (s_last p) (s_stale p) (s_clock x)).
    destruct (reopen_ok p' HIp) as (s' & t' & Hro & HI' & Hlog & _). unfold reopen in Hro. cbn [p' s_dir s_clock] in Hro. rewrite Hro.
    eexists s', _. split; [reflexivity|]. split; [exact HI'|].
    intros k. unfold abs at 1. rewrite Hlog. change (lastval (slog p') k None) with (abs p k). rewrite Habp.
    cbn [spec_step fst]. destruct (beq k ek); [reflexivity|apply Hab].
Qed.

(* ---- scripts with the buffered record ---- *)
Definition rgood (x : st) (r : option entry) : Prop := good x /\ (r <> None -> faulted x).
Definition pending (r : option entry) : option op := option_map op_of_entry r.

Lemma step_get_state c x k : fst (fst (step c x (OGet k))) = x.
Proof. cbn [step]. destruct (get x k); reflexivity. Qed.

Theorem step_r_good c x r o : rgood x r -> gop_ready c x o ->
  let '(x', r', out, _) := step_r c x r o in
  let '(m', p', sout) := specr_step (gabs x) (pending r) o in
  rgood x' r' /\ out = sout /\ pending r' = p' /\ forall k, gabs x' k = m' k.
Proof.
  intros [Hg Hf] Hr.
  assert (Hplain : forall r0 : option unit, let '(x', o', _) := step c x o in
             good x' /\ o' = snd (spec_step (gabs x) o) /\ (forall k, gabs x' k = fst (spec_step (gabs x) o) k)).
  { intros _. exact (step_good c x o Hg Hr). }
  destruct o as [k v|k|k|ord| |t]; unfold step_r, specr_step.
  - destruct r; specialize (Hplain None); destruct (step c x (OSet k v)) as [[x' o'] tr]; destruct Hplain as (Hg' & Ho & Hm);
      (split; [split; [exact Hg'|intros H; congruence]|]); auto.
  - pose proof (step_get_state c x k) as Hsame. specialize (Hplain None). destruct (step c x (OGet k)) as [[x' o'] tr]. cbn [fst] in Hsame. subst x'.
    destruct Hplain as (Hg' & Ho & Hm). destruct r; (split; [split; [exact Hg|exact Hf]|]); auto.
  - destruct r; specialize (Hplain None); destruct (step c x (ODel k)) as [[x' o'] tr]; destruct Hplain as (Hg' & Ho & Hm);
      (split; [split; [exact Hg'|intros H; congruence]|]); auto.
  - destruct r; specialize (Hplain None); destruct (step c x (OMerge ord)) as [[x' o'] tr]; destruct Hplain as (Hg' & Ho & Hm);
      (split; [split; [exact Hg'|intros H; congruence]|]); auto.
  - destruct r as [e|].
    + assert (HF : faulted x) by (apply Hf; discriminate).
      destruct (reopen_retained_ok x e HF) as (s' & t & Hro & HI' & Hab). rewrite Hro. cbn [pending option_map].
      split; [split; [left; exact HI'|intros H; congruence]|]. split; [reflexivity|]. split; [reflexivity|].
      intros k. rewrite (gabs_inv s' HI'), (gabs_faulted x HF). apply Hab.
    + specialize (Hplain None). destruct (step c x OReopen) as [[x' o'] tr]. destruct Hplain as (Hg' & Ho & Hm).
      split; [split; [exact Hg'|intros H; congruence]|]. auto.
  - specialize (Hplain None). cbn [step] in *. destruct Hplain as (Hg' & Ho & Hm).
    assert (Hf' : r <> None -> faulted (mkSt (s_dir x) (s_idx x) (s_stats x) (s_active x) (s_written x) (s_last x) (s_stale x) t)).
    { intros Hn. destruct (Hf Hn) as (H1 & H2 & H3). split; [exact H1|]. split; [exact H2|exact H3]. }
    destruct r; (split; [split; [exact Hg'|exact Hf']|]); auto.
Qed.

Fixpoint grun_ready_r (c : cfg) (x : st) (r : option entry) (ops : list op) : Prop :=
  match ops with
  | [] => True
  | o :: ops' => gop_ready c x o /\ let '(x1, r1, _, _) := step_r c x r o in grun_ready_r c x1 r1 ops'
  end.

Theorem run_r_good c : forall ops x r, rgood x r -> grun_ready_r c x r ops ->
  let '(x', r', outs, _) := run_r c x r ops in
  let '(souts, m', p') := specr_run (gabs x) (pending r) ops in
  rgood x' r' /\ outs = souts /\ pending r' = p' /\ forall k, gabs x' k = m' k.
Proof.
  induction ops as [|o ops IH]; intros x r Hg Hr; cbn [run_r specr_run grun_ready_r] in *; [auto|].
  destruct Hr as [Hr1 Hr2]. pose proof (step_r_good c x r o Hg Hr1) as H1.
  destruct (step_r c x r o) as [[[x1 r1] o1] t1]. destruct (specr_step (gabs x) (pending r) o) as [[m1 p1] so1].
  destruct H1 as (Hg1 & Ho & Hp & Hm). specialize (IH x1 r1 Hg1 Hr2).
  destruct (run_r c x1 r1 ops) as [[[x2 r2] os] ts].
  destruct (specr_ext ops (gabs x1) m1 (pending r1) Hm) as (E1 & E2 & E3). rewrite Hp in *.
  destruct (specr_run (gabs x1) p1 ops) as [[so2 m2] p2]. destruct (specr_run m1 p1 ops) as [[so3 m3] p3]. cbn [fst snd] in *.
  destruct IH as (Hg2 & Hos & Hp2 & Hm2). subst. split; [exact Hg2|]. split; [reflexivity|]. split; [reflexivity|].
  intros k. rewrite Hm2. apply E2.
Qed.

(* The statement for C20 (append faults, in the running process and across a later clean restart): a put or delete
   issued in invariant state s fails in its append; [r] is its record if it is still whole in the write buffer.
   Whatever script follows, every answer is the answer of the map of s with that one operation pending: invisible
   while the process runs, dropped by the next put, delete or merge, applied by a restart that comes first. *)
Theorem continue_after_failed_append c s clk r ops : Inv s ->
  grun_ready_r c (after_failed_append s clk) r ops ->
  let '(x', r', outs, _) := run_r c (after_failed_append s clk) r ops in
  let '(souts, m', p') := specr_run (abs s) (pending r) ops in
  rgood x' r' /\ outs = souts /\ pending r' = p' /\ forall k, gabs x' k = m' k.
Proof.
  intros HI Hr. pose proof (failed_append_faulted s clk HI) as HF.
  assert (Hg : rgood (after_failed_append s clk) r) by (split; [right; exact HF|intros _; exact HF]).
  pose proof (run_r_good c ops _ r Hg Hr) as H. destruct (run_r c (after_failed_append s clk) r ops) as [[[x' r'] outs] ts].
  assert (E : forall k, gabs (after_failed_append s clk) k = abs s k).
  { intros k. rewrite (gabs_faulted _ HF). reflexivity. }
  destruct (specr_ext ops _ _ (pending r) E) as (E1 & E2 & E3).
  destruct (specr_run (gabs (after_failed_append s clk)) (pending r) ops) as [[so1 m1] p1]. destruct (specr_run (abs s) (pending r) ops) as [[so2 m2] p2].
  cbn [fst snd] in *. destruct H as (Hg' & Ho & Hp & Hm). subst. split; [exact Hg'|]. split; [reflexivity|]. split; [reflexivity|].
  intros k. rewrite Hm. apply E2.
Qed.
