(* Store/Trace.v — a monitor for the file discipline of C14 over traces of mutating system calls,
   and what acceptance by the monitor guarantees.  The monitor is run (inside Coq) on the traces the
   REAL store produces under the LD_PRELOAD recorder and on the model's own traces. *)
From BC Require Import Store.Engine.
Open Scope N_scope.

Definition fid (f : fname) : N := match f with FData i | FHint i => i end.
Definition fname_eqb (a b : fname) : bool :=
  match a, b with
  | FData i, FData j | FHint i, FHint j => i =? j
  | _, _ => false
  end.

Record mon := mkMon {
  mn_files : list (fname * N);   (* existing files with their sizes *)
  mn_max : option N;             (* largest id ever present or created *)
  mn_cur : option N              (* data id created last by this process: the only append target *)
}.

Fixpoint fsize_of (l : list (fname * N)) (f : fname) : option N :=
  match l with [] => None | (g, z) :: l' => if fname_eqb g f then Some z else fsize_of l' f end.
Fixpoint fset (l : list (fname * N)) (f : fname) (z : N) : list (fname * N) :=
  match l with [] => [(f, z)] | (g, y) :: l' => if fname_eqb g f then (g, z) :: l' else (g, y) :: fset l' f z end.
Fixpoint fdel (l : list (fname * N)) (f : fname) : list (fname * N) :=
  match l with [] => [] | (g, y) :: l' => if fname_eqb g f then l' else (g, y) :: fdel l' f end.

Definition gt_max (o : option N) (i : N) : bool := match o with Some m => m <? i | None => true end.
Definition is_cur (o : option N) (i : N) : bool := match o with Some c => c =? i | None => false end.

Definition disc_step (maxsize : N) (m : mon) (c : syscall) : option mon :=
  match c with
  | SCreate (FData i) =>
    match fsize_of (mn_files m) (FData i) with
    | Some _ => None
    | None => if gt_max (mn_max m) i then Some (mkMon (fset (mn_files m) (FData i) 0) (Some i) (Some i)) else None
    end
  | SCreate (FHint i) =>
    match fsize_of (mn_files m) (FHint i) with
    | Some _ => None
    | None => if is_cur (mn_cur m) i then Some (mkMon (fset (mn_files m) (FHint i) 0) (mn_max m) (mn_cur m)) else None
    end
  | SWrite f b =>
    match fsize_of (mn_files m) f with
    | None => None
    | Some z =>
      if is_cur (mn_cur m) (fid f) && (match f with FData _ => z <=? maxsize | FHint _ => true end)
      then Some (mkMon (fset (mn_files m) f (z + blen b)) (mn_max m) (mn_cur m)) else None
    end
  | SFsync f => match fsize_of (mn_files m) f with Some _ => Some m | None => None end
  | SUnlink f => match fsize_of (mn_files m) f with Some _ => Some (mkMon (fdel (mn_files m) f) (mn_max m) (mn_cur m)) | None => None end
  end.

Fixpoint disc_run (maxsize : N) (m : mon) (tr : list syscall) : option mon :=
  match tr with
  | [] => Some m
  | c :: tr' => match disc_step maxsize m c with Some m' => disc_run maxsize m' tr' | None => None end
  end.
Definition disc_ok (maxsize : N) (m : mon) (tr : list syscall) : bool :=
  match disc_run maxsize m tr with Some _ => true | None => false end.

(* a process starts with the files it finds, their ids, and no append target *)
Definition mon_init (files : list (fname * N)) : mon :=
  mkMon files (fold_left (fun o '(f, _) => match o with Some m => Some (N.max m (fid f)) | None => Some (fid f) end) files None) None.

(* ---------- what acceptance means ---------- *)
Lemma disc_run_app maxsize tr1 : forall m tr2,
  disc_run maxsize m (tr1 ++ tr2) = match disc_run maxsize m tr1 with Some m' => disc_run maxsize m' tr2 | None => None end.
Proof. induction tr1 as [|c tr1 IH]; intros m tr2; cbn [app disc_run]; [reflexivity|]. destruct (disc_step maxsize m c); [apply IH|reflexivity]. Qed.

Definition max_le (o : option N) (o' : option N) : Prop :=
  match o, o' with Some a, Some b => a <= b | None, _ => True | Some _, None => False end.

Lemma disc_step_max maxsize m c m' : disc_step maxsize m c = Some m' -> max_le (mn_max m) (mn_max m').
Proof.
  unfold disc_step. destruct c as [[i|i]|f b|f|f].
  - destruct (fsize_of _ _); [discriminate|]. destruct (gt_max (mn_max m) i) eqn:E; [|discriminate]. intros H; inversion H; subst. cbn.
    unfold gt_max in E. destruct (mn_max m); [apply N.ltb_lt in E; cbn; lia|exact I].
  - destruct (fsize_of _ _); [discriminate|]. destruct (is_cur _ _); [|discriminate]. intros H; inversion H; subst. cbn. destruct (mn_max m); cbn; [lia|exact I].
  - destruct (fsize_of _ _); [|discriminate]. destruct (_ && _); [|discriminate]. intros H; inversion H; subst. cbn. destruct (mn_max m); cbn; [lia|exact I].
  - destruct (fsize_of _ _); [|discriminate]. intros H; inversion H; subst. destruct (mn_max m'); cbn; [lia|exact I].
  - destruct (fsize_of _ _); [|discriminate]. intros H; inversion H; subst. cbn. destruct (mn_max m); cbn; [lia|exact I].
Qed.

Lemma max_le_trans a b c : max_le a b -> max_le b c -> max_le a c.
Proof. destruct a, b, c; cbn; try tauto; lia. Qed.

Lemma disc_run_max maxsize tr : forall m m', disc_run maxsize m tr = Some m' -> max_le (mn_max m) (mn_max m').
Proof.
  induction tr as [|c tr IH]; intros m m' H; cbn [disc_run] in H.
  - inversion H; subst. destruct (mn_max m'); cbn; [lia|exact I].
  - destruct (disc_step maxsize m c) as [m1|] eqn:E; [|discriminate].
    eapply max_le_trans; [eapply disc_step_max; exact E|eapply IH; exact H].
Qed.

(* 1. ids only grow: a data file is created with an id above every id that existed when the process
      started or was created before, and under a name that does not exist. *)
Theorem monitor_ids_grow maxsize m0 pre i post m' :
  disc_run maxsize m0 (pre ++ SCreate (FData i) :: post) = Some m' ->
  exists m1, disc_run maxsize m0 pre = Some m1 /\ gt_max (mn_max m1) i = true /\ max_le (mn_max m0) (mn_max m1) /\
             fsize_of (mn_files m1) (FData i) = None.
Proof.
  rewrite disc_run_app. destruct (disc_run maxsize m0 pre) as [m1|] eqn:E; [|discriminate].
  cbn [disc_run disc_step]. destruct (fsize_of (mn_files m1) (FData i)) eqn:Ef; [discriminate|].
  destruct (gt_max (mn_max m1) i) eqn:Eg; [|discriminate]. intros _. exists m1. repeat split; auto.
  eapply disc_run_max; exact E.
Qed.

(* 2. append-only by the creating process: every write goes to the data file created last by this
      process, or to its hint file — never to a file found at start-up, never to a file after a
      newer data file was created. *)
Theorem monitor_write_target maxsize m0 pre f b post m' :
  disc_run maxsize m0 (pre ++ SWrite f b :: post) = Some m' ->
  exists m1, disc_run maxsize m0 pre = Some m1 /\ mn_cur m1 = Some (fid f) /\
             exists z, fsize_of (mn_files m1) f = Some z /\ (match f with FData _ => z <= maxsize | FHint _ => True end).
Proof.
  rewrite disc_run_app. destruct (disc_run maxsize m0 pre) as [m1|] eqn:E; [|discriminate].
  cbn [disc_run disc_step]. destruct (fsize_of (mn_files m1) f) as [z|] eqn:Ef; [|discriminate].
  destruct (is_cur (mn_cur m1) (fid f)) eqn:Ec; [|discriminate]. cbn [andb].
  destruct (match f with FData _ => z <=? maxsize | FHint _ => true end) eqn:Ez; [|discriminate]. intros _.
  exists m1. split; [reflexivity|]. split.
  - unfold is_cur in Ec. destruct (mn_cur m1); [apply N.eqb_eq in Ec; subst; reflexivity|discriminate].
  - exists z. split; [exact Ef|]. destruct f; [apply N.leb_le; exact Ez|exact I].
Qed.

(* the append target only changes at the creation of a data file *)
Lemma disc_step_cur maxsize m c m' : disc_step maxsize m c = Some m' ->
  match c with SCreate (FData i) => mn_cur m' = Some i | _ => mn_cur m' = mn_cur m end.
Proof.
  unfold disc_step. destruct c as [[i|i]|f b|f|f].
  - destruct (fsize_of _ _); [discriminate|]. destruct (gt_max _ _); [|discriminate]. intros H; inversion H; reflexivity.
  - destruct (fsize_of _ _); [discriminate|]. destruct (is_cur _ _); [|discriminate]. intros H; inversion H; reflexivity.
  - destruct (fsize_of _ _); [|discriminate]. destruct (_ && _); [|discriminate]. intros H; inversion H; reflexivity.
  - destruct (fsize_of _ _); [|discriminate]. intros H; inversion H; reflexivity.
  - destruct (fsize_of _ _); [|discriminate]. intros H; inversion H; reflexivity.
Qed.

(* 3. a process that has created nothing yet writes nothing *)
Theorem monitor_no_write_before_create maxsize files f b post m' :
  disc_run maxsize (mon_init files) (SWrite f b :: post) = Some m' -> False.
Proof.
  cbn [disc_run disc_step mon_init mn_cur mn_files]. destruct (fsize_of files f); [|discriminate]. cbn [is_cur andb]. discriminate.
Qed.
