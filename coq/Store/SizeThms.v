(* Store/SizeThms.v — what a merge does to the size of the store (C13). *)
From BC Require Import Store.Engine Store.Log Store.Step Store.Cons Store.Inv Store.Refine Store.MergeLemmas Store.Merge Store.Sizes Store.Theorems.
Open Scope N_scope.

(* ---------- consequences for C13 ---------- *)
Lemma filter_blive_le S L i : lsize (filter (keep S) L) + bliveS S L i <= lsize L.
Proof.
  induction L as [|[[f p] e] L IH]; cbn [filter keep bliveS lsize fid_of esize]; [lia|].
  destruct (S f); cbn [negb andb lsize esize]; [destruct (is_live i (f, p, e)); lia|lia].
Qed.

Definition all_selected (sel0 : list N) (L : list lentry) : Prop := Forall (fun en => mem (fid_of en) sel0 = true) L.
Definition live_bytes (L : list lentry) (i : index) : N := bliveS (fun _ => true) L i.

Lemma all_live_bytes L i : (forall g, ndead L i g = 0) -> live_bytes L i = lsize L.
Proof.
  unfold live_bytes. induction L as [|[[f p] e] L IH]; intros H; cbn [bliveS lsize fid_of esize]; [reflexivity|].
  assert (Hl : is_live i (f, p, e) = true).
  { specialize (H f). cbn [ndead in_file] in H. rewrite N.eqb_refl in H. cbn [andb] in H. destruct (is_live i (f, p, e)); [reflexivity|cbn [negb] in H; lia]. }
  rewrite Hl. cbn [andb]. rewrite IH; [reflexivity|]. intros g. specialize (H g). cbn [ndead] in H. lia.
Qed.

Theorem merge_no_growth c s ord : Inv s -> merge_ready c s ord ->
  exists s' t, merge c s ord = ROk (s', tt, t) /\ dir_size (s_dir s') <= dir_size (s_dir s).
Proof.
  intros HI Hr. destruct (merge_full c s ord HI Hr) as (s' & t & sel0 & Hm & _ & _ & _ & _ & Hsz & _).
  exists s', t. split; [exact Hm|]. rewrite Hsz. apply filter_blive_le.
Qed.

Theorem merge_all_exact c s ord : Inv s -> merge_ready c s ord ->
  (forall sel0, select c s = ROk sel0 -> all_selected sel0 (slog s)) ->
  exists s' t, merge c s ord = ROk (s', tt, t) /\ Inv s' /\
    dir_size (s_dir s') = live_bytes (slog s) (s_idx s) /\
    (forall g, ndead (slog s') (s_idx s') g = 0 /\ bdead (slog s') (s_idx s') g = 0) /\
    live_bytes (slog s') (s_idx s') = dir_size (s_dir s').
Proof.
  intros HI Hr Hall. destruct (merge_full c s ord HI Hr) as (s' & t & sel0 & Hm & Hsel & HI' & _ & _ & Hsz & Hgone & Hfresh).
  specialize (Hall sel0 Hsel). exists s', t. split; [exact Hm|]. split; [exact HI'|].
  assert (Hsz' : dir_size (s_dir s') = live_bytes (slog s) (s_idx s)).
  { rewrite Hsz. rewrite (filter_keep_none (fun g => mem g sel0) (slog s) Hall). cbn [lsize].
    unfold live_bytes. rewrite (bliveS_all _ _ _ Hall). lia. }
  assert (Hdead : forall g, ndead (slog s') (s_idx s') g = 0).
  { intros g. destruct (counters_exact s' HI' g) as (_ & Dg & _ & Hdom). rewrite <- Dg.
    destruct (sget (s_stats s') g) as [cg|] eqn:Erow.
    2:{ unfold sget0. rewrite Erow. reflexivity. }
    destruct (mem g sel0) eqn:Em.
    { rewrite (Hgone g Em) in Erow. discriminate. }
    apply Hfresh; [congruence|exact Em|].
    (* before the merge every file with a row was selected *)
    destruct (sget (s_stats s) g) eqn:Eold; [|reflexivity]. exfalso.
    destruct (counters_exact s HI g) as (_ & _ & _ & Hdom0).
    assert (Hhf : has_file (slog s) g = true).
    { destruct (has_file (slog s) g) eqn:E; [reflexivity|]. assert (Hx : sget (s_stats s) g = None) by (apply Hdom0; reflexivity). congruence. }
    unfold has_file in Hhf. apply existsb_exists in Hhf as ([[f p] e] & Hin & Hf). cbn [in_file] in Hf. apply N.eqb_eq in Hf. subst f.
    unfold all_selected in Hall. rewrite Forall_forall in Hall. specialize (Hall _ Hin). cbn [fid_of] in Hall. congruence. }
  split; [exact Hsz'|]. split.
  - intros g. split; [apply Hdead|].
    (* no dead record, no dead byte *)
    specialize (Hdead g). revert Hdead. generalize (slog s') as L. induction L as [|en L IH]; cbn [ndead bdead]; [reflexivity|].
    destruct (in_file g en && negb (is_live (s_idx s') en)); [lia|]. intros H. apply IH. lia.
  - rewrite (all_live_bytes _ _ Hdead). reflexivity.
Qed.
