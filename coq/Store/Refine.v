(* Store/Refine.v — put / delete / reopen preserve the invariant and move the log as the map
   specification says; the engine refines the map (for scripts without merge; Store/Merge.v adds it). *)
From BC Require Import Store.Engine Store.Log Store.Step Store.Cons Store.Inv.
Open Scope N_scope.

(* ---------- the map specification ---------- *)
Definition mapst := bytes -> option bytes.
Definition spec_step (m : mapst) (o : op) : mapst * out :=
  match o with
  | OSet k v => ((fun k' => if beq k' k then Some v else m k'), VUnit)
  | OGet k => (m, VVal (m k))
  | ODel k => ((fun k' => if beq k' k then None else m k'), VBool (match m k with Some _ => true | None => false end))
  | OMerge _ => (m, VUnit)
  | OReopen => (m, VUnit)
  | OClock _ => (m, VUnit)
  end.

Lemma lastloc_none_iff L k : lastloc L k None = None <-> lastval L k None = None.
Proof.
  pose proof (lastloc_lastval k L None None ltac:(reflexivity)) as H.
  destruct (lastloc L k None) as [l|]; split; intros E; try reflexivity; try discriminate; try exact H.
  destruct H as [[E1 _]|(f & p & e & _ & _ & Hv & Hn & _)]; [discriminate|]. congruence.
Qed.

(* ---------- put ---------- *)
Theorem put_ok c s k v : Inv s ->
  exists s' t pos, put c s k v = ROk (s', tt, t) /\ Inv s' /\
    slog s' = slog s ++ [(s_active s, pos, mkEntry (s_clock s) k (Some v))] /\ s_clock s' = (s_clock s + 1)%Z.
Proof.
  intros HI. destruct (write_ok c s k (Some v) HI) as (s1 & l & t & Hw & Hl & Hlog & Hwf & Hi1 & Hx1 & Hs1 & Hle1 & Hh1 & Hst1 & Ha1 & Hfa1 & Hc1).
  cbv zeta in *. set (en := (s_active s, l_pos l, mkEntry (s_clock s) k (Some v))) in *.
  destruct HI as (_ & _ & _ & _ & _ & _ & HC).
  destruct (step_full (slog s) (s_idx s) (s_stats s) (s_active s) (l_pos l) (mkEntry (s_clock s) k (Some v)) Hwf HC) as (x' & Hss & HC').
  unfold put. rewrite Hw. rewrite Hi1.
  unfold stats_step in Hss. cbn [e_key] in Hss. fold en in Hss. rewrite <- Hx1 in Hss.
  cbn [idx_step e_val e_key] in HC'. fold en in HC'. rewrite <- Hl in HC'.
  destruct (iget (s_idx s) k) as [prev|] eqn:Ep.
  - rewrite Hss. exists (upd_stats (upd_idx s1 (aset (s_idx s) k l)) x'), t, (l_pos l).
    split; [reflexivity|]. split; [|split; [exact Hlog|exact Hc1]].
    unfold Inv, upd_stats, upd_idx, slog in *. cbn [s_dir s_idx s_stats s_active s_last s_stale s_clock].
    rewrite Hlog. repeat (split; [assumption|]). exact HC'.
  - inversion Hss; subst x'. exists (upd_idx s1 (aset (s_idx s) k l)), t, (l_pos l).
    split; [reflexivity|]. split; [|split; [exact Hlog|exact Hc1]].
    unfold Inv, upd_idx, slog in *. cbn [s_dir s_idx s_stats s_active s_last s_stale s_clock].
    rewrite Hlog. repeat (split; [assumption|]). exact HC'.
Qed.

(* ---------- delete ---------- *)
Theorem delete_ok c s k : Inv s ->
  exists s' t pos, delete c s k = ROk (s', match abs s k with Some _ => true | None => false end, t) /\ Inv s' /\
    slog s' = slog s ++ [(s_active s, pos, mkEntry (s_clock s) k None)] /\ s_clock s' = (s_clock s + 1)%Z.
Proof.
  intros HI. destruct (write_ok c s k None HI) as (s1 & l & t & Hw & Hl & Hlog & Hwf & Hi1 & Hx1 & Hs1 & Hle1 & Hh1 & Hst1 & Ha1 & Hfa1 & Hc1).
  cbv zeta in *. set (en := (s_active s, l_pos l, mkEntry (s_clock s) k None)) in *.
  destruct HI as (_ & _ & _ & _ & _ & _ & HC).
  destruct (step_full (slog s) (s_idx s) (s_stats s) (s_active s) (l_pos l) (mkEntry (s_clock s) k None) Hwf HC) as (x' & Hss & HC').
  unfold delete. rewrite Hw. rewrite Hi1.
  unfold stats_step in Hss. cbn [e_key] in Hss. fold en in Hss. rewrite <- Hx1 in Hss.
  cbn [idx_step e_val e_key] in HC'.
  assert (Habs : match abs s k with Some _ => true | None => false end = match iget (s_idx s) k with Some _ => true | None => false end).
  { destruct HC as (C1 & _). rewrite C1. unfold abs, slog.
    destruct (lastloc (log_of_dir (s_dir s)) k None) as [l0|] eqn:El.
    - destruct (lastval (log_of_dir (s_dir s)) k None) eqn:Ev; [reflexivity|]. apply lastloc_none_iff in Ev. congruence.
    - apply lastloc_none_iff in El. rewrite El. reflexivity. }
  rewrite Habs.
  destruct (iget (s_idx s) k) as [prev|] eqn:Ep.
  - rewrite Hss. exists (upd_stats (upd_idx s1 (adel (s_idx s) k)) x'), t, (l_pos l).
    split; [reflexivity|]. split; [|split; [exact Hlog|exact Hc1]].
    unfold Inv, upd_stats, upd_idx, slog in *. cbn [s_dir s_idx s_stats s_active s_last s_stale s_clock].
    rewrite Hlog. repeat (split; [assumption|]). exact HC'.
  - inversion Hss; subst x'. exists s1, t, (l_pos l).
    split; [reflexivity|]. split; [|split; [exact Hlog|exact Hc1]].
    unfold Inv, slog in *. rewrite Hlog. repeat (split; [assumption|]).
    eapply cons_ex_ext; [| |exact HC']; [|reflexivity].
    intros k'. rewrite Hi1, iget_adel. destruct (beq_spec k' k) as [->|]; [symmetry; exact Ep|reflexivity].
Qed.

(* ---------- reopen ---------- *)
Lemma nmax_ub : forall l m, nmax l = Some m -> Forall (fun j => j <= m) l.
Proof.
  induction l as [|a l IH]; intros m H; [constructor|]. cbn [nmax] in H.
  destruct (nmax l) as [m'|] eqn:E.
  - inversion H; subst. constructor; [lia|]. specialize (IH m' eq_refl). eapply Forall_impl; [|exact IH]. cbn. intros; lia.
  - inversion H; subst. destruct l; [constructor; [lia|constructor]|]. cbn in E. destruct (nmax l); discriminate.
Qed.

Lemma fresh_active_inv d i x m clk : sorted d -> ids_le d m ->
  (forall id f, In (id, f) d -> hints_ok f) -> cons (log_of_dir d) i x ->
  Inv (mkSt (d ++ [(m + 1, empty_file)]) i x (m + 1) 0 (m + 1) false clk).
Proof.
  intros Hs Hle Hh HC.
  assert (Hs' : sorted (d ++ [(m + 1, empty_file)])).
  { apply sorted_app_one; [exact Hs| |lia]. replace (m + 1 - 1) with m by lia. exact Hle. }
  unfold Inv. cbn [s_dir s_idx s_stats s_active s_last s_stale s_clock]. rewrite log_of_dir_app_empty.
  split; [exact Hs'|]. split.
  { unfold ids_le. apply Forall_app. split; [apply (ids_le_weaken _ m); [exact Hle|lia]|]. constructor; [lia|constructor]. }
  split.
  { intros id f Hin. apply in_app_or in Hin as [Hin|[Hin|[]]]; [eauto|]. inversion Hin; subst. exact I. }
  split; [reflexivity|]. split; [reflexivity|]. split; [|exact HC].
  exists empty_file. split; [|reflexivity]. apply In_dir_get; [exact Hs'|apply in_or_app; right; left; reflexivity].
Qed.

Lemma cons_nil : cons [] [] [].
Proof. repeat split; intros; reflexivity. Qed.

(* opening any directory whose files are sorted and whose hints list their data files *)
Theorem open_ok d clk : sorted d -> d <> [] -> (forall id f, In (id, f) d -> hints_ok f) ->
  exists s' t, open d clk = ROk (s', tt, t) /\ Inv s' /\ slog s' = log_of_dir d /\ s_clock s' = clk.
Proof.
  intros Hs Hne Hh.
  destruct (rebuild_cons d [] [] [] (wfL_log_of_dir d Hs) Hh cons_nil) as (i' & x' & Hr & HC). cbn [app] in HC.
  unfold open.
  assert (Hr' : rebuild_files d ([], []) = Some (i', x')) by exact Hr.
  rewrite Hr'. unfold next_active.
  destruct (nmax (map fst d)) as [m|] eqn:Em.
  2:{ destruct d as [|[j g] d']; [congruence|]. cbn in Em. destruct (nmax (map fst d')); discriminate. }
  assert (Hle : ids_le d m).
  { apply nmax_ub in Em. unfold ids_le. rewrite Forall_forall in *. intros [j g] Hin. apply (Em j). apply in_map_iff. exists (j, g). auto. }
  rewrite dir_set_new by (apply (ids_le_get_none _ m); [exact Hle|lia]).
  eexists _, _. split; [reflexivity|]. split; [apply fresh_active_inv; assumption|].
  split; [|reflexivity]. unfold slog. cbn [s_dir]. apply log_of_dir_app_empty.
Qed.

Theorem reopen_ok s : Inv s -> exists s' t, reopen s = ROk (s', tt, t) /\ Inv s' /\ slog s' = slog s /\ s_clock s' = s_clock s.
Proof.
  intros (Hs & Hle & Hh & _ & _ & (fa & Hfa & _) & _). unfold reopen. apply open_ok; auto.
  intros E. rewrite E in Hfa. discriminate.
Qed.

(* ---------- the initial state ---------- *)
Lemma init_inv : Inv init /\ slog init = [].
Proof.
  unfold init, open. cbn [rebuild_files next_active map nmax dir_set].
  split; [|reflexivity].
  change (Inv (mkSt ([] ++ [(0, empty_file)]) [] [] 0 0 0 false 1%Z)).
  unfold Inv. cbn [s_dir s_idx s_stats s_active s_last s_stale s_clock app log_of_dir log_file d_data empty_file].
  split; [split; [constructor|exact I]|].
  split; [constructor; [lia|constructor]|].
  split; [intros id f [H|[]]; inversion H; subst; exact I|].
  split; [reflexivity|]. split; [reflexivity|].
  split; [exists empty_file; split; reflexivity|exact cons_nil].
Qed.

(* ---------- one step of a script without merge refines the map ---------- *)
Definition is_merge (o : op) : bool := match o with OMerge _ => true | _ => false end.

Theorem step_refines_nomerge c s o : Inv s -> is_merge o = false ->
  let '(s', r, _) := step c s o in
  Inv s' /\ r = snd (spec_step (abs s) o) /\ forall k, abs s' k = fst (spec_step (abs s) o) k.
Proof.
  intros HI Hm. destruct o as [k v|k|k|ord| |t0]; try discriminate; cbn [step spec_step fst snd].
  - destruct (put_ok c s k v HI) as (s' & t & pos & Hp & HI' & Hlog & _). rewrite Hp.
    split; [exact HI'|]. split; [reflexivity|]. intros k'. unfold abs. rewrite Hlog, lastval_app. cbn [lastval e_key e_val].
    destruct (beq k' k); reflexivity.
  - rewrite (get_abs s k HI). auto.
  - destruct (delete_ok c s k HI) as (s' & t & pos & Hp & HI' & Hlog & _). rewrite Hp.
    split; [exact HI'|]. split; [reflexivity|]. intros k'. unfold abs. rewrite Hlog, lastval_app. cbn [lastval e_key e_val].
    destruct (beq k' k); reflexivity.
  - destruct (reopen_ok s HI) as (s' & t & Hr & HI' & Hlog & _). rewrite Hr.
    split; [exact HI'|]. split; [reflexivity|]. intros k'. unfold abs. rewrite Hlog. reflexivity.
  - split; [|split; [reflexivity|intros; reflexivity]].
    unfold Inv in *. cbn [s_dir s_idx s_stats s_active s_last s_stale]. exact HI.
Qed.
