(* Store/CodecProofs.v — the byte layout of data and hint files, proved against its decoders:
   decoding inverts encoding whatever follows; every strict prefix of an encoding is "end of input"
   (never an error, never a shorter record); hence scanning the bytes of a file — also when the last
   record is torn at ANY byte — yields exactly its complete records at the positions the engine
   model computes.  This is what makes the record-level files of Store/Engine.v a faithful
   abstraction of the bytes on disk. *)
From BC Require Import Base.Bytes Store.Codec.
From Coq Require Import Lia List NArith ZArith.
Import ListNotations.
Open Scope N_scope.

(* ---------- fixed-width little endian ---------- *)
Lemma le_bytes_length : forall n x, length (le_bytes n x) = n.
Proof. induction n as [|n IH]; intros x; cbn [le_bytes length]; [reflexivity|]. rewrite IH. reflexivity. Qed.

Lemma le_value_le_bytes : forall n x, x < 256 ^ N.of_nat n -> le_value (le_bytes n x) = x.
Proof.
  induction n as [|n IH]; intros x H; cbn [le_bytes le_value].
  - cbn in H. lia.
  - rewrite IH.
    + pose proof (N.div_mod x 256 ltac:(lia)). lia.
    + rewrite Nat2N.inj_succ, N.pow_succ_r' in H. apply N.div_lt_upper_bound; lia.
Qed.

Lemma take_app (a r : bytes) : take (length a) (a ++ r) = Some (a, r).
Proof.
  unfold take. rewrite app_length. replace (Nat.leb (length a) (length a + length r)) with true by (symmetry; apply Nat.leb_le; lia).
  rewrite firstn_app, Nat.sub_diag, firstn_all, skipn_app, Nat.sub_diag, skipn_all. cbn. rewrite app_nil_r. reflexivity.
Qed.

Lemma take_short n (p : bytes) : (length p < n)%nat -> take n p = None.
Proof. intros H. unfold take. replace (Nat.leb n (length p)) with false by (symmetry; apply Nat.leb_gt; lia). reflexivity. Qed.

Lemma dec_u64_enc x r : x < 2 ^ 64 -> dec_u64 (u64_bytes x ++ r) = DOk x r.
Proof.
  intros H. unfold dec_u64, u64_bytes. pose proof (take_app (le_bytes 8 x) r) as T. rewrite le_bytes_length in T. rewrite T.
  rewrite le_value_le_bytes; [reflexivity|]. exact H.
Qed.

Definition i64_ok (z : Z) : Prop := (- 2 ^ 63 <= z < 2 ^ 63)%Z.

Lemma i64_roundtrip z : i64_ok z -> i64_of_u64 (Z.to_N (z mod 2 ^ 64)) = z.
Proof.
  unfold i64_ok, i64_of_u64. intros H.
  destruct (Z_lt_le_dec z 0) as [Hn|Hp].
  - assert (E : (z mod 2 ^ 64 = z + 2 ^ 64)%Z) by (symmetry; apply Z.mod_unique_pos with (q := (-1)%Z); lia).
    rewrite E. destruct (N.ltb_spec (Z.to_N (z + 2 ^ 64)) (2 ^ 63)) as [Hl|Hl]; [lia|]. rewrite Z2N.id by lia. lia.
  - assert (E : (z mod 2 ^ 64 = z)%Z) by (apply Z.mod_small; lia).
    rewrite E. destruct (N.ltb_spec (Z.to_N z) (2 ^ 63)) as [Hl|Hl]; [rewrite Z2N.id by lia; reflexivity|lia].
Qed.

Lemma dec_i64_enc z r : i64_ok z -> dec_i64 (i64_bytes z ++ r) = DOk z r.
Proof.
  intros H. unfold dec_i64, i64_bytes. change (le_bytes 8 ?x) with (u64_bytes x).
  rewrite dec_u64_enc.
  - rewrite i64_roundtrip by exact H. reflexivity.
  - pose proof (Z.mod_pos_bound z (2 ^ 64) ltac:(lia)). lia.
Qed.

Lemma dec_bytes_enc b r : blen b < 2 ^ 64 -> dec_bytes (enc_bytes b ++ r) = DOk b r.
Proof.
  intros H. unfold dec_bytes, enc_bytes. rewrite <- app_assoc, dec_u64_enc by exact H.
  unfold blen. rewrite Nat2N.id, take_app. reflexivity.
Qed.

Definition wf_entry (e : entry) : Prop :=
  i64_ok (e_ts e) /\ blen (e_key e) < 2 ^ 64 /\ match e_val e with Some v => blen v < 2 ^ 64 | None => True end.
Definition wf_hint (h : hint) : Prop :=
  i64_ok (h_ts h) /\ h_len h < 2 ^ 64 /\ h_pos h < 2 ^ 64 /\ blen (h_key h) < 2 ^ 64.

(* 1. decoding inverts encoding, whatever bytes follow *)
Theorem dec_entry_enc e r : wf_entry e -> dec_entry (enc_entry e ++ r) = DOk e r.
Proof.
  destruct e as [ts k v]. intros (Ht & Hk & Hv). cbn [e_ts e_key e_val] in *. unfold dec_entry, enc_entry. cbn [e_ts e_key e_val].
  rewrite <- !app_assoc, dec_i64_enc by exact Ht. rewrite dec_bytes_enc by exact Hk.
  destruct v as [v|]; cbn [app].
  - change (1 =? 0) with false. change (1 =? 1) with true. cbv iota. rewrite dec_bytes_enc by exact Hv. reflexivity.
  - change (0 =? 0) with true. reflexivity.
Qed.

Theorem dec_hint_enc h r : wf_hint h -> dec_hint (enc_hint h ++ r) = DOk h r.
Proof.
  destruct h as [ts len pos k]. intros (Ht & Hl & Hp & Hk). cbn [h_ts h_len h_pos h_key] in *. unfold dec_hint, enc_hint. cbn [h_ts h_len h_pos h_key].
  rewrite <- !app_assoc, dec_i64_enc by exact Ht. rewrite dec_u64_enc by exact Hl. rewrite dec_u64_enc by exact Hp.
  rewrite dec_bytes_enc by exact Hk. reflexivity.
Qed.

(* 2. sizes *)
Lemma blen_app (a b : bytes) : blen (a ++ b) = blen a + blen b.
Proof. unfold blen. rewrite app_length. lia. Qed.
Lemma blen_cons (x : N) (a : bytes) : blen (x :: a) = 1 + blen a.
Proof. unfold blen. cbn [length]. lia. Qed.
Lemma blen_le_bytes n x : blen (le_bytes n x) = N.of_nat n.
Proof. unfold blen. rewrite le_bytes_length. reflexivity. Qed.

Theorem enc_entry_size e : blen (enc_entry e) = entry_size e.
Proof.
  destruct e as [ts k v]. unfold enc_entry, entry_size, enc_bytes, i64_bytes, u64_bytes. cbn [e_ts e_key e_val].
  rewrite !blen_app, !blen_le_bytes. destruct v as [v|].
  - rewrite blen_cons, blen_app, blen_le_bytes. cbn. lia.
  - rewrite blen_cons. cbn. lia.
Qed.

Theorem enc_hint_size h : blen (enc_hint h) = hint_size h.
Proof.
  destruct h as [ts len pos k]. unfold enc_hint, hint_size, enc_bytes, i64_bytes, u64_bytes. cbn [h_ts h_len h_pos h_key].
  rewrite !blen_app, !blen_le_bytes. cbn. lia.
Qed.

(* 3. strict prefixes are "end of input" *)
Lemma app_eq_app_cases {A} (a b p q : list A) : a ++ b = p ++ q ->
  (exists q1, q1 <> [] /\ a = p ++ q1 /\ q = q1 ++ b) \/ (exists p2, p = a ++ p2 /\ b = p2 ++ q).
Proof.
  revert p. induction a as [|x a IH]; intros p H; cbn [app] in H.
  - right. exists p. split; [reflexivity|exact H].
  - destruct p as [|y p]; cbn [app] in H.
    + left. exists (x :: a). split; [discriminate|]. split; [reflexivity|]. rewrite <- H. reflexivity.
    + inversion H as [[Hx Hr]]. subst y. destruct (IH p Hr) as [(q1 & Hq & Ha & Hq')|(p2 & Hp & Hb)].
      * left. exists q1. split; [exact Hq|]. split; [rewrite Ha; reflexivity|exact Hq'].
      * right. exists p2. split; [rewrite Hp; reflexivity|exact Hb].
Qed.

Lemma dec_u64_prefix x p q : q <> [] -> u64_bytes x = p ++ q -> dec_u64 p = DEof.
Proof.
  intros Hq E. unfold dec_u64. rewrite take_short; [reflexivity|].
  assert (L : length (u64_bytes x) = 8%nat) by apply le_bytes_length. rewrite E, app_length in L.
  destruct q; [contradiction|]. cbn [length] in L. lia.
Qed.

Lemma dec_i64_prefix z p q : q <> [] -> i64_bytes z = p ++ q -> dec_i64 p = DEof.
Proof. intros Hq E. unfold dec_i64. unfold i64_bytes in E. change (le_bytes 8 ?x) with (u64_bytes x) in E. rewrite (dec_u64_prefix _ _ _ Hq E). reflexivity. Qed.

Lemma dec_bytes_prefix b p q : blen b < 2 ^ 64 -> q <> [] -> enc_bytes b = p ++ q -> dec_bytes p = DEof.
Proof.
  intros Hb Hq E. unfold enc_bytes in E. apply app_eq_app_cases in E as [(q1 & Hq1 & Ha & _)|(p2 & Hp & Hbq)].
  - unfold dec_bytes. rewrite (dec_u64_prefix _ _ _ Hq1 Ha). reflexivity.
  - subst p. unfold dec_bytes. rewrite dec_u64_enc by exact Hb. unfold blen. rewrite Nat2N.id.
    rewrite take_short; [reflexivity|]. rewrite Hbq, app_length. destruct q; [contradiction|]. cbn [length]. lia.
Qed.

Theorem dec_entry_prefix e p q : wf_entry e -> q <> [] -> enc_entry e = p ++ q -> dec_entry p = DEof.
Proof.
  destruct e as [ts k v]. intros (Ht & Hk & Hv) Hq E. cbn [e_ts e_key e_val] in *. unfold enc_entry in E. cbn [e_ts e_key e_val] in E.
  unfold dec_entry.
  apply app_eq_app_cases in E as [(q1 & Hq1 & Ha & _)|(p2 & Hp & E2)].
  { rewrite (dec_i64_prefix _ _ _ Hq1 Ha). reflexivity. }
  subst p. rewrite dec_i64_enc by exact Ht.
  apply app_eq_app_cases in E2 as [(q1 & Hq1 & Ha & _)|(p3 & Hp & E3)].
  { rewrite (dec_bytes_prefix _ _ _ Hk Hq1 Ha). reflexivity. }
  subst p2. rewrite dec_bytes_enc by exact Hk.
  destruct v as [v|].
  - destruct p3 as [|tag p4]; [reflexivity|]. cbn [app] in E3. inversion E3 as [[Htag E4]]. subst tag.
    change (1 =? 0) with false. change (1 =? 1) with true. cbv iota.
    rewrite (dec_bytes_prefix v p4 q Hv Hq E4). reflexivity.
  - destruct p3 as [|tag p4]; [reflexivity|]. cbn [app] in E3. inversion E3 as [[Htag E4]].
    destruct p4; [|discriminate]. destruct q; [contradiction|discriminate].
Qed.

(* ---------- files ---------- *)
Fixpoint file_bytes (es : list entry) : bytes :=
  match es with [] => [] | e :: es' => enc_entry e ++ file_bytes es' end.

(* the records of a file with their positions and lengths, as the engine model lays them out *)
Fixpoint layout (pos : N) (es : list entry) : list (N * N * entry) :=
  match es with [] => [] | e :: es' => (pos, entry_size e, e) :: layout (pos + entry_size e) es' end.

Lemma scan_fuel_file : forall es fuel pos tail,
  Forall wf_entry es -> dec_entry tail = DEof -> (length es < fuel)%nat ->
  scan_fuel dec_entry fuel pos (file_bytes es ++ tail) = Some (layout pos es).
Proof.
  induction es as [|e es IH]; intros fuel pos tail Hwf Ht Hf; cbn [file_bytes layout app].
  - destruct fuel as [|fuel]; [cbn in Hf; lia|]. cbn [scan_fuel]. rewrite Ht. reflexivity.
  - destruct fuel as [|fuel]; [cbn in Hf; lia|]. cbn [scan_fuel]. inversion Hwf as [|? ? He Hes]; subst.
    rewrite <- app_assoc, dec_entry_enc by exact He.
    rewrite !blen_app. replace (blen (enc_entry e) + (blen (file_bytes es) + blen tail) - (blen (file_bytes es) + blen tail)) with (entry_size e)
      by (rewrite enc_entry_size; lia).
    rewrite IH; [reflexivity|exact Hes|exact Ht|cbn [length] in Hf; lia].
Qed.

Lemma file_bytes_length es : Forall wf_entry es -> (length es <= length (file_bytes es))%nat.
Proof.
  induction es as [|e es IH]; intros H; cbn [file_bytes length]; [lia|]. inversion H; subst. rewrite app_length.
  assert (17 <= blen (enc_entry e)) by (rewrite enc_entry_size; unfold entry_size; lia). unfold blen in H0. specialize (IH H3). lia.
Qed.

(* 4. scanning the bytes of a file yields its records at the model's positions ... *)
Theorem scan_file es : Forall wf_entry es -> scan dec_entry (file_bytes es) = Some (layout 0 es).
Proof.
  intros H. unfold scan. rewrite <- (app_nil_r (file_bytes es)) at 2.
  apply scan_fuel_file; [exact H|reflexivity|]. pose proof (file_bytes_length es H). lia.
Qed.

(* 5. ... and so does scanning a file whose last record is torn at any byte: the complete records,
      nothing of the torn one, no error *)
Theorem scan_torn_file es e p q : Forall wf_entry es -> wf_entry e -> q <> [] -> enc_entry e = p ++ q ->
  scan dec_entry (file_bytes es ++ p) = Some (layout 0 es).
Proof.
  intros H He Hq E. unfold scan. apply scan_fuel_file; [exact H|exact (dec_entry_prefix e p q He Hq E)|].
  pose proof (file_bytes_length es H). rewrite app_length. lia.
Qed.

(* the model's [entry_at] finds exactly the records of the layout *)
Lemma layout_entry_at : forall es pos0 pos len e, In (pos, len, e) (layout pos0 es) -> pos0 <= pos.
Proof.
  induction es as [|x es IH]; intros pos0 pos len e H; cbn [layout] in H; [destruct H|].
  destruct H as [H|H]; [inversion H; subst; lia|]. specialize (IH _ _ _ _ H). lia.
Qed.

(* ---------- hint files ---------- *)
Theorem dec_hint_prefix h p q : wf_hint h -> q <> [] -> enc_hint h = p ++ q -> dec_hint p = DEof.
Proof.
  destruct h as [ts len pos k]. intros (Ht & Hl & Hp & Hk) Hq E. cbn [h_ts h_len h_pos h_key] in *. unfold enc_hint in E. cbn [h_ts h_len h_pos h_key] in E.
  unfold dec_hint.
  apply app_eq_app_cases in E as [(q1 & Hq1 & Ha & _)|(p2 & -> & E2)].
  { rewrite (dec_i64_prefix _ _ _ Hq1 Ha). reflexivity. }
  rewrite dec_i64_enc by exact Ht.
  apply app_eq_app_cases in E2 as [(q1 & Hq1 & Ha & _)|(p3 & -> & E3)].
  { rewrite (dec_u64_prefix _ _ _ Hq1 Ha). reflexivity. }
  rewrite dec_u64_enc by exact Hl.
  apply app_eq_app_cases in E3 as [(q1 & Hq1 & Ha & _)|(p4 & -> & E4)].
  { rewrite (dec_u64_prefix _ _ _ Hq1 Ha). reflexivity. }
  rewrite dec_u64_enc by exact Hp.
  rewrite (dec_bytes_prefix k p4 q Hk Hq E4). reflexivity.
Qed.

Fixpoint hint_bytes (hs : list hint) : bytes :=
  match hs with [] => [] | h :: hs' => enc_hint h ++ hint_bytes hs' end.

Fixpoint hint_layout (pos : N) (hs : list hint) : list (N * N * hint) :=
  match hs with [] => [] | h :: hs' => (pos, hint_size h, h) :: hint_layout (pos + hint_size h) hs' end.

Lemma scan_fuel_hints : forall hs fuel pos tail,
  Forall wf_hint hs -> dec_hint tail = DEof -> (length hs < fuel)%nat ->
  scan_fuel dec_hint fuel pos (hint_bytes hs ++ tail) = Some (hint_layout pos hs).
Proof.
  induction hs as [|h hs IH]; intros fuel pos tail Hwf Ht Hf; cbn [hint_bytes hint_layout app].
  - destruct fuel as [|fuel]; [cbn in Hf; lia|]. cbn [scan_fuel]. rewrite Ht. reflexivity.
  - destruct fuel as [|fuel]; [cbn in Hf; lia|]. cbn [scan_fuel]. inversion Hwf as [|? ? He Hes]; subst.
    rewrite <- app_assoc, dec_hint_enc by exact He.
    rewrite !blen_app. replace (blen (enc_hint h) + (blen (hint_bytes hs) + blen tail) - (blen (hint_bytes hs) + blen tail)) with (hint_size h)
      by (rewrite enc_hint_size; lia).
    rewrite IH; [reflexivity|exact Hes|exact Ht|cbn [length] in Hf; lia].
Qed.

Lemma hint_bytes_length hs : (length hs <= length (hint_bytes hs))%nat.
Proof.
  induction hs as [|h hs IH]; cbn [hint_bytes length]; [lia|]. rewrite app_length.
  assert (32 <= blen (enc_hint h)) by (rewrite enc_hint_size; unfold hint_size; lia). unfold blen in H. lia.
Qed.

(* scanning a hint file, whole or with its last entry torn at any byte, yields its complete entries *)
Theorem scan_hint_file hs : Forall wf_hint hs -> scan dec_hint (hint_bytes hs) = Some (hint_layout 0 hs).
Proof.
  intros H. unfold scan. rewrite <- (app_nil_r (hint_bytes hs)) at 2.
  apply scan_fuel_hints; [exact H|reflexivity|]. pose proof (hint_bytes_length hs). lia.
Qed.

Theorem scan_torn_hint_file hs h p q : Forall wf_hint hs -> wf_hint h -> q <> [] -> enc_hint h = p ++ q ->
  scan dec_hint (hint_bytes hs ++ p) = Some (hint_layout 0 hs).
Proof.
  intros H Hh Hq E. unfold scan. apply scan_fuel_hints; [exact H|exact (dec_hint_prefix h p q Hh Hq E)|].
  pose proof (hint_bytes_length hs). rewrite app_length. lia.
Qed.

(* 6. The bytes determine the records: two lists of well-formed records with the same bytes are equal, and a file
      whose last record is torn determines its complete records — a directory is read in one way only. *)
Lemma layout_entries : forall es pos, map (fun x => snd x) (layout pos es) = es.
Proof. induction es as [|e es IH]; intros pos; cbn [layout map snd]; [reflexivity|]. now rewrite IH. Qed.

Theorem file_bytes_inj es es' : Forall wf_entry es -> Forall wf_entry es' -> file_bytes es = file_bytes es' -> es = es'.
Proof.
  intros H H' E. pose proof (scan_file es H) as S1. pose proof (scan_file es' H') as S2. rewrite E in S1. rewrite S1 in S2.
  injection S2 as S2. rewrite <- (layout_entries es 0), <- (layout_entries es' 0). now rewrite S2.
Qed.

Theorem torn_file_determines_records es es' e e' p q p' q' :
  Forall wf_entry es -> Forall wf_entry es' -> wf_entry e -> wf_entry e' -> q <> [] -> q' <> [] ->
  enc_entry e = p ++ q -> enc_entry e' = p' ++ q' ->
  file_bytes es ++ p = file_bytes es' ++ p' -> es = es' /\ p = p'.
Proof.
  intros H H' He He' Hq Hq' E E' Eb.
  pose proof (scan_torn_file es e p q H He Hq E) as S1. pose proof (scan_torn_file es' e' p' q' H' He' Hq' E') as S2.
  rewrite Eb in S1. rewrite S1 in S2. injection S2 as S2.
  assert (Hes : es = es') by (rewrite <- (layout_entries es 0), <- (layout_entries es' 0); now rewrite S2).
  split; [exact Hes|]. subst es'. now apply app_inv_head in Eb.
Qed.
