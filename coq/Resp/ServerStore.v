(* Resp/ServerStore.v — the storage theorems, for the server.  Resp/OverEngine.v shows that the per-connection loop
   turns any input into a script of sets, gets and deletes on the engine ([script_of], [handle_is_script]); here the
   theorems about scripts that need no further hypothesis are instantiated with that script: power-loss safety under
   sync=always (C09) and the file discipline (C14). *)
From BC Require Import Base.Bytes Resp.Frame Resp.Conn Resp.Handler Resp.HandlerProofs Resp.OverEngine.
From BC Require Import Store.Codec Store.Engine Store.Log Store.Inv Store.Refine Store.Theorems Store.Trace Store.Crash Store.CrashScript
  Store.CrashMerge Store.Discipline Store.Power.
From Coq Require Import List.
Import ListNotations.

Lemma script_no_merge rs : no_merge (script_of rs).
Proof.
  intros o Hin. unfold script_of in Hin. apply in_concat in Hin as (l & Hl & Ho). apply in_map_iff in Hl as (cm & <- & _).
  destruct cm as [k|k v|ks]; cbn [ops_of_cmd] in Ho.
  - destruct Ho as [<-|[]]. reflexivity.
  - destruct Ho as [<-|[]]. reflexivity.
  - apply in_map_iff in Ho as (k & <- & _). reflexivity.
Qed.

(* With sync=always, whatever a connection sends: every power image of the system calls its commands cause opens to the
   map after some prefix of the engine operations they consist of, and at the end everything written is durable. *)
Theorem server_power_safe c segs st0 : c_sync c = true ->
  let ops := script_of (read_all (fixed Release) segs []) in
  synced st0 -> rep (fst st0) (s_dir init) -> trace_wf (snd (run c init ops)) ->
  (exists st1, prun st0 (snd (run c init ops)) = Some st1 /\ synced st1 /\ rep (fst st1) (s_dir (fst (fst (run c init ops))))) /\
  forall img, power_image_of st0 (snd (run c init ops)) img ->
    exists n, (n <= length ops)%nat /\ img_ok_p img (abs (state_after c init ops n)).
Proof.
  intros Hs ops Hsy Hrep Hwf. apply power_safe_script; auto; [exact (proj1 init_inv)|].
  apply no_merge_ready. apply script_no_merge.
Qed.

(* The system calls the server's commands cause obey the file discipline: fresh growing ids, appends to the newest
   data file only, never beyond the size limit by more than one record. *)
Theorem server_traces_accepted c segs :
  disc_ok (c_max c) (mon_init []) (SCreate (FData 0) :: snd (run c init (script_of (read_all (fixed Release) segs [])))) = true.
Proof. apply model_traces_accepted. apply no_merge_ready. apply script_no_merge. Qed.
