(* Resp/OverEngine.v — the handler over the storage engine.  Resp/Handler.v runs the per-connection loop over an
   abstract map; Store/Theorems.v proves the engine to be that map.  Here the two are composed: the same loop
   running over the engine model (one get / set per command, one delete per key of a DEL, as the code does)
   writes exactly the bytes the loop over the map writes, and ends in an invariant engine state denoting the
   same map.  With C06_replies this gives: bytes on the wire in, bytes on the wire out, records on disk. *)
From BC Require Import Base.Bytes Resp.Frame Resp.Conn Resp.Handler Resp.HandlerProofs.
From BC Require Import Store.Codec Store.Engine Store.Log Store.Inv Store.Refine Store.Theorems.
From Coq Require Import ZArith List Lia.
Import ListNotations.

Definition del_e (c : cfg) (s : st) (k : bytes) : st * bool :=
  match step c s (ODel k) with
  | (s', VBool b, _) => (s', b)
  | (s', _, _) => (s', false)
  end.

Fixpoint del_all_e (c : cfg) (s : st) (ks : list bytes) (count : Z) : st * Z :=
  match ks with
  | [] => (s, count)
  | k :: ks' => let '(s', b) := del_e c s k in del_all_e c s' ks' (if b then (count + 1)%Z else count)
  end.

Definition apply_cmd_e (c : cfg) (s : st) (cm : cmd) : st * frame :=
  match cm with
  | CGet k => (s, match step c s (OGet k) with (_, VVal (Some v), _) => Bulk v | _ => Null end)
  | CSet k v => (fst (fst (step c s (OSet k v))), Simple s_OK)
  | CDel ks => let '(s', n) := del_all_e c s ks 0%Z in (s', Integer n)
  end.

Fixpoint handle_e (c : cfg) (s : st) (rs : list rres) (out : bytes) : bytes * st * term :=
  match rs with
  | [] => (out, s, TPanic)
  | RFrame f :: rs' =>
    match cmd_of f with
    | inr e => (out, s, TCmdErr e)
    | inl cm =>
      let '(s', reply) := apply_cmd_e c s cm in
      match enc reply with
      | Ok b => handle_e c s' rs' (out ++ b)
      | _ => (out, s', TPanic)
      end
    end
  | RClean :: _ => (out, s, TClosed)
  | RReset :: _ => (out, s, TReset)
  | RErr e :: _ => (out, s, TFrameErr e)
  | _ :: _ => (out, s, TPanic)
  end.

(* the engine state denotes the map *)
Definition denotes (s : st) (m : kv) : Prop := Inv s /\ forall k, kv_get m k = abs s k.

Lemma kv_get_set m k v k' : kv_get (aset m k v) k' = if beq k' k then Some v else kv_get m k'.
Proof. reflexivity. Qed.
Lemma kv_get_del m k k' : kv_get (adel m k) k' = if beq k' k then None else kv_get m k'.
Proof. reflexivity. Qed.

Lemma del_all_sim c : forall ks s m n, denotes s m ->
  let '(s', n1) := del_all_e c s ks n in let '(m', n2) := del_all m ks n in denotes s' m' /\ n1 = n2.
Proof.
  induction ks as [|k ks IH]; intros s m n [HI Hm]; cbn [del_all_e del_all]; [split; [split; assumption|reflexivity]|].
  unfold del_e. pose proof (step_refines c s (ODel k) HI I) as H. destruct (step c s (ODel k)) as [[s1 r] t].
  destruct H as (HI1 & Hr & Hab). cbn [spec_step fst snd] in *. subst r. rewrite Hm.
  destruct (abs s k) as [v|] eqn:Ek.
  - apply IH. split; [exact HI1|]. intros k'. rewrite kv_get_del, Hab, Hm. reflexivity.
  - apply IH. split; [exact HI1|]. intros k'. rewrite Hab, Hm. destruct (beq k' k) eqn:E; [|reflexivity].
    apply beq_eq in E. subst k'. exact Ek.
Qed.

Lemma apply_sim c s m cm : denotes s m ->
  let '(s', f) := apply_cmd_e c s cm in let '(m', f') := apply_cmd m cm in denotes s' m' /\ f = f'.
Proof.
  intros [HI Hm]. destruct cm as [k|k v|ks]; cbn [apply_cmd_e apply_cmd].
  - pose proof (step_refines c s (OGet k) HI I) as H. destruct (step c s (OGet k)) as [[s1 r] t].
    destruct H as (_ & Hr & _). cbn [spec_step snd] in Hr. subst r. rewrite Hm. split; [split; assumption|]. destruct (abs s k); reflexivity.
  - pose proof (step_refines c s (OSet k v) HI I) as H. destruct (step c s (OSet k v)) as [[s1 r] t]. cbn [fst].
    destruct H as (HI1 & _ & Hab). cbn [spec_step fst] in Hab. split; [|reflexivity]. split; [exact HI1|].
    intros k'. rewrite kv_get_set, Hab, Hm. reflexivity.
  - pose proof (del_all_sim c ks s m 0%Z (conj HI Hm)) as H. destruct (del_all_e c s ks 0) as [s' n1]. destruct (del_all m ks 0) as [m' n2].
    destruct H as [Hd ->]. split; [exact Hd|reflexivity].
Qed.

Theorem handle_sim c : forall rs s m out, denotes s m ->
  let '(o1, s', t1) := handle_e c s rs out in let '(o2, m', t2) := handle m rs out in
  o1 = o2 /\ t1 = t2 /\ denotes s' m'.
Proof.
  induction rs as [|r rs IH]; intros s m out Hd; cbn [handle_e handle]; [auto|].
  destruct r as [f| | |e| | |]; try (split; [reflexivity|split; [reflexivity|exact Hd]]).
  destruct (cmd_of f) as [cm|e]; [|split; [reflexivity|split; [reflexivity|exact Hd]]].
  pose proof (apply_sim c s m cm Hd) as H. destruct (apply_cmd_e c s cm) as [s1 f1]. destruct (apply_cmd m cm) as [m1 f2].
  destruct H as [Hd1 ->]. destruct (enc f2); try (split; [reflexivity|split; [reflexivity|exact Hd1]]). apply IH. exact Hd1.
Qed.

Lemma denotes_init : denotes init [].
Proof.
  split; [exact (proj1 init_inv)|]. intros k. unfold abs. rewrite (proj2 init_inv). reflexivity.
Qed.

(* End to end: well-formed requests, cut into socket reads in any way, handled over the ENGINE started on an
   empty directory: the bytes written are the map's replies in order, the connection ends cleanly, and the engine
   ends in an invariant state that denotes the map the requests produce. *)
Theorem handler_over_engine c rs es segs : Forall (fun r => wf_req r = true) rs ->
  Forall2 (fun r e => enc (frame_of_req r) = Ok e) rs es -> concat segs = concat es ->
  let '(out, s', t) := handle_e c init (read_all (fixed Release) segs []) [] in
  out = fst (spec_out [] rs) /\ t = TClosed /\ denotes s' (snd (spec_out [] rs)).
Proof.
  intros Hwf He Hc. pose proof (handler_replies rs es segs [] Hwf He Hc) as H. unfold handler_from in H.
  pose proof (handle_sim c (read_all (fixed Release) segs []) init [] [] denotes_init) as Hs.
  destruct (handle_e c init (read_all (fixed Release) segs []) []) as [[o1 s'] t1]. rewrite H in Hs. destruct Hs as (-> & -> & Hd). auto.
Qed.

(* ... and on ARBITRARY input (C10): whatever bytes arrive in whatever pieces, the loop over the engine does not
   panic, and the engine ends in an invariant state denoting the map changed by exactly the commands the command
   parser accepted before the first rejected frame. *)
Theorem hostile_over_engine c segs :
  let '(out, s', t) := handle_e c init (read_all (fixed Release) segs []) [] in
  t <> TPanic /\ denotes s' (apply_all [] (accepted (read_all (fixed Release) segs []))).
Proof.
  pose proof (handle_sim c (read_all (fixed Release) segs []) init [] [] denotes_init) as Hs.
  pose proof (handler_total [] segs) as Ht. unfold handler_from in Ht.
  pose proof (handler_store_effect (read_all (fixed Release) segs []) [] []) as He.
  destruct (handle_e c init (read_all (fixed Release) segs []) []) as [[o1 s'] t1].
  destruct (handle [] (read_all (fixed Release) segs []) []) as [[o2 m'] t2]. cbn [fst snd] in *.
  destruct Hs as (_ & -> & Hd). split; [exact Ht|]. rewrite <- He. exact Hd.
Qed.
