(* Resp/OverEngine.v — the handler over the storage engine.  Resp/Handler.v runs the per-connection loop over an
   abstract map; Store/Theorems.v proves the engine to be that map.  Here the two are composed: the same loop
   running over the engine model (one get / set per command, one delete per key of a DEL, as the code does)
   writes exactly the bytes the loop over the map writes, and ends in an invariant engine state denoting the
   same map.  With C06_replies this gives: bytes on the wire in, bytes on the wire out, records on disk. *)
From BC Require Import Base.Bytes Resp.Frame Resp.Conn Resp.Handler Resp.HandlerProofs.
From BC Require Import Store.Codec Store.Engine Store.Log Store.Inv Store.Refine Store.Merge Store.Theorems.
From BC Require Store.Crash Store.CrashScript.
From Coq Require Import ZArith List Lia.
Import ListNotations.

Definition del_e (c : cfg) (s : st) (k : bytes) : st * bool :=
  match step c s (ODel k) with
  | (s', VBool b, _) => (s', b)
  | (s', _, _) => (s', false)
  end.

Fixpoint del_all_e (c : cfg) (s : st) (ks : list bytes) (count : Z) : st * Z :=
  match ks with
  | [] => (s, count)
  | k :: ks' => let '(s', b) := del_e c s k in del_all_e c s' ks' (if b then (count + 1)%Z else count)
  end.

Definition apply_cmd_e (c : cfg) (s : st) (cm : cmd) : st * frame :=
  match cm with
  | CGet k => (s, match step c s (OGet k) with (_, VVal (Some v), _) => Bulk v | _ => Null end)
  | CSet k v => (fst (fst (step c s (OSet k v))), Simple s_OK)
  | CDel ks => let '(s', n) := del_all_e c s ks 0%Z in (s', Integer n)
  end.

Fixpoint handle_e (c : cfg) (s : st) (rs : list rres) (out : bytes) : bytes * st * term :=
  match rs with
  | [] => (out, s, TPanic)
  | RFrame f :: rs' =>
    match cmd_of f with
    | inr e => (out, s, TCmdErr e)
    | inl cm =>
      let '(s', reply) := apply_cmd_e c s cm in
      match enc reply with
      | Ok b => handle_e c s' rs' (out ++ b)
      | _ => (out, s', TPanic)
      end
    end
  | RClean :: _ => (out, s, TClosed)
  | RReset :: _ => (out, s, TReset)
  | RErr e :: _ => (out, s, TFrameErr e)
  | _ :: _ => (out, s, TPanic)
  end.

(* the engine state denotes the map *)
Definition denotes (s : st) (m : kv) : Prop := Inv s /\ forall k, kv_get m k = abs s k.

Lemma kv_get_set m k v k' : kv_get (aset m k v) k' = if beq k' k then Some v else kv_get m k'.
Proof. reflexivity. Qed.
Lemma kv_get_del m k k' : kv_get (adel m k) k' = if beq k' k then None else kv_get m k'.
Proof. reflexivity. Qed.

Lemma del_all_sim c : forall ks s m n, denotes s m ->
  let '(s', n1) := del_all_e c s ks n in let '(m', n2) := del_all m ks n in denotes s' m' /\ n1 = n2.
Proof.
  induction ks as [|k ks IH]; intros s m n [HI Hm]; cbn [del_all_e del_all]; [split; [split; assumption|reflexivity]|].
  unfold del_e. pose proof (step_refines c s (ODel k) HI I) as H. destruct (step c s (ODel k)) as [[s1 r] t].
  destruct H as (HI1 & Hr & Hab). cbn [spec_step fst snd] in *. subst r. rewrite Hm.
  destruct (abs s k) as [v|] eqn:Ek.
  - apply IH. split; [exact HI1|]. intros k'. rewrite kv_get_del, Hab, Hm. reflexivity.
  - apply IH. split; [exact HI1|]. intros k'. rewrite Hab, Hm. destruct (beq k' k) eqn:E; [|reflexivity].
    apply beq_eq in E. subst k'. exact Ek.
Qed.

Lemma apply_sim c s m cm : denotes s m ->
  let '(s', f) := apply_cmd_e c s cm in let '(m', f') := apply_cmd m cm in denotes s' m' /\ f = f'.
Proof.
  intros [HI Hm]. destruct cm as [k|k v|ks]; cbn [apply_cmd_e apply_cmd].
  - pose proof (step_refines c s (OGet k) HI I) as H. destruct (step c s (OGet k)) as [[s1 r] t].
    destruct H as (_ & Hr & _). cbn [spec_step snd] in Hr. subst r. rewrite Hm. split; [split; assumption|]. destruct (abs s k); reflexivity.
  - pose proof (step_refines c s (OSet k v) HI I) as H. destruct (step c s (OSet k v)) as [[s1 r] t]. cbn [fst].
    destruct H as (HI1 & _ & Hab). cbn [spec_step fst] in Hab. split; [|reflexivity]. split; [exact HI1|].
    intros k'. rewrite kv_get_set, Hab, Hm. reflexivity.
  - pose proof (del_all_sim c ks s m 0%Z (conj HI Hm)) as H. destruct (del_all_e c s ks 0) as [s' n1]. destruct (del_all m ks 0) as [m' n2].
    destruct H as [Hd ->]. split; [exact Hd|reflexivity].
Qed.

Theorem handle_sim c : forall rs s m out, denotes s m ->
  let '(o1, s', t1) := handle_e c s rs out in let '(o2, m', t2) := handle m rs out in
  o1 = o2 /\ t1 = t2 /\ denotes s' m'.
Proof.
  induction rs as [|r rs IH]; intros s m out Hd; cbn [handle_e handle]; [auto|].
  destruct r as [f| | |e| | |]; try (split; [reflexivity|split; [reflexivity|exact Hd]]).
  destruct (cmd_of f) as [cm|e]; [|split; [reflexivity|split; [reflexivity|exact Hd]]].
  pose proof (apply_sim c s m cm Hd) as H. destruct (apply_cmd_e c s cm) as [s1 f1]. destruct (apply_cmd m cm) as [m1 f2].
  destruct H as [Hd1 ->]. destruct (enc f2); try (split; [reflexivity|split; [reflexivity|exact Hd1]]). apply IH. exact Hd1.
Qed.

Lemma denotes_init : denotes init [].
Proof.
  split; [exact (proj1 init_inv)|]. intros k. unfold abs. rewrite (proj2 init_inv). reflexivity.
Qed.

(* End to end: well-formed requests, cut into socket reads in any way, handled over the ENGINE started on an
   empty directory: the bytes written are the map's replies in order, the connection ends cleanly, and the engine
   ends in an invariant state that denotes the map the requests produce. *)
Theorem handler_over_engine c rs es segs : Forall (fun r => wf_req r = true) rs ->
  Forall2 (fun r e => enc (frame_of_req r) = Ok e) rs es -> concat segs = concat es ->
  let '(out, s', t) := handle_e c init (read_all (fixed Release) segs []) [] in
  out = fst (spec_out [] rs) /\ t = TClosed /\ denotes s' (snd (spec_out [] rs)).
Proof.
  intros Hwf He Hc. pose proof (handler_replies rs es segs [] Hwf He Hc) as H. unfold handler_from in H.
  pose proof (handle_sim c (read_all (fixed Release) segs []) init [] [] denotes_init) as Hs.
  destruct (handle_e c init (read_all (fixed Release) segs []) []) as [[o1 s'] t1]. rewrite H in Hs. destruct Hs as (-> & -> & Hd). auto.
Qed.

(* ... and on ARBITRARY input (C10): whatever bytes arrive in whatever pieces, the loop over the engine does not
   panic, and the engine ends in an invariant state denoting the map changed by exactly the commands the command
   parser accepted before the first rejected frame. *)
Theorem hostile_over_engine c segs :
  let '(out, s', t) := handle_e c init (read_all (fixed Release) segs []) [] in
  t <> TPanic /\ denotes s' (apply_all [] (accepted (read_all (fixed Release) segs []))).
Proof.
  pose proof (handle_sim c (read_all (fixed Release) segs []) init [] [] denotes_init) as Hs.
  pose proof (handler_total [] segs) as Ht. unfold handler_from in Ht.
  pose proof (handler_store_effect (read_all (fixed Release) segs []) [] []) as He.
  destruct (handle_e c init (read_all (fixed Release) segs []) []) as [[o1 s'] t1].
  destruct (handle [] (read_all (fixed Release) segs []) []) as [[o2 m'] t2]. cbn [fst snd] in *.
  destruct Hs as (_ & -> & Hd). split; [exact Ht|]. rewrite <- He. exact Hd.
Qed.

(* ---- the loop is a script of the engine ----
   What the handler does to the engine is a script of sets, gets and deletes (one delete per key of a DEL); so every
   theorem about scripts (bytes on disk, crash safety, power-loss safety, file discipline) holds of the server. *)
Definition ops_of_cmd (cm : cmd) : list op :=
  match cm with CGet k => [OGet k] | CSet k v => [OSet k v] | CDel ks => map ODel ks end.

Lemma run_app_state c : forall a s b, fst (fst (run c s (a ++ b))) = fst (fst (run c (fst (fst (run c s a))) b)).
Proof.
  induction a as [|o a IH]; intros s b; cbn [app run]; [reflexivity|].
  destruct (step c s o) as [[s1 r] t] eqn:E. specialize (IH s1 b).
  destruct (run c s1 (a ++ b)) as [[s2 rs] ts]. destruct (run c s1 a) as [[s3 rs3] ts3]. cbn [fst] in *. exact IH.
Qed.
Lemma run_app_trace c : forall a s b, snd (run c s (a ++ b)) = snd (run c s a) ++ snd (run c (fst (fst (run c s a))) b).
Proof.
  induction a as [|o a IH]; intros s b; cbn [app run]; [reflexivity|].
  destruct (step c s o) as [[s1 r] t] eqn:E. specialize (IH s1 b).
  destruct (run c s1 (a ++ b)) as [[s2 rs] ts]. destruct (run c s1 a) as [[s3 rs3] ts3]. cbn [fst snd] in *. rewrite IH, app_assoc. reflexivity.
Qed.

Lemma del_all_script c : forall ks s n, fst (del_all_e c s ks n) = fst (fst (run c s (map ODel ks))).
Proof.
  induction ks as [|k ks IH]; intros s n; cbn [del_all_e map run]; [reflexivity|].
  unfold del_e. destruct (step c s (ODel k)) as [[s1 r] t]. specialize (IH s1).
  destruct (run c s1 (map ODel ks)) as [[s2 rs] ts]. cbn [fst] in *. destruct r; apply IH.
Qed.

Lemma apply_script c s cm : fst (apply_cmd_e c s cm) = fst (fst (run c s (ops_of_cmd cm))).
Proof.
  destruct cm as [k|k v|ks]; cbn [apply_cmd_e ops_of_cmd fst].
  - cbn [run]. destruct (step c s (OGet k)) as [[s1 r] t] eqn:E. cbn [fst].
    change s1 with (fst (fst (s1, r, t))). rewrite <- E. cbn [step]. destruct (get s k); reflexivity.
  - cbn [run]. destruct (step c s (OSet k v)) as [[s1 r] t]. reflexivity.
  - pose proof (del_all_script c ks s 0%Z) as H. destruct (del_all_e c s ks 0) as [s' n]. exact H.
Qed.

(* the commands executed: those accepted before the first rejected frame *)
Definition script_of (rs : list rres) : list op := concat (map ops_of_cmd (accepted rs)).

Theorem handle_is_script c : forall rs s m out, denotes s m ->
  snd (fst (handle_e c s rs out)) = fst (fst (run c s (script_of rs))).
Proof.
  induction rs as [|r rs IH]; intros s m out Hd; cbn [handle_e]; [reflexivity|].
  destruct r as [f| | |e| | |]; try reflexivity. unfold script_of. cbn [accepted].
  destruct (cmd_of f) as [cm|e]; [|reflexivity]. cbn [map concat].
  pose proof (apply_script c s cm) as Ha. pose proof (apply_sim c s m cm Hd) as Hs.
  destruct (reply_encodes m cm) as (b & Eb).
  destruct (apply_cmd_e c s cm) as [s1 reply]. destruct (apply_cmd m cm) as [m1 reply2]. cbn [fst snd] in *.
  destruct Hs as [Hd1 ->]. rewrite Eb. rewrite run_app_state, <- Ha. apply (IH s1 m1). exact Hd1.
Qed.

(* The server is crash safe: whatever bytes a connection sends, in whatever pieces, every crash image of the system
   calls its commands cause (any call boundary, the last write cut at any byte) opens to the map after some prefix
   of the engine operations those commands consist of. *)
Theorem server_crash_safe c segs s0 :
  let ops := script_of (read_all (fixed Release) segs []) in
  Store.Crash.rep s0 (s_dir init) -> Store.Crash.trace_wf (snd (run c init ops)) ->
  forall img, Store.Crash.image_of s0 (snd (run c init ops)) img ->
    exists n, (n <= length ops)%nat /\ Store.CrashScript.img_ok img (abs (Store.CrashScript.state_after c init ops n)).
Proof.
  intros ops Hrep Hwf. apply Store.CrashScript.crash_safe_no_merge; [|exact Hrep|exact Hwf].
  intros o Hin. unfold ops, script_of in Hin. apply in_concat in Hin as (l & Hl & Ho). apply in_map_iff in Hl as (cm & <- & _).
  destruct cm as [k|k v|ks]; cbn [ops_of_cmd] in Ho.
  - destruct Ho as [<-|[]]. reflexivity.
  - destruct Ho as [<-|[]]. reflexivity.
  - apply in_map_iff in Ho as (k & <- & _). reflexivity.
Qed.

(* ---- with merge passes of the background task in between ----
   The background task may run a merge pass between any two commands (the writer mutex serialises them).  Whatever
   passes run, wherever, in whatever iteration order the index hands out, a connection is answered exactly as
   without them. *)
Inductive sev := SFrame (r : rres) | SMerge (ord : list bytes).

Fixpoint frames_of (evs : list sev) : list rres :=
  match evs with [] => [] | SFrame r :: evs' => r :: frames_of evs' | SMerge _ :: evs' => frames_of evs' end.

Fixpoint handle_bg (c : cfg) (s : st) (evs : list sev) (out : bytes) : bytes * st * term :=
  match evs with
  | [] => (out, s, TPanic)
  | SMerge ord :: evs' => handle_bg c (fst (fst (step c s (OMerge ord)))) evs' out
  | SFrame (RFrame f) :: evs' =>
    match cmd_of f with
    | inr e => (out, s, TCmdErr e)
    | inl cm =>
      let '(s', reply) := apply_cmd_e c s cm in
      match enc reply with
      | Ok b => handle_bg c s' evs' (out ++ b)
      | _ => (out, s', TPanic)
      end
    end
  | SFrame RClean :: _ => (out, s, TClosed)
  | SFrame RReset :: _ => (out, s, TReset)
  | SFrame (RErr e) :: _ => (out, s, TFrameErr e)
  | SFrame _ :: _ => (out, s, TPanic)
  end.

(* every pass is handed an iteration order that visits each index entry of a selected file once *)
Fixpoint bg_ready (c : cfg) (s : st) (evs : list sev) : Prop :=
  match evs with
  | [] => True
  | SMerge ord :: evs' => merge_ready c s ord /\ bg_ready c (fst (fst (step c s (OMerge ord)))) evs'
  | SFrame (RFrame f) :: evs' =>
    match cmd_of f with
    | inr _ => True
    | inl cm => bg_ready c (fst (apply_cmd_e c s cm)) evs'
    end
  | SFrame _ :: _ => True
  end.

Theorem handle_bg_sim c : forall evs s m out, denotes s m -> bg_ready c s evs ->
  let '(o1, s', t1) := handle_bg c s evs out in let '(o2, m', t2) := handle m (frames_of evs) out in
  o1 = o2 /\ t1 = t2 /\ denotes s' m'.
Proof.
  induction evs as [|ev evs IH]; intros s m out Hd Hr; cbn [handle_bg frames_of handle bg_ready] in *; [auto|].
  destruct ev as [r|ord].
  - destruct r as [f| | |e| | |]; cbn [handle]; try (split; [reflexivity|split; [reflexivity|exact Hd]]).
    destruct (cmd_of f) as [cm|e]; [|split; [reflexivity|split; [reflexivity|exact Hd]]].
    pose proof (apply_sim c s m cm Hd) as H. destruct (apply_cmd_e c s cm) as [s1 f1]. destruct (apply_cmd m cm) as [m1 f2].
    destruct H as [Hd1 ->]. cbn [fst] in Hr.
    destruct (enc f2); try (split; [reflexivity|split; [reflexivity|exact Hd1]]). apply IH; assumption.
  - destruct Hr as [Hm Hr]. destruct Hd as [HI Hab].
    pose proof (step_refines c s (OMerge ord) HI Hm) as H. destruct (step c s (OMerge ord)) as [[s1 r] t]. cbn [fst] in *.
    destruct H as (HI1 & _ & Hab1). cbn [spec_step fst] in Hab1. apply IH; [|exact Hr].
    split; [exact HI1|]. intros k. rewrite Hab, Hab1. reflexivity.
Qed.

(* ---- across a restart ---- a clean restart of the server keeps the map: the next connection is answered from it *)
Theorem restart_keeps_map s m : denotes s m -> exists s' t, reopen s = ROk (s', tt, t) /\ denotes s' m.
Proof.
  intros [HI Hm]. destruct (reopen_ok s HI) as (s' & t & Hr & HI' & Hlog & _). exists s', t. split; [exact Hr|].
  split; [exact HI'|]. intros k. rewrite Hm. unfold abs. now rewrite Hlog.
Qed.

Theorem two_lives c segs1 rs2 es2 segs2 : Forall (fun r => wf_req r = true) rs2 ->
  Forall2 (fun r e => enc (frame_of_req r) = Ok e) rs2 es2 -> concat segs2 = concat es2 ->
  let '(_, s1, _) := handle_e c init (read_all (fixed Release) segs1 []) [] in
  let m1 := apply_all [] (accepted (read_all (fixed Release) segs1 [])) in
  exists s1' t, reopen s1 = ROk (s1', tt, t) /\
    let '(out2, s2, t2) := handle_e c s1' (read_all (fixed Release) segs2 []) [] in
    out2 = fst (spec_out m1 rs2) /\ t2 = TClosed /\ denotes s2 (snd (spec_out m1 rs2)).
Proof.
  intros Hwf He Hc. pose proof (hostile_over_engine c segs1) as H1.
  destruct (handle_e c init (read_all (fixed Release) segs1 []) []) as [[o1 s1] t1]. destruct H1 as (_ & Hd1).
  destruct (restart_keeps_map _ _ Hd1) as (s1' & t & Hr & Hd1'). exists s1', t. split; [exact Hr|].
  pose proof (handler_replies rs2 es2 segs2 (apply_all [] (accepted (read_all (fixed Release) segs1 []))) Hwf He Hc) as H. unfold handler_from in H.
  pose proof (handle_sim c (read_all (fixed Release) segs2 []) s1' _ [] Hd1') as Hs.
  destruct (handle_e c s1' (read_all (fixed Release) segs2 []) []) as [[o2 s2] t2]. rewrite H in Hs. destruct Hs as (-> & -> & Hd). auto.
Qed.
