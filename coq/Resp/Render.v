(* Resp/Render.v — canonical text rendering of model results, identical to harness/src/util.rs.
   Only used by the correspondence runs (trusted glue, no theorems depend on it). *)
From BC Require Import Resp.Frame.
From Coq Require Import Ascii String.
Open Scope string_scope.

Definition show_ferr (e : ferr) : string :=
  match e with
  | Incomplete => "Incomplete" | BadEncoding => "BadEncoding"
  | NotInteger => "NotInteger" | NotUtf8 => "NotUtf8"
  end.

Fixpoint show_frame (f : frame) : string :=
  match f with
  | Simple s => "S" ++ show_hex s
  | Error s => "E" ++ show_hex s
  | Integer z => "I" ++ show_Z z
  | Bulk b => "B" ++ show_hex b
  | Null => "N"
  | Array items => "A(" ++ join "," (map show_frame items) ++ ")"
  end.

Definition show_outcome {A} (tot : N) (body : A -> string) (o : outcome (A * bytes)) : string :=
  match o with
  | Ok (a, r) => "ok:" ++ show_N (tot - blen r) ++ body a
  | Err e => "err:" ++ show_ferr e
  | Panic => "panic"
  | Abort => "abort"
  | OutOfFuel => "outoffuel"
  end.

Definition render_resp (b : build) (l : bytes) : string :=
  show_outcome (blen l) (fun _ : unit => "") (check (fixed b) l) ++ " | " ++
  show_outcome (blen l) (fun f => ":" ++ show_frame f) (parse (fixed b) l) ++ " | " ++
  match check (fixed b) l with
  | Ok (_, r) => let t := firstn (List.length l - List.length r) l in
                 show_outcome (blen t) (fun f => ":" ++ show_frame f) (parse (fixed b) t)
  | _ => "-"
  end.


Definition render_resp_all (b : build) (cases : list bytes) : string :=
  join nl (map (render_resp b) cases).

(* ---- connection mode ---- *)
From BC Require Import Resp.Conn.
Definition show_rres (r : rres) : string :=
  match r with
  | RFrame f => "frame:" ++ show_frame f
  | RClean => "clean" | RReset => "reset"
  | RErr e => "err:" ++ show_ferr e
  | RPanic => "panic" | RAbort => "abort" | RFuel => "outoffuel"
  end.
Definition render_read (segs : list bytes) : string :=
  join ";" (map show_rres (read_all (fixed Debug) segs [])).
Definition render_read_all (cases : list (list bytes)) : string := join nl (map render_read cases).
Definition render_write (f : frame) : string :=
  match enc f with Ok b => "ok:" ++ show_hex b | Panic => "panic" | _ => "other" end.
Definition render_write_all (cases : list frame) : string := join nl (map render_write cases).

(* ---- handler mode ---- *)
From BC Require Import Resp.Handler.
Definition show_term (t : term) : string :=
  match t with
  | TClosed => "closed" | TReset => "reset" | TFrameErr e => "frameerr:" ++ show_ferr e
  | TCmdErr _ => "cmderr" | TPanic => "panic"
  end.
Definition render_handler (segs : list bytes) (keys : list bytes) : string :=
  let '(out, m, t) := handler_run [] segs in
  show_hex out ++ "|" ++ show_term t ++ "|" ++
  join "," (map (fun k => show_hex k ++ "=" ++ match kv_get m k with Some v => "some:" ++ show_hex v | None => "none" end) keys).
Definition render_handlers (cases : list (list bytes * list bytes)) : string :=
  join nl (map (fun '(segs, keys) => render_handler segs keys) cases).

(* ---- client mode ---- *)
From BC Require Import Resp.Client.
Definition show_cres (c : cres) : string :=
  match c with
  | CUnit => "ok"
  | CVal (Some v) => "some:" ++ show_hex v
  | CVal None => "none"
  | CInt n => "int:" ++ show_Z n
  | CStorageErr msg => "storage:" ++ show_hex msg
  | CBadFrame f => "badframe:" ++ show_frame f
  | CReset => "reset"
  | CFrameErr e => "frame:" ++ show_ferr e
  | CBroken => "broken"
  end.
(* a session against a scripted server: the requests written (as long as the session lives) and the results *)
Fixpoint zip_session (rs : list req) (cs : list cres) : list string :=
  match rs, cs with
  | r :: rs', c :: cs' => ("Q " ++ match enc (frame_of_req r) with Ok b => show_hex b | _ => "?" end) :: ("R " ++ show_cres c) :: zip_session rs' cs'
  | _, _ => []
  end.
Definition render_client (rs : list req) (segs : list bytes) : string :=
  join nl (zip_session rs (client_session rs (read_all (fixed Debug) segs [])) ++ ["end"])%list.
Definition render_clients (cases : list (list req * list bytes)) : string :=
  join nl (map (fun '(rs, segs) => render_client rs segs) cases).
(* the composed model: the client's requests through the handler over the map, its replies through the client *)
Definition render_api (rs : list req) : string :=
  let reqbytes := List.concat (map (fun r => match enc (frame_of_req r) with Ok b => b | _ => []%list end) rs) in
  let '(out, _, _) := handler_run [] [reqbytes] in
  join ";" (map show_cres (client_session rs (read_all (fixed Debug) [out] []))).
Definition render_apis (cases : list (list req)) : string := join nl (map render_api cases).
