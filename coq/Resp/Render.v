(* Resp/Render.v — canonical text rendering of model results, identical to harness/src/util.rs.
   Only used by the correspondence runs (trusted glue, no theorems depend on it). *)
From BC Require Import Resp.Frame.
From Coq Require Import Ascii String.
Open Scope string_scope.

Definition show_ferr (e : ferr) : string :=
  match e with
  | Incomplete => "Incomplete" | BadEncoding => "BadEncoding"
  | NotInteger => "NotInteger" | NotUtf8 => "NotUtf8"
  end.

Fixpoint show_frame (f : frame) : string :=
  match f with
  | Simple s => "S" ++ show_hex s
  | Error s => "E" ++ show_hex s
  | Integer z => "I" ++ show_Z z
  | Bulk b => "B" ++ show_hex b
  | Null => "N"
  | Array items => "A(" ++ join "," (map show_frame items) ++ ")"
  end.

Definition show_outcome {A} (tot : N) (body : A -> string) (o : outcome (A * bytes)) : string :=
  match o with
  | Ok (a, r) => "ok:" ++ show_N (tot - blen r) ++ body a
  | Err e => "err:" ++ show_ferr e
  | Panic => "panic"
  | Abort => "abort"
  | OutOfFuel => "outoffuel"
  end.

Definition render_resp (b : build) (l : bytes) : string :=
  show_outcome (blen l) (fun _ : unit => "") (check (fixed b) l) ++ " | " ++
  show_outcome (blen l) (fun f => ":" ++ show_frame f) (parse (fixed b) l) ++ " | " ++
  match check (fixed b) l with
  | Ok (_, r) => let t := firstn (List.length l - List.length r) l in
                 show_outcome (blen t) (fun f => ":" ++ show_frame f) (parse (fixed b) t)
  | _ => "-"
  end.


Definition render_resp_all (b : build) (cases : list bytes) : string :=
  join nl (map (render_resp b) cases).

(* ---- connection mode ---- *)
From BC Require Import Resp.Conn.
Definition show_rres (r : rres) : string :=
  match r with
  | RFrame f => "frame:" ++ show_frame f
  | RClean => "clean" | RReset => "reset"
  | RErr e => "err:" ++ show_ferr e
  | RPanic => "panic" | RAbort => "abort" | RFuel => "outoffuel"
  end.
Definition render_read (segs : list bytes) : string :=
  join ";" (map show_rres (read_all (fixed Debug) segs [])).
Definition render_read_all (cases : list (list bytes)) : string := join nl (map render_read cases).
Definition render_write (f : frame) : string :=
  match enc f with Ok b => "ok:" ++ show_hex b | Panic => "panic" | _ => "other" end.
Definition render_write_all (cases : list frame) : string := join nl (map render_write cases).

(* ---- handler mode ---- *)
From BC Require Import Resp.Handler.
Definition show_term (t : term) : string :=
  match t with
  | TClosed => "closed" | TReset => "reset" | TFrameErr e => "frameerr:" ++ show_ferr e
  | TCmdErr _ => "cmderr" | TPanic => "panic"
  end.
Definition render_handler (segs : list bytes) (keys : list bytes) : string :=
  let '(out, m, t) := handler_run [] segs in
  show_hex out ++ "|" ++ show_term t ++ "|" ++
  join "," (map (fun k => show_hex k ++ "=" ++ match kv_get m k with Some v => "some:" ++ show_hex v | None => "none" end) keys).
Definition render_handlers (cases : list (list bytes * list bytes)) : string :=
  join nl (map (fun '(segs, keys) => render_handler segs keys) cases).
