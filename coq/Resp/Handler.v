(* Resp/Handler.v — executable model of src/net/command.rs (Command::try_from), the three command
   implementations (set.rs, get.rs, del.rs) and the per-connection loop of Handler::run in
   src/net/server.rs, over an abstract key-value map (the store is C01's subject; the handler calls
   exactly one set/get or one del per key, awaits it, then writes one reply and flushes). *)
From BC Require Import Resp.Frame Resp.Conn.

Inductive cmd := CGet (k : bytes) | CSet (k v : bytes) | CDel (ks : list bytes).
Inductive cerr := BadArguments | BadCommand | BadFrame | KeyNotUtf8.

Definition s_GET : bytes := [71; 69; 84]%N.
Definition s_SET : bytes := [83; 69; 84]%N.
Definition s_DEL : bytes := [68; 69; 76]%N.
Definition s_OK : bytes := [79; 75]%N.

(* Parser::get_string on the next item *)
Definition as_string (f : frame) : bytes + cerr :=
  match f with
  | Bulk b => if is_utf8 b then inl b else inr KeyNotUtf8
  | _ => inr BadFrame
  end.

Fixpoint del_keys (items : list frame) (acc : list bytes) : list bytes + cerr :=
  match items with
  | [] => match acc with [] => inr BadArguments | _ => inl (rev acc) end
  | f :: items' => match as_string f with inl k => del_keys items' (k :: acc) | inr e => inr e end
  end.

Definition cmd_of (f : frame) : cmd + cerr :=
  match f with
  | Array items =>
    match items with
    | [] => inr BadCommand
    | Bulk name :: args =>
      if beq name s_DEL then
        match del_keys args [] with inl ks => inl (CDel ks) | inr e => inr e end
      else if beq name s_GET then
        match args with
        | [] => inr BadArguments
        | a :: rest =>
          match as_string a with
          | inr e => inr e
          | inl k => match rest with [] => inl (CGet k) | _ => inr BadArguments end
          end
        end
      else if beq name s_SET then
        match args with
        | [] => inr BadArguments
        | a :: rest =>
          match as_string a with
          | inr e => inr e
          | inl k =>
            match rest with
            | [] => inr BadArguments
            | Bulk v :: rest' => match rest' with [] => inl (CSet k v) | _ => inr BadArguments end
            | _ :: _ => inr BadFrame
            end
          end
        end
      else inr BadCommand
    | _ :: _ => inr BadFrame
    end
  | _ => inr BadFrame
  end.

(* the store, as the map C01 proves the engine to be *)
Definition kv := amap bytes bytes.
Definition kv_get (m : kv) (k : bytes) : option bytes := aget beq m k.

Fixpoint del_all (m : kv) (ks : list bytes) (count : Z) : kv * Z :=
  match ks with
  | [] => (m, count)
  | k :: ks' =>
    match kv_get m k with
    | Some _ => del_all (adel m k) ks' (count + 1)%Z
    | None => del_all m ks' count
    end
  end.

Definition apply_cmd (m : kv) (c : cmd) : kv * frame :=
  match c with
  | CGet k => (m, match kv_get m k with Some v => Bulk v | None => Null end)
  | CSet k v => (aset m k v, Simple s_OK)
  | CDel ks => let '(m', n) := del_all m ks 0%Z in (m', Integer n)
  end.

Inductive term :=
| TClosed            (* the peer closed between two requests: Ok(()) *)
| TReset             (* the peer closed inside a frame *)
| TFrameErr (e : ferr)
| TCmdErr (e : cerr)
| TPanic.

(* what the handler does with the results of successive read_frame calls *)
Fixpoint handle (m : kv) (rs : list rres) (out : bytes) : bytes * kv * term :=
  match rs with
  | [] => (out, m, TPanic)                       (* read_all always ends in a non-frame result *)
  | RFrame f :: rs' =>
    match cmd_of f with
    | inr e => (out, m, TCmdErr e)              (* Command::try_from(frame)? : the connection is dropped *)
    | inl c =>
      let '(m', reply) := apply_cmd m c in
      match enc reply with
      | Ok b => handle m' rs' (out ++ b)
      | _ => (out, m', TPanic)
      end
    end
  | RClean :: _ => (out, m, TClosed)
  | RReset :: _ => (out, m, TReset)
  | RErr e :: _ => (out, m, TFrameErr e)
  | _ :: _ => (out, m, TPanic)
  end.

Definition handler_run (m : kv) (segs : list bytes) : bytes * kv * term :=
  handle m (read_all (fixed Release) segs []) [].

(* ---------- well-formed requests: what a client sends (src/net/client.rs, From<Set/Get/Del> for Frame) ---------- *)
Open Scope Z_scope.
Inductive req := RqGet (k : bytes) | RqSet (k v : bytes) | RqDel (ks : list bytes).

Definition small (b : bytes) : bool := Z.of_nat (length b) <=? i64_max.
Definition wf_req (r : req) : bool :=
  match r with
  | RqGet k => is_utf8 k && small k
  | RqSet k v => is_utf8 k && small k && small v
  | RqDel ks => match ks with [] => false | _ => forallb (fun k => is_utf8 k && small k) ks && (Z.of_nat (S (length ks)) <=? i64_max) end
  end.

Definition frame_of_req (r : req) : frame :=
  match r with
  | RqGet k => Array [Bulk s_GET; Bulk k]
  | RqSet k v => Array [Bulk s_SET; Bulk k; Bulk v]
  | RqDel ks => Array (Bulk s_DEL :: map Bulk ks)
  end.
Definition cmd_of_req (r : req) : cmd :=
  match r with RqGet k => CGet k | RqSet k v => CSet k v | RqDel ks => CDel ks end.
Close Scope Z_scope.
