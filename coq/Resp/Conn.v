(* Resp/Conn.v — executable model of src/net/connection.rs: the read buffer, parse_frame
   (check, then parse from the start, then advance by the CHECKED length), read_frame over a
   scripted sequence of socket reads ending in EOF, and write_frame (= [enc] in Frame.v; the
   tokio BufWriter in front of the socket is flushed at the end of every write_frame, so the peer
   sees the encoding whole). *)
From BC Require Import Resp.Frame.

Inductive rres :=
| RFrame (f : frame)      (* Ok(Some(frame)) *)
| RClean                  (* Ok(None): peer closed with an empty buffer *)
| RReset                  (* Err(ConnectionReset): peer closed inside a frame *)
| RErr (e : ferr)         (* Err(Frame(e)) *)
| RPanic | RAbort | RFuel.

Section Variant.
Variable v : variant.

(* Connection::parse_frame on the current buffer: [Ok None] = not enough data yet. *)
Definition parse_frame (buf : bytes) : outcome (option (frame * bytes)) :=
  match check v buf with
  | Ok (_, r) =>
    match parse v buf with
    | Ok (f, _) => Ok (Some (f, r))        (* self.buffer.advance(len) with the checked length *)
    | Err e => Err e | Panic => Panic | Abort => Abort | OutOfFuel => OutOfFuel
    end
  | Err Incomplete => Ok None
  | Err e => Err e | Panic => Panic | Abort => Abort | OutOfFuel => OutOfFuel
  end.

(* Repeated read_frame calls while the buffer still yields frames.  Result: what the calls
   returned, and the buffer if the next call would have to read from the socket. *)
Fixpoint drain (fuel : nat) (buf : bytes) : list rres * option bytes :=
  match fuel with
  | O => ([RFuel], None)
  | S f =>
    match parse_frame buf with
    | Ok (Some (fr, buf')) => let '(rs, b) := drain f buf' in (RFrame fr :: rs, b)
    | Ok None => ([], Some buf)
    | Err e => ([RErr e], None)
    | Panic => ([RPanic], None) | Abort => ([RAbort], None) | OutOfFuel => ([RFuel], None)
    end
  end.

(* The caller keeps calling read_frame until it returns something that is not a frame.
   [segs]: what successive socket reads deliver (non-empty chunks), then EOF. *)
Fixpoint read_all (segs : list bytes) (buf : bytes) : list rres :=
  let '(rs, ob) := drain (S (length buf)) buf in
  match ob with
  | None => rs
  | Some b =>
    match segs with
    | [] => rs ++ [match b with [] => RClean | _ => RReset end]
    | s :: segs' => rs ++ read_all segs' (b ++ s)
    end
  end.
End Variant.
