(* Resp/ClientProofs.v — end to end: a client session (Resp/Client.v) against the handler (Resp/Handler.v)
   returns, call by call, what the map says, for every segmentation of the reply stream. *)
From BC Require Import Resp.Frame Resp.Conn Resp.Handler Resp.IntProofs Resp.FrameProofs Resp.RoundTrip Resp.Prefix Resp.Stream Resp.HandlerProofs Resp.Client.
Open Scope Z_scope.

(* ---- what the map says ---- *)
Definition spec_result (m : kv) (r : req) : cres :=
  match r with
  | RqGet k => CVal (kv_get m k)
  | RqSet _ _ => CUnit
  | RqDel ks => CInt (snd (del_all m ks 0))
  end.
Fixpoint spec_results (m : kv) (rs : list req) : list cres :=
  match rs with
  | [] => []
  | r :: rs' => spec_result m r :: spec_results (fst (apply_cmd m (cmd_of_req r))) rs'
  end.

(* every stored value has a length that fits the length field *)
Definition kv_small (m : kv) : Prop := forall k v, kv_get m k = Some v -> small v = true.

Lemma kv_small_nil : kv_small [].
Proof. intros k v H. discriminate. Qed.

Lemma kv_small_set m k v : kv_small m -> small v = true -> kv_small (aset m k v).
Proof.
  intros Hm Hv k' v' H. unfold kv_get, aset in H. cbn [aget] in H.
  destruct (beq k' k); [now injection H as <-|]. exact (Hm _ _ H).
Qed.

Lemma kv_small_del m k : kv_small m -> kv_small (adel m k).
Proof.
  intros Hm k' v' H. unfold kv_get, adel in H. cbn [aget] in H.
  destruct (beq k' k); [discriminate|]. exact (Hm _ _ H).
Qed.

Lemma del_all_small : forall ks m c, kv_small m -> kv_small (fst (del_all m ks c)).
Proof.
  induction ks as [|k ks IH]; intros m c Hm; cbn [del_all]; [exact Hm|].
  destruct (kv_get m k); apply IH; [apply kv_small_del|]; exact Hm.
Qed.

Lemma del_all_count : forall ks m c, c <= snd (del_all m ks c) <= c + Z.of_nat (length ks).
Proof.
  induction ks as [|k ks IH]; intros m c; cbn [del_all length snd]; [lia|].
  destruct (kv_get m k).
  - specialize (IH (adel m k) (c + 1)). lia.
  - specialize (IH m c). lia.
Qed.

Lemma step_small m r : kv_small m -> wf_req r = true -> kv_small (fst (apply_cmd m (cmd_of_req r))).
Proof.
  intros Hm Hr. destruct r as [k|k v|ks]; cbn [cmd_of_req apply_cmd fst].
  - exact Hm.
  - cbn [wf_req] in Hr. apply andb_true_iff in Hr as [_ Hv]. now apply kv_small_set.
  - pose proof (del_all_small ks m 0 Hm) as H. destruct (del_all m ks 0). exact H.
Qed.

Lemma OK_writable : is_utf8 s_OK && no_crlf s_OK = true.
Proof. vm_compute. reflexivity. Qed.

Lemma reply_writable m r : kv_small m -> wf_req r = true -> writable (snd (apply_cmd m (cmd_of_req r))) = true.
Proof.
  intros Hm Hr. destruct r as [k|k v|ks]; cbn [cmd_of_req apply_cmd snd].
  - destruct (kv_get m k) as [v|] eqn:E; cbn [writable writable_single]; [|reflexivity]. exact (Hm _ _ E).
  - cbn [writable writable_single]. exact OK_writable.
  - pose proof (del_all_count ks m 0) as Hc. destruct (del_all m ks 0) as [m' n]. cbn [snd] in *.
    cbn [writable writable_single]. cbn [wf_req] in Hr. destruct ks as [|k0 ks]; [discriminate|].
    apply andb_true_iff in Hr as [_ Hn]. apply Z.leb_le in Hn.
    unfold in_i64, i64_min, i64_max in *. apply andb_true_iff. split; apply Z.leb_le; cbn [length] in *; lia.
Qed.

(* the reply frames of a request sequence *)
Fixpoint replies (m : kv) (rs : list req) : list frame :=
  match rs with
  | [] => []
  | r :: rs' => snd (apply_cmd m (cmd_of_req r)) :: replies (fst (apply_cmd m (cmd_of_req r))) rs'
  end.

Lemma spec_out_replies : forall rs m, kv_small m -> Forall (fun r => wf_req r = true) rs ->
  exists es, Forall2 encodes (replies m rs) es /\ fst (spec_out m rs) = concat es.
Proof.
  induction rs as [|r rs IH]; intros m Hm Hwf; cbn [replies spec_out].
  - exists []. split; [constructor|reflexivity].
  - inversion Hwf as [|? ? Hr Hrs]; subst.
    pose proof (reply_writable m r Hm Hr) as Hw. pose proof (step_small m r Hm Hr) as Hm'.
    destruct (reply_encodes m (cmd_of_req r)) as (b & Eb).
    destruct (apply_cmd m (cmd_of_req r)) as [m' reply]. cbn [fst snd] in *.
    destruct (IH m' Hm' Hrs) as (es & HF & Ho). destruct (spec_out m' rs) as [o mf]. cbn [fst] in *.
    exists (b :: es). split; [constructor; [split; assumption|exact HF]|]. rewrite Eb. cbn [concat]. now rewrite Ho.
Qed.

Lemma interpret_reply m r : wf_req r = true -> interpret r (RFrame (snd (apply_cmd m (cmd_of_req r)))) = spec_result m r.
Proof.
  intros _. destruct r as [k|k v|ks]; cbn [cmd_of_req apply_cmd snd spec_result interpret].
  - destruct (kv_get m k); reflexivity.
  - now rewrite beq_refl.
  - destruct (del_all m ks 0). reflexivity.
Qed.

Lemma session_replies : forall rs m tail, Forall (fun r => wf_req r = true) rs ->
  client_session rs (map RFrame (replies m rs) ++ tail) = spec_results m rs.
Proof.
  induction rs as [|r rs IH]; intros m tail Hwf; cbn [replies map app client_session spec_results]; [reflexivity|].
  inversion Hwf as [|? ? Hr Hrs]; subst. rewrite interpret_reply by exact Hr. f_equal. apply IH. exact Hrs.
Qed.

(* End to end: the calls of a session, each answered by the handler, return what the map says — whatever
   the segmentation of the reply stream. *)
Theorem client_server b : forall rs segs m, kv_small m -> Forall (fun r => wf_req r = true) rs ->
  concat segs = fst (spec_out m rs) ->
  client_session rs (read_all (fixed b) segs []) = spec_results m rs.
Proof.
  intros rs segs m Hm Hwf Hcat. destruct (spec_out_replies rs m Hm Hwf) as (es & HF & Ho).
  rewrite (read_all_stream b segs (replies m rs) es [] HF) by (cbn [app]; congruence).
  apply session_replies. exact Hwf.
Qed.

(* ... and what the server receives from those calls is understood as the commands the calls name *)
Theorem client_requests_understood r : wf_req r = true ->
  (exists e, enc (frame_of_req r) = Ok e) /\ cmd_of (frame_of_req r) = inl (cmd_of_req r).
Proof. intros H. split; [exact (enc_req_ok r H)|exact (cmd_of_frame_of_req r H)]. Qed.

(* read-your-writes through the whole stack: set then get on one connection returns the bytes that were set *)
Corollary set_then_get b m k v segs : kv_small m -> wf_req (RqSet k v) = true -> wf_req (RqGet k) = true ->
  concat segs = fst (spec_out m [RqSet k v; RqGet k]) ->
  client_session [RqSet k v; RqGet k] (read_all (fixed b) segs []) = [CUnit; CVal (Some v)].
Proof.
  intros Hm H1 H2 Hc. rewrite (client_server b _ segs m Hm) by (try exact Hc; repeat constructor; assumption).
  cbn [spec_results spec_result cmd_of_req apply_cmd fst]. unfold kv_get, aset. cbn [aget]. now rewrite beq_refl.
Qed.

Lemma spec_out_small : forall rs m, kv_small m -> Forall (fun r => wf_req r = true) rs -> kv_small (snd (spec_out m rs)).
Proof.
  induction rs as [|r rs IH]; intros m Hm Hwf; cbn [spec_out]; [exact Hm|].
  inversion Hwf as [|? ? Hr Hrs]; subst. pose proof (step_small m r Hm Hr) as Hm'.
  destruct (apply_cmd m (cmd_of_req r)) as [m' rp]. cbn [fst] in Hm'. specialize (IH m' Hm' Hrs).
  destruct (spec_out m' rs). exact IH.
Qed.

Lemma session_then : forall rs m r x, Forall (fun r => wf_req r = true) rs ->
  client_session (rs ++ [r]) (map RFrame (replies m rs) ++ [x]) = spec_results m rs ++ [interpret r x].
Proof.
  induction rs as [|r0 rs IH]; intros m r x Hwf; cbn [replies map app client_session spec_results].
  - destruct x; reflexivity.
  - inversion Hwf as [|? ? Hr Hrs]; subst. rewrite interpret_reply by exact Hr. f_equal. apply IH. exact Hrs.
Qed.

(* a reply stream cut inside a frame: the calls answered so far return the map's answers, the next one a reset *)
Theorem client_truncated b : forall rs r segs m part e, kv_small m -> Forall (fun r => wf_req r = true) rs -> wf_req r = true ->
  enc (snd (apply_cmd (snd (spec_out m rs)) (cmd_of_req r))) = Ok e -> sprefix part e -> part <> [] ->
  concat segs = fst (spec_out m rs) ++ part ->
  client_session (rs ++ [r]) (read_all (fixed b) segs []) = spec_results m rs ++ [CReset].
Proof.
  intros rs r segs m part e Hm Hwf Hr He Hp Hne Hcat.
  destruct (spec_out_replies rs m Hm Hwf) as (es & HF & Ho).
  assert (Henc : encodes (snd (apply_cmd (snd (spec_out m rs)) (cmd_of_req r))) e).
  { split; [apply reply_writable; [apply spec_out_small|]; assumption|exact He]. }
  rewrite (read_all_truncated b segs (replies m rs) es _ e part [] HF Henc Hp Hne) by (cbn [app]; congruence).
  rewrite session_then by exact Hwf. reflexivity.
Qed.
