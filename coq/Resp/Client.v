(* Resp/Client.v — executable model of src/net/client.rs (Client::set / get / del: build the request
   frame [frame_of_req], write it, read one frame, interpret it).  Theorems: Resp/ClientProofs.v. *)
From BC Require Import Resp.Frame Resp.Conn Resp.Handler.
Open Scope Z_scope.

(* what a call returns *)
Inductive cres :=
| CUnit                          (* set: Ok(()) *)
| CVal (o : option bytes)        (* get: Ok(Some(v)) / Ok(None) *)
| CInt (n : Z)                   (* del: Ok(n) *)
| CStorageErr (msg : bytes)      (* an error frame: Err(Storage(msg)) *)
| CBadFrame (f : frame)          (* a frame this call does not expect: Err(Command(BadFrame(f))) *)
| CReset                         (* the peer closed: Err(Io(ConnectionReset)) *)
| CFrameErr (e : ferr)           (* Err(Frame(e)) *)
| CBroken.

(* read_response, then the match of the call *)
Definition interpret (r : req) (x : rres) : cres :=
  match x with
  | RFrame (Error e) => CStorageErr e
  | RFrame f =>
    match r, f with
    | RqSet _ _, Simple s => if beq s s_OK then CUnit else CBadFrame f
    | RqGet _, Bulk s => CVal (Some s)
    | RqGet _, Null => CVal None
    | RqDel _, Integer n => CInt n
    | _, _ => CBadFrame f
    end
  | RClean | RReset => CReset
  | RErr e => CFrameErr e
  | _ => CBroken
  end.

(* successive calls on one connection: [xs] is what successive read_frame calls return; the session is over
   after a result that is not a frame *)
Fixpoint client_session (rs : list req) (xs : list rres) : list cres :=
  match rs, xs with
  | r :: rs', x :: xs' => interpret r x :: match x with RFrame _ => client_session rs' xs' | _ => [] end
  | _, _ => []
  end.

(* the bytes the calls write *)
Definition client_writes (rs : list req) : list (outcome bytes) := map (fun r => enc (frame_of_req r)) rs.

