(* Resp/Frame.v — executable model of src/net/frame.rs (Frame::check, Frame::parse, get_line,
   get_integer, skip) as it stands after the fix: commits D4-D7, together with the pinned
   (pre-fix) behaviour selected by a [variant] record so that the pinned defects stay refutable.

   Cursor representation: the functions take the buffer SUFFIX that starts at the cursor and return
   the suffix that is left, so "consumed length" is a difference of lengths.  The code never looks
   at the last byte of the buffer while scanning a line or a number ([end = len - 1]); in suffix
   terms: scanning stops when one byte is left.  The pinned integer reader compared the ABSOLUTE
   index with 18; only for it does [abs] (absolute position of the suffix) matter.

   Outcomes: [Ok] | [Err e] (the Rust Error enum) | [Panic] (index out of range, arithmetic
   overflow in a debug build) | [Abort] (stack exhaustion, allocation failure) | [OutOfFuel]
   (model artefact, proved unreachable in FrameProofs.v). *)
From BC Require Export Base.Bytes.
Open Scope Z_scope.

Inductive ferr := Incomplete | BadEncoding | NotInteger | NotUtf8.
Inductive outcome (A : Type) :=
| Ok (a : A) | Err (e : ferr) | Panic | Abort | OutOfFuel.
Arguments Ok {A}. Arguments Err {A}. Arguments Panic {A}. Arguments Abort {A}. Arguments OutOfFuel {A}.

Inductive build := Debug | Release.

Record variant := {
  v_sign_guard : bool;      (* D4: [start > end] check after the sign byte *)
  v_rel_digits : bool;      (* D5: 18 unchecked digits counted from the number, not the buffer *)
  v_depth : nat;            (* D6: nesting budget; *)
  v_depth_abort : bool;     (*     what happens beyond it: false = BadEncoding, true = stack overflow *)
  v_build : build
}.
Definition max_depth : nat := 32.
Definition fixed (b : build) : variant :=
  {| v_sign_guard := true; v_rel_digits := true; v_depth := max_depth; v_depth_abort := false; v_build := b |}.
(* The pinned code recursed without limit; [stack] is how many nested calls the thread stack holds. *)
Definition pinned (b : build) (stack : nat) : variant :=
  {| v_sign_guard := false; v_rel_digits := false; v_depth := stack; v_depth_abort := true; v_build := b |}.

Definition i64_min := - 2 ^ 63.
Definition i64_max := 2 ^ 63 - 1.
Definition in_i64 (z : Z) : bool := (i64_min <=? z) && (z <=? i64_max).
Definition wrap64 (z : Z) : Z := (z + 2 ^ 63) mod 2 ^ 64 - 2 ^ 63.

Definition digit (b : byte) : option Z :=
  if (48 <=? b)%N && (b <=? 57)%N then Some (Z.of_N b - 48) else None.

(* One accumulation step: positive numbers add, negative subtract. *)
Definition acc (pos : bool) (num d : Z) : Z := if pos then num * 10 + d else num * 10 - d.

(* Unchecked phase ([num = num * 10 +/- n] on i64).  [budget] = how many more digits the phase may
   take ([None]: the guard [idx != 18] can never become false, pinned code at offset > 18). *)
Inductive ph1 := Ph1 (num : Z) (rest : bytes) (consumed : N) | Ph1Panic.

Fixpoint unchecked (b : build) (pos : bool) (budget : option N) (num : Z) (l : bytes) (consumed : N) : ph1 :=
  match l with
  | [] | [_] => Ph1 num l consumed
  | c :: tl =>
    match budget with
    | Some 0%N => Ph1 num l consumed
    | _ =>
      match digit c with
      | None => Ph1 num l consumed
      | Some d =>
        let n' := acc pos num d in
        let budget' := match budget with Some k => Some (N.pred k) | None => None end in
        if in_i64 n' then unchecked b pos budget' n' tl (consumed + 1)
        else match b with
             | Debug => Ph1Panic                         (* attempt to multiply/add with overflow *)
             | Release => unchecked b pos budget' (wrap64 n') tl (consumed + 1)
             end
      end
    end
  end.

(* Checked phase: Option<i64> with checked_mul then checked_add / checked_sub. *)
Fixpoint checked (pos : bool) (num : option Z) (l : bytes) (consumed : N) : option Z * bytes * N :=
  match l with
  | [] | [_] => (num, l, consumed)
  | c :: tl =>
    match digit c with
    | None => (num, l, consumed)
    | Some d =>
      let num' := match num with
                  | None => None
                  | Some n => if in_i64 (n * 10) && in_i64 (acc pos n d) then Some (acc pos n d) else None
                  end in
      checked pos num' tl (consumed + 1)
    end
  end.

Definition budget_pinned (start : N) : option N :=
  if (start <=? 18)%N then Some (18 - start)%N else None.
Definition budget_fixed : option N := Some 18%N.

Section Variant.
Variable v : variant.

(* [tot] = length of the whole buffer, [l] = buffer suffix at the cursor (so the absolute cursor
   position is [tot - length l]; only the pinned variant looks at it).
   Result: the value and the suffix after the terminating two bytes. *)
Definition get_integer (tot : N) (l : bytes) : outcome (Z * bytes) :=
  match l with
  | [] => Err Incomplete                                        (* peek_byte *)
  | c :: tl =>
    let '(pos, l1, signlen) :=
      if (c =? 45)%N then (false, tl, 1%N) else if (c =? 43)%N then (true, tl, 1%N) else (true, l, 0%N) in
    let start := (tot - blen l1)%N in
    match l1 with
    | [] => if v_sign_guard v then Err Incomplete else Panic    (* buf[idx] with idx = len *)
    | _ =>
      match unchecked (v_build v) pos (if v_rel_digits v then budget_fixed else budget_pinned start) 0 l1 0 with
      | Ph1Panic => Panic
      | Ph1 n1 l2 c1 =>
        let '(num, l3, c2) := checked pos (Some n1) l2 c1 in
        match l3 with
        | [] => Err Incomplete                                   (* not reachable: l1 <> [] *)
        | [_] => Err Incomplete                                  (* idx == end *)
        | c' :: _ :: rest =>
          if (c2 =? 0)%N || negb (c' =? 13)%N then Err NotInteger
          else match num with
               | Some x => Ok (x, rest)
               | None => Err NotInteger
               end
        end
      end
    end
  end.

(* get_line: scan up to, not including, the last byte; '\r' ends the line and the byte after it
   is skipped whatever it is; '\n' is an error. *)
Fixpoint get_line_acc (l : bytes) (acc : bytes) : outcome (bytes * bytes) :=
  match l with
  | [] | [_] => Err Incomplete
  | c :: ((_ :: rest) as tl) =>
    if (c =? 13)%N then Ok (rev acc, rest)
    else if (c =? 10)%N then Err BadEncoding
    else get_line_acc tl (c :: acc)
  end.
Definition get_line (l : bytes) : outcome (bytes * bytes) := get_line_acc l [].

Definition skip (l : bytes) (n : Z) : outcome bytes :=
  if Z.of_nat (length l) <? n then Err Incomplete else Ok (skipn (Z.to_nat n) l).

Inductive frame :=
| Simple (s : bytes) | Error (s : bytes) | Integer (z : Z) | Bulk (b : bytes) | Array (l : list frame) | Null.

(* The element loop of an array.  [fuel] bounds the iterations: every element consumes at least
   one byte, so [length l + 1] is enough (proved); [n] may be astronomically large. *)
Fixpoint items_loop {A} (p : bytes -> outcome (A * bytes)) (fuel : nat) (n : Z) (l : bytes) (acc : list A)
  : outcome (list A * bytes) :=
  if n <=? 0 then Ok (rev acc, l) else
  match fuel with
  | O => OutOfFuel
  | S f =>
    match p l with
    | Ok (x, l') => items_loop p f (n - 1) l' (x :: acc)
    | Err e => Err e | Panic => Panic | Abort => Abort | OutOfFuel => OutOfFuel
    end
  end.

Definition lift {A B} (o : outcome A) (f : A -> outcome B) : outcome B :=
  match o with Ok a => f a | Err e => Err e | Panic => Panic | Abort => Abort | OutOfFuel => OutOfFuel end.

Definition depth_exceeded {A} : outcome A := if v_depth_abort v then Abort else Err BadEncoding.

(* Frame::parse.  [d] = nesting budget left, [tot] = length of the whole buffer. *)
Fixpoint parse_d (tot : N) (d : nat) (l : bytes) : outcome (frame * bytes) :=
  match l with
  | [] => Err Incomplete
  | c :: l1 =>
    if (c =? 43)%N then                                          (* '+' *)
      lift (get_line l1) (fun '(s, r) => if is_utf8 s then Ok (Simple s, r) else Err NotUtf8)
    else if (c =? 45)%N then                                     (* '-' *)
      lift (get_line l1) (fun '(s, r) => if is_utf8 s then Ok (Error s, r) else Err NotUtf8)
    else if (c =? 58)%N then                                     (* ':' *)
      lift (get_integer tot l1) (fun '(z, r) => Ok (Integer z, r))
    else if (c =? 36)%N then                                     (* '$' *)
      match l1 with
      | [] => Err Incomplete
      | c1 :: _ =>
        if (c1 =? 45)%N then
          lift (get_line l1) (fun '(s, r) => if beq s [45; 49]%N then Ok (Null, r) else Err BadEncoding)
        else
          lift (get_integer tot l1) (fun '(n, r) =>
            if n <? 0 then Err BadEncoding
            else if Z.of_nat (length r) <? n + 2 then Err Incomplete
            else Ok (Bulk (firstn (Z.to_nat n) r), skipn (Z.to_nat (n + 2)) r))
      end
    else if (c =? 42)%N then                                     (* '*' *)
      match d with
      | O => depth_exceeded
      | S d' =>
        lift (get_integer tot l1) (fun '(n, r) =>
          if n <? 0 then Err BadEncoding
          else lift (items_loop (parse_d tot d') (S (length r)) n r [])
                    (fun '(items, r') => Ok (Array items, r')))
      end
    else Err BadEncoding
  end.

(* Frame::check: same walk without building anything. *)
Fixpoint check_d (tot : N) (d : nat) (l : bytes) : outcome (unit * bytes) :=
  match l with
  | [] => Err Incomplete
  | c :: l1 =>
    if (c =? 43)%N || (c =? 45)%N then
      lift (get_line l1) (fun '(_, r) => Ok (tt, r))
    else if (c =? 58)%N then
      lift (get_integer tot l1) (fun '(_, r) => Ok (tt, r))
    else if (c =? 36)%N then
      match l1 with
      | [] => Err Incomplete
      | c1 :: _ =>
        if (c1 =? 45)%N then lift (skip l1 4) (fun r => Ok (tt, r))
        else
          lift (get_integer tot l1) (fun '(n, r) =>
            if n <? 0 then Err BadEncoding
            else lift (skip r (n + 2)) (fun r' => Ok (tt, r')))
      end
    else if (c =? 42)%N then
      match d with
      | O => depth_exceeded
      | S d' =>
        lift (get_integer tot l1) (fun '(n, r) =>
          lift (items_loop (check_d tot d') (S (length r)) n r [])
               (fun '(_, r') => Ok (tt, r')))
      end
    else Err BadEncoding
  end.

(* The public entry points on a whole buffer.  The fixed code accepts [max_depth] nested arrays:
   the check [depth >= MAX_DEPTH] is made at depth 0..32, so 32 levels pass. *)
Definition parse (l : bytes) : outcome (frame * bytes) := parse_d (blen l) (v_depth v) l.
Definition check (l : bytes) : outcome (unit * bytes) := check_d (blen l) (v_depth v) l.

End Variant.

(* ---------- the writer side: Connection::write_frame ---------- *)
Definition ascii_digit (d : N) : N := (48 + d)%N.
Fixpoint dec_digits_fuel (fuel : nat) (n : N) (acc : bytes) : bytes :=
  match fuel with
  | O => acc
  | S f => let acc' := ascii_digit (n mod 10) :: acc in
           if (n <? 10)%N then acc' else dec_digits_fuel f (n / 10)%N acc'
  end.
Definition dec_N (n : N) : bytes := dec_digits_fuel 20 n [].        (* 20 digits cover 2^64 *)
Definition dec_Z (z : Z) : bytes :=
  if z <? 0 then 45%N :: dec_N (Z.to_N (- z)) else dec_N (Z.to_N z).

Definition crlf : bytes := [13; 10]%N.

Definition enc_single (f : frame) : outcome bytes :=
  match f with
  | Simple s => Ok (43%N :: s ++ crlf)
  | Error s => Ok (45%N :: s ++ crlf)
  | Integer z => Ok (58%N :: dec_Z z ++ crlf)
  | Null => Ok ([36; 45; 49; 13; 10]%N)
  | Bulk b => Ok (36%N :: dec_N (blen b) ++ crlf ++ b ++ crlf)
  | Array _ => Panic                                             (* unimplemented!() *)
  end.

Fixpoint enc_items (l : list frame) : outcome bytes :=
  match l with
  | [] => Ok []
  | f :: l' =>
    match enc_single f with
    | Ok b => match enc_items l' with Ok bs => Ok (b ++ bs) | o => o end
    | o => o
    end
  end.

Definition enc (f : frame) : outcome bytes :=
  match f with
  | Array items =>
    match enc_items items with
    | Ok bs => Ok (42%N :: dec_N (N.of_nat (length items)) ++ crlf ++ bs)
    | o => o
    end
  | _ => enc_single f
  end.
