(* Resp/HandlerProofs.v — the handler answers well-formed request streams exactly as the map,
   one reply per request in order, for every segmentation (C06); on arbitrary input it never
   panics and changes the store only through accepted SET/DEL commands (C10). *)
From BC Require Import Resp.Frame Resp.Conn Resp.Handler Resp.IntProofs Resp.FrameProofs Resp.RoundTrip Resp.Prefix Resp.Stream.
Open Scope Z_scope.

Lemma del_keys_ok : forall ks acc, forallb (fun k => is_utf8 k && small k) ks = true ->
  del_keys (map Bulk ks) acc = match rev acc ++ ks with [] => inr BadArguments | l => inl l end.
Proof.
  induction ks as [|k ks IH]; intros acc H; cbn [map del_keys].
  - rewrite app_nil_r. destruct acc as [|a acc]; [reflexivity|]. cbn [rev]. destruct (rev acc ++ [a]) eqn:E; [destruct (rev acc); discriminate|reflexivity].
  - cbn [forallb] in H. apply andb_true_iff in H as [Hk H]. apply andb_true_iff in Hk as [Hu _].
    cbn [as_string]. rewrite Hu. rewrite IH by exact H. cbn [rev]. rewrite <- app_assoc. reflexivity.
Qed.

Lemma cmd_of_frame_of_req r : wf_req r = true -> cmd_of (frame_of_req r) = inl (cmd_of_req r).
Proof.
  destruct r as [k|k v|ks]; cbn [wf_req frame_of_req cmd_of cmd_of_req]; intros H.
  - apply andb_true_iff in H as [Hu _]. change (beq s_GET s_DEL) with false. change (beq s_GET s_GET) with true. cbv iota.
    cbn [as_string]. rewrite Hu. reflexivity.
  - apply andb_true_iff in H as [H _]. apply andb_true_iff in H as [Hu _].
    change (beq s_SET s_DEL) with false. change (beq s_SET s_GET) with false. change (beq s_SET s_SET) with true. cbv iota.
    cbn [as_string]. rewrite Hu. reflexivity.
  - destruct ks as [|k ks]; [discriminate|]. apply andb_true_iff in H as [H _]. change (beq s_DEL s_DEL) with true. cbv iota.
    rewrite del_keys_ok by exact H. reflexivity.
Qed.

Lemma writable_req r : wf_req r = true -> writable (frame_of_req r) = true.
Proof.
  assert (Hlen : forall (l : list frame), (length l <= 4)%nat -> Z.of_nat (length l) <=? i64_max = true).
  { intros l Hl. apply Z.leb_le. unfold i64_max. lia. }
  destruct r as [k|k v|ks]; cbn [wf_req frame_of_req writable]; intros H.
  - apply andb_true_iff in H as [_ Hs]. cbn [forallb writable_single]. unfold small in Hs. rewrite Hs. reflexivity.
  - apply andb_true_iff in H as [H Hv]. apply andb_true_iff in H as [_ Hk]. cbn [forallb writable_single]. unfold small in *. rewrite Hk, Hv. reflexivity.
  - destruct ks as [|k0 ks]; [discriminate|]. apply andb_true_iff in H as [H Hcnt]. apply andb_true_iff. split.
    + cbn [forallb writable_single]. change (Z.of_nat (length s_DEL) <=? i64_max) with true. cbn [andb].
      revert H. generalize (k0 :: ks) as l. induction l as [|k l IH]; intros H; [reflexivity|].
      cbn [forallb map] in *. apply andb_true_iff in H as [Hk H]. apply andb_true_iff in Hk as [_ Hs]. unfold small in Hs.
      cbn [writable_single]. rewrite Hs. cbn [andb]. apply IH. exact H.
    + cbn [length]. rewrite map_length. exact Hcnt.
Qed.

Lemma enc_req_ok r : wf_req r = true -> exists e, enc (frame_of_req r) = Ok e.
Proof.
  intros _. destruct r as [k|k v|ks]; cbn [frame_of_req enc enc_items enc_single]; eauto.
  assert (H : exists bi, enc_items (map Bulk ks) = Ok bi).
  { induction ks as [|k ks [bi IH]]; cbn [map enc_items enc_single]; [eauto|]. rewrite IH. eauto. }
  destruct H as (bi & ->). eauto.
Qed.

(* replies are always encodable: the writer never meets a nested array *)
Lemma reply_encodes m c : exists b, enc (snd (apply_cmd m c)) = Ok b.
Proof.
  destruct c as [k|k v|ks]; cbn [apply_cmd snd].
  - destruct (kv_get m k); cbn; eauto.
  - cbn; eauto.
  - destruct (del_all m ks 0). cbn; eauto.
Qed.

(* the map's answers *)
Fixpoint spec_out (m : kv) (rs : list req) : bytes * kv :=
  match rs with
  | [] => ([], m)
  | r :: rs' =>
    let '(m', reply) := apply_cmd m (cmd_of_req r) in
    let '(out, mf) := spec_out m' rs' in
    (match enc reply with Ok b => b | _ => [] end ++ out, mf)
  end.

Lemma handle_requests : forall rs m out, Forall (fun r => wf_req r = true) rs ->
  handle m (map RFrame (map frame_of_req rs) ++ [RClean]) out =
  (out ++ fst (spec_out m rs), snd (spec_out m rs), TClosed).
Proof.
  induction rs as [|r rs IH]; intros m out H; cbn [map app handle spec_out fst snd].
  - rewrite app_nil_r. reflexivity.
  - inversion H as [|? ? Hr Hrs]; subst. rewrite (cmd_of_frame_of_req r Hr).
    destruct (apply_cmd m (cmd_of_req r)) as [m' reply] eqn:Ea.
    destruct (reply_encodes m (cmd_of_req r)) as (b & Eb). rewrite Ea in Eb. cbn [snd] in Eb. rewrite Eb.
    rewrite IH by exact Hrs. destruct (spec_out m' rs) as [o mf]. cbn [fst snd]. rewrite app_assoc. reflexivity.
Qed.

Definition handler_from (m : kv) (segs : list bytes) : bytes * kv * term :=
  handle m (read_all (fixed Release) segs []) [].

Theorem handler_replies : forall rs es segs m, Forall (fun r => wf_req r = true) rs ->
  Forall2 (fun r e => enc (frame_of_req r) = Ok e) rs es -> concat segs = concat es ->
  handler_from m segs = (fst (spec_out m rs), snd (spec_out m rs), TClosed).
Proof.
  intros rs es segs m Hwf He Hcat. unfold handler_from.
  assert (HF : Forall2 encodes (map frame_of_req rs) es).
  { clear Hcat. induction He as [|r e rs es Hre He IH]; cbn [map]; [constructor|].
    inversion Hwf as [|? ? Hr Hrs]; subst. constructor; [split; [apply writable_req; exact Hr|exact Hre]|apply IH; exact Hrs]. }
  rewrite (read_all_stream Release segs (map frame_of_req rs) es [] HF Hcat).
  rewrite handle_requests by exact Hwf. reflexivity.
Qed.

(* ---------- arbitrary input (C10) ---------- *)
Local Close Scope Z_scope.
Definition harmless (r : rres) : Prop := match r with RPanic | RAbort | RFuel => False | _ => True end.

Lemma parse_frame_good b buf :
  match parse_frame (fixed b) buf with Ok _ | Err _ => True | _ => False end.
Proof.
  unfold parse_frame. pose proof (check_total b buf) as Hc. pose proof (parse_total b buf) as Hp.
  destruct (check (fixed b) buf) as [[u r]|e| | |]; cbn in Hc; try contradiction.
  - destruct (parse (fixed b) buf) as [[f r']|e| | |]; cbn in Hp; try contradiction; exact I.
  - destruct e; exact I.
Qed.

Lemma parse_frame_shrinks b buf f r : parse_frame (fixed b) buf = Ok (Some (f, r)) -> (length r < length buf)%nat.
Proof.
  unfold parse_frame. destruct (check (fixed b) buf) as [[u r0]|e| | |] eqn:Ec; try discriminate.
  - destruct (parse (fixed b) buf) as [[f0 r1]|e| | |]; try discriminate. intros H. inversion H; subst.
    unfold check in Ec. destruct (check_d_tc b (blen buf) (v_depth (fixed b)) buf) as [_ Hs]. apply (Hs u r Ec).
  - destruct e; discriminate.
Qed.

Lemma drain_shape b : forall fuel buf, (length buf < fuel)%nat ->
  exists fs, (exists b', drain (fixed b) fuel buf = (map RFrame fs, Some b')) \/
             (exists e, drain (fixed b) fuel buf = (map RFrame fs ++ [RErr e], None)).
Proof.
  induction fuel as [|fuel IH]; intros buf Hf; [lia|]. cbn [drain].
  pose proof (parse_frame_good b buf) as Hg.
  destruct (parse_frame (fixed b) buf) as [[[f r]|]|e| | |] eqn:E; try contradiction.
  - pose proof (parse_frame_shrinks b buf f r E) as Hs.
    destruct (IH r ltac:(lia)) as (fs & [(b' & ->)|(e & ->)]); exists (f :: fs); cbn [map app]; [left|right]; eauto.
  - exists []. left. exists buf. reflexivity.
  - exists []. right. exists e. reflexivity.
Qed.

Lemma frames_harmless fs : Forall harmless (map RFrame fs).
Proof. induction fs; constructor; [exact I|assumption]. Qed.
Lemma frames_are_frames fs : Forall (fun x => exists f, x = RFrame f) (map RFrame fs).
Proof. induction fs; constructor; [eauto|assumption]. Qed.

(* the results of the read_frame calls are frames followed by exactly one clean end, reset or error *)
Lemma read_all_ends b : forall segs buf, exists fs r, read_all (fixed b) segs buf = map RFrame fs ++ [r] /\
  (r = RClean \/ r = RReset \/ exists e, r = RErr e).
Proof.
  induction segs as [|s segs IH]; intros buf; cbn [read_all].
  - destruct (drain_shape b (S (length buf)) buf ltac:(lia)) as (fs & [(b' & ->)|(e & ->)]).
    + exists fs, (match b' with [] => RClean | _ => RReset end). split; [reflexivity|]. destruct b'; auto.
    + exists fs, (RErr e). split; [reflexivity|]. eauto.
  - destruct (drain_shape b (S (length buf)) buf ltac:(lia)) as (fs & [(b' & ->)|(e & ->)]).
    + destruct (IH (b' ++ s)) as (fs' & r & E & Hr). exists (fs ++ fs'), r. rewrite E, map_app, app_assoc. auto.
    + exists fs, (RErr e). split; [reflexivity|]. eauto.
Qed.

Theorem read_all_harmless b : forall segs buf, Forall harmless (read_all (fixed b) segs buf).
Proof.
  intros segs buf. destruct (read_all_ends b segs buf) as (fs & r & -> & Hr).
  apply Forall_app. split; [apply frames_harmless|]. constructor; [|constructor].
  destruct Hr as [->|[->|(e & ->)]]; exact I.
Qed.

(* the handler never ends in the panic outcome, whatever bytes arrive in whatever pieces *)
Lemma handle_no_panic : forall rs r m out, Forall (fun x => exists f, x = RFrame f) rs -> (forall f, r <> RFrame f) -> harmless r ->
  snd (handle m (rs ++ [r]) out) <> TPanic.
Proof.
  induction rs as [|x rs IH]; intros r m out Hrs Hr Hh; cbn [app handle].
  - destruct r; cbn; try discriminate; try contradiction. exfalso. eapply Hr. reflexivity.
  - inversion Hrs as [|? ? (f & ->) Hrs']; subst. destruct (cmd_of f) as [c|e]; [|cbn; discriminate].
    destruct (apply_cmd m c) as [m' reply] eqn:Ea. destruct (reply_encodes m c) as (bb & Eb). rewrite Ea in Eb. cbn [snd] in Eb. rewrite Eb.
    apply IH; assumption.
Qed.

Theorem handler_total m segs : snd (handler_from m segs) <> TPanic.
Proof.
  unfold handler_from. destruct (read_all_ends Release segs []) as (fs & r & E & Hr). rewrite E.
  apply handle_no_panic; [apply frames_are_frames| |]; destruct Hr as [->|[->|(e & ->)]]; try discriminate; exact I.
Qed.

(* the store after a connection = the store before, with exactly the accepted commands applied, in order *)
Fixpoint accepted (rs : list rres) : list cmd :=
  match rs with
  | RFrame f :: rs' => match cmd_of f with inl c => c :: accepted rs' | inr _ => [] end
  | _ => []
  end.
Definition apply_all (m : kv) (cs : list cmd) : kv := fold_left (fun m c => fst (apply_cmd m c)) cs m.

Theorem handler_store_effect : forall rs m out, snd (fst (handle m rs out)) = apply_all m (accepted rs).
Proof.
  induction rs as [|x rs IH]; intros m out; cbn [handle accepted apply_all fold_left fst snd]; [reflexivity|].
  destruct x; cbn [fst snd]; try reflexivity.
  destruct (cmd_of f) as [c|e]; [|reflexivity]. destruct (apply_cmd m c) as [m' reply] eqn:Ea.
  destruct (reply_encodes m c) as (bb & Eb). rewrite Ea in Eb. cbn [snd] in Eb. rewrite Eb.
  rewrite IH. cbn [fold_left]. rewrite Ea. reflexivity.
Qed.

(* GET never changes the store; only accepted SET and DEL do *)
Lemma get_readonly m k : fst (apply_cmd m (CGet k)) = m.
Proof. reflexivity. Qed.
