(* Resp/FrameProofs.v — totality of Frame::check / Frame::parse in the repaired code:
   every outcome is [Ok] or [Err]; a successful call consumes at least one byte; the element loop
   never runs out of fuel; nesting is bounded by construction ([parse_d] recurses on the budget). *)
From BC Require Import Resp.Frame Resp.IntProofs.
Open Scope Z_scope.

Definition good {A} (o : outcome A) : Prop :=
  match o with Ok _ | Err _ => True | _ => False end.

(* "total and consuming": never panics, and success strictly shortens the suffix *)
Definition tc {A} (p : bytes -> outcome (A * bytes)) : Prop :=
  forall l, good (p l) /\ forall a r, p l = Ok (a, r) -> (length r < length l)%nat.

Lemma lift_good {A B} (o : outcome A) (f : A -> outcome B) :
  good o -> (forall a, o = Ok a -> good (f a)) -> good (lift o f).
Proof. destruct o; cbn; intros H Hf; auto. Qed.

Lemma lift_ok {A B} (o : outcome A) (f : A -> outcome B) b :
  lift o f = Ok b -> exists a, o = Ok a /\ f a = Ok b.
Proof. destruct o; cbn; intros H; try discriminate. eauto. Qed.

(* ---- get_line ---- *)
Lemma get_line_acc_tc : forall l acc,
  good (get_line_acc l acc) /\ forall s r, get_line_acc l acc = Ok (s, r) -> (length r + 2 <= length l)%nat.
Proof.
  induction l as [|c l IH]; intros acc; [cbn; split; [exact I|discriminate]|].
  destruct l as [|y rest]; [cbn; split; [exact I|discriminate]|].
  cbn [get_line_acc]. destruct (c =? 13)%N.
  - split; [exact I|]. intros s r H. inversion H; subst. cbn [length]. lia.
  - destruct (c =? 10)%N; [split; [exact I|discriminate]|].
    destruct (IH (c :: acc)) as [G S]. split; [exact G|].
    intros s r H. specialize (S s r H). cbn [length] in *. lia.
Qed.

Lemma get_line_tc : tc get_line.
Proof.
  intros l. destruct (get_line_acc_tc l []) as [G S]. split; [exact G|].
  intros a r H. specialize (S a r H). lia.
Qed.

(* ---- get_integer ---- *)
Lemma sign_of_length l pos rest : sign_of l = (pos, rest) -> (length rest <= length l)%nat.
Proof.
  destruct l as [|c tl]; cbn [sign_of]; [intros H; inversion H; cbn; lia|].
  destruct (c =? 45)%N; [intros H; inversion H; cbn; lia|].
  destruct (c =? 43)%N; intros H; inversion H; cbn; lia.
Qed.

Lemma get_integer_tc b tot : tc (get_integer (fixed b) tot).
Proof.
  intros l. split.
  - destruct (get_integer_total b tot l) as (H1 & H2 & H3).
    destruct (get_integer (fixed b) tot l); cbn; auto.
  - intros z r H. apply get_integer_exact in H as (pos & bs & x & Hs & _).
    apply sign_of_length in Hs. rewrite app_length in Hs. cbn [length] in Hs. lia.
Qed.

(* ---- skip ---- *)
Lemma skip_good l n : good (skip l n).
Proof. unfold skip. destruct (_ <? _); exact I. Qed.

Lemma skip_ok l n r : 0 < n -> skip l n = Ok r -> (length r < length l)%nat.
Proof.
  unfold skip. intros Hn. destruct (Z.of_nat (length l) <? n) eqn:E; [discriminate|].
  intros H. inversion H; subst. apply Z.ltb_ge in E. rewrite skipn_length. lia.
Qed.

(* ---- the element loop ---- *)
Lemma items_loop_tc {A} (p : bytes -> outcome (A * bytes)) : tc p ->
  forall fuel n l acc, (length l < fuel)%nat ->
    good (items_loop p fuel n l acc) /\
    forall xs r, items_loop p fuel n l acc = Ok (xs, r) -> (length r <= length l)%nat.
Proof.
  intros Hp. induction fuel as [|f IH]; intros n l acc Hf; [lia|].
  cbn [items_loop]. destruct (n <=? 0).
  - split; [exact I|]. intros xs r H. inversion H; subst. lia.
  - destruct (Hp l) as [G S]. destruct (p l) as [[x l']| | | |] eqn:E; cbn in G; try contradiction.
    + specialize (S x l' eq_refl). destruct (IH (n - 1) l' (x :: acc)) as [G' S']; [lia|].
      split; [exact G'|]. intros xs r H. specialize (S' xs r H). lia.
    + split; [exact I|discriminate].
Qed.

(* ---- parse and check ---- *)
Ltac byte_cases c :=
  destruct (c =? 43)%N; [|destruct (c =? 45)%N; [|destruct (c =? 58)%N; [|destruct (c =? 36)%N; [|destruct (c =? 42)%N]]]].

Lemma parse_d_tc b tot : forall d, tc (parse_d (fixed b) tot d).
Proof.
  induction d as [|d IH]; intros l.
  all: destruct l as [|c l1]; [cbn; split; [exact I|discriminate]|].
  all: cbn [parse_d].
  all: destruct (c =? 43)%N; [|destruct (c =? 45)%N; [|destruct (c =? 58)%N; [|destruct (c =? 36)%N; [|destruct (c =? 42)%N]]]].
  (* '+' and '-' *)
  1,2,7,8: destruct (get_line_tc l1) as [G S]; split;
    [apply lift_good; [exact G|intros [s r] _; destruct (is_utf8 s); exact I]
    |intros f r H; apply lift_ok in H as ([s r'] & E & H); specialize (S s r' E);
     destruct (is_utf8 s); inversion H; subst; cbn [length]; lia].
  (* ':' *)
  1,5: destruct (get_integer_tc b tot l1) as [G S]; split;
    [apply lift_good; [exact G|intros [z r] _; exact I]
    |intros f r H; apply lift_ok in H as ([z r'] & E & H); specialize (S z r' E);
     inversion H; subst; cbn [length]; lia].
  (* '$' *)
  1,4: destruct l1 as [|c1 l2]; [split; [exact I|discriminate]|];
    destruct (c1 =? 45)%N;
    [ destruct (get_line_tc (c1 :: l2)) as [G S]; split;
      [apply lift_good; [exact G|intros [s r] _; destruct (beq s _); exact I]
      |intros f r H; apply lift_ok in H as ([s r'] & E & H); specialize (S s r' E);
       destruct (beq s _); inversion H; subst; cbn [length] in *; lia]
    | destruct (get_integer_tc b tot (c1 :: l2)) as [G S]; split;
      [apply lift_good; [exact G|intros [n r] _; destruct (n <? 0); [exact I|]; destruct (_ <? _); exact I]
      |intros f r H; apply lift_ok in H as ([n r'] & E & H); specialize (S n r' E);
       destruct (n <? 0) eqn:En; [discriminate|]; destruct (Z.of_nat (length r') <? n + 2) eqn:El; [discriminate|];
       inversion H; subst; rewrite skipn_length; cbn [length] in *; lia] ].
  (* '*' with no budget left *)
  1: split; [exact I|discriminate].
  (* anything else *)
  1,3: split; [exact I|discriminate].
  (* '*' with budget *)
  destruct (get_integer_tc b tot l1) as [G S]. split.
  - apply lift_good; [exact G|]. intros [n r] _. destruct (n <? 0); [exact I|].
    destruct (items_loop_tc (parse_d (fixed b) tot d) IH (Datatypes.S (length r)) n r []) as [G' _]; [lia|].
    apply lift_good; [exact G'|]. intros [items r'] _. exact I.
  - intros f r H. apply lift_ok in H as ([n r'] & E & H). specialize (S n r' E).
    destruct (n <? 0); [discriminate|].
    apply lift_ok in H as ([items r''] & E' & H).
    destruct (items_loop_tc (parse_d (fixed b) tot d) IH (Datatypes.S (length r')) n r' []) as [_ S']; [lia|].
    specialize (S' items r'' E'). inversion H; subst. cbn [length]. lia.
Qed.

Lemma check_d_tc b tot : forall d, tc (check_d (fixed b) tot d).
Proof.
  induction d as [|d IH]; intros l.
  all: destruct l as [|c l1]; [cbn; split; [exact I|discriminate]|].
  all: cbn [check_d].
  all: destruct ((c =? 43)%N || (c =? 45)%N); [|destruct (c =? 58)%N; [|destruct (c =? 36)%N; [|destruct (c =? 42)%N]]].
  1,6: destruct (get_line_tc l1) as [G S]; split;
    [apply lift_good; [exact G|intros [s r] _; exact I]
    |intros f r H; apply lift_ok in H as ([s r'] & E & H); specialize (S s r' E);
     inversion H; subst; cbn [length]; lia].
  1,5: destruct (get_integer_tc b tot l1) as [G S]; split;
    [apply lift_good; [exact G|intros [z r] _; exact I]
    |intros f r H; apply lift_ok in H as ([z r'] & E & H); specialize (S z r' E);
     inversion H; subst; cbn [length]; lia].
  1,4: destruct l1 as [|c1 l2]; [split; [exact I|discriminate]|];
    destruct (c1 =? 45)%N;
    [ split;
      [apply lift_good; [apply skip_good|intros r _; exact I]
      |intros f r H; apply lift_ok in H as (r' & E & H); apply skip_ok in E; [|lia];
       inversion H; subst; cbn [length] in *; lia]
    | destruct (get_integer_tc b tot (c1 :: l2)) as [G S]; split;
      [apply lift_good; [exact G|intros [n r] _; destruct (n <? 0); [exact I|];
       apply lift_good; [apply skip_good|intros r' _; exact I]]
      |intros f r H; apply lift_ok in H as ([n r'] & E & H); specialize (S n r' E);
       destruct (n <? 0) eqn:En; [discriminate|];
       apply lift_ok in H as (r'' & E' & H); apply skip_ok in E'; [|apply Z.ltb_ge in En; lia];
       inversion H; subst; cbn [length] in *; lia] ].
  1: split; [exact I|discriminate].
  1,3: split; [exact I|discriminate].
  destruct (get_integer_tc b tot l1) as [G S]. split.
  - apply lift_good; [exact G|]. intros [n r] _.
    destruct (items_loop_tc (check_d (fixed b) tot d) IH (Datatypes.S (length r)) n r []) as [G' _]; [lia|].
    apply lift_good; [exact G'|]. intros [items r'] _. exact I.
  - intros f r H. apply lift_ok in H as ([n r'] & E & H). specialize (S n r' E).
    apply lift_ok in H as ([items r''] & E' & H).
    destruct (items_loop_tc (check_d (fixed b) tot d) IH (Datatypes.S (length r')) n r' []) as [_ S']; [lia|].
    specialize (S' items r'' E'). inversion H; subst. cbn [length]. lia.
Qed.

Theorem parse_total b l : good (parse (fixed b) l).
Proof. unfold parse. apply parse_d_tc. Qed.

Theorem check_total b l : good (check (fixed b) l).
Proof. unfold check. apply check_d_tc. Qed.

(* Nesting: [parse_d] / [check_d] are structurally recursive on the budget, which starts at
   [max_depth] = 32 and decreases by one per array level; an array met with budget 0 is an error. *)
Fixpoint nested (k : nat) (inner : bytes) : bytes :=
  match k with O => inner | S k' => [42; 49; 13; 10]%N ++ nested k' inner end.

Lemma nested_rejected_at_budget b tot : forall d l r,
  check_d (fixed b) tot d (nested (S d) l ++ r) = Err BadEncoding /\
  parse_d (fixed b) tot d (nested (S d) l ++ r) = Err BadEncoding.
Proof.
  induction d as [|d IH]; intros l r.
  - cbn. split; reflexivity.
  - destruct (IH l r) as [IHc IHp].
    change (nested (S (S d)) l ++ r) with (42%N :: 49%N :: 13%N :: 10%N :: (nested (S d) l ++ r)).
    remember (nested (S d) l ++ r) as rest.
    assert (Hrest : exists y t, rest = y :: t).
    { subst rest. cbn. eauto. }
    destruct Hrest as (y & t & Ey).
    assert (Hint : get_integer (fixed b) tot (49%N :: 13%N :: 10%N :: rest) = Ok (1, rest)).
    { rewrite (get_integer_accepts b tot _ true [49%N] 10%N rest); [reflexivity|reflexivity|discriminate|reflexivity]. }
    split.
    + cbn [check_d]. change ((42 =? 43)%N || (42 =? 45)%N) with false. cbn [orb].
      change (42 =? 58)%N with false. change (42 =? 36)%N with false. change (42 =? 42)%N with true. cbv iota.
      rewrite Hint. cbn [lift]. cbn [items_loop]. change (1 <=? 0) with false. cbv iota.
      rewrite IHc. reflexivity.
    + cbn [parse_d]. change (42 =? 43)%N with false. change (42 =? 45)%N with false.
      change (42 =? 58)%N with false. change (42 =? 36)%N with false. change (42 =? 42)%N with true. cbv iota.
      rewrite Hint. cbn [lift]. change (1 <? 0) with false. cbv iota. cbn [items_loop]. change (1 <=? 0) with false. cbv iota.
      rewrite IHp. reflexivity.
Qed.

(* Build mode does not matter after the repair. *)
Lemma items_loop_ext {A} (p q : bytes -> outcome (A * bytes)) : (forall l, p l = q l) ->
  forall fuel n l acc, items_loop p fuel n l acc = items_loop q fuel n l acc.
Proof.
  intros H. induction fuel as [|f IH]; intros n l acc; cbn [items_loop]; [reflexivity|].
  destruct (n <=? 0); [reflexivity|]. rewrite H. destruct (q l) as [[x l']| | | |]; auto.
Qed.

Theorem parse_build_irrelevant tot : forall d l, parse_d (fixed Debug) tot d l = parse_d (fixed Release) tot d l.
Proof.
  induction d as [|d IH]; intros l; destruct l as [|c l1]; try reflexivity; cbn [parse_d];
    rewrite !get_integer_build_irrelevant; try reflexivity.
  destruct (c =? 43)%N; [reflexivity|]. destruct (c =? 45)%N; [reflexivity|].
  destruct (c =? 58)%N; [reflexivity|]. destruct (c =? 36)%N; [reflexivity|].
  destruct (c =? 42)%N; [|reflexivity].
  destruct (get_integer (fixed Release) tot l1) as [[n r]| | | |]; try reflexivity. cbn [lift].
  destruct (n <? 0); [reflexivity|]. rewrite (items_loop_ext _ _ IH). reflexivity.
Qed.

Theorem check_build_irrelevant tot : forall d l, check_d (fixed Debug) tot d l = check_d (fixed Release) tot d l.
Proof.
  induction d as [|d IH]; intros l; destruct l as [|c l1]; try reflexivity; cbn [check_d];
    rewrite !get_integer_build_irrelevant; try reflexivity.
  destruct ((c =? 43)%N || (c =? 45)%N); [reflexivity|].
  destruct (c =? 58)%N; [reflexivity|]. destruct (c =? 36)%N; [reflexivity|].
  destruct (c =? 42)%N; [|reflexivity].
  destruct (get_integer (fixed Release) tot l1) as [[n r]| | | |]; try reflexivity. cbn [lift].
  rewrite (items_loop_ext _ _ IH). reflexivity.
Qed.

(* ---- check and parse walk the buffer identically ---- *)
Lemma get_line_acc_inv : forall l acc s r, get_line_acc l acc = Ok (s, r) ->
  exists s' x, s = rev acc ++ s' /\ l = s' ++ 13%N :: x :: r.
Proof.
  induction l as [|c l IH]; intros acc s r H; [discriminate|].
  destruct l as [|y rest]; [discriminate|]. cbn [get_line_acc] in H.
  destruct (c =? 13)%N eqn:Ec.
  - inversion H; subst. apply N.eqb_eq in Ec. subst c. exists [], y. rewrite app_nil_r. auto.
  - destruct (c =? 10)%N; [discriminate|]. apply IH in H as (s' & x & -> & E).
    exists (c :: s'), x. cbn [rev]. rewrite <- app_assoc. cbn [app]. rewrite E. auto.
Qed.

Lemma get_line_inv l s r : get_line l = Ok (s, r) -> exists x, l = s ++ 13%N :: x :: r.
Proof. intros H. apply get_line_acc_inv in H as (s' & x & -> & ->). exists x. reflexivity. Qed.

Lemma items_loop_agree {A B} (p : bytes -> outcome (A * bytes)) (q : bytes -> outcome (B * bytes)) :
  (forall l a r1 b r2, p l = Ok (a, r1) -> q l = Ok (b, r2) -> r1 = r2) ->
  forall f1 f2 n l acc1 acc2 xs r1 ys r2,
    items_loop p f1 n l acc1 = Ok (xs, r1) -> items_loop q f2 n l acc2 = Ok (ys, r2) -> r1 = r2.
Proof.
  intros H. induction f1 as [|f1 IH]; intros f2 n l acc1 acc2 xs r1 ys r2 H1 H2.
  - cbn [items_loop] in H1. destruct (n <=? 0) eqn:En; [|discriminate].
    destruct f2; cbn [items_loop] in H2; rewrite En in H2; congruence.
  - cbn [items_loop] in H1. destruct (n <=? 0) eqn:En.
    + destruct f2; cbn [items_loop] in H2; rewrite En in H2; congruence.
    + destruct f2; cbn [items_loop] in H2; rewrite En in H2; [discriminate|].
      destruct (p l) as [[a l1]| | | |] eqn:Ep; try discriminate.
      destruct (q l) as [[b l2]| | | |] eqn:Eq; try discriminate.
      assert (l1 = l2) by (eapply H; eassumption). subst l2.
      eapply IH; eassumption.
Qed.

Theorem check_parse_agree b tot : forall d l u r1 f r2,
  check_d (fixed b) tot d l = Ok (u, r1) -> parse_d (fixed b) tot d l = Ok (f, r2) -> r1 = r2.
Proof.
  induction d as [|d IH]; intros l u r1 f r2 Hc Hp.
  all: destruct l as [|c l1]; [discriminate|].
  all: cbn [check_d parse_d] in Hc, Hp.
  all: destruct (c =? 43)%N; [cbn [orb] in Hc|destruct (c =? 45)%N; [cbn [orb] in Hc|cbn [orb] in Hc;
       destruct (c =? 58)%N; [|destruct (c =? 36)%N; [|destruct (c =? 42)%N; [|discriminate]]]]].
  (* lines *)
  1,2,6,7: apply lift_ok in Hc as ([s1 q1] & E1 & Hc); apply lift_ok in Hp as ([s2 q2] & E2 & Hp);
    rewrite E1 in E2; inversion E2; subst; destruct (is_utf8 s2); inversion Hc; inversion Hp; subst; reflexivity.
  (* integers *)
  1,4: apply lift_ok in Hc as ([s1 q1] & E1 & Hc); apply lift_ok in Hp as ([s2 q2] & E2 & Hp);
    rewrite E1 in E2; inversion E2; subst; inversion Hc; inversion Hp; subst; reflexivity.
  (* bulk strings and null *)
  1,3: destruct l1 as [|c1 l2]; [discriminate|]; destruct (c1 =? 45)%N;
    [ apply lift_ok in Hc as (q1 & E1 & Hc); apply lift_ok in Hp as ([s2 q2] & E2 & Hp);
      destruct (beq s2 [45; 49]%N) eqn:Es; [|discriminate]; apply beq_eq in Es; subst s2;
      apply get_line_inv in E2 as (x & E2); rewrite E2 in E1; cbn [app] in E1;
      unfold skip in E1; destruct (_ <? 4); [discriminate|]; cbn in E1;
      inversion E1; inversion Hc; inversion Hp; subst; reflexivity
    | apply lift_ok in Hc as ([n1 q1] & E1 & Hc); apply lift_ok in Hp as ([n2 q2] & E2 & Hp);
      rewrite E1 in E2; inversion E2; subst; destruct (n2 <? 0); [discriminate|];
      apply lift_ok in Hc as (q3 & E3 & Hc); unfold skip in E3;
      destruct (Z.of_nat (length q2) <? n2 + 2); [discriminate|];
      inversion E3; inversion Hc; inversion Hp; subst; reflexivity ].
  (* arrays *)
  1: discriminate.
  apply lift_ok in Hc as ([n1 q1] & E1 & Hc). apply lift_ok in Hp as ([n2 q2] & E2 & Hp).
  rewrite E1 in E2. inversion E2; subst. destruct (n2 <? 0); [discriminate|].
  apply lift_ok in Hc as ([us q3] & E3 & Hc). apply lift_ok in Hp as ([fs q4] & E4 & Hp).
  inversion Hc; inversion Hp; subst.
  eapply (items_loop_agree (check_d (fixed b) tot d) (parse_d (fixed b) tot d)); [|exact E3|exact E4].
  intros l0 a ra bb rb Ha Hb. destruct a. eapply IH; eassumption.
Qed.
