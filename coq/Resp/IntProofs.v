(* Resp/IntProofs.v — complete functional characterisation of the repaired integer reader
   [get_integer (fixed b)]: which suffixes it accepts, with which value, and what it answers
   otherwise.  Everything about C07's "reads numbers exactly" follows from [get_integer_spec]. *)
From BC Require Import Resp.Frame.
Open Scope Z_scope.

Definition is_digit (c : byte) : bool := (48 <=? c)%N && (c <=? 57)%N.
Definition dval (c : byte) : Z := Z.of_N c - 48.
Definition value (pos : bool) (bs : bytes) (init : Z) : Z :=
  fold_left (fun n c => acc pos n (dval c)) bs init.

(* What is left when scanning stops: the very last byte of the buffer (never examined), or a
   non-digit followed by at least one more byte. *)
Inductive tail3 : bytes -> Prop :=
| T_one y : tail3 [y]
| T_stop c y r : is_digit c = false -> tail3 (c :: y :: r).

Lemma value_cons pos x bs n : value pos (x :: bs) n = value pos bs (acc pos n (dval x)).
Proof. reflexivity. Qed.

Lemma digit_some c : is_digit c = true -> digit c = Some (dval c) /\ 0 <= dval c <= 9.
Proof.
  unfold digit, is_digit, dval. intros H. rewrite H. split; [reflexivity|].
  apply andb_true_iff in H as [H1 H2]. apply N.leb_le in H1, H2. lia.
Qed.
Lemma digit_none c : is_digit c = false -> digit c = None.
Proof. unfold digit, is_digit. intros ->. reflexivity. Qed.

Lemma tail3_nonnil l : tail3 l -> l <> [].
Proof. intros H; inversion H; discriminate. Qed.

Lemma app_tail3_cons bs l' : tail3 l' -> forall x, exists y tl, (x :: bs) ++ l' = x :: y :: tl /\ bs ++ l' = y :: tl.
Proof.
  intros H x. destruct (bs ++ l') as [|y tl] eqn:E.
  - apply app_eq_nil in E as [_ E]. apply tail3_nonnil in H. contradiction.
  - exists y, tl. cbn [app]. rewrite E. auto.
Qed.

Lemma acc_bound pos n d k : 0 <= k -> Z.abs n < 10 ^ k -> 0 <= d <= 9 -> Z.abs (acc pos n d) < 10 ^ (k + 1).
Proof.
  intros Hk Hn Hd. rewrite Z.pow_add_r by lia. change (10 ^ 1) with 10.
  unfold acc. destruct pos; lia.
Qed.

Lemma pow18_lt : 10 ^ 18 < 2 ^ 63.
Proof. vm_compute. reflexivity. Qed.

Lemma small_in_i64 z : Z.abs z < 10 ^ 18 -> in_i64 z = true.
Proof.
  intros H. unfold in_i64, i64_min, i64_max. pose proof pow18_lt.
  apply andb_true_iff; split; apply Z.leb_le; lia.
Qed.

Lemma unchecked_step b pos budget num x y tl c :
  unchecked b pos budget num (x :: y :: tl) c =
  match budget with
  | Some 0%N => Ph1 num (x :: y :: tl) c
  | _ => match digit x with
         | None => Ph1 num (x :: y :: tl) c
         | Some d =>
           let n' := acc pos num d in
           let budget' := match budget with Some k => Some (N.pred k) | None => None end in
           if in_i64 n' then unchecked b pos budget' n' (y :: tl) (c + 1)
           else match b with
                | Debug => Ph1Panic
                | Release => unchecked b pos budget' (wrap64 n') (y :: tl) (c + 1)
                end
         end
  end.
Proof. reflexivity. Qed.

Lemma checked_step pos num x y tl c :
  checked pos num (x :: y :: tl) c =
  match digit x with
  | None => (num, x :: y :: tl, c)
  | Some d =>
    let num' := match num with
                | None => None
                | Some n => if in_i64 (n * 10) && in_i64 (acc pos n d) then Some (acc pos n d) else None
                end in
    checked pos num' (y :: tl) (c + 1)
  end.
Proof. reflexivity. Qed.

(* ---- unchecked phase: takes at most [k] digits, never overflows, in either build ---- *)
Lemma unchecked_fwd b pos : forall bs l' (k : nat) n c,
  forallb is_digit bs = true -> tail3 l' -> (k <= 18)%nat -> Z.abs n < 10 ^ (18 - Z.of_nat k) ->
  unchecked b pos (Some (N.of_nat k)) n (bs ++ l') c =
    Ph1 (value pos (firstn k bs) n) (skipn k bs ++ l') (c + N.of_nat (Nat.min k (length bs)))%N
  /\ Z.abs (value pos (firstn k bs) n) < 10 ^ 18.
Proof.
  induction bs as [|x bs IH]; intros l' k n c Hd Ht Hk Hn.
  - rewrite firstn_nil, skipn_nil. cbn [app value fold_left length]. rewrite Nat.min_0_r, N.add_0_r.
    split.
    + inversion Ht as [y|c' y r Hc']; subst; cbn [unchecked]; [reflexivity|].
      destruct (N.of_nat k); [reflexivity|]. rewrite (digit_none _ Hc'). reflexivity.
    + eapply Z.lt_le_trans; [exact Hn|]. apply Z.pow_le_mono_r; lia.
  - cbn [forallb] in Hd. apply andb_true_iff in Hd as [Hx Hd].
    destruct (app_tail3_cons bs l' Ht x) as (y & tl & E & E').
    rewrite E. destruct k as [|k].
    + rewrite unchecked_step. cbn [firstn skipn N.of_nat Nat.min value fold_left]. rewrite N.add_0_r, <- E.
      split; [reflexivity|]. eapply Z.lt_le_trans; [exact Hn|]. apply Z.pow_le_mono_r; lia.
    + destruct (digit_some x Hx) as [Hdx Hr].
      assert (Hb : Z.abs (acc pos n (dval x)) < 10 ^ (18 - Z.of_nat (S k) + 1))
        by (apply acc_bound; try lia; exact Hn).
      assert (Hb18 : Z.abs (acc pos n (dval x)) < 10 ^ 18).
      { eapply Z.lt_le_trans; [exact Hb|]. apply Z.pow_le_mono_r; lia. }
      rewrite unchecked_step. replace (N.of_nat (S k)) with (N.pos (Pos.of_succ_nat k)) by lia.
      rewrite Hdx. cbv zeta. rewrite (small_in_i64 _ Hb18).
      replace (Some (N.pred (N.pos (Pos.of_succ_nat k)))) with (Some (N.of_nat k)) by (f_equal; lia).
      rewrite <- E'.
      destruct (IH l' k (acc pos n (dval x)) (c + 1)%N Hd Ht) as [IH1 IH2]; [lia| |].
      { replace (18 - Z.of_nat k) with (18 - Z.of_nat (S k) + 1) by lia. exact Hb. }
      rewrite IH1. cbn [firstn skipn value fold_left length Nat.min].
      split; [f_equal; lia|exact IH2].
Qed.

(* ---- checked phase ---- *)
Definition sign_ok (pos : bool) (n : Z) : Prop := if pos then 0 <= n else n <= 0.

Lemma acc_sign pos n d : sign_ok pos n -> 0 <= d <= 9 -> sign_ok pos (acc pos n d).
Proof. unfold sign_ok, acc. destruct pos; lia. Qed.

Lemma value_sign pos : forall bs n, forallb is_digit bs = true -> sign_ok pos n -> sign_ok pos (value pos bs n).
Proof.
  induction bs as [|x bs IH]; intros n Hd Hs; [exact Hs|].
  cbn [forallb] in Hd. apply andb_true_iff in Hd as [Hx Hd].
  cbn [value fold_left]. apply IH; [exact Hd|]. apply acc_sign; [exact Hs|]. apply digit_some; exact Hx.
Qed.

Lemma value_out_of_range pos : forall bs n, forallb is_digit bs = true -> sign_ok pos n ->
  in_i64 n = false -> in_i64 (value pos bs n) = false.
Proof.
  induction bs as [|x bs IH]; intros n Hd Hs Hn; [exact Hn|].
  cbn [forallb] in Hd. apply andb_true_iff in Hd as [Hx Hd].
  cbn [value fold_left]. destruct (digit_some x Hx) as [_ Hr]. apply IH; [exact Hd| |].
  - apply acc_sign; [exact Hs|exact Hr].
  - unfold in_i64, i64_min, i64_max, sign_ok, acc in *. destruct pos.
    + apply andb_false_iff in Hn as [Hn|Hn]; apply Z.leb_gt in Hn; apply andb_false_iff;
        [lia|right; apply Z.leb_gt; lia].
    + apply andb_false_iff in Hn as [Hn|Hn]; apply Z.leb_gt in Hn; apply andb_false_iff;
        [left; apply Z.leb_gt; lia|lia].
Qed.

Lemma checked_none_fwd pos : forall bs l' c, forallb is_digit bs = true -> tail3 l' ->
  checked pos None (bs ++ l') c = (None, l', (c + N.of_nat (length bs))%N).
Proof.
  induction bs as [|x bs IH]; intros l' c Hd Ht.
  - cbn [app length N.of_nat]. rewrite N.add_0_r.
    inversion Ht as [y|c' y r Hc']; subst; cbn [checked]; [reflexivity|]. rewrite (digit_none _ Hc'). reflexivity.
  - cbn [forallb] in Hd. apply andb_true_iff in Hd as [Hx Hd].
    destruct (app_tail3_cons bs l' Ht x) as (y & tl & E & E'). rewrite E. rewrite checked_step.
    destruct (digit_some x Hx) as [-> _]. cbv zeta. rewrite <- E', IH by assumption. cbn [length]. f_equal; lia.
Qed.

Lemma checked_fwd pos : forall bs l' n c, forallb is_digit bs = true -> tail3 l' -> sign_ok pos n ->
  in_i64 n = true ->
  checked pos (Some n) (bs ++ l') c =
    ((if in_i64 (value pos bs n) then Some (value pos bs n) else None), l', (c + N.of_nat (length bs))%N).
Proof.
  induction bs as [|x bs IH]; intros l' n c Hd Ht Hs Hn.
  - cbn [app length N.of_nat value fold_left]. rewrite N.add_0_r, Hn.
    inversion Ht as [y|c' y r Hc']; subst; cbn [checked]; [reflexivity|]. rewrite (digit_none _ Hc'). reflexivity.
  - cbn [forallb] in Hd. apply andb_true_iff in Hd as [Hx Hd].
    destruct (app_tail3_cons bs l' Ht x) as (y & tl & E & E'). rewrite E. rewrite checked_step.
    destruct (digit_some x Hx) as [-> Hr]. cbv zeta. rewrite <- E'. rewrite value_cons. cbn [length].
    destruct (in_i64 (n * 10) && in_i64 (acc pos n (dval x))) eqn:Hin.
    + apply andb_true_iff in Hin as [_ Hin]. rewrite IH; try assumption.
      * f_equal; lia.
      * apply acc_sign; assumption.
    + rewrite checked_none_fwd by assumption.
      assert (Hout : in_i64 (acc pos n (dval x)) = false).
      { apply andb_false_iff in Hin as [Hin|Hin]; [|exact Hin].
        unfold in_i64, i64_min, i64_max, sign_ok, acc in *.
        apply andb_false_iff in Hin as [Hin|Hin]; apply Z.leb_gt in Hin; apply andb_false_iff; destruct pos;
          try lia; try (left; apply Z.leb_gt; lia); try (right; apply Z.leb_gt; lia). }
      rewrite (value_out_of_range pos bs _ Hd (acc_sign _ _ _ Hs Hr) Hout). f_equal; lia.
Qed.

Lemma value_app pos a b n : value pos (a ++ b) n = value pos b (value pos a n).
Proof. unfold value. apply fold_left_app. Qed.

(* Every non-empty suffix splits into a run of digits and a [tail3]. *)
Lemma digits_decomp : forall l, l <> [] -> exists bs l', l = bs ++ l' /\ forallb is_digit bs = true /\ tail3 l'.
Proof.
  induction l as [|x l IH]; intros Hne; [congruence|].
  destruct l as [|y l'].
  - exists [], [x]. repeat split. constructor.
  - destruct (is_digit x) eqn:Hx.
    + destruct IH as (bs & t & E & Hd & Ht); [discriminate|].
      exists (x :: bs), t. cbn [app forallb]. rewrite E, Hx, Hd. repeat split. exact Ht.
    + exists [], (x :: y :: l'). repeat split. constructor. exact Hx.
Qed.

(* ---- the integer reader, completely ---- *)
Definition sign_of (l : bytes) : bool * bytes :=
  match l with
  | c :: tl => if (c =? 45)%N then (false, tl) else if (c =? 43)%N then (true, tl) else (true, l)
  | [] => (true, [])
  end.

Definition int_result (pos : bool) (bs l' : bytes) : outcome (Z * bytes) :=
  match l' with
  | c :: _ :: r =>
    if match bs with [] => true | _ => false end || negb (c =? 13)%N then Err NotInteger
    else if in_i64 (value pos bs 0) then Ok (value pos bs 0, r) else Err NotInteger
  | _ => Err Incomplete
  end.

Theorem get_integer_spec b tot l pos bs l' :
  l <> [] -> sign_of l = (pos, bs ++ l') -> forallb is_digit bs = true -> tail3 l' ->
  get_integer (fixed b) tot l = int_result pos bs l'.
Proof.
  intros Hne Hs Hd Ht. destruct l as [|c tl]; [congruence|].
  unfold get_integer. cbn [v_sign_guard v_rel_digits v_build fixed].
  assert (Hsplit : (if (c =? 45)%N then (false, tl, 1%N) else if (c =? 43)%N then (true, tl, 1%N) else (true, c :: tl, 0%N))
                   = (pos, bs ++ l', (if (c =? 45)%N then 1 else if (c =? 43)%N then 1 else 0)%N)).
  { cbn [sign_of] in Hs. destruct (c =? 45)%N; [inversion Hs; reflexivity|].
    destruct (c =? 43)%N; inversion Hs; reflexivity. }
  rewrite Hsplit. clear Hsplit Hs.
  destruct (bs ++ l') as [|z zs] eqn:E.
  { apply app_eq_nil in E as [_ E]. apply tail3_nonnil in Ht. contradiction. }
  rewrite <- E. unfold budget_fixed. change 18%N with (N.of_nat 18).
  destruct (unchecked_fwd b pos bs l' 18 0 0%N Hd Ht) as [U Ub]; [lia|cbn; lia|].
  rewrite U. clear U.
  set (n1 := value pos (firstn 18 bs) 0) in *.
  assert (Hd1 : forallb is_digit (firstn 18 bs) = true).
  { rewrite <- (firstn_skipn 18 bs) in Hd. rewrite forallb_app in Hd. apply andb_true_iff in Hd. tauto. }
  assert (Hd2 : forallb is_digit (skipn 18 bs) = true).
  { rewrite <- (firstn_skipn 18 bs) in Hd. rewrite forallb_app in Hd. apply andb_true_iff in Hd. tauto. }
  assert (Hs1 : sign_ok pos n1) by (apply value_sign; [exact Hd1|destruct pos; cbn; lia]).
  rewrite (checked_fwd pos (skipn 18 bs) l' n1 _ Hd2 Ht Hs1 (small_in_i64 _ Ub)).
  assert (Hv : value pos (skipn 18 bs) n1 = value pos bs 0).
  { unfold n1. rewrite <- value_app, firstn_skipn. reflexivity. }
  rewrite Hv.
  assert (Hlen : (0 + N.of_nat (Nat.min 18 (length bs)) + N.of_nat (length (skipn 18 bs)) = N.of_nat (length bs))%N).
  { rewrite skipn_length. lia. }
  rewrite Hlen. unfold int_result.
  inversion Ht as [y|c' y r Hc']; subst l'; [reflexivity|].
  destruct bs as [|b0 bs0].
  - cbn [length N.of_nat]. rewrite N.eqb_refl. reflexivity.
  - replace (N.of_nat (length (b0 :: bs0)) =? 0)%N with false by (symmetry; apply N.eqb_neq; cbn [length]; lia).
    cbn [orb]. destruct (negb (c' =? 13)%N); [reflexivity|].
    destruct (in_i64 (value pos (b0 :: bs0) 0)); reflexivity.
Qed.

(* The decomposition the theorem asks for always exists, so the reader is characterised on EVERY suffix. *)
Lemma sign_decomp l : l <> [] ->
  exists pos rest, sign_of l = (pos, rest) /\
    (rest = [] \/ exists bs l', rest = bs ++ l' /\ forallb is_digit bs = true /\ tail3 l').
Proof.
  intros Hne. destruct (sign_of l) as [pos rest] eqn:E. exists pos, rest. split; [reflexivity|].
  destruct rest as [|x rest']; [left; reflexivity|right]. apply digits_decomp. discriminate.
Qed.

Lemma get_integer_sign_only b tot l pos : l <> [] -> sign_of l = (pos, []) -> get_integer (fixed b) tot l = Err Incomplete.
Proof.
  intros Hne Hs. destruct l as [|c tl]; [congruence|]. unfold get_integer. cbn [sign_of] in Hs.
  cbn [v_sign_guard fixed].
  destruct (c =? 45)%N; [inversion Hs; subst; reflexivity|].
  destruct (c =? 43)%N; inversion Hs; subst; reflexivity.
Qed.

Theorem get_integer_total b tot l :
  get_integer (fixed b) tot l <> Panic /\ get_integer (fixed b) tot l <> Abort /\ get_integer (fixed b) tot l <> OutOfFuel.
Proof.
  destruct l as [|c tl] eqn:El; [cbn; repeat split; discriminate|].
  rewrite <- El. assert (Hne : l <> []) by (subst; discriminate).
  destruct (sign_decomp l Hne) as (pos & rest & Hs & [->|(bs & l' & -> & Hd & Ht)]).
  - rewrite (get_integer_sign_only b tot l pos Hne Hs). repeat split; discriminate.
  - rewrite (get_integer_spec b tot l pos bs l' Hne Hs Hd Ht). unfold int_result.
    destruct l' as [|c0 [|c1 r]]; try (repeat split; discriminate).
    destruct (_ || _); [repeat split; discriminate|].
    destruct (in_i64 _); repeat split; discriminate.
Qed.

(* Build mode is irrelevant for the repaired reader. *)
Theorem get_integer_build_irrelevant tot l : get_integer (fixed Debug) tot l = get_integer (fixed Release) tot l.
Proof.
  destruct l as [|c tl] eqn:El; [reflexivity|].
  rewrite <- El. assert (Hne : l <> []) by (subst; discriminate).
  destruct (sign_decomp l Hne) as (pos & rest & Hs & [->|(bs & l' & -> & Hd & Ht)]).
  - rewrite !(get_integer_sign_only _ tot l pos Hne Hs). reflexivity.
  - rewrite !(get_integer_spec _ tot l pos bs l' Hne Hs Hd Ht). reflexivity.
Qed.

(* Exactness: whatever is accepted is a sign, a non-empty run of digits whose signed decimal
   value is the result and lies in i64, then CR and one more byte. *)
Theorem get_integer_exact b tot l z r :
  get_integer (fixed b) tot l = Ok (z, r) ->
  exists pos bs x, sign_of l = (pos, bs ++ 13%N :: x :: r) /\ bs <> [] /\ forallb is_digit bs = true /\
                   z = value pos bs 0 /\ in_i64 z = true.
Proof.
  intros H. destruct l as [|c tl] eqn:El; [discriminate|].
  rewrite <- El in *. assert (Hne : l <> []) by (subst; discriminate).
  destruct (sign_decomp l Hne) as (pos & rest & Hs & [->|(bs & l' & -> & Hd & Ht)]).
  - rewrite (get_integer_sign_only b tot l pos Hne Hs) in H. discriminate.
  - rewrite (get_integer_spec b tot l pos bs l' Hne Hs Hd Ht) in H. unfold int_result in H.
    destruct l' as [|c0 [|c1 r']]; try discriminate.
    destruct bs as [|b0 bs0]; [discriminate|]. cbn [orb] in H.
    destruct (c0 =? 13)%N eqn:Hc; [|discriminate]. cbn [negb] in H.
    destruct (in_i64 (value pos (b0 :: bs0) 0)) eqn:Hin; [|discriminate].
    inversion H; subst. apply N.eqb_eq in Hc. subst c0.
    exists pos, (b0 :: bs0), c1. repeat split; auto. discriminate.
Qed.

(* Converse: a well-formed number is accepted exactly when it fits in i64. *)
Theorem get_integer_accepts b tot l pos bs x r :
  sign_of l = (pos, bs ++ 13%N :: x :: r) -> bs <> [] -> forallb is_digit bs = true ->
  get_integer (fixed b) tot l =
    if in_i64 (value pos bs 0) then Ok (value pos bs 0, r) else Err NotInteger.
Proof.
  intros Hs Hne Hd.
  assert (Hl : l <> []).
  { destruct l; [|discriminate]. cbn in Hs. inversion Hs as [[Hp E]]. destruct bs; discriminate. }
  rewrite (get_integer_spec b tot l pos bs (13%N :: x :: r) Hl Hs Hd).
  - unfold int_result. destruct bs; [congruence|]. reflexivity.
  - constructor. reflexivity.
Qed.
