(* Resp/Stream.v — a concatenation of encoded frames is decoded to the same frames however the
   bytes are cut into socket reads, and a stream that ends inside a frame is a reset (C08). *)
From BC Require Import Resp.Frame Resp.Conn Resp.IntProofs Resp.FrameProofs Resp.RoundTrip Resp.Prefix.
Open Scope Z_scope.

(* ---- arrays: strict prefixes are incomplete ---- *)
Lemma sprefix_nil_inv p : ~ sprefix p [].
Proof. intros (q & Hq & E). destruct p, q; try discriminate. congruence. Qed.

Lemma enc_single_nonnil f bs : enc_single f = Ok bs -> bs <> [].
Proof. destruct f; cbn [enc_single]; intros H; inversion H; discriminate. Qed.

Lemma check_items_prefix b tot d : forall items bi p fuel acc,
  forallb writable_single items = true -> enc_items items = Ok bi -> sprefix p bi -> (length p < fuel)%nat ->
  items_loop (check_d (fixed b) tot d) fuel (Z.of_nat (length items)) p acc = Err Incomplete.
Proof.
  induction items as [|f items IH]; intros bi p fuel acc Hw He Hp Hf.
  - cbn in He. inversion He; subst. exfalso. exact (sprefix_nil_inv p Hp).
  - cbn [forallb] in Hw. apply andb_true_iff in Hw as [Hwf Hw].
    cbn [enc_items] in He. destruct (enc_single f) as [bf| | | |] eqn:Ef; try discriminate.
    destruct (enc_items items) as [bi'| | | |] eqn:Ei; try discriminate. inversion He; subst. clear He.
    destruct fuel as [|fuel]; [lia|]. cbn [length items_loop].
    replace (Z.of_nat (S (length items)) <=? 0) with false by (symmetry; apply Z.leb_gt; lia).
    apply sprefix_app in Hp as [Hp|(p' & -> & Hp')].
    + rewrite (check_single_prefix b tot f bf p d Hwf Ef Hp). reflexivity.
    + destruct (single_roundtrip b tot f bf p' Hwf Ef d) as [_ Hc]. rewrite Hc.
      replace (Z.of_nat (S (length items)) - 1) with (Z.of_nat (length items)) by lia.
      apply (IH bi'); auto. rewrite app_length in Hf. pose proof (enc_single_nonnil f bf Ef). destruct bf; [congruence|]. cbn [length] in Hf. lia.
Qed.

Theorem check_prefix b f bs p : writable f = true -> enc f = Ok bs -> sprefix p bs ->
  check (fixed b) p = Err Incomplete.
Proof.
  intros Hw He Hp. unfold check. cbn [v_depth fixed]. set (tot := blen p).
  destruct f as [s|s|z|bb|items|];
    try (eapply check_single_prefix; [exact Hw|exact He|exact Hp]).
  cbn [writable] in Hw. apply andb_true_iff in Hw as [Hw Hn]. apply Z.leb_le in Hn.
  cbn [enc] in He. destruct (enc_items items) as [bi| | | |] eqn:Ei; try discriminate. inversion He; subst. clear He.
  apply sprefix_cons_inv in Hp as [->|(p' & Ep & Hp')]; [reflexivity|]. subst p.
  assert (Eq : dec_N (N.of_nat (length items)) ++ 13%N :: 10%N :: bi = (dec_N (N.of_nat (length items)) ++ [13; 10]%N) ++ bi)
    by (rewrite <- app_assoc; reflexivity).
  rewrite Eq in Hp'. clear Eq. unfold max_depth. change 32%nat with (S 31). generalize 31%nat as d; intros d.
  cbn [check_d]. change ((42 =? 43)%N || (42 =? 45)%N) with false. change (42 =? 58)%N with false.
  change (42 =? 36)%N with false. change (42 =? 42)%N with true. cbv iota.
  assert (Hle : Z.of_N (N.of_nat (length items)) <= i64_max) by lia.
  apply sprefix_app in Hp' as [Hh|(p'' & -> & Hit)].
  - rewrite (get_integer_prefix_dec_N b tot _ p' Hle Hh). reflexivity.
  - assert (Hint : get_integer (fixed b) tot ((dec_N (N.of_nat (length items)) ++ [13; 10]%N) ++ p'') = Ok (Z.of_nat (length items), p'')).
    { rewrite <- app_assoc. cbn [app]. replace (Z.of_nat (length items)) with (Z.of_N (N.of_nat (length items))) by lia.
      apply get_integer_dec_N. exact Hle. }
    rewrite Hint. cbn [lift].
    rewrite (check_items_prefix b tot d items bi p'' (S (length p'')) [] Hw Ei Hit) by lia. reflexivity.
Qed.

Lemma enc_nonnil f bs : enc f = Ok bs -> bs <> [].
Proof.
  destruct f; try (apply enc_single_nonnil). cbn [enc]. destruct (enc_items l); intros H; inversion H; discriminate.
Qed.

(* what Connection::parse_frame does on a buffer holding a strict prefix of a frame *)
Lemma parse_frame_prefix b f bs p : writable f = true -> enc f = Ok bs -> sprefix p bs -> parse_frame (fixed b) p = Ok None.
Proof. intros Hw He Hp. unfold parse_frame. rewrite (check_prefix b f bs p Hw He Hp). reflexivity. Qed.

Lemma parse_frame_empty b : parse_frame (fixed b) [] = Ok None.
Proof. reflexivity. Qed.

Lemma F2_length {A B} (R : A -> B -> Prop) l1 l2 : Forall2 R l1 l2 -> length l1 = length l2.
Proof. induction 1; cbn; congruence. Qed.

Lemma F2_single {A B} (R : A -> B -> Prop) a l2 : Forall2 R [a] l2 -> exists b, l2 = [b] /\ R a b.
Proof. intros H. inversion H as [|? y ? l' Hy Hn]; subst. inversion Hn; subst. eauto. Qed.

(* ---- streams ---- *)
Definition encodes (f : frame) (e : bytes) : Prop := writable f = true /\ enc f = Ok e.

(* a buffer that is a prefix of a stream of encodings: whole frames, then a strict prefix of the next *)
Lemma prefix_of_stream : forall es buf future, buf ++ future = concat es -> Forall (fun e => e <> []) es ->
  (exists e es', es = e :: es' /\ sprefix buf e) \/
  (exists e es' buf2, es = e :: es' /\ buf = e ++ buf2 /\ buf2 ++ future = concat es') \/
  (es = [] /\ buf = []).
Proof.
  intros es buf future H Hne. destruct es as [|e es']; [right; right; cbn in H; apply app_eq_nil in H; tauto|].
  cbn [concat] in H. inversion Hne as [|? ? He Hne']; subst.
  (* compare buf with e *)
  clear Hne. revert buf H. induction e as [|x e IH]; intros buf H; [congruence|].
  destruct buf as [|y buf].
  - left. exists (x :: e), es'. split; [reflexivity|]. apply sprefix_nil. discriminate.
  - cbn [app] in H. inversion H; subst y. destruct e as [|x2 e2].
    + right. left. exists [x], es', buf. cbn [app] in *. auto.
    + destruct (IH ltac:(discriminate) buf H2) as [(e0 & es0 & E0 & Hs)|[(e0 & es0 & b2 & E0 & Eb & Ef)|[E0 _]]]; [| |discriminate E0].
      * inversion E0; subst. left. exists (x :: x2 :: e2), es0. split; [reflexivity|]. apply sprefix_cons. exact Hs.
      * inversion E0; subst. right. left. exists (x :: x2 :: e2), es0, b2. auto.
Qed.

Lemma drain_spec b : forall fs es, Forall2 encodes fs es ->
  forall buf future fuel, buf ++ future = concat es -> (length buf < fuel)%nat ->
  exists fs1 fs2 es1 es2 buf', fs = fs1 ++ fs2 /\ es = es1 ++ es2 /\ Forall2 encodes fs2 es2 /\
    buf = concat es1 ++ buf' /\ buf' ++ future = concat es2 /\
    drain (fixed b) fuel buf = (map RFrame fs1, Some buf') /\
    (match es2 with [] => buf' = [] | e :: _ => sprefix buf' e end).
Proof.
  intros fs es HF. induction HF as [|f e fs es [Hw He] HF IH]; intros buf future fuel H Hfuel.
  - cbn in H. apply app_eq_nil in H as [-> ->]. exists [], [], [], [], []. destruct fuel; [lia|]. cbn. repeat split; constructor.
  - assert (Hne : Forall (fun e0 => e0 <> []) (e :: es)).
    { constructor; [eapply enc_nonnil; exact He|]. clear - HF. induction HF as [|f0 e0 fs0 es0 [_ He0] _ IH0]; constructor; [eapply enc_nonnil; exact He0|exact IH0]. }
    destruct (prefix_of_stream (e :: es) buf future H Hne) as [(e0 & es0 & E0 & Hs)|[(e0 & es0 & b2 & E0 & Eb & Ef)|[E0 _]]]; [| |discriminate E0].
    + inversion E0; subst e0 es0. exists [], (f :: fs), [], (e :: es), buf. destruct fuel; [lia|].
      cbn [app concat map drain]. rewrite (parse_frame_prefix b f e buf Hw He Hs).
      repeat split; auto. constructor; [split; assumption|exact HF].
    + inversion E0; subst e0 es0. subst buf. destruct fuel as [|fuel]; [lia|].
      assert (Hlen : (length b2 < fuel)%nat).
      { rewrite app_length in Hfuel. pose proof (enc_nonnil f e He). destruct e; [congruence|]. cbn [length] in Hfuel. lia. }
      destruct (IH b2 future fuel Ef Hlen) as (fs1 & fs2 & es1 & es2 & buf' & E1 & E2 & HF2 & Eb2 & Ef2 & Hd & Hstop).
      exists (f :: fs1), fs2, (e :: es1), es2, buf'. subst fs es.
      cbn [app concat map drain]. unfold parse_frame.
      destruct (roundtrip b f e b2 Hw He) as [Hp Hc]. rewrite Hc, Hp, Hd. rewrite Eb2, app_assoc.
      repeat split; auto.
Qed.

Theorem read_all_stream b : forall segs fs es buf, Forall2 encodes fs es ->
  buf ++ concat segs = concat es ->
  read_all (fixed b) segs buf = map RFrame fs ++ [RClean].
Proof.
  induction segs as [|s segs IH]; intros fs es buf HF H.
  - cbn [concat] in H. cbn [read_all].
    destruct (drain_spec b fs es HF buf [] (S (length buf)) H ltac:(lia)) as (fs1 & fs2 & es1 & es2 & buf' & E1 & E2 & HF2 & Eb & Ef & Hd & Hstop).
    rewrite Hd. rewrite app_nil_r in Ef.
    destruct es2 as [|e2 es2'].
    + subst buf'. inversion HF2; subst. rewrite app_nil_r. reflexivity.
    + exfalso. destruct Hstop as (q & Hq & Eq). cbn [concat] in Ef. rewrite Eq in Ef.
      apply (f_equal (@length N)) in Ef. rewrite !app_length in Ef. destruct q; [congruence|]. cbn [length] in Ef. lia.
  - cbn [read_all concat] in *.
    destruct (drain_spec b fs es HF buf (s ++ concat segs) (S (length buf)) H ltac:(lia)) as (fs1 & fs2 & es1 & es2 & buf' & E1 & E2 & HF2 & Eb & Ef & Hd & Hstop).
    rewrite Hd. subst fs. rewrite map_app, <- app_assoc. f_equal.
    apply (IH fs2 es2); [exact HF2|]. rewrite <- app_assoc. exact Ef.
Qed.

(* the stream ends inside a frame: everything before it is delivered, then a reset, not a clean end *)
Theorem read_all_truncated b : forall segs fs es f e part buf, Forall2 encodes fs es -> encodes f e ->
  sprefix part e -> part <> [] ->
  buf ++ concat segs = concat es ++ part ->
  read_all (fixed b) segs buf = map RFrame fs ++ [RReset].
Proof.
  induction segs as [|s segs IH]; intros fs es f e part buf HF [Hw He] Hpart Hne H.
  - cbn [concat] in H. cbn [read_all]. rewrite app_nil_r in H.
    destruct Hpart as (q & Hq & Eq).
    assert (HF' : Forall2 encodes (fs ++ [f]) (es ++ [e])) by (apply Forall2_app; [exact HF|constructor; [split; assumption|constructor]]).
    assert (H' : buf ++ q = concat (es ++ [e])).
    { rewrite concat_app. cbn [concat]. rewrite app_nil_r, H, Eq, app_assoc. reflexivity. }
    destruct (drain_spec b _ _ HF' buf q (S (length buf)) H' ltac:(lia)) as (fs1 & fs2 & es1 & es2 & buf' & E1 & E2 & HF2 & Eb & Ef & Hd & Hstop).
    rewrite Hd.
    (* es2 is not empty (bytes are still missing), ends with e, and in fact is [e] *)
    destruct (exists_last (l := es2)) as (front & lastx & El).
    { intros ->. subst buf'. cbn in Ef. congruence. }
    rewrite El in E2. rewrite app_assoc in E2. apply app_inj_tail in E2 as [E2a E2b]. subst lastx.
    assert (Hfront : front = []).
    { destruct front as [|g front']; [reflexivity|exfalso].
      rewrite El in Ef, Hstop. cbn [app] in Ef, Hstop. destruct Hstop as (q2 & Hq2 & Eq2).
      cbn [concat] in Ef. rewrite concat_app in Ef. cbn [concat] in Ef. rewrite app_nil_r in Ef.
      apply (f_equal (@length N)) in Ef. apply (f_equal (@length N)) in Eq2. apply (f_equal (@length N)) in Eq.
      rewrite !app_length in *. destruct q2; [congruence|]. destruct part; [congruence|]. cbn [length] in *. lia. }
    subst front. cbn [app] in El. subst es2. rewrite app_nil_r in E2a. subst es1.
    assert (Hfs : fs1 = fs).
    { apply F2_length in HF2. cbn [length] in HF2.
      destruct fs2 as [|f2 [|f3 fs2']]; cbn [length] in HF2; try lia. apply app_inj_tail in E1. destruct E1 as [E1 _]. congruence. }
    subst fs1. f_equal.
    assert (Hb : buf' = part).
    { rewrite Eb in H. apply app_inv_head in H. exact H. }
    subst buf'. destruct part; [congruence|reflexivity].
  - cbn [read_all concat] in *.
    assert (HF' : Forall2 encodes (fs ++ [f]) (es ++ [e])) by (apply Forall2_app; [exact HF|constructor; [split; assumption|constructor]]).
    destruct Hpart as (q & Hq & Eq).
    assert (H' : buf ++ ((s ++ concat segs) ++ q) = concat (es ++ [e])).
    { rewrite concat_app. cbn [concat]. rewrite app_nil_r, Eq, (app_assoc (concat es)), <- H, <- !app_assoc. reflexivity. }
    destruct (drain_spec b _ _ HF' buf _ (S (length buf)) H' ltac:(lia)) as (fs1 & fs2 & es1 & es2 & buf' & E1 & E2 & HF2 & Eb & Ef & Hd & Hstop).
    rewrite Hd.
    (* es2 is non-empty (the truncated frame is still ahead): split it off again *)
    destruct (exists_last (l := es2)) as (es2f & e2l & El).
    { intros ->. cbn [concat] in Ef. apply app_eq_nil in Ef as [_ Ef]. apply app_eq_nil in Ef as [_ Ef]. congruence. }
    rewrite El in E2. rewrite app_assoc in E2. apply app_inj_tail in E2 as [E2a E2b]. subst e2l.
    destruct (exists_last (l := fs2)) as (fs2f & f2l & Efl).
    { intros ->. inversion HF2; subst. destruct es2f; discriminate. }
    rewrite Efl in E1. rewrite app_assoc in E1. apply app_inj_tail in E1 as [E1a E1b]. subst f2l.
    rewrite Efl, El in HF2. apply Forall2_app_inv_l in HF2 as (l1 & l2 & H1 & H2 & El12).
    destruct (F2_single _ _ _ H2) as (y & -> & Hy). apply app_inj_tail in El12 as [<- <-].
    subst fs. rewrite map_app, <- app_assoc. f_equal.
    apply (IH fs2f es2f f e part); [exact H1|exact Hy|exists q; auto|exact Hne|].
    rewrite El in Ef. rewrite concat_app in Ef. cbn [concat] in Ef. rewrite app_nil_r in Ef. rewrite Eq in Ef.
    rewrite !app_assoc in Ef. apply app_inv_tail in Ef. rewrite <- app_assoc in Ef. rewrite <- app_assoc. exact Ef.
Qed.
