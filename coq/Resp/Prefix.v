(* Resp/Prefix.v — every strict prefix of the encoding of a writable frame is reported as
   Incomplete by Frame::check (so Connection::parse_frame waits for more bytes), never as an error
   and never as a shorter frame (C08, third clause). *)
From BC Require Import Resp.Frame Resp.IntProofs Resp.FrameProofs Resp.RoundTrip.
Open Scope Z_scope.

(* [p] is a strict prefix of [l] *)
Definition sprefix (p l : bytes) : Prop := exists q, q <> [] /\ l = p ++ q.

Lemma sprefix_nil l : l <> [] -> sprefix [] l.
Proof. intros H. exists l. auto. Qed.

Lemma sprefix_cons x p l : sprefix (x :: p) (x :: l) <-> sprefix p l.
Proof.
  split; intros (q & Hq & E); exists q; split; auto; [inversion E; auto|cbn; rewrite E; reflexivity].
Qed.

Lemma sprefix_cons_inv p x l : sprefix p (x :: l) -> p = [] \/ exists p', p = x :: p' /\ sprefix p' l.
Proof.
  intros (q & Hq & E). destruct p as [|y p]; [left; reflexivity|right]. inversion E; subst. exists p. split; [reflexivity|]. exists q. auto.
Qed.

(* a strict prefix of [a ++ b] is a strict prefix of [a], or [a] followed by a strict prefix of [b] *)
Lemma sprefix_app p a b : sprefix p (a ++ b) -> sprefix p a \/ exists p', p = a ++ p' /\ sprefix p' b.
Proof.
  revert p. induction a as [|x a IH]; intros p H.
  - right. exists p. auto.
  - cbn [app] in H. apply sprefix_cons_inv in H as [->|(p' & -> & H)].
    + left. apply sprefix_nil. discriminate.
    + destruct (IH p' H) as [H1|(p'' & -> & H2)].
      * left. apply sprefix_cons. exact H1.
      * right. exists p''. auto.
Qed.

(* ---- lines ---- *)
Lemma get_line_acc_nocrlf : forall l acc, no_crlf l = true -> get_line_acc l acc = Err Incomplete.
Proof.
  induction l as [|c l IH]; intros acc H; [reflexivity|].
  destruct l as [|y l']; [reflexivity|].
  cbn [no_crlf forallb] in H. apply andb_true_iff in H as [Hc H]. apply andb_true_iff in Hc as [H13 H10].
  apply negb_true_iff in H13, H10. rewrite get_line_acc_step, H13, H10. apply IH. exact H.
Qed.

Lemma get_line_acc_cr : forall s acc, no_crlf s = true -> get_line_acc (s ++ [13%N]) acc = Err Incomplete.
Proof.
  induction s as [|c s IH]; intros acc H; [reflexivity|].
  cbn [no_crlf forallb] in H. apply andb_true_iff in H as [Hc H]. apply andb_true_iff in Hc as [H13 H10].
  apply negb_true_iff in H13, H10.
  destruct (s ++ [13%N]) as [|y tl] eqn:E; [destruct s; discriminate|].
  change ((c :: s) ++ [13%N]) with (c :: (s ++ [13%N])). rewrite E, get_line_acc_step, H13, H10. apply IH. exact H.
Qed.

Lemma no_crlf_prefix p q : no_crlf (p ++ q) = true -> no_crlf p = true.
Proof. unfold no_crlf. rewrite forallb_app. intros H. apply andb_true_iff in H. tauto. Qed.

Lemma get_line_prefix s p : no_crlf s = true -> sprefix p (s ++ [13; 10]%N) -> get_line p = Err Incomplete.
Proof.
  intros Hs Hp. unfold get_line. apply sprefix_app in Hp as [(q & Hq & E)|(p' & -> & Hp')].
  - apply get_line_acc_nocrlf. rewrite E in Hs. eapply no_crlf_prefix; exact Hs.
  - apply sprefix_cons_inv in Hp' as [->|(p'' & -> & Hp'')].
    + rewrite app_nil_r. apply get_line_acc_nocrlf. exact Hs.
    + apply sprefix_cons_inv in Hp'' as [->|(p3 & -> & (q & Hq & E))]; [apply get_line_acc_cr; exact Hs|].
      destruct p3; [destruct q; [congruence|discriminate]|discriminate].
Qed.

(* ---- numbers ---- *)
Lemma digits_split_last : forall ds, ds <> [] -> forallb is_digit ds = true ->
  exists bs y, ds = bs ++ [y] /\ forallb is_digit bs = true.
Proof.
  intros ds Hne Hd. destruct (exists_last Hne) as (bs & y & ->). exists bs, y. split; [reflexivity|].
  rewrite forallb_app in Hd. apply andb_true_iff in Hd. tauto.
Qed.

(* strict prefixes of "<digits>\r\n", digits starting with a digit (no sign): Incomplete *)
Lemma get_integer_prefix_unsigned b tot ds p : ds <> [] -> forallb is_digit ds = true ->
  sprefix p (ds ++ [13; 10]%N) -> get_integer (fixed b) tot p = Err Incomplete.
Proof.
  intros Hne Hd Hp.
  destruct ds as [|d0 ds']; [congruence|]. cbn [forallb] in Hd. apply andb_true_iff in Hd as [Hd0 Hd'].
  destruct (digit_not_sign d0 Hd0) as [H45 H43].
  assert (Hsign : forall tl, sign_of (d0 :: tl) = (true, d0 :: tl)) by (intros tl; cbn [sign_of]; rewrite H45, H43; reflexivity).
  apply sprefix_app in Hp as [(q & Hq & E)|(p' & -> & Hp')].
  - (* inside the digits *)
    destruct p as [|x p]; [reflexivity|]. inversion E; subst x.
    assert (Hdp : forallb is_digit (d0 :: p) = true).
    { cbn [forallb]. rewrite Hd0. cbn [andb]. rewrite H1 in Hd'. rewrite forallb_app in Hd'. apply andb_true_iff in Hd'. tauto. }
    destruct (digits_split_last (d0 :: p) ltac:(discriminate) Hdp) as (bs & y & Ebs & Hbs).
    rewrite (get_integer_spec b tot (d0 :: p) true bs [y]); [reflexivity|discriminate| |exact Hbs|constructor].
    rewrite Hsign, Ebs. reflexivity.
  - apply sprefix_cons_inv in Hp' as [->|(p'' & -> & Hp'')].
    + (* all digits, nothing else *)
      rewrite app_nil_r.
      assert (Hdp : forallb is_digit (d0 :: ds') = true) by (cbn [forallb]; rewrite Hd0, Hd'; reflexivity).
      destruct (digits_split_last (d0 :: ds') ltac:(discriminate) Hdp) as (bs & y & Ebs & Hbs).
      rewrite (get_integer_spec b tot (d0 :: ds') true bs [y]); [reflexivity|discriminate| |exact Hbs|constructor].
      rewrite Hsign, Ebs. reflexivity.
    + apply sprefix_cons_inv in Hp'' as [->|(p3 & -> & (q & Hq & E))].
      * rewrite (get_integer_spec b tot ((d0 :: ds') ++ [13%N]) true (d0 :: ds') [13%N]); [reflexivity|discriminate| | |constructor].
        -- cbn [app]. rewrite Hsign. reflexivity.
        -- cbn [forallb]. rewrite Hd0, Hd'. reflexivity.
      * destruct p3; [destruct q; [congruence|discriminate]|discriminate].
Qed.

(* with a leading '-' *)
Lemma get_integer_prefix_neg b tot ds p : ds <> [] -> forallb is_digit ds = true ->
  sprefix p (45%N :: ds ++ [13; 10]%N) -> get_integer (fixed b) tot p = Err Incomplete.
Proof.
  intros Hne Hd Hp. apply sprefix_cons_inv in Hp as [->|(p' & -> & Hp')]; [reflexivity|].
  apply sprefix_app in Hp' as [(q & Hq & E)|(p'' & -> & Hp'')].
  - destruct p' as [|x p']; [reflexivity|].
    assert (Hdp : forallb is_digit (x :: p') = true).
    { rewrite E in Hd. rewrite forallb_app in Hd. apply andb_true_iff in Hd. tauto. }
    destruct (digits_split_last (x :: p') ltac:(discriminate) Hdp) as (bs & y & Ebs & Hbs).
    rewrite (get_integer_spec b tot (45%N :: x :: p') false bs [y]); [reflexivity|discriminate| |exact Hbs|constructor].
    cbn [sign_of]. change (45 =? 45)%N with true. cbv iota. rewrite Ebs. reflexivity.
  - apply sprefix_cons_inv in Hp'' as [->|(p3 & -> & Hp3)].
    + rewrite app_nil_r. destruct (digits_split_last ds Hne Hd) as (bs & y & Ebs & Hbs).
      rewrite (get_integer_spec b tot (45%N :: ds) false bs [y]); [reflexivity|discriminate| |exact Hbs|constructor].
      cbn [sign_of]. change (45 =? 45)%N with true. cbv iota. rewrite Ebs. reflexivity.
    + apply sprefix_cons_inv in Hp3 as [->|(p4 & -> & (q & Hq & E))].
      * rewrite (get_integer_spec b tot (45%N :: ds ++ [13%N]) false ds [13%N]); [reflexivity|discriminate| |exact Hd|constructor].
        cbn [sign_of]. change (45 =? 45)%N with true. reflexivity.
      * destruct p4; [destruct q; [congruence|discriminate]|discriminate].
Qed.

Lemma dec_N_digits n : (n < 10 ^ 20)%N -> dec_N n <> [] /\ forallb is_digit (dec_N n) = true.
Proof. intros H. destruct (dec_N_spec n H) as (ds & -> & Hne & Hd & _). auto. Qed.

Lemma get_integer_prefix_dec_N b tot n p : (Z.of_N n <= i64_max) ->
  sprefix p (dec_N n ++ [13; 10]%N) -> get_integer (fixed b) tot p = Err Incomplete.
Proof.
  intros Hn Hp.
  assert (Hlt : (n < 10 ^ 20)%N).
  { unfold i64_max in Hn. assert (2 ^ 63 - 1 < 10 ^ 20) by (vm_compute; reflexivity).
    assert (Z.of_N n < Z.of_N (10 ^ 20)%N) by (change (Z.of_N (10 ^ 20)%N) with (10 ^ 20); lia). lia. }
  destruct (dec_N_digits n Hlt) as [Hne Hd]. eapply get_integer_prefix_unsigned; eassumption.
Qed.

Lemma get_integer_prefix_dec_Z b tot z p : in_i64 z = true ->
  sprefix p (dec_Z z ++ [13; 10]%N) -> get_integer (fixed b) tot p = Err Incomplete.
Proof.
  intros Hz Hp. unfold in_i64, i64_min, i64_max in Hz. apply andb_true_iff in Hz as [H1 H2]. apply Z.leb_le in H1, H2.
  unfold dec_Z in Hp. destruct (z <? 0) eqn:E.
  - apply Z.ltb_lt in E.
    assert (Hlt : (Z.to_N (- z) < 10 ^ 20)%N).
    { assert (2 ^ 63 < 10 ^ 20) by (vm_compute; reflexivity).
      assert (Z.of_N (Z.to_N (- z)) < Z.of_N (10 ^ 20)%N) by (change (Z.of_N (10 ^ 20)%N) with (10 ^ 20); lia). lia. }
    destruct (dec_N_digits _ Hlt) as [Hne Hd]. eapply get_integer_prefix_neg; eassumption.
  - apply Z.ltb_ge in E. apply (get_integer_prefix_dec_N b tot (Z.to_N z)); [|exact Hp].
    rewrite Z2N.id by lia. exact H2.
Qed.

(* ---- a non-array frame ---- *)
Lemma check_single_prefix b tot f bs p d : writable_single f = true -> enc_single f = Ok bs ->
  sprefix p bs -> check_d (fixed b) tot d p = Err Incomplete.
Proof.
  intros Hw He Hp.
  destruct f as [s|s|z|bb|items|]; cbn [writable_single] in Hw; cbn [enc_single] in He; inversion He; subst; clear He.
  - apply andb_true_iff in Hw as [_ Hn]. apply sprefix_cons_inv in Hp as [->|(p' & -> & Hp')]; [destruct d; reflexivity|].
    destruct d; cbn [check_d]; change ((43 =? 43)%N || (43 =? 45)%N) with true; cbv iota; rewrite (get_line_prefix s p' Hn Hp'); reflexivity.
  - apply andb_true_iff in Hw as [_ Hn]. apply sprefix_cons_inv in Hp as [->|(p' & -> & Hp')]; [destruct d; reflexivity|].
    destruct d; cbn [check_d]; change ((45 =? 43)%N || (45 =? 45)%N) with true; cbv iota; rewrite (get_line_prefix s p' Hn Hp'); reflexivity.
  - apply sprefix_cons_inv in Hp as [->|(p' & -> & Hp')]; [destruct d; reflexivity|].
    destruct d; cbn [check_d]; change ((58 =? 43)%N || (58 =? 45)%N) with false; change (58 =? 58)%N with true; cbv iota;
      rewrite (get_integer_prefix_dec_Z b tot z p' Hw Hp'); reflexivity.
  - apply Z.leb_le in Hw.
    apply sprefix_cons_inv in Hp as [->|(p' & -> & Hp')]; [destruct d; reflexivity|].
    assert (Hle : Z.of_N (blen bb) <= i64_max) by (rewrite blen_Z; exact Hw).
    assert (Hlt : (blen bb < 10 ^ 20)%N).
    { assert (2 ^ 63 - 1 < 10 ^ 20) by (vm_compute; reflexivity). unfold i64_max in Hle.
      assert (Z.of_N (blen bb) < Z.of_N (10 ^ 20)%N) by (change (Z.of_N (10 ^ 20)%N) with (10 ^ 20); lia). lia. }
    destruct (dec_N_spec (blen bb) Hlt) as (ds & Eds & _ & _ & _ & _ & (d0 & tl0 & Ed0 & Hd0)).
    destruct (digit_not_sign d0 Hd0) as [H45 _].
    (* the header "<len>\r\n" and the payload "<bytes>\r\n" *)
    assert (Eq : dec_N (blen bb) ++ 13%N :: 10%N :: bb ++ crlf = (dec_N (blen bb) ++ [13; 10]%N) ++ (bb ++ [13; 10]%N))
      by (unfold crlf; rewrite <- !app_assoc; reflexivity).
    rewrite Eq in Hp'. clear Eq.
    apply sprefix_app in Hp' as [Hh|(p'' & -> & Hpay)].
    + (* inside the header *)
      destruct p' as [|c1 p1]; [destruct d; reflexivity|].
      assert (Hc1 : (c1 =? 45)%N = false).
      { destruct Hh as (q & _ & E). rewrite Eds, Ed0 in E. cbn [app] in E. inversion E; subst. exact H45. }
      destruct d; cbn [check_d]; change ((36 =? 43)%N || (36 =? 45)%N) with false; change (36 =? 58)%N with false;
        change (36 =? 36)%N with true; cbv iota; rewrite Hc1;
        rewrite (get_integer_prefix_dec_N b tot (blen bb) (c1 :: p1) Hle Hh); reflexivity.
    + (* header complete, payload not *)
      assert (Hint : get_integer (fixed b) tot ((dec_N (blen bb) ++ [13; 10]%N) ++ p'') = Ok (Z.of_nat (length bb), p'')).
      { rewrite <- app_assoc. cbn [app]. rewrite <- blen_Z. apply get_integer_dec_N. exact Hle. }
      assert (Hshape : exists tl, (dec_N (blen bb) ++ [13; 10]%N) ++ p'' = d0 :: tl).
      { rewrite Eds, Ed0. cbn [app]. eauto. }
      destruct Hshape as (tl & Eshape).
      assert (Hshort : Z.of_nat (length p'') <? Z.of_nat (length bb) + 2 = true).
      { destruct Hpay as (q & Hq & E). apply Z.ltb_lt. apply (f_equal (@length N)) in E. rewrite !app_length in E. cbn [length] in E.
        destruct q; [congruence|]. cbn [length] in E. lia. }
      destruct d; cbn [check_d]; change ((36 =? 43)%N || (36 =? 45)%N) with false; change (36 =? 58)%N with false;
        change (36 =? 36)%N with true; cbv iota; rewrite Eshape, H45, <- Eshape, Hint; cbn [lift];
        replace (Z.of_nat (length bb) <? 0) with false by (symmetry; apply Z.ltb_ge; lia);
        unfold skip; rewrite Hshort; reflexivity.
  - (* "$-1\r\n" *)
    apply sprefix_cons_inv in Hp as [->|(p1 & -> & Hp)]; [destruct d; reflexivity|].
    apply sprefix_cons_inv in Hp as [->|(p2 & -> & Hp)]; [destruct d; reflexivity|].
    apply sprefix_cons_inv in Hp as [->|(p3 & -> & Hp)]; [destruct d; reflexivity|].
    apply sprefix_cons_inv in Hp as [->|(p4 & -> & Hp)]; [destruct d; reflexivity|].
    apply sprefix_cons_inv in Hp as [->|(p5 & -> & Hp)]; [destruct d; reflexivity|].
    destruct Hp as (q & Hq & E). destruct p5; [destruct q; [congruence|discriminate]|discriminate].
Qed.
