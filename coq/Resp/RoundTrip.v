(* Resp/RoundTrip.v — what Connection::write_frame emits is read back as the same frame, with any
   bytes following it left untouched (C08, first clause). *)
From BC Require Import Resp.Frame Resp.IntProofs Resp.FrameProofs.
Open Scope Z_scope.

(* ---- decimal printing ---- *)
Definition no_crlf (s : bytes) : bool := forallb (fun c => negb (c =? 13)%N && negb (c =? 10)%N) s.

Lemma ascii_digit_is_digit d : (d < 10)%N -> is_digit (ascii_digit d) = true /\ dval (ascii_digit d) = Z.of_N d.
Proof.
  intros H. unfold is_digit, ascii_digit, dval. split.
  - apply andb_true_iff; split; apply N.leb_le; lia.
  - lia.
Qed.

Lemma dec_digits_spec : forall fuel n a, (n < 10 ^ N.of_nat fuel)%N -> (0 < fuel)%nat ->
  exists ds, dec_digits_fuel fuel n a = ds ++ a /\ ds <> [] /\ forallb is_digit ds = true /\
             (forall pos init, value pos ds init =
                               if pos then init * 10 ^ Z.of_nat (length ds) + Z.of_N n
                               else init * 10 ^ Z.of_nat (length ds) - Z.of_N n) /\
             (exists d0 tl, ds = d0 :: tl /\ is_digit d0 = true).
Proof.
  induction fuel as [|f IH]; intros n a Hn Hf; [lia|].
  cbn [dec_digits_fuel].
  assert (Hm : (n mod 10 < 10)%N) by (apply N.mod_lt; lia).
  destruct (ascii_digit_is_digit (n mod 10) Hm) as [Hd Hv].
  destruct (n <? 10)%N eqn:E.
  - apply N.ltb_lt in E. exists [ascii_digit (n mod 10)]. repeat split.
    + discriminate.
    + cbn [forallb]. rewrite Hd. reflexivity.
    + intros pos init. cbn [value fold_left length]. unfold acc at 1. rewrite Hv.
      rewrite N.mod_small by exact E. change (10 ^ Z.of_nat 1) with 10. destruct pos; reflexivity.
    + eauto.
  - apply N.ltb_ge in E.
    destruct f as [|f'].
    { cbn in Hn. lia. }
    destruct (IH (n / 10)%N (ascii_digit (n mod 10) :: a)) as (ds & E1 & Hne & Hds & Hval & (d0 & tl & Ed & Hd0)).
    { apply N.div_lt_upper_bound; [lia|].
      replace (N.of_nat (S (S f'))) with (N.succ (N.of_nat (S f'))) in Hn by lia.
      rewrite N.pow_succ_r' in Hn. exact Hn. }
    { lia. }
    exists (ds ++ [ascii_digit (n mod 10)]). repeat split.
    + rewrite E1. rewrite <- app_assoc. reflexivity.
    + destruct ds; discriminate.
    + rewrite forallb_app. rewrite Hds. cbn [forallb]. rewrite Hd. reflexivity.
    + intros pos init. rewrite value_app. rewrite Hval. cbn [value fold_left].
      rewrite app_length. cbn [length]. rewrite Nat.add_1_r, Nat2Z.inj_succ, Z.pow_succ_r by lia.
      unfold acc at 1. rewrite Hv.
      pose proof (N.div_mod n 10 ltac:(lia)) as Hdm.
      assert (Hz : Z.of_N n = 10 * Z.of_N (n / 10) + Z.of_N (n mod 10)) by lia.
      destruct pos; lia.
    + subst ds. exists d0, (tl ++ [ascii_digit (n mod 10)]). split; [reflexivity|exact Hd0].
Qed.

Lemma dec_N_spec n : (n < 10 ^ 20)%N ->
  exists ds, dec_N n = ds /\ ds <> [] /\ forallb is_digit ds = true /\
             value true ds 0 = Z.of_N n /\ value false ds 0 = - Z.of_N n /\
             (exists d0 tl, ds = d0 :: tl /\ is_digit d0 = true).
Proof.
  intros H. unfold dec_N.
  destruct (dec_digits_spec 20 n [] H ltac:(lia)) as (ds & E & Hne & Hds & Hv & Hhd).
  rewrite app_nil_r in E. exists ds. repeat split; auto.
  - rewrite Hv. lia.
  - rewrite Hv. lia.
Qed.

Lemma digit_not_sign d : is_digit d = true -> (d =? 45)%N = false /\ (d =? 43)%N = false.
Proof.
  unfold is_digit. intros H. apply andb_true_iff in H as [H1 H2]. apply N.leb_le in H1, H2.
  split; apply N.eqb_neq; lia.
Qed.

(* reading back a printed non-negative number / a printed signed number *)
Lemma get_integer_dec_N b tot n x rest : (Z.of_N n <= i64_max) ->
  get_integer (fixed b) tot (dec_N n ++ 13%N :: x :: rest) = Ok (Z.of_N n, rest).
Proof.
  intros Hn.
  assert (Hlt : (n < 10 ^ 20)%N).
  { unfold i64_max in Hn. assert (2 ^ 63 - 1 < 10 ^ 20) by (vm_compute; reflexivity).
    assert (Z.of_N n < Z.of_N (10 ^ 20)%N) by (change (Z.of_N (10 ^ 20)%N) with (10 ^ 20); lia). lia. }
  destruct (dec_N_spec n Hlt) as (ds & -> & Hne & Hds & Hv & _ & (d0 & tl & -> & Hd0)).
  rewrite (get_integer_accepts b tot _ true (d0 :: tl) x rest).
  - rewrite Hv. unfold in_i64, i64_min. replace (- 2 ^ 63 <=? Z.of_N n) with true by (symmetry; apply Z.leb_le; lia).
    replace (Z.of_N n <=? i64_max) with true by (symmetry; apply Z.leb_le; lia). reflexivity.
  - cbn [app sign_of]. destruct (digit_not_sign d0 Hd0) as [-> ->]. reflexivity.
  - discriminate.
  - exact Hds.
Qed.

Lemma get_integer_dec_Z b tot z x rest : in_i64 z = true ->
  get_integer (fixed b) tot (dec_Z z ++ 13%N :: x :: rest) = Ok (z, rest).
Proof.
  intros Hz. unfold in_i64, i64_min, i64_max in Hz. apply andb_true_iff in Hz as [H1 H2].
  apply Z.leb_le in H1, H2. unfold dec_Z. destruct (z <? 0) eqn:E.
  - apply Z.ltb_lt in E.
    assert (Hlt : (Z.to_N (- z) < 10 ^ 20)%N).
    { assert (2 ^ 63 < 10 ^ 20) by (vm_compute; reflexivity).
      assert (Z.of_N (Z.to_N (- z)) < Z.of_N (10 ^ 20)%N) by (change (Z.of_N (10 ^ 20)%N) with (10 ^ 20); lia). lia. }
    destruct (dec_N_spec _ Hlt) as (ds & -> & Hne & Hds & _ & Hv & _).
    rewrite (get_integer_accepts b tot _ false ds x rest).
    + rewrite Hv. rewrite Z2N.id by lia. replace (- - z) with z by lia.
      unfold in_i64, i64_min, i64_max. replace (- 2 ^ 63 <=? z) with true by (symmetry; apply Z.leb_le; lia).
      replace (z <=? 2 ^ 63 - 1) with true by (symmetry; apply Z.leb_le; lia). reflexivity.
    + reflexivity.
    + exact Hne.
    + exact Hds.
  - apply Z.ltb_ge in E. rewrite <- (Z2N.id z) at 2 by lia. apply get_integer_dec_N.
    rewrite Z2N.id by lia. exact H2.
Qed.

(* ---- lines ---- *)
Lemma get_line_acc_step c y rest acc :
  get_line_acc (c :: y :: rest) acc =
  if (c =? 13)%N then Ok (rev acc, rest) else if (c =? 10)%N then Err BadEncoding else get_line_acc (y :: rest) (c :: acc).
Proof. reflexivity. Qed.

Lemma get_line_acc_fwd : forall s acc x rest, no_crlf s = true ->
  get_line_acc (s ++ 13%N :: x :: rest) acc = Ok (rev acc ++ s, rest).
Proof.
  induction s as [|c s IH]; intros acc x rest H.
  - cbn. rewrite app_nil_r. reflexivity.
  - cbn [no_crlf forallb] in H. apply andb_true_iff in H as [Hc H]. apply andb_true_iff in Hc as [H13 H10].
    apply negb_true_iff in H13, H10.
    destruct (s ++ 13%N :: x :: rest) as [|y tl] eqn:E; [destruct s; discriminate|].
    change ((c :: s) ++ 13%N :: x :: rest) with (c :: (s ++ 13%N :: x :: rest)). rewrite E.
    rewrite get_line_acc_step. rewrite H13, H10. rewrite <- E. rewrite IH by exact H.
    cbn [rev]. rewrite <- app_assoc. reflexivity.
Qed.

Lemma get_line_fwd s x rest : no_crlf s = true -> get_line (s ++ 13%N :: x :: rest) = Ok (s, rest).
Proof. intros H. unfold get_line. rewrite get_line_acc_fwd by exact H. reflexivity. Qed.

(* ---- frames the writer can emit ---- *)
Definition writable_single (f : frame) : bool :=
  match f with
  | Simple s | Error s => is_utf8 s && no_crlf s
  | Integer z => in_i64 z
  | Bulk b => Z.of_nat (length b) <=? i64_max
  | Null => true
  | Array _ => false
  end.
Definition writable (f : frame) : bool :=
  match f with
  | Array items => forallb writable_single items && (Z.of_nat (length items) <=? i64_max)
  | _ => writable_single f
  end.

Lemma firstn_app_exact {A} (a b : list A) : firstn (length a) (a ++ b) = a.
Proof. rewrite firstn_app, Nat.sub_diag, firstn_all. cbn. apply app_nil_r. Qed.
Lemma skipn_app_exact {A} (a b : list A) : skipn (length a) (a ++ b) = b.
Proof. rewrite skipn_app, Nat.sub_diag, skipn_all. reflexivity. Qed.

Lemma blen_Z (l : bytes) : Z.of_N (blen l) = Z.of_nat (length l).
Proof. unfold blen. lia. Qed.

(* A non-array frame is read back at any nesting budget, by both walkers. *)
Lemma single_roundtrip b tot f bs rest : writable_single f = true -> enc_single f = Ok bs ->
  forall d, parse_d (fixed b) tot d (bs ++ rest) = Ok (f, rest) /\
            check_d (fixed b) tot d (bs ++ rest) = Ok (tt, rest).
Proof.
  intros Hw He d.
  assert (Hd : forall (P : nat -> Prop), (forall d, P d) -> P d) by auto.
  destruct f as [s|s|z|bb|items|]; cbn [writable_single] in Hw; cbn [enc_single] in He; inversion He; subst; clear He.
  - apply andb_true_iff in Hw as [Hu Hn].
    destruct d; cbn [app parse_d check_d]; change (43 =? 43)%N with true; cbv iota; cbn [orb];
      rewrite <- app_assoc; cbn [app crlf]; rewrite get_line_fwd by exact Hn; cbn [lift]; rewrite Hu; auto.
  - apply andb_true_iff in Hw as [Hu Hn].
    destruct d; cbn [app parse_d check_d]; change (45 =? 43)%N with false; change (45 =? 45)%N with true; cbv iota; cbn [orb];
      rewrite <- app_assoc; cbn [app crlf]; rewrite get_line_fwd by exact Hn; cbn [lift]; rewrite Hu; auto.
  - destruct d; cbn [app parse_d check_d]; change (58 =? 43)%N with false; change (58 =? 45)%N with false;
      change (58 =? 58)%N with true; cbv iota; cbn [orb];
      rewrite <- app_assoc; cbn [app crlf]; rewrite get_integer_dec_Z by exact Hw; cbn [lift]; auto.
  - apply Z.leb_le in Hw.
    assert (Hint : forall tl, get_integer (fixed b) tot (dec_N (blen bb) ++ 13%N :: 10%N :: tl) = Ok (Z.of_nat (length bb), tl)).
    { intros tl. rewrite <- blen_Z. apply get_integer_dec_N. rewrite blen_Z. exact Hw. }
    assert (Hlt : (blen bb < 10 ^ 20)%N).
    { assert (2 ^ 63 - 1 < 10 ^ 20) by (vm_compute; reflexivity). unfold i64_max in Hw.
      assert (Z.of_N (blen bb) < Z.of_N (10 ^ 20)%N) by (rewrite blen_Z; change (Z.of_N (10 ^ 20)%N) with (10 ^ 20); lia). lia. }
    destruct (dec_N_spec (blen bb) Hlt) as (ds & Eds & _ & _ & _ & _ & (d0 & tl0 & Ed0 & Hd0)).
    destruct (digit_not_sign d0 Hd0) as [H45 _].
    assert (Hshape : forall tl, (dec_N (blen bb) ++ crlf ++ bb ++ crlf) ++ tl
                     = d0 :: tl0 ++ 13%N :: 10%N :: (bb ++ 13%N :: 10%N :: tl)).
    { intros tl. rewrite Eds, Ed0. cbn [crlf app]. rewrite <- !app_assoc. cbn [app]. rewrite <- app_assoc. reflexivity. }
    assert (Hint' : forall tl, get_integer (fixed b) tot (d0 :: tl0 ++ 13%N :: 10%N :: tl) = Ok (Z.of_nat (length bb), tl)).
    { intros tl. specialize (Hint tl). rewrite Eds, Ed0 in Hint. exact Hint. }
    assert (Hlen : Z.of_nat (length (bb ++ 13%N :: 10%N :: rest)) <? Z.of_nat (length bb) + 2 = false).
    { apply Z.ltb_ge. rewrite app_length. cbn [length]. lia. }
    destruct d; cbn [app parse_d check_d]; change (36 =? 43)%N with false; change (36 =? 45)%N with false;
      change (36 =? 58)%N with false; change (36 =? 36)%N with true; cbv iota; cbn [orb];
      rewrite Hshape, H45, Hint'; cbn [lift];
      replace (Z.of_nat (length bb) <? 0) with false by (symmetry; apply Z.ltb_ge; lia);
      unfold skip; rewrite Hlen; cbn [lift];
      replace (Z.to_nat (Z.of_nat (length bb) + 2)) with (length (bb ++ [13%N; 10%N])) by (rewrite app_length; cbn [length]; lia);
      rewrite Nat2Z.id;
      replace (bb ++ 13%N :: 10%N :: rest) with ((bb ++ [13%N; 10%N]) ++ rest) by (rewrite <- app_assoc; reflexivity);
      rewrite skipn_app_exact; rewrite <- app_assoc; rewrite firstn_app_exact; auto.
  - assert (Hs : forall r, skip (45%N :: 49%N :: 13%N :: 10%N :: r) 4 = Ok r).
    { intros r. unfold skip.
      replace (Z.of_nat (length (45%N :: 49%N :: 13%N :: 10%N :: r)) <? 4) with false
        by (symmetry; apply Z.ltb_ge; cbn [length]; lia).
      reflexivity. }
    assert (Hg : get_line (45%N :: 49%N :: 13%N :: 10%N :: rest) = Ok ([45%N; 49%N], rest)).
    { apply (get_line_fwd [45%N; 49%N] 10%N rest). reflexivity. }
    destruct d; cbn [app parse_d check_d]; change (36 =? 43)%N with false; change (36 =? 45)%N with false;
      change (36 =? 58)%N with false; change (36 =? 36)%N with true; change (45 =? 45)%N with true; cbv iota; cbn [orb];
      rewrite Hs, Hg; cbn [lift]; change (beq [45%N; 49%N] [45%N; 49%N]) with true; cbv iota; auto.
Qed.

(* the element loop over a list of encoded non-array frames *)
Lemma items_roundtrip b tot d : forall items bs rest acc1 acc2 fuel,
  forallb writable_single items = true -> enc_items items = Ok bs -> (length items <= fuel)%nat ->
  items_loop (parse_d (fixed b) tot d) fuel (Z.of_nat (length items)) (bs ++ rest) acc1 = Ok (rev acc1 ++ items, rest) /\
  exists us, items_loop (check_d (fixed b) tot d) fuel (Z.of_nat (length items)) (bs ++ rest) acc2 = Ok (us, rest).
Proof.
  induction items as [|f items IH]; intros bs rest acc1 acc2 fuel Hw He Hf.
  - cbn in He. inversion He; subst. cbn [length app]. destruct fuel; cbn [items_loop Z.of_nat]; change (0 <=? 0) with true;
      cbv iota; rewrite app_nil_r; eauto.
  - cbn [forallb] in Hw. apply andb_true_iff in Hw as [Hwf Hw].
    cbn [enc_items] in He. destruct (enc_single f) as [bf| | | |] eqn:Ef; try discriminate.
    destruct (enc_items items) as [bi| | | |] eqn:Ei; try discriminate. inversion He; subst. clear He.
    destruct fuel as [|fuel]; [cbn in Hf; lia|]. cbn [length] in *.
    cbn [items_loop]. replace (Z.of_nat (S (length items)) <=? 0) with false by (symmetry; apply Z.leb_gt; lia).
    rewrite <- app_assoc.
    destruct (single_roundtrip b tot f bf (bi ++ rest) Hwf Ef d) as [Hp Hc]. rewrite Hp, Hc.
    replace (Z.of_nat (S (length items)) - 1) with (Z.of_nat (length items)) by lia.
    destruct (IH bi rest (f :: acc1) (tt :: acc2) fuel Hw eq_refl ltac:(lia)) as [IH1 IH2].
    rewrite IH1. cbn [rev]. rewrite <- app_assoc. cbn [app]. split; [reflexivity|exact IH2].
Qed.

Lemma enc_items_length : forall items bs, enc_items items = Ok bs -> (length items <= length bs)%nat.
Proof.
  induction items as [|f items IH]; intros bs H; [cbn; lia|].
  cbn [enc_items] in H. destruct (enc_single f) as [bf| | | |] eqn:Ef; try discriminate.
  destruct (enc_items items) as [bi| | | |] eqn:Ei; try discriminate. inversion H; subst.
  specialize (IH bi eq_refl). rewrite app_length. cbn [length].
  assert (1 <= length bf)%nat.
  { destruct f; cbn [enc_single] in Ef; inversion Ef; subst; cbn [length]; lia. }
  lia.
Qed.

Theorem roundtrip b f bs rest : writable f = true -> enc f = Ok bs ->
  parse (fixed b) (bs ++ rest) = Ok (f, rest) /\ check (fixed b) (bs ++ rest) = Ok (tt, rest).
Proof.
  intros Hw He. unfold parse, check. cbn [v_depth fixed].
  destruct f as [s|s|z|bb|items|];
    try (apply single_roundtrip; [exact Hw|exact He]).
  cbn [writable] in Hw. apply andb_true_iff in Hw as [Hw Hn]. apply Z.leb_le in Hn.
  cbn [enc] in He. destruct (enc_items items) as [bi| | | |] eqn:Ei; try discriminate. inversion He; subst. clear He.
  set (tot := blen _).
  assert (Hint : get_integer (fixed b) tot (dec_N (N.of_nat (length items)) ++ 13%N :: 10%N :: (bi ++ rest))
                 = Ok (Z.of_nat (length items), bi ++ rest)).
  { replace (Z.of_nat (length items)) with (Z.of_N (N.of_nat (length items))) by lia.
    apply get_integer_dec_N. lia. }
  assert (Hshape : (42%N :: dec_N (N.of_nat (length items)) ++ 13%N :: 10%N :: bi) ++ rest
                   = 42%N :: dec_N (N.of_nat (length items)) ++ 13%N :: 10%N :: (bi ++ rest)).
  { cbn [app]. rewrite <- app_assoc. cbn [app]. reflexivity. }
  rewrite Hshape. unfold max_depth. change 32%nat with (S 31). generalize 31%nat as d; intros d.
  cbn [parse_d check_d]. change (42 =? 43)%N with false. change (42 =? 45)%N with false.
  change (42 =? 58)%N with false. change (42 =? 36)%N with false. change (42 =? 42)%N with true. cbv iota. cbn [orb].
  rewrite Hint. cbn [lift]. replace (Z.of_nat (length items) <? 0) with false by (symmetry; apply Z.ltb_ge; lia).
  pose proof (enc_items_length items bi Ei) as Hl.
  destruct (items_roundtrip b tot d items bi rest [] [] (S (length (bi ++ rest))) Hw Ei) as [H1 (us & H2)].
  { rewrite app_length. lia. }
  rewrite H1, H2. cbn [lift rev app]. auto.
Qed.
