(* Props/C18.v — C18: background merge and sync follow the configured policy.
   Model: Sys/Background.v (the two periodic tasks over the engine model) and Sys/Trigger.v (the
   trigger predicate, fragmentation in IEEE-754 binary64 via Flocq).  Real time is abstracted to
   ticks; "within one check interval plus jitter" is "at the first wake-up after the trigger is
   exceeded", the wake-ups being at most interval*(1+jitter) apart by construction of the sleep:
   partial.  The `window` policy is outside the property's quantifier; it is modelled with the local hour as an
   input (theorem 2b). *)
From Coq Require Import List.
Import ListNotations.
From BC Require Import Store.Engine Sys.Trigger Sys.Background.

(* 1. With policy `never` no merge ever runs, whatever clients do and however the triggers stand. *)
Theorem C18_never : forall b, b_policy b = PNever -> forall es s, ~ In OMerged (snd (fst (brun b s es))).
Proof. exact never_merges. Qed.
Print Assumptions C18_never.

(* 2. With policy `always`, at every wake-up of the merge task a merge runs exactly when some file
      exceeds a trigger — dead bytes above the limit, or dead/(dead+live) computed in binary64
      above the fragmentation limit — on the counters at that instant (which C19 proves exact). *)
Theorem C18_always_iff_triggered : forall b s ord, b_policy b = PAlways ->
  snd (fst (bstep b s (MergeTick ord))) = if can_merge PAlways (b_trig b) s then OMerged else OSkipped.
Proof. exact always_merges_iff_triggered. Qed.
Print Assumptions C18_always_iff_triggered.

(* 2b. With policy `window a..z`, a wake-up at local hour h inside the hours (a <= h <= z, both ends
       included, as the code compares) behaves as `always`; a wake-up outside them merges nothing. *)
Theorem C18_window : forall b s ord a z h, b_policy b = PWindow a z h ->
  snd (fst (bstep b s (MergeTick ord))) =
  if (a <=? h)%N && (h <=? z)%N then (if can_merge PAlways (b_trig b) s then OMerged else OSkipped) else OSkipped.
Proof. exact window_tick. Qed.
Print Assumptions C18_window.

(* 3. With interval sync, every wake-up of the sync task forces the file that is active then. *)
Theorem C18_sync_interval : forall b s, b_sync_interval b = true ->
  bstep b s SyncTick = (s, OSynced (s_active s), [SFsync (FData (s_active s))]).
Proof. exact sync_tick_forces_active. Qed.
Print Assumptions C18_sync_interval.

(* 4. The binary64 trigger agrees with exact rational arithmetic for all counters up to 40 and all
      thresholds k/8 (exhaustive computation over the 41*41*9 cases, the bound is part of the
      statement), and provably differs from it elsewhere (0.6). *)
Theorem C18_f64_agrees_small : small_agree = true.
Proof. exact small_agree_true. Qed.
Print Assumptions C18_f64_agrees_small.

Example C18_example :
  let b := mkB (mkCfg 1000 false 1 1 1000 0) PAlways (mkTrig 6 10 1000000) false in
  let s := fst (fst (run (b_cfg b) init [OSet [1]%N [1]%N; OSet [1]%N [2]%N; OSet [2]%N [3]%N])) in
  snd (fst (bstep b s (MergeTick [[2]%N; [1]%N]))) = OSkipped /\
  let s2 := fst (fst (run (b_cfg b) s [OSet [1]%N [4]%N; OSet [2]%N [5]%N; OSet [1]%N [6]%N])) in
  snd (fst (bstep b s2 (MergeTick [[2]%N; [1]%N]))) = OMerged.
Proof. vm_compute. split; reflexivity. Qed.
