(* Props/C04.v — C04: concurrent gets, sets and deletes are linearizable and never panic or hang.
   Model: Conc/StoreLTS.v, an interleaving model of put / get / delete on the active data file at the
   granularity at which the code's steps are visible to other threads (mutex, partial records — a
   record's bytes appear in the file in arbitrary increments —, KeyDir publish and lookup, per-reader
   mapped lengths, the bounded reader pool, the remap rule of LogReader::at).
   A second interleaving model (Conc/MergeLTS.v) covers gets against a running merge pass: the merge
   holds the writer mutex throughout, readers keep the DashMap guard of their entry until they have
   read the value, the merge loop copies and re-points entry by entry under the entry's lock and
   unlinks afterwards.  Partial: the two models are not composed into one; rollover of the active file
   is exercised by the schedule and stress runs of the check only; the mutex, DashMap shard atomicity
   and mmap coherence are assumed as modelled. *)
From Coq Require Import List Arith.
Import ListNotations.
From BC Require Import Conc.Lin Conc.StoreLTS Conc.StoreSafe Conc.StoreLin Conc.StoreLive.
From BC Require Conc.MergeLTS Conc.MergeSafe Conc.RollLTS Conc.RollSafe Conc.RollLin.
From Coq Require Import Lia.

(* 1. No schedule makes any thread panic: whatever the interleaving and however the bytes of a record
      trickle into the file, the slice a get takes of its mapping is in range. *)
Theorem C04_no_panic : forall cap es s t, lrun rule_fixed (linit cap) es = Some s -> thr s t <> PPanicked.
Proof. exact no_panic. Qed.
Print Assumptions C04_no_panic.

(* 2. Every schedule is linearizable: the instrumented history is accepted by the commit-point
      monitor (every operation returns what the map specification computes at its commit), the commit
      order replays sequentially to the final abstract map reproducing every result, contains every
      operation that has returned, and puts an operation after all that returned before its invocation. *)
Theorem C04_linearizable : forall cap es s,
  lrun rule_fixed (linit cap) es = Some s ->
  exists m, Lin.mrun _ _ _ mspec res_eqb (Lin.minit _ _ _ (fun _ => None)) (project (linit cap) es) = Some m /\
    ghost _ _ _ m = gmap s /\
    replay _ _ _ mspec res_eqb (fun _ => None) (lin _ _ _ m) = (gmap s, true) /\
    (forall id, In id (returned _ _ _ m) -> In id (ids_of _ _ (lin _ _ _ m))) /\
    (forall id rs a l1 l2, In (id, rs) (before _ _ _ m) -> In a rs -> ids_of _ _ (lin _ _ _ m) = l1 ++ id :: l2 -> In a l1).
Proof. exact every_schedule_linearizable. Qed.
Print Assumptions C04_linearizable.

(* 3. Readers are never lost: pool + readers held by threads = capacity, in every reachable state;
      so once no get is in progress the pool is full again. *)
Theorem C04_pool_conserved : forall cap ts es s,
  NoDup ts -> Forall (fun e => In (ev_thread e) ts) es -> lrun rule_fixed (linit cap) es = Some s ->
  length (pool s) + hsum (thr s) ts = cap.
Proof. exact pool_conserved. Qed.
Print Assumptions C04_pool_conserved.

(* 4. No hang: in every reachable state in which some thread has an operation in progress, some step
      of the model is enabled (no deadlock between the mutex and the reader pool). *)
Theorem C04_no_deadlock : forall cap ts es s t,
  0 < cap -> NoDup ts -> Forall (fun e => In (ev_thread e) ts) es -> lrun rule_fixed (linit cap) es = Some s ->
  thr s t <> PIdle -> exists e s', lstep rule_fixed s e = Some s'.
Proof. exact no_deadlock. Qed.
Print Assumptions C04_no_deadlock.

(* 5. The theorem is about the repaired code: with the pinned remap rule (D3) an explicit schedule
      panics a get and loses the only reader; the same schedule is fine with the repaired rule. *)
Theorem C04_pinned_rule_refuted :
  exists s, lrun rule_pinned (linit 1) d3_schedule = Some s /\ thr s 1 = PPanicked /\ pool s = [].
Proof. exact pinned_rule_panics. Qed.
Print Assumptions C04_pinned_rule_refuted.

(* 6. Gets against a merge pass, for every schedule: no get reads from a file that was unlinked, every
      get returns the value the abstract map held at its lookup, and the merge never changes the
      abstract map.  [J T s]: index entries point at existing records, readers hold what the index says
      (true of every quiescent state: J_init); [run_ok]: a merge starts with a work list that covers
      every index entry lying in a selected file. *)
Theorem C04_gets_vs_merge : forall T es s s', MergeSafe.J T s -> MergeSafe.run_ok T s es -> MergeLTS.mrun T true s es = Some s' ->
  (forall t, MergeLTS.readers s' t <> MergeLTS.RFailed) /\
  (forall t k v c, MergeLTS.readers s' t = MergeLTS.RDone k v c -> v = MergeLTS.gmap s k) /\
  (forall k, MergeLTS.gmap s' k = MergeLTS.gmap s k).
Proof. exact MergeSafe.merge_vs_gets. Qed.
Print Assumptions C04_gets_vs_merge.

(* 7. ... and it is the guard that does it: when the reader drops it after the lookup, an explicit
      schedule makes a get read an unlinked file (the shape of seeded change C04-A / C01-B). *)
Theorem C04_unguarded_reader_refuted :
  exists s, MergeLTS.mrun 1 false MergeSafe.demo_state MergeSafe.demo_schedule = Some s /\ MergeLTS.readers s 0 = MergeLTS.RFailed.
Proof. exact MergeSafe.unguarded_reader_fails. Qed.
Print Assumptions C04_unguarded_reader_refuted.

(* 8. Puts and deletes that replace the active file against gets, for every schedule (Conc/RollLTS.v: the writer
      appends a record or a tombstone, may create the next file and make it the active one, and only then publishes; a reader
      opens a file it has not touched, and renews a mapping that does not cover the record): no reader
      finds a file missing or a record outside its mapping, every finished get holds the value of the
      abstract map at its lookup, and every index entry points at an existing put record (never at a tombstone). *)
Theorem C04_rollover_vs_gets : forall es s, RollLTS.rrun true RollLTS.rinit es = Some s ->
  (forall t, RollLTS.rreaders s t <> RollLTS.GFailed) /\
  (forall t k v c, RollLTS.rreaders s t = RollLTS.GDone k v c -> v = c) /\
  (forall k f p, RollLTS.ridx s k = Some (f, p) -> exists v, RollSafe.has (RollLTS.rfiles s) f p (Some v)).
Proof. exact RollSafe.rollover_vs_gets. Qed.
Print Assumptions C04_rollover_vs_gets.

(* 9. In that model no step of a put waits for a reader: whatever the schedule did, the writer's next
      step is enabled (the next file can always be created). *)
Theorem C04_writer_never_blocked : forall es s, RollLTS.rrun true RollLTS.rinit es = Some s ->
  match RollLTS.wstate s with
  | RollLTS.WIdle => forall k v, RollLTS.rstep true s (RollLTS.WAppend k v) <> None
  | RollLTS.WAppended _ _ | RollLTS.WAppendedDel _ => RollLTS.rstep true s RollLTS.WRoll <> None /\ RollLTS.rstep true s RollLTS.WPublish <> None
  | RollLTS.WDone _ => RollLTS.rstep true s RollLTS.WReturn <> None
  end.
Proof. exact RollSafe.writer_never_blocked. Qed.
Print Assumptions C04_writer_never_blocked.

(* 9b. ... and every schedule of that model is linearizable: the monitor of Conc/Lin.v accepts its history (puts
       commit when the index entry is published, after the rollover; gets at the lookup), so the commit order
       replays from the empty map to the map the index denotes, reproduces every result, contains every returned
       operation and respects real time. *)
Theorem C04_rollover_linearizable : forall es s, RollLTS.rrun true RollLTS.rinit es = Some s ->
  exists m, Lin.mrun _ _ _ RollLin.rspec RollLin.rres_eqb (Lin.minit _ _ _ (fun _ => None)) (RollLin.project RollLTS.rinit es) = Some m /\
    (forall k, Lin.ghost _ _ _ m k = RollLTS.rgmap s k) /\
    Lin.replay _ _ _ RollLin.rspec RollLin.rres_eqb (fun _ => None) (Lin.lin _ _ _ m) = (Lin.ghost _ _ _ m, true) /\
    (forall id, In id (Lin.returned _ _ _ m) -> In id (Lin.ids_of _ _ (Lin.lin _ _ _ m))) /\
    (forall id rs a l1 l2, In (id, rs) (Lin.before _ _ _ m) -> In a rs -> Lin.ids_of _ _ (Lin.lin _ _ _ m) = l1 ++ id :: l2 -> In a l1).
Proof. exact RollLin.roll_schedules_linearizable. Qed.
Print Assumptions C04_rollover_linearizable.

(* 10. ... and it is the renewal that does it: a reader that keeps the mapping it made fails on the record
       of a later put (the shape of the seeded changes that drop the remap). *)
Theorem C04_no_renewal_refuted :
  exists s, RollLTS.rrun false RollLTS.rinit RollSafe.stale_schedule = Some s /\ RollLTS.rreaders s 0 = RollLTS.GFailed.
Proof. exact RollSafe.no_renewal_fails. Qed.
Print Assumptions C04_no_renewal_refuted.

Example C04_example :
  exists s, lrun rule_fixed (linit 1) d3_schedule = Some s /\ thr s 1 = PGRead 150 (Some 20).
Proof. exact fixed_rule_same_schedule. Qed.

(* Non-vacuity of 6: a quiescent state satisfies the invariant; with the guard kept, the merge waits
   for the reader, then re-points and unlinks, and a later get reads the copy. *)
Example C04_merge_example :
  MergeSafe.J 1 MergeSafe.demo_state /\
  MergeLTS.mrun 1 true MergeSafe.demo_state [MergeLTS.RLookup 0 1; MergeLTS.MStart [0] [1] 5; MergeLTS.MCopy] = None /\
  exists s, MergeLTS.mrun 1 true MergeSafe.demo_state
              [MergeLTS.RLookup 0 1; MergeLTS.MStart [0] [1] 5; MergeLTS.RRead 0; MergeLTS.MCopy; MergeLTS.MCopyEnd; MergeLTS.MUnlink; MergeLTS.MEnd;
               MergeLTS.RReturn 0; MergeLTS.RLookup 0 1; MergeLTS.RRead 0] = Some s /\
            MergeLTS.readers s 0 = MergeLTS.RDone 1 (Some 7) (Some 7) /\ MergeLTS.files s 0 = None.
Proof.
  split.
  { apply MergeSafe.J_init; [|reflexivity|reflexivity]. intros k loc H. unfold MergeSafe.demo_state in H. cbn [MergeLTS.idx] in H.
    destruct (Nat.eqb k 1); [|discriminate]. inversion H; subst. exists [MergeLTS.mkMRec 1 7]. cbn. split; [reflexivity|lia]. }
  exact MergeSafe.guarded_merge_waits.
Qed.

(* Non-vacuity of 8: a schedule with a rollover between append and publication, two readers, one of
   them holding a mapping of the old file. *)
Example C04_rollover_example :
  exists s, RollLTS.rrun true RollLTS.rinit RollSafe.roll_schedule = Some s /\
            RollLTS.rreaders s 0 = RollLTS.GDone 1 (Some 11) (Some 11) /\ RollLTS.rreaders s 1 = RollLTS.GDone 2 None None /\ RollLTS.ractive s = 1.
Proof. exact RollSafe.roll_schedule_runs. Qed.
