(* Props/C11.v — C11: concurrent clients see one linearizable store.
   Each command of a connection is applied by one store operation (Resp/Handler.v, C10) that runs
   strictly inside the interval between the arrival of the request and the sending of the reply, and
   a connection has at most one command in flight.  Reading the threads of Conc/StoreLTS.v as
   connections, the client-visible history is the store history with wider intervals; widening an
   interval keeps a history accepted by the commit-point monitor (theorems 4 and 5), so the
   client-visible history is linearizable whenever the store-level one is.
   Partial: tokio's scheduling of handlers and blocking threads is not modelled; the check measures
   real client-side histories and decides them with a linearizability checker. *)
From Coq Require Import List Arith.
Import ListNotations.
From BC Require Import Conc.Lin Conc.Widen Conc.StoreLTS Conc.StoreSafe Conc.StoreLin.

(* 1. Generic: any execution whose operations return the value computed at their commit point is
      linearizable, with the commit order as witness (replay reproduces all results; completed
      operations are all there; real-time order is respected). *)
Theorem C11_commit_points_linearize :
  forall (S O R : Type) (spec : S -> O -> S * R) (Req : R -> R -> bool), (forall a, Req a a = true) ->
  forall s0 es m, Lin.mrun S O R spec Req (Lin.minit S O R s0) es = Some m ->
  replay S O R spec Req s0 (lin S O R m) = (ghost S O R m, true) /\
  (forall id, In id (returned S O R m) -> In id (ids_of O R (lin S O R m))) /\
  (forall id rs a l1 l2, In (id, rs) (before S O R m) -> In a rs -> ids_of O R (lin S O R m) = l1 ++ id :: l2 -> In a l1).
Proof. intros S O R spec Req Hr s0 es m. exact (commit_order_linearizes S O R spec Req Hr s0 es m). Qed.
Print Assumptions C11_commit_points_linearize.

(* 2. Instantiated for the store under any interleaving of connections (threads of the model = connections;
      [IInv] is only accepted from an idle connection: one command in flight per connection, so the
      real-time clause covers each connection's own order). *)
Theorem C11_store_linearizable : forall cap es s,
  lrun rule_fixed (linit cap) es = Some s ->
  exists m, Lin.mrun _ _ _ mspec res_eqb (Lin.minit _ _ _ (fun _ => None)) (project (linit cap) es) = Some m /\
    ghost _ _ _ m = gmap s /\
    replay _ _ _ mspec res_eqb (fun _ => None) (lin _ _ _ m) = (gmap s, true) /\
    (forall id, In id (returned _ _ _ m) -> In id (ids_of _ _ (lin _ _ _ m))) /\
    (forall id rs a l1 l2, In (id, rs) (before _ _ _ m) -> In a rs -> ids_of _ _ (lin _ _ _ m) = l1 ++ id :: l2 -> In a l1).
Proof. exact every_schedule_linearizable. Qed.
Print Assumptions C11_store_linearizable.

(* 3. The remap repair matters at this level too: no connection's GET can panic the blocking thread
      that runs it (a panic would surface as a closed connection, not a reply). *)
Theorem C11_no_panic : forall cap es s t, lrun rule_fixed (linit cap) es = Some s -> thr s t <> PPanicked.
Proof. exact no_panic. Qed.
Print Assumptions C11_no_panic.

(* 4. Widening.  What a client observes of a command is a wider interval than the store operation that
      executes it: the request is sent before the store is invoked, the reply arrives after it returned.
      Moving the invocation of an operation earlier past any events of other threads keeps the history
      accepted by the monitor ... *)
Theorem C11_invocation_earlier : forall (S O R : Type) (spec : S -> O -> S * R) (Req : R -> R -> bool) m pre mid t o post,
  Forall (fun e => Widen.ev_thread O R e <> t) mid ->
  accepted S O R spec Req m (pre ++ mid ++ Lin.IInv O R t o :: post) -> accepted S O R spec Req m (pre ++ Lin.IInv O R t o :: mid ++ post).
Proof. exact invocation_earlier. Qed.
Print Assumptions C11_invocation_earlier.

(* 5. ... and so does moving its return later. *)
Theorem C11_return_later : forall (S O R : Type) (spec : S -> O -> S * R) (Req : R -> R -> bool) m pre t r mid post,
  Forall (fun e => Widen.ev_thread O R e <> t) mid ->
  accepted S O R spec Req m (pre ++ Lin.IRet O R t r :: mid ++ post) -> accepted S O R spec Req m (pre ++ mid ++ Lin.IRet O R t r :: post).
Proof. exact return_later. Qed.
Print Assumptions C11_return_later.

(* Non-vacuity: two connections, a SET on one racing a GET on the other (the GET's lookup falls between
   the SET's append and its publication): the schedule runs, and the commit order puts the GET first. *)
Example C11_example :
  let es := [EInvoke 0 (OpPut 1 10 30); ELock 0; EBegin 0; EGrow 0 30; EFinish 0;
             EInvoke 1 (OpGet 1); ECheckout 1; ELookup 1;
             EPublish 0; EUnlock 0; EReturn 0; ERemap 1; ECheckin 1; EReturn 1] in
  exists s, lrun rule_fixed (linit 2) es = Some s /\ gmap s 1 = Some 10 /\
    project (linit 2) es = [Lin.IInv _ _ 0 (OpPut 1 10 30); Lin.IInv _ _ 1 (OpGet 1); Lin.ICommit _ _ 1; Lin.ICommit _ _ 0;
                            Lin.IRet _ _ 0 RUnit; Lin.IRet _ _ 1 (RVal None)].
Proof. eexists. split; [vm_compute; reflexivity|]. split; vm_compute; reflexivity. Qed.
