(* Props/C20.v — C20: a failed disk operation is reported and leaves the store consistent.
   A fault-aware engine model (what the RUNNING process does after an error: the stale writer, the
   index not updated after a failed fsync or rollover) is not built; that part of the property is
   decided by exhaustive one-fault sweeps on the real store (`bin/check C20`, level fault_enumeration).
   Proved here: the discipline of file ids that the repair of the writer relies on (fault-free
   model), and the restart half of the property for set / delete / reopen: a failed call has no
   effect and the error paths of these operations issue no further call, so what a failed operation
   leaves on disk is a crash image of its trace (a call boundary; or, when the failing call is the
   second write of a record larger than the buffer, a record cut inside) — and every such image
   recovers all earlier operations and the failed one entirely or not at all (C03). *)
From BC Require Import Store.Engine Store.Log Store.Cons Store.Inv Store.Refine Store.Merge Store.Theorems
  Store.Codec Store.CodecProofs Store.Crash Store.CrashScript Store.CrashMerge Store.FaultUnlink.
From Coq Require Import Lia.
Open Scope N_scope.

(* 1. An id is consumed before its file is created: new_active_datafile always uses an id above the
      highest id this writer ever handed out, and creation under an existing name is an error, never
      an overwrite. *)
Theorem C20_new_active_fresh : forall s s' t, new_active s = ROk (s', t) ->
  s_active s' = s_last s + 1 /\ s_last s' = s_last s + 1 /\ s_stale s' = false /\
  dir_get (s_dir s) (s_last s + 1) = None /\ t = [SCreate (FData (s_last s + 1))].
Proof.
  intros s s' t. unfold new_active. destruct (dir_get (s_dir s) (s_last s + 1)) eqn:E; [discriminate|].
  intros H. inversion H; subst. cbn. auto.
Qed.
Print Assumptions C20_new_active_fresh.

(* 2. In every reachable state the writer is not stale, its file exists, is the newest file of the
      directory and has no hint file: an append can never land in a file that a merge produced or
      that does not exist. *)
Theorem C20_writer_file_valid : forall c s, reachable c s ->
  s_stale s = false /\ s_active s = s_last s /\ ids_le (s_dir s) (s_last s) /\
  exists fa, dir_get (s_dir s) (s_active s) = Some fa /\ d_hint fa = None.
Proof. intros c s Hr. destruct (reachable_inv c s Hr) as (_ & Hle & _ & Hst & Ha & Hfa & _). auto. Qed.
Print Assumptions C20_writer_file_valid.

(* 3. A stale writer switches to a fresh file before it appends anything. *)
Theorem C20_stale_writer_rolls_first : forall c s k v s' l t, s_stale s = true ->
  write c s k v = ROk (s', l, t) -> exists t', t = SCreate (FData (s_last s + 1)) :: t' /\ l_fid l = s_last s + 1.
Proof.
  intros c s k v s' l t Hst. unfold write. rewrite Hst.
  destruct (new_active s) as [[s1 t1]| |] eqn:E; try discriminate.
  destruct (C20_new_active_fresh s s1 t1 E) as (Ha & Hl & _ & _ & ->).
  destruct (append_data (s_dir s1) (s_active s1) _) as [[d2 pos]|]; [|discriminate].
  destruct (c_max c <? _).
  - match goal with |- context [match new_active ?x with _ => _ end] => destruct (new_active x) as [[s3 t3]| |] end; try discriminate.
    intros H. injection H as Hs' Hl' Ht'. subst t l.
    cbn [app l_fid]. rewrite Ha. eauto.
  - intros H. injection H as Hs' Hl' Ht'. subst t l. cbn [app l_fid]. rewrite Ha. eauto.
Qed.
Print Assumptions C20_stale_writer_rolls_first.

(* 4. The directory a failed operation leaves behind (a crash image of its trace, see the header), opened
      again, reads every earlier operation, and the failed one entirely or not at all.  (For a failed
      merge pass the buffered tail of the merge output may still be written when the writer is dropped:
      extra bytes in an output file that holds copies only; that case is left to the sweep.) *)
Theorem C20_failed_operation_then_restart : forall c ops1 o s0,
  run_ready c init (ops1 ++ [o]) -> rep s0 (s_dir init) -> trace_wf (snd (run c init (ops1 ++ [o]))) ->
  let s1 := fst (fst (run c init ops1)) in
  exists f1, fs_run s0 (snd (run c init ops1)) = Some f1 /\
    forall img, image_of f1 (snd (step c s1 o)) img ->
      img_ok img (abs s1) \/ img_ok img (abs (fst (fst (step c s1 o)))).
Proof. exact crash_during_op. Qed.
Print Assumptions C20_failed_operation_then_restart.

(* the call-boundary case spelled out: failing at the (n+1)-th call leaves the first n calls *)
Theorem C20_fault_at_call_boundary : forall c ops1 o s0 n,
  run_ready c init (ops1 ++ [o]) -> rep s0 (s_dir init) -> trace_wf (snd (run c init (ops1 ++ [o]))) ->
  let s1 := fst (fst (run c init ops1)) in
  exists f1 fn, fs_run s0 (snd (run c init ops1)) = Some f1 /\ fs_run f1 (firstn n (snd (step c s1 o))) = Some fn /\
    (img_ok fn (abs s1) \/ img_ok fn (abs (fst (fst (step c s1 o))))).
Proof. exact fault_then_restart. Qed.
Print Assumptions C20_fault_at_call_boundary.

(* 5. The removal loop of a merge with a failing unlink (the defect the thorough sweep found, repaired
      as e043e9c).  Later merges rest on "a file that holds records has a statistics row", because the
      selection is closed downwards over the files that have rows.  With the repaired order (unlink
      first, forget the row afterwards) that invariant survives a failure of any unlink ... *)
Theorem C20_failed_unlink_keeps_rows : forall d x sel j, sorted d -> rows_cover d x ->
  let '(d', x') := failed_unlink false d x sel j in rows_cover d' x'.
Proof. exact unlink_first_keeps_rows. Qed.
Print Assumptions C20_failed_unlink_keeps_rows.

Theorem C20_reachable_states_have_rows : forall s, Inv s -> rows_cover (s_dir s) (s_stats s).
Proof. exact inv_rows_cover. Qed.
Print Assumptions C20_reachable_states_have_rows.

(* ... with the pinned order (row dropped first) it does not: file 0 holds a record and has no row,
   so the next pass can select file 1 (the tombstone) without file 0 (the value). *)
Theorem C20_row_first_refuted :
  let '(d', x') := failed_unlink true ex_dir ex_stats [0; 1] 0 in
  has_file (log_of_dir d') 0 = true /\ sget x' 0 = None /\ sget x' 1 <> None.
Proof. exact row_first_loses_a_file. Qed.
Print Assumptions C20_row_first_refuted.

(* Non-vacuity of 4: the hypotheses hold for a concrete script, and a failing second SET (cut after 9
   bytes of its record) leaves such an image. *)
Example C20_example :
  let c := mkCfg 60 false 0 1 0 1000000000 in
  let ops1 := [OSet [107] [1; 2]] in let o := OSet [107] [3] in
  let s0 : fs := fun f => match f with FData 0 => Some [] | _ => None end in
  run_ready c init (ops1 ++ [o]) /\ rep s0 (s_dir init) /\ trace_wf (snd (run c init (ops1 ++ [o]))) /\
  exists f1 img, fs_run s0 (snd (run c init ops1)) = Some f1 /\ image_of f1 (snd (step c (fst (fst (run c init ops1))) o)) img /\
    img (FData 0) = Some (enc_entry (mkEntry 1 [107] (Some [1; 2])) ++ firstn 9 (enc_entry (mkEntry 2 [107] (Some [3])))).
Proof.
  cbv zeta. split; [cbn; auto|]. split; [intros id; destruct id as [|p]; vm_compute; auto|]. split.
  { repeat constructor; cbn [call_wf]; eexists; (split; [|reflexivity]); unfold Store.CodecProofs.wf_entry, Store.CodecProofs.i64_ok; cbn; repeat split; lia. }
  eexists. eexists. split; [vm_compute; reflexivity|]. split.
  - eapply (img_torn _ _ _ [] (FData 0) (firstn 9 (enc_entry (mkEntry 2 [107] (Some [3])))) (skipn 9 (enc_entry (mkEntry 2 [107] (Some [3]))))).
    + vm_compute. reflexivity.
    + vm_compute. discriminate.
    + cbn [app fs_run fs_step]. reflexivity.
  - vm_compute. reflexivity.
Qed.
