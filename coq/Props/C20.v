(* Props/C20.v *)
From BC Require Import Store.Engine.
