(* Props/C20.v — C20: a failed disk operation is reported and leaves the store consistent.
   Proved here:
   - the discipline of file ids that the repair of the writer relies on (fault-free model);
   - the restart half for set / delete / reopen: a failed call has no effect and the error paths of these
     operations issue no further call, so what a failed operation leaves on disk is a crash image of its
     trace (a call boundary; or a record cut inside when the failing call is the second write of a record
     larger than the buffer) — and every such image recovers all earlier operations and the failed one
     entirely or not at all (C03);
   - the statistics rows across a failing unlink (repaired order; the pinned order is refuted);
   - the RUNNING process after a put or delete whose append failed (or whose replacement of the active file
     failed): theorems 6 and 7 — every later answer is the map's answer with the failed operation not
     applied; the record that may still sit whole in the write buffer is dropped by the next put, delete or
     merge and written out by a clean close, in which case the operation has taken effect after the restart.
   - a put or delete whose FSYNC failed behind the completed append (sync=always; theorems 9): the running process does
     not see the record, a restart at that point reads it (the failed operation applied, no other key concerned), the
     repaired bookkeeping (6ff1d59) keeps "rows cover files", the pinned one loses the row — and the history of the
     finding, computed in the model, resurrects a deleted key under the pinned bookkeeping only.
   - a merge pass that stops because the write of a HINT entry failed (theorems 10): with the repaired order of the loop
     (97ca669: hint entry first, index entry afterwards) every index entry still lies in a file that exists and, where a
     restart reads that file through its hint file, is listed there — for a failure at any entry of any pass from any
     reachable state; the pinned order (index entry first) is refuted, and the history of the finding computed in the model
     loses the key under the pinned order only.
   Not proved (decided by the one-fault sweeps of `bin/check C20`, level fault_enumeration, and for the failed fsync also
   by comparing the model's [failed_fsync] with the real store on every sweep case whose fault hit such an fsync): what a
   restart yields after the process has gone on behind a failed fsync or a failed rollover behind a completed append (a
   complete record that is on disk but not in the index), and after a merge pass that failed half-way. *)
From BC Require Import Store.Engine Store.Log Store.Cons Store.Inv Store.Refine Store.Merge Store.Theorems
  Store.Codec Store.CodecProofs Store.Crash Store.CrashScript Store.CrashMerge Store.FaultUnlink Store.FaultFsync Store.MergeFail Store.FaultMerge Store.FaultContinue Store.FaultBytes.
From Coq Require Import Lia.
Open Scope N_scope.

(* 1. An id is consumed before its file is created: new_active_datafile always uses an id above the
      highest id this writer ever handed out, and creation under an existing name is an error, never
      an overwrite. *)
Theorem C20_new_active_fresh : forall s s' t, new_active s = ROk (s', t) ->
  s_active s' = s_last s + 1 /\ s_last s' = s_last s + 1 /\ s_stale s' = false /\
  dir_get (s_dir s) (s_last s + 1) = None /\ t = [SCreate (FData (s_last s + 1))].
Proof.
  intros s s' t. unfold new_active. destruct (dir_get (s_dir s) (s_last s + 1)) eqn:E; [discriminate|].
  intros H. inversion H; subst. cbn. auto.
Qed.
Print Assumptions C20_new_active_fresh.

(* 2. In every reachable state the writer is not stale, its file exists, is the newest file of the
      directory and has no hint file: an append can never land in a file that a merge produced or
      that does not exist. *)
Theorem C20_writer_file_valid : forall c s, reachable c s ->
  s_stale s = false /\ s_active s = s_last s /\ ids_le (s_dir s) (s_last s) /\
  exists fa, dir_get (s_dir s) (s_active s) = Some fa /\ d_hint fa = None.
Proof. intros c s Hr. destruct (reachable_inv c s Hr) as (_ & Hle & _ & Hst & Ha & Hfa & _). auto. Qed.
Print Assumptions C20_writer_file_valid.

(* 3. A stale writer switches to a fresh file before it appends anything. *)
Theorem C20_stale_writer_rolls_first : forall c s k v s' l t, s_stale s = true ->
  write c s k v = ROk (s', l, t) -> exists t', t = SCreate (FData (s_last s + 1)) :: t' /\ l_fid l = s_last s + 1.
Proof.
  intros c s k v s' l t Hst. unfold write. rewrite Hst.
  destruct (new_active s) as [[s1 t1]| |] eqn:E; try discriminate.
  destruct (C20_new_active_fresh s s1 t1 E) as (Ha & Hl & _ & _ & ->).
  destruct (append_data (s_dir s1) (s_active s1) _) as [[d2 pos]|]; [|discriminate].
  destruct (c_max c <? _).
  - match goal with |- context [match new_active ?x with _ => _ end] => destruct (new_active x) as [[s3 t3]| |] end; try discriminate.
    intros H. injection H as Hs' Hl' Ht'. subst t l.
    cbn [app l_fid]. rewrite Ha. eauto.
  - intros H. injection H as Hs' Hl' Ht'. subst t l. cbn [app l_fid]. rewrite Ha. eauto.
Qed.
Print Assumptions C20_stale_writer_rolls_first.

(* 4. The directory a failed operation leaves behind (a crash image of its trace, see the header), opened
      again, reads every earlier operation, and the failed one entirely or not at all.  (For a failed
      merge pass the buffered tail of the merge output may still be written when the writer is dropped:
      extra bytes in an output file that holds copies only; that case is left to the sweep.) *)
Theorem C20_failed_operation_then_restart : forall c ops1 o s0,
  run_ready c init (ops1 ++ [o]) -> rep s0 (s_dir init) -> trace_wf (snd (run c init (ops1 ++ [o]))) ->
  let s1 := fst (fst (run c init ops1)) in
  exists f1, fs_run s0 (snd (run c init ops1)) = Some f1 /\
    forall img, image_of f1 (snd (step c s1 o)) img ->
      img_ok img (abs s1) \/ img_ok img (abs (fst (fst (step c s1 o)))).
Proof. exact crash_during_op. Qed.
Print Assumptions C20_failed_operation_then_restart.

(* the call-boundary case spelled out: failing at the (n+1)-th call leaves the first n calls *)
Theorem C20_fault_at_call_boundary : forall c ops1 o s0 n,
  run_ready c init (ops1 ++ [o]) -> rep s0 (s_dir init) -> trace_wf (snd (run c init (ops1 ++ [o]))) ->
  let s1 := fst (fst (run c init ops1)) in
  exists f1 fn, fs_run s0 (snd (run c init ops1)) = Some f1 /\ fs_run f1 (firstn n (snd (step c s1 o))) = Some fn /\
    (img_ok fn (abs s1) \/ img_ok fn (abs (fst (fst (step c s1 o))))).
Proof. exact fault_then_restart. Qed.
Print Assumptions C20_fault_at_call_boundary.

(* 5. The removal loop of a merge with a failing unlink (the defect the thorough sweep found, repaired
      as e043e9c).  Later merges rest on "a file that holds records has a statistics row", because the
      selection is closed downwards over the files that have rows.  With the repaired order (unlink
      first, forget the row afterwards) that invariant survives a failure of any unlink ... *)
Theorem C20_failed_unlink_keeps_rows : forall d x sel j, sorted d -> rows_cover d x ->
  let '(d', x') := failed_unlink false d x sel j in rows_cover d' x'.
Proof. exact unlink_first_keeps_rows. Qed.
Print Assumptions C20_failed_unlink_keeps_rows.

Theorem C20_reachable_states_have_rows : forall s, Inv s -> rows_cover (s_dir s) (s_stats s).
Proof. exact inv_rows_cover. Qed.
Print Assumptions C20_reachable_states_have_rows.

(* ... with the pinned order (row dropped first) it does not: file 0 holds a record and has no row,
   so the next pass can select file 1 (the tombstone) without file 0 (the value). *)
Theorem C20_row_first_refuted :
  let '(d', x') := failed_unlink true ex_dir ex_stats [0; 1] 0 in
  has_file (log_of_dir d') 0 = true /\ sget x' 0 = None /\ sget x' 1 <> None.
Proof. exact row_first_loses_a_file. Qed.
Print Assumptions C20_row_first_refuted.

(* 5b. What "rows cover files" buys, with no invariant of the engine assumed (so also in the states the fault paths leave
       behind): every later selection takes, together with any file, every OLDER file that holds records — a tombstone is
       never merged away while an older file still holds the value it shadows.  Corollary for the state after a failed
       fsync with the repaired bookkeeping (theorem 9c). *)
Theorem C20_rows_make_selection_closed : forall c s sel0, rows_cover (s_dir s) (s_stats s) -> select c s = ROk sel0 ->
  forall id g, mem id sel0 = true -> has_file (log_of_dir (s_dir s)) g = true -> g <= id -> mem g sel0 = true.
Proof. exact rows_make_selection_closed. Qed.
Print Assumptions C20_rows_make_selection_closed.

Theorem C20_selection_closed_after_failed_fsync : forall c s k v s' t sel0, Inv s -> failed_fsync true s k v = ROk (s', t) ->
  select c s' = ROk sel0 ->
  forall id g, mem id sel0 = true -> has_file (log_of_dir (s_dir s')) g = true -> g <= id -> mem g sel0 = true.
Proof. exact selection_closed_after_failed_fsync. Qed.
Print Assumptions C20_selection_closed_after_failed_fsync.

(* 6. The running process after a failed write.  A put or delete issued in invariant state s fails in its append,
      and [n] creates of the next active file fail on top of that (the engine state is then
      [after_failed_creates s clk n]: index and statistics untouched, `stale` set, `last_fileid` advanced by n).
      Whatever script follows — gets, puts, deletes, reopens, clock changes, and merge passes as long as no
      create had failed — every answer is the map's answer over the map of s: the failed operation has not taken
      effect and nothing else was disturbed; and the state is again an invariant state or a faulted one. *)
Theorem C20_continue_after_failed_write : forall c s clk n ops, Inv s ->
  grun_ready c (after_failed_creates s clk n) ops ->
  let '(x', rs, _) := run c (after_failed_creates s clk n) ops in
  good x' /\ rs = spec_run (abs s) ops /\ forall k, gabs x' k = spec_final (abs s) ops k.
Proof. exact continue_after_failed_write. Qed.
Print Assumptions C20_continue_after_failed_write.

(* 7. ... with the write buffer: [r = Some e] when the whole record of the failed operation is still buffered
      (the failing call was the final flush).  The answers are those of the map of s with that operation
      PENDING ([specr_run]): invisible while the process runs, dropped by the next put, delete or merge (the
      active file is replaced and the buffer discarded), applied by a clean close that comes first (the buffer is
      written out) — then, after the restart, the failed operation has taken effect, as the property allows. *)
Theorem C20_continue_after_failed_append : forall c s clk r ops, Inv s ->
  grun_ready_r c (after_failed_append s clk) r ops ->
  let '(x', r', outs, _) := run_r c (after_failed_append s clk) r ops in
  let '(souts, m', p') := specr_run (abs s) (pending r) ops in
  rgood x' r' /\ outs = souts /\ pending r' = p' /\ forall k, gabs x' k = m' k.
Proof. exact continue_after_failed_append. Qed.
Print Assumptions C20_continue_after_failed_append.

(* the first put or delete after the failure replaces the active file and re-establishes the invariant *)
Theorem C20_next_write_heals : forall c x k v, faulted x ->
  exists h t1, new_active x = ROk (h, t1) /\ Inv h /\ (forall k', abs h k' = fabs x k') /\
    step c x (OSet k v) = let '(s2, r, t2) := step c h (OSet k v) in (s2, r, t1 ++ t2).
Proof. exact step_set_faulted. Qed.
Print Assumptions C20_next_write_heals.

(* 8. The two halves meet.  A put or delete issued in invariant state s fails in its append and leaves the torn record
      [p] behind the active file ([junked]: the file system is the clean one with [p] appended to that file); the
      process goes on — the next put replaces the active file — with any ready script (merge passes and reopens
      included).  Every answer is the map's answer with the failed operation not applied, and what is on disk at the end
      ([fs_run] of all the system calls, on the file system WITH the junk) reads as a directory that opens to exactly
      the map the process holds: a restart at that point loses nothing and resurrects nothing. *)
Theorem C20_continue_then_restart : forall c s clk k0 v0 ops fc fj p,
  Inv s -> rep fc (s_dir s) -> junked (s_active s) p fj fc -> torn_entry p ->
  let x := after_failed_append s clk in
  run_ready c (fst (fst (step c x (OSet k0 v0)))) ops ->
  trace_wf (snd (run c x (OSet k0 v0 :: ops))) ->
  let '(x', rs, t) := run c x (OSet k0 v0 :: ops) in
  Inv x' /\ rs = spec_run (abs s) (OSet k0 v0 :: ops) /\
  exists fj', fs_run fj t = Some fj' /\ img_ok fj' (abs x').
Proof. exact fault_continue_restart. Qed.
Print Assumptions C20_continue_then_restart.

Theorem C20_continue_then_restart_del : forall c s clk k0 ops fc fj p,
  Inv s -> rep fc (s_dir s) -> junked (s_active s) p fj fc -> torn_entry p ->
  let x := after_failed_append s clk in
  run_ready c (fst (fst (step c x (ODel k0)))) ops ->
  trace_wf (snd (run c x (ODel k0 :: ops))) ->
  let '(x', rs, t) := run c x (ODel k0 :: ops) in
  Inv x' /\ rs = spec_run (abs s) (ODel k0 :: ops) /\
  exists fj', fs_run fj t = Some fj' /\ img_ok fj' (abs x').
Proof. exact fault_continue_restart_del. Qed.
Print Assumptions C20_continue_then_restart_del.

(* Non-vacuity of 6 and 7: after SET k 1, a SET k 2 fails in its flush.  Reads see 1; a restart that comes first
   applies the buffered record (k reads 2 afterwards); a SET of another key first discards it (k reads 1 after
   the restart). *)
Example C20_pending_example :
  let c := mkCfg 1000 false 0 1 0 1000000000 in
  let s := fst (fst (run c init [OSet [107] [1]])) in
  let e := mkEntry (s_clock s) [107] (Some [2]) in
  Inv s /\
  snd (fst (run_r c (after_failed_append s (s_clock s + 1)) (Some e) [OGet [107]; OReopen; OGet [107]])) = [VVal (Some [1]); VUnit; VVal (Some [2])] /\
  snd (fst (run_r c (after_failed_append s (s_clock s + 1)) (Some e) [OGet [107]; OSet [108] [3]; OReopen; OGet [107]]))
    = [VVal (Some [1]); VUnit; VUnit; VVal (Some [1])] /\
  grun_ready_r c (after_failed_append s (s_clock s + 1)) (Some e) [OGet [107]; OReopen; OGet [107]].
Proof.
  cbv zeta. split.
  { pose proof (C01_like := run_refines (mkCfg 1000 false 0 1 0 1000000000) [OSet [107] [1]] init (proj1 init_inv)).
    cbn [run_ready op_ready] in C01_like. specialize (C01_like (conj I I)).
    destruct (run (mkCfg 1000 false 0 1 0 1000000000) init [OSet [107] [1]]) as [[s' rs] ts]. exact (proj1 C01_like). }
  split; [vm_compute; reflexivity|]. split; [vm_compute; reflexivity|]. vm_compute. auto.
Qed.

(* Non-vacuity of 4: the hypotheses hold for a concrete script, and a failing second SET (cut after 9
   bytes of its record) leaves such an image. *)
Example C20_example :
  let c := mkCfg 60 false 0 1 0 1000000000 in
  let ops1 := [OSet [107] [1; 2]] in let o := OSet [107] [3] in
  let s0 : fs := fun f => match f with FData 0 => Some [] | _ => None end in
  run_ready c init (ops1 ++ [o]) /\ rep s0 (s_dir init) /\ trace_wf (snd (run c init (ops1 ++ [o]))) /\
  exists f1 img, fs_run s0 (snd (run c init ops1)) = Some f1 /\ image_of f1 (snd (step c (fst (fst (run c init ops1))) o)) img /\
    img (FData 0) = Some (enc_entry (mkEntry 1 [107] (Some [1; 2])) ++ firstn 9 (enc_entry (mkEntry 2 [107] (Some [3])))).
Proof.
  cbv zeta. split; [cbn; auto|]. split; [intros id; destruct id as [|p]; vm_compute; auto|]. split.
  { repeat constructor; cbn [call_wf]; eexists; (split; [|reflexivity]); unfold Store.CodecProofs.wf_entry, Store.CodecProofs.i64_ok; cbn; repeat split; lia. }
  eexists. eexists. split; [vm_compute; reflexivity|]. split.
  - eapply (img_torn _ _ _ [] (FData 0) (firstn 9 (enc_entry (mkEntry 2 [107] (Some [3])))) (skipn 9 (enc_entry (mkEntry 2 [107] (Some [3]))))).
    + vm_compute. reflexivity.
    + vm_compute. discriminate.
    + cbn [app fs_run fs_step]. reflexivity.
  - vm_compute. reflexivity.
Qed.

(* Non-vacuity of 8: after SET k 12, a SET k 3 fails leaving 9 bytes of its record behind file 0; the process goes on
   with SET k 4, GET k, a merge-free script; the hypotheses hold and the final directory has the junk in place. *)
Example C20_continue_example :
  let c := mkCfg 1000 false 0 1 0 1000000000 in
  let s := fst (fst (run c init [OSet [107] [1; 2]])) in
  let p := firstn 9 (enc_entry (mkEntry 2 [107] (Some [3]))) in
  let fc : fs := fun f => match f with FData 0 => Some (enc_entry (mkEntry 1 [107] (Some [1; 2]))) | _ => None end in
  let fj : fs := fun f => match f with FData 0 => Some (enc_entry (mkEntry 1 [107] (Some [1; 2])) ++ p) | _ => None end in
  Inv s /\ rep fc (s_dir s) /\ junked (s_active s) p fj fc /\ torn_entry p /\
  run_ready c (fst (fst (step c (after_failed_append s 3) (OSet [107] [4])))) [OGet [107]] /\
  exists fj', fs_run fj (snd (run c (after_failed_append s 3) [OSet [107] [4]; OGet [107]])) = Some fj' /\
    fj' (FData 0) = Some (enc_entry (mkEntry 1 [107] (Some [1; 2])) ++ p) /\ fj' (FData 1) = Some (enc_entry (mkEntry 3 [107] (Some [4]))).
Proof.
  cbv zeta. split.
  { pose proof (run_refines (mkCfg 1000 false 0 1 0 1000000000) [OSet [107] [1; 2]] init (proj1 init_inv)) as H.
    cbn [run_ready op_ready] in H. specialize (H (conj I I)).
    destruct (run (mkCfg 1000 false 0 1 0 1000000000) init [OSet [107] [1; 2]]) as [[s' rs] ts]. exact (proj1 H). }
  split; [intros id; destruct id as [|q]; vm_compute; auto|].
  split; [intros g; destruct g as [[|q]|i]; vm_compute; reflexivity|].
  split.
  { right. exists (mkEntry 2 [107] (Some [3])), (skipn 9 (enc_entry (mkEntry 2 [107] (Some [3])))).
    split; [unfold wf_entry, i64_ok; cbn; repeat split; lia|]. split; [vm_compute; discriminate|]. vm_compute. reflexivity. }
  split; [cbn; auto|].
  eexists. split; [vm_compute; reflexivity|]. split; vm_compute; reflexivity.
Qed.

(* 9. A put or delete whose fsync failed behind the completed append ([failed_fsync], Store/Engine.v; sync=always).
      (a) the running process answers every get as before the failed operation; (b) a restart at that point opens to
      the map with the failed operation applied and every other key unchanged; (c) with the repaired bookkeeping every
      file that holds a record still has a statistics row, so the downward-closed selection of later merges still takes
      it; (d) the pinned bookkeeping loses the row, and (e) the history of the finding
          set a 1; merge; set k v (fsync fails); merge; del k; merge; restart; get k
      answers v in the model with the pinned bookkeeping and nothing with the repaired one. *)
Theorem C20_failed_fsync_invisible : forall fixed s k v s' t, Inv s -> failed_fsync fixed s k v = ROk (s', t) ->
  forall k', get s' k' = ROk (abs s k').
Proof. exact failed_fsync_invisible. Qed.
Print Assumptions C20_failed_fsync_invisible.

Theorem C20_failed_fsync_then_restart : forall fixed s k v s' t, Inv s -> failed_fsync fixed s k v = ROk (s', t) ->
  exists s'' t', reopen s' = ROk (s'', tt, t') /\ Inv s'' /\
    forall k', abs s'' k' = if beq k' k then v else abs s k'.
Proof. exact failed_fsync_then_restart. Qed.
Print Assumptions C20_failed_fsync_then_restart.

Theorem C20_failed_fsync_keeps_rows : forall s k v s' t, Inv s -> failed_fsync true s k v = ROk (s', t) ->
  rows_cover (s_dir s') (s_stats s').
Proof. exact failed_fsync_keeps_rows. Qed.
Print Assumptions C20_failed_fsync_keeps_rows.

Theorem C20_failed_fsync_pinned_loses_row :
  match failed_fsync false ff_before [107] (Some [118]) with
  | ROk (s', _) => has_file (slog s') (s_active s') = true /\ sget (s_stats s') (s_active s') = None
  | _ => False
  end.
Proof. exact pinned_loses_the_row. Qed.
Print Assumptions C20_failed_fsync_pinned_loses_row.

Theorem C20_failed_fsync_pinned_refuted : ff_history false = VVal (Some [118]) /\ ff_history true = VVal None.
Proof. split; [exact pinned_bookkeeping_resurrects|exact repaired_bookkeeping_does_not]. Qed.
Print Assumptions C20_failed_fsync_pinned_refuted.

(* (f) the per-file counters after the failed fsync are still exact with respect to the index (live = entries the index
       points at, dead and dead bytes = all other entries of the file): the record is booked as what it is, one dead entry
       of its size; under the pinned bookkeeping it is in the file and in no counter. *)
Theorem C20_failed_fsync_counters_exact : forall s k v s' t, Inv s -> failed_fsync true s k v = ROk (s', t) ->
  forall g, live (sget0 (s_stats s') g) = nlive (slog s') (s_idx s') g /\
            dead (sget0 (s_stats s') g) = ndead (slog s') (s_idx s') g /\
            dead_bytes (sget0 (s_stats s') g) = bdead (slog s') (s_idx s') g.
Proof. exact failed_fsync_counters_exact. Qed.
Print Assumptions C20_failed_fsync_counters_exact.

Theorem C20_failed_fsync_pinned_counters_refuted :
  match failed_fsync false ff_before [107] (Some [118]) with
  | ROk (s', _) => ndead (slog s') (s_idx s') (s_active s') = 1 /\ dead (sget0 (s_stats s') (s_active s')) = 0
  | _ => False
  end.
Proof. exact pinned_counters_miss_the_record. Qed.
Print Assumptions C20_failed_fsync_pinned_counters_refuted.

(* non-vacuity: the state the history starts from is an invariant state, and the failed fsync is defined on it *)
Example C20_failed_fsync_example : Inv ff_before /\ exists s' t, failed_fsync true ff_before [107] (Some [118]) = ROk (s', t).
Proof. split; [exact ff_before_inv|]. vm_compute. eauto. Qed.


(* 10. A merge pass whose copy loop stops because the write of a hint entry failed ([merge_fail_hint], Store/FaultMerge.v).
       A restart reads a merge file through its hint file only; [reach_ok]: every index entry lies in a file that exists
       and, if that file has a hint file, is listed there.  (a) every reachable state satisfies it; (b) with the repaired
       order of the loop a failing hint write — after any number of entries went through, in any pass — keeps it; (c) the
       pinned order breaks it, and (d) the history of the finding
           set K v; set a 1; set a 2; merge (hint write of K fails); merge; restart; get K
       loses K in the model under the pinned order and keeps it under the repaired one. *)
Theorem C20_reachable_states_are_listed : forall s, Inv s -> reach_ok (s_dir s) (s_idx s).
Proof. exact inv_reach_ok. Qed.
Print Assumptions C20_reachable_states_are_listed.

Theorem C20_failed_hint_write_keeps_entries_listed : forall row_first retried c s ord1 k s', reach_ok (s_dir s) (s_idx s) ->
  merge_fail_hint false row_first retried c s ord1 k = ROk s' -> reach_ok (s_dir s') (s_idx s').
Proof. exact hint_first_keeps_reach. Qed.
Print Assumptions C20_failed_hint_write_keeps_entries_listed.

Theorem C20_failed_hint_write_pinned_refuted :
  fm_history true = VVal None /\ fm_history false = VVal (Some [118]) /\
  match merge_fail_hint true true false fm_cfg fm_before [] [75] with
  | ROk s' => exists l f, iget (s_idx s') [75] = Some l /\ dir_get (s_dir s') (l_fid l) = Some f /\ d_hint f = Some []
  | _ => False
  end.
Proof. split; [exact pinned_order_loses_key|]. split; [exact repaired_order_keeps_key|exact pinned_order_breaks_reach]. Qed.
Print Assumptions C20_failed_hint_write_pinned_refuted.

(* (e) the order of the merge file's statistics row and its hint entry: the first repair (97ca669) wrote the hint entry
       first; when the failing write was the first hint write of the pass and std's BufWriter wrote it out on drop, the
       merge file listed a record without having a row, and the history
           set k v; set k w; merge (first hint write fails, written out at drop); del k; merge; restart; get k
       resurrected k — in the model and on the real store; with the row written first (a53a922) it does not. *)
Theorem C20_failed_hint_write_row_first : fm2_history false = VVal (Some [119]) /\ fm2_history true = VVal None.
Proof. split; [exact hint_before_row_resurrects|exact row_before_hint_does_not]. Qed.
Print Assumptions C20_failed_hint_write_row_first.

(* (f) ... in general: [hint_rows] — a file whose hint file lists something has a statistics row — holds in every reachable
       state, and a failing hint write keeps it when the row is written first (pinned code and final repair), whether or not
       the bytes of the hint entry reach the file when the writer is dropped; with the hint entry first it is lost. *)
Theorem C20_reachable_states_have_hint_rows : forall s, Inv s -> hint_rows (s_dir s) (s_stats s).
Proof. exact inv_hint_rows. Qed.
Print Assumptions C20_reachable_states_have_hint_rows.

Theorem C20_failed_hint_write_keeps_rows : forall repoint_first retried c s ord1 k s', hint_rows (s_dir s) (s_stats s) ->
  merge_fail_hint repoint_first true retried c s ord1 k = ROk s' -> hint_rows (s_dir s') (s_stats s').
Proof. exact row_first_keeps_hint_rows. Qed.
Print Assumptions C20_failed_hint_write_keeps_rows.

Theorem C20_hint_before_row_refuted :
  match merge_fail_hint false false true fm_cfg fm2_before [] [107] with
  | ROk s' => exists id f h, dir_get (s_dir s') id = Some f /\ d_hint f = Some [h] /\ sget (s_stats s') id = None
  | _ => False
  end.
Proof. exact hint_before_row_loses_the_row. Qed.
Print Assumptions C20_hint_before_row_refuted.

(* non-vacuity: the history starts from an invariant state and the failing pass is defined on it *)
Example C20_failed_hint_example : Inv fm_before /\ exists s', merge_fail_hint false true false fm_cfg fm_before [] [75] = ROk s'.
Proof. split; [exact fm_before_inv|]. vm_compute. eauto. Qed.
