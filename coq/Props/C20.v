(* Props/C20.v — C20: a failed disk operation is reported and leaves the store consistent.
   The fault-aware engine model (C20_fault_consistent in DESIGN.md section 8) is not built yet; the
   property is decided by exhaustive one-fault sweeps on the real store (`bin/check C20`, level
   fault_enumeration).  Proved here: the discipline of file ids that the repair of the writer relies
   on, in the fault-free model. *)
From BC Require Import Store.Engine Store.Log Store.Cons Store.Inv Store.Refine Store.Merge Store.Theorems.
Open Scope N_scope.

(* 1. An id is consumed before its file is created: new_active_datafile always uses an id above the
      highest id this writer ever handed out, and creation under an existing name is an error, never
      an overwrite. *)
Theorem C20_new_active_fresh : forall s s' t, new_active s = ROk (s', t) ->
  s_active s' = s_last s + 1 /\ s_last s' = s_last s + 1 /\ s_stale s' = false /\
  dir_get (s_dir s) (s_last s + 1) = None /\ t = [SCreate (FData (s_last s + 1))].
Proof.
  intros s s' t. unfold new_active. destruct (dir_get (s_dir s) (s_last s + 1)) eqn:E; [discriminate|].
  intros H. inversion H; subst. cbn. auto.
Qed.
Print Assumptions C20_new_active_fresh.

(* 2. In every reachable state the writer is not stale, its file exists, is the newest file of the
      directory and has no hint file: an append can never land in a file that a merge produced or
      that does not exist. *)
Theorem C20_writer_file_valid : forall c s, reachable c s ->
  s_stale s = false /\ s_active s = s_last s /\ ids_le (s_dir s) (s_last s) /\
  exists fa, dir_get (s_dir s) (s_active s) = Some fa /\ d_hint fa = None.
Proof. intros c s Hr. destruct (reachable_inv c s Hr) as (_ & Hle & _ & Hst & Ha & Hfa & _). auto. Qed.
Print Assumptions C20_writer_file_valid.

(* 3. A stale writer switches to a fresh file before it appends anything. *)
Theorem C20_stale_writer_rolls_first : forall c s k v s' l t, s_stale s = true ->
  write c s k v = ROk (s', l, t) -> exists t', t = SCreate (FData (s_last s + 1)) :: t' /\ l_fid l = s_last s + 1.
Proof.
  intros c s k v s' l t Hst. unfold write. rewrite Hst.
  destruct (new_active s) as [[s1 t1]| |] eqn:E; try discriminate.
  destruct (C20_new_active_fresh s s1 t1 E) as (Ha & Hl & _ & _ & ->).
  destruct (append_data (s_dir s1) (s_active s1) _) as [[d2 pos]|]; [|discriminate].
  destruct (c_max c <? _).
  - match goal with |- context [match new_active ?x with _ => _ end] => destruct (new_active x) as [[s3 t3]| |] end; try discriminate.
    intros H. injection H as Hs' Hl' Ht'. subst t l.
    cbn [app l_fid]. rewrite Ha. eauto.
  - intros H. injection H as Hs' Hl' Ht'. subst t l. cbn [app l_fid]. rewrite Ha. eauto.
Qed.
Print Assumptions C20_stale_writer_rolls_first.
