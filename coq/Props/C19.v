(* Props/C19.v — per-file live/dead accounting always matches the files' real contents. *)
From BC Require Import Store.Engine.
